package main

// Configurations used through Config.Clone: several properties quantify over configurations "used directly or through a
// clone", and the library documents Clone as a copy.  cloneLost fills every exported field of a stack's Config with a
// distinctive non-zero value by reflection, clones it and reports the fields the clone does not carry.  Each property's
// check judges the fields its behaviour depends on (cloneCases), so a field added to Config later is covered without
// touching the harness.

import (
	"fmt"
	"reflect"
	"sort"
	"strings"

	"gitee.com/Trisia/gotlcp/dtlcp"
	"gitee.com/Trisia/gotlcp/tlcp"
	"verifharness/internal/emit"
)

func cloneFill(v reflect.Value, name string) bool {
	switch v.Kind() {
	case reflect.String:
		v.SetString("x-" + name)
	case reflect.Bool:
		v.SetBool(true)
	case reflect.Int, reflect.Int8, reflect.Int16, reflect.Int32, reflect.Int64:
		v.SetInt(7)
	case reflect.Uint, reflect.Uint8, reflect.Uint16, reflect.Uint32, reflect.Uint64:
		v.SetUint(7)
	case reflect.Slice:
		s := reflect.MakeSlice(v.Type(), 1, 1)
		cloneFill(s.Index(0), name)
		v.Set(s)
	case reflect.Map:
		v.Set(reflect.MakeMap(v.Type()))
	case reflect.Ptr:
		v.Set(reflect.New(v.Type().Elem()))
	case reflect.Func:
		t := v.Type()
		v.Set(reflect.MakeFunc(t, func([]reflect.Value) []reflect.Value {
			out := make([]reflect.Value, t.NumOut())
			for i := range out {
				out[i] = reflect.Zero(t.Out(i))
			}
			return out
		}))
	case reflect.Interface:
		for _, c := range []interface{}{strings.NewReader("r"), tlcp.NewLRUSessionCache(1), dtlcp.NewLRUSessionCache(1)} {
			if reflect.TypeOf(c).AssignableTo(v.Type()) {
				v.Set(reflect.ValueOf(c))
				return true
			}
		}
		return false
	default:
		return false
	}
	return true
}

// cloneLost returns the exported fields of the stack's Config that were set and that Clone() does not carry over.
func cloneLost(stack string) (lost []string, covered int) {
	var orig, cl reflect.Value
	if stack == "tlcp" {
		c := &tlcp.Config{}
		orig = reflect.ValueOf(c).Elem()
		defer func() {}()
		set := cloneSetAll(orig)
		covered = len(set)
		cl = reflect.ValueOf(c.Clone()).Elem()
		return cloneCompare(orig, cl, set), covered
	}
	c := &dtlcp.Config{}
	orig = reflect.ValueOf(c).Elem()
	set := cloneSetAll(orig)
	covered = len(set)
	cl = reflect.ValueOf(c.Clone()).Elem()
	return cloneCompare(orig, cl, set), covered
}

func cloneSetAll(orig reflect.Value) []int {
	var set []int
	t := orig.Type()
	for i := 0; i < t.NumField(); i++ {
		f := t.Field(i)
		if f.PkgPath != "" { // unexported
			continue
		}
		if cloneFill(orig.Field(i), f.Name) {
			set = append(set, i)
		}
	}
	return set
}

func cloneCompare(orig, cl reflect.Value, set []int) []string {
	var lost []string
	for _, i := range set {
		a, b := orig.Field(i), cl.Field(i)
		same := false
		switch a.Kind() {
		case reflect.Func:
			same = !b.IsNil()
		case reflect.Ptr, reflect.Map, reflect.Interface:
			same = !b.IsNil() && (a.Kind() != reflect.Ptr || a.Pointer() == b.Pointer() || reflect.DeepEqual(a.Interface(), b.Interface()))
		default:
			same = reflect.DeepEqual(a.Interface(), b.Interface())
		}
		if !same {
			lost = append(lost, orig.Type().Field(i).Name)
		}
	}
	sort.Strings(lost)
	return lost
}

// cloneCases adds one case per stack: fields (per stack; nil = every exported field) are the ones this property's
// behaviour depends on.
func cloneCases(out *emit.Out, stacks []string, fields map[string][]string) {
	for _, st := range stacks {
		lost, covered := cloneLost(st)
		want := fields[st]
		var hit []string
		for _, l := range lost {
			if want == nil {
				hit = append(hit, l)
				continue
			}
			for _, w := range want {
				if w == l {
					hit = append(hit, l)
				}
			}
		}
		direct := ""
		if len(hit) > 0 {
			direct = fmt.Sprintf("a configuration used through Clone loses %s", strings.Join(hit, ", "))
		}
		out.Add(emit.Case{Scenario: "clone-carries-configuration/" + st, Trivial: false, Direct: direct,
			Input:    map[string]interface{}{"stack": st, "fields": want},
			Observed: map[string]interface{}{"fields_set": covered, "lost": lost}})
	}
}
