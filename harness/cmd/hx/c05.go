package main

// C05: attacked record streams deliver only a correct prefix, then a permanent error (TLCP).
// A puppet peer completes an honest handshake with the real endpoint, seals a sequence of
// records under the connection's key, and the stream is attacked before delivery.

import (
	"encoding/json"
	"fmt"
	"io"
	"math/rand/v2"
	"net"
	"os"
	"strings"
	"sync/atomic"

	"verifharness/internal/emit"
	"verifharness/internal/puppet"
	"verifharness/internal/tk"
)

type c05Rec struct {
	Kind string `json:"kind"` // app | app-empty | warn | close | fatal | handshake | ccs
	Len  int    `json:"len,omitempty"`
}

type c05Edit struct {
	Kind string `json:"kind"` // none | flip | drop | dup | swap | trunc | inject | badpad
	Rec  int    `json:"rec,omitempty"`
	Off  int    `json:"off,omitempty"`
	Mask int    `json:"mask,omitempty"`
	At   int    `json:"at,omitempty"`   // trunc: number of bytes kept
	Type int    `json:"type,omitempty"` // inject: content type of the injected record
	N    int    `json:"n,omitempty"`    // inject: body length
}

type c05Input struct {
	Target string   `json:"target"` // which real endpoint receives: server | client
	Suite  uint16   `json:"suite"`
	Recs   []c05Rec `json:"recs"`
	Edit   c05Edit  `json:"edit"`
	// HalfClosed: the receiving endpoint has shut down its own sending direction (CloseWrite) before the stream arrives
	HalfClosed bool `json:"half_closed,omitempty"`
	// EOFJoin: the receiver's transport hands the (attacked) stream over in as few Reads as the buffers allow and
	// returns the last bytes together with io.EOF (legal for a net.Conn; kernel sockets and pipes never do it)
	EOFJoin bool `json:"eof_join,omitempty"`
}

// c05Join is the transport wrapper behind EOFJoin: once `on` is set every Read first gathers the rest of the stream.
type c05Join struct {
	net.Conn
	on       *atomic.Bool
	buf      []byte
	gathered bool
}

func (j *c05Join) Read(p []byte) (int, error) {
	if !j.gathered && !j.on.Load() {
		return j.Conn.Read(p)
	}
	if !j.gathered {
		j.buf, _ = io.ReadAll(j.Conn)
		j.gathered = true
	}
	n := copy(p, j.buf)
	j.buf = j.buf[n:]
	if len(j.buf) == 0 {
		return n, io.EOF
	}
	return n, nil
}

func c05Content(r c05Rec, i int) (typ byte, frag []byte, coq string) {
	switch r.Kind {
	case "app":
		d := make([]byte, r.Len)
		for j := range d {
			d[j] = byte(i*37 + j + 1)
		}
		return puppet.RecApp, d, "CApp " + emit.Bytes(d)
	case "app-empty":
		return puppet.RecApp, nil, "CApp []"
	case "warn":
		return puppet.RecAlert, []byte{1, 90}, "CWarn"
	case "close":
		return puppet.RecAlert, []byte{1, 0}, "CClose"
	case "fatal":
		return puppet.RecAlert, []byte{2, 40}, "CFatal"
	case "handshake":
		return puppet.RecHS, []byte{0, 0, 0, 0}, "CHandshake"
	case "ccs":
		return puppet.RecCCS, []byte{1}, "CCcs"
	}
	panic(r.Kind)
}

func c05AddCase(out *emit.Out, scenario string, in c05Input) {
	pk := tk.GetPKI()
	var cfg tk.EPConfig
	targetIsClient := in.Target == "client"
	if targetIsClient {
		cfg = tk.EPConfig{Suites: []uint16{in.Suite}, Ident: "cli", ServerName: "server.test"}
	} else {
		cfg = tk.EPConfig{Ident: "srv"}
		if puppet.IsECDHE(in.Suite) {
			cfg.Auth = 4
		}
	}
	var s *puppet.TLCPSession
	var joinOn atomic.Bool
	sopt := puppet.SessOpt{OnHandshake: func(err error) {
		if err == nil && in.HalfClosed {
			s.Target.CloseWrite()
		}
		joinOn.Store(true)
	}}
	if in.EOFJoin {
		sopt.WrapT = func(c net.Conn) net.Conn { return &c05Join{Conn: c, on: &joinOn} }
	}
	s = puppet.NewTLCPSessionOpt(tk.BuildTLCP(cfg, nil), targetIsClient, sopt)
	p := s.P
	if targetIsClient {
		p.Sig, p.Enc = pk.SrvSig, pk.SrvEnc
		p.Absorb(0)
		p.SendServerHello(puppet.SHOpt{Suite: in.Suite})
		p.SendCertificate(p.OwnChain())
		p.SendServerKeyExchange(puppet.SKXOpt{Mode: "ok"})
		if puppet.IsECDHE(in.Suite) {
			p.SendCertRequest(nil)
		}
		p.SendServerHelloDone()
		p.Absorb(0)
		p.SendCCS()
		p.SendFinished("ok")
		p.Absorb(0)
	} else {
		p.Sig, p.Enc = pk.CliSig, pk.CliEnc
		p.SendClientHello(puppet.CHOpt{Suites: []uint16{in.Suite}})
		p.Absorb(0)
		if p.CertRequested {
			p.SendCertificate(p.OwnChain())
		}
		p.SendClientKeyExchange("ok")
		if p.CertRequested {
			p.SendCertVerify("ok")
		}
		p.SendCCS()
		p.SendFinished("ok")
		p.Absorb(0)
	}
	// seal the genuine records
	var wires [][]byte
	var coqG []string
	var forged []byte
	for i, r := range in.Recs {
		if in.Edit.Kind == "badpad" && i == in.Edit.Rec {
			// a record for this very sequence number with a valid MAC and a full block of padding in which one
			// byte other than the last is wrong (Off selects it): not a record the sender ever produces
			body := make([]byte, 16*(1+in.Edit.N%3))
			for j := range body {
				body[j] = byte(0xC0 + j)
			}
			forged = p.SealBadPadding(puppet.RecApp, body, func(pad []byte) {
				if len(pad) > 1 {
					pad[in.Edit.Off%(len(pad)-1)] ^= byte(in.Edit.Mask | 1)
				}
			})
		}
		typ, frag, cq := c05Content(r, i)
		w := p.Seal(typ, frag)
		wires = append(wires, w)
		coqG = append(coqG, fmt.Sprintf("mkG %s (%s)", emit.Bytes(w), cq))
	}
	// attack
	recs := make([][]byte, len(wires))
	for i := range wires {
		recs[i] = append([]byte{}, wires[i]...)
	}
	e := in.Edit
	var stream []byte
	cat := func(rs [][]byte) []byte {
		var b []byte
		for _, r := range rs {
			b = append(b, r...)
		}
		return b
	}
	switch e.Kind {
	case "none":
		stream = cat(recs)
	case "flip":
		if e.Rec < len(recs) && e.Off < len(recs[e.Rec]) {
			recs[e.Rec][e.Off] ^= byte(e.Mask)
		}
		stream = cat(recs)
	case "drop":
		stream = cat(append(append([][]byte{}, recs[:e.Rec]...), recs[e.Rec+1:]...))
	case "dup":
		stream = cat(append(append(append([][]byte{}, recs[:e.Rec+1]...), recs[e.Rec]), recs[e.Rec+1:]...))
	case "swap":
		recs[e.Rec], recs[e.Rec+1] = recs[e.Rec+1], recs[e.Rec]
		stream = cat(recs)
	case "cut": // the stream ends after e.Rec whole records
		stream = cat(recs[:e.Rec])
	case "trunc":
		stream = cat(recs)
		if e.At < len(stream) {
			stream = stream[:e.At]
		}
	case "badpad":
		if forged != nil && e.Rec <= len(recs) {
			stream = cat(append(append(append([][]byte{}, recs[:e.Rec]...), forged), recs[e.Rec:]...))
		} else {
			stream = cat(recs)
		}
	case "inject":
		body := make([]byte, e.N)
		for j := range body {
			body[j] = byte(j*13 + 7)
		}
		inj := append([]byte{byte(e.Type), 1, 1, byte(e.N >> 8), byte(e.N)}, body...)
		stream = cat(append(append(append([][]byte{}, recs[:e.Rec]...), inj), recs[e.Rec:]...))
	}
	if len(stream) > 0 {
		p.SendRaw(stream)
	}
	o := s.Finish() // closes the puppet's end: the transport ends after the stream
	// ending code as the model numbers it
	alert := 0
	if len(o.Alerts) > 0 {
		alert = o.Alerts[len(o.Alerts)-1]
	}
	end := ""
	switch {
	case o.ReadErr == "eof":
		end = "EndEOF"
	case o.ReadErr == "unexpected-eof":
		end = "EndUnexpectedEOF"
	case strings.HasPrefix(o.ReadErr, "remote-error"):
		end = "EndRemoteFatal"
	case strings.HasPrefix(o.ReadErr, "local-error"):
		end = fmt.Sprintf("(EndAlert %d)", alert)
	case o.ReadErr == "error" && (alert == 70 || alert == 22):
		end = fmt.Sprintf("(EndAlert %d)", alert)
	case o.ReadErr == "error":
		end = "EndTooManyIgnored"
	default:
		end = "EndOutOfFuel"
	}
	direct := ""
	if o.Panic != "" {
		direct = "panic: " + o.Panic
	} else if o.Hung {
		direct = "hang"
	} else if !o.Res.Complete {
		direct = "setup handshake failed: " + o.Res.ErrText
	}
	latched := o.Read2N == 0 && o.ReadErr2 == o.ReadErr
	mode := "MGcm"
	if !puppet.IsGCM(in.Suite) {
		mode = "MCbc"
	}
	out.Add(emit.Case{Scenario: scenario + "/" + mode, Trivial: e.Kind == "none", Input: in, Direct: direct,
		Observed: map[string]interface{}{"delivered_len": len(o.Read), "err": o.ReadErr, "alerts_sent": o.Alerts, "second_read": o.ReadErr2, "second_read_n": o.Read2N},
		Coq:      fmt.Sprintf("AttackCase %s [%s]\n   %s %s %s %s %s", mode, strings.Join(coqG, ";\n   "), emit.Bytes(stream), emit.Bytes(o.Read), end, emit.Bool(latched), emit.Bool(e.Kind != "none"))})
}

func runC05(p params) error {
	out := emit.New(p.out, "C05", "V.Corr.Run_C05", "case",
		"record sequences sealed under the connection key by a puppet peer, attacked in transit (byte flips at every kind of position, drop, duplicate, swap, truncation at and inside record boundaries, injected records of every content type), both cipher modes, both directions; non-trivial = the stream was modified; distinct by input")
	out.ShardBytes = 20000
	if p.replay != "" {
		b, err := os.ReadFile(p.replay)
		if err != nil {
			return err
		}
		var rp struct {
			Cases []struct {
				Scenario string   `json:"scenario"`
				Input    c05Input `json:"input"`
			} `json:"cases"`
		}
		if err := json.Unmarshal(b, &rp); err != nil {
			return err
		}
		for _, c := range rp.Cases {
			c05AddCase(out, strings.SplitN(c.Scenario, "/", 2)[0], c.Input)
		}
		return out.Finish()
	}
	r := rand.New(rand.NewPCG(p.seed, 0xC05))
	suites := []uint16{0xe053, 0xe013, 0xe051, 0xe011}
	base := []c05Rec{{Kind: "app", Len: 17}, {Kind: "app", Len: 40}, {Kind: "app", Len: 5}, {Kind: "close"}}
	pick := func(i int) (string, uint16) {
		return []string{"server", "client"}[i%2], suites[(i/2)%4]
	}
	n := 0
	add := func(sc string, recs []c05Rec, e c05Edit) {
		t, su := pick(n)
		n++
		c05AddCase(out, sc, c05Input{Target: t, Suite: su, Recs: recs, Edit: e})
	}
	// untouched streams incl. other content types in the middle
	for i := 0; i < 8; i++ {
		add("untouched", base, c05Edit{Kind: "none"})
	}
	for _, k := range []string{"warn", "app-empty", "fatal", "handshake", "ccs", "close"} {
		recs := []c05Rec{{Kind: "app", Len: 9}, {Kind: k}, {Kind: "app", Len: 11}, {Kind: "close"}}
		add("genuine-"+k, recs, c05Edit{Kind: "none"})
		add("genuine-"+k, recs, c05Edit{Kind: "none"})
	}
	{ // 16 / 17 consecutive non-advancing records
		for _, m := range []int{16, 17} {
			recs := []c05Rec{{Kind: "app", Len: 3}}
			for i := 0; i < m; i++ {
				recs = append(recs, c05Rec{Kind: []string{"warn", "app-empty"}[i%2]})
			}
			recs = append(recs, c05Rec{Kind: "app", Len: 4}, c05Rec{Kind: "close"})
			add("ignored-records", recs, c05Edit{Kind: "none"})
			add("ignored-records", recs, c05Edit{Kind: "none"})
		}
	}
	// flips: header bytes and a sample (thorough: every position) of body bytes, several masks
	masks := []int{0x01, 0x80, 0xff}
	for rec := 0; rec < 3; rec++ {
		for off := 0; off < 5; off++ {
			for _, m := range masks {
				add("flip-header", base, c05Edit{Kind: "flip", Rec: rec, Off: off, Mask: m})
			}
		}
	}
	bodyOffs := 12
	if p.tier == "thorough" {
		bodyOffs = 200
	}
	for rec := 0; rec < 3; rec++ {
		for k := 0; k < bodyOffs; k++ {
			// record lengths: GCM 5+8+len+16, CBC 5+16+pad(len+32): stay inside the shortest
			lim := []int{17, 40, 5}[rec] + 24
			off := 5 + k%lim
			if p.tier != "thorough" {
				off = 5 + r.IntN(lim)
			}
			add("flip-body", base, c05Edit{Kind: "flip", Rec: rec, Off: off, Mask: masks[k%3]})
		}
	}
	for rec := 0; rec < 4; rec++ {
		add("drop", base, c05Edit{Kind: "drop", Rec: rec})
		add("drop", base, c05Edit{Kind: "drop", Rec: rec})
		add("duplicate", base, c05Edit{Kind: "dup", Rec: rec})
		add("duplicate", base, c05Edit{Kind: "dup", Rec: rec})
		if rec < 3 {
			add("swap", base, c05Edit{Kind: "swap", Rec: rec})
			add("swap", base, c05Edit{Kind: "swap", Rec: rec})
		}
	}
	// truncation at every boundary and inside records
	for at := 0; at < 200; at += 1 + r.IntN(7) {
		add("truncate", base, c05Edit{Kind: "trunc", At: at})
	}
	// the stream cut exactly at every record boundary, and attacked streams, over a transport that returns the last
	// bytes together with io.EOF
	for rec := 0; rec <= 4; rec++ {
		for k := 0; k < 2; k++ {
			t, su := pick(n)
			n++
			c05AddCase(out, "cut-at-boundary", c05Input{Target: t, Suite: su, Recs: base, Edit: c05Edit{Kind: "cut", Rec: rec}, EOFJoin: k == 1})
		}
	}
	for _, e := range []c05Edit{{Kind: "none"}, {Kind: "trunc", At: 60}, {Kind: "trunc", At: 3}, {Kind: "flip", Rec: 1, Off: 9, Mask: 4}, {Kind: "drop", Rec: 1}, {Kind: "dup", Rec: 0}} {
		for k := 0; k < 2; k++ {
			t, su := pick(n)
			n++
			c05AddCase(out, "last-bytes-with-eof", c05Input{Target: t, Suite: su, Recs: base, Edit: e, EOFJoin: true})
		}
	}
	// injected plaintext / garbage records of every content type at every position
	for _, typ := range []int{20, 21, 22, 23, 24, 0, 0x80, 255} {
		for rec := 0; rec < 4; rec++ {
			if p.tier != "thorough" && (typ+rec)%2 == 1 {
				continue
			}
			add("inject", base, c05Edit{Kind: "inject", Rec: rec, Type: typ, N: []int{0, 1, 2, 16, 48, 64, 100}[r.IntN(7)]})
		}
	}
	// forged CBC records with a valid MAC whose padding is wrong in one byte other than the last
	// (what a receiver that checks only the padding-length byte would accept); CBC suites, both roles
	for _, su := range []uint16{0xe013, 0xe011} {
		for _, t := range []string{"server", "client"} {
			for rec := 0; rec < 3; rec++ {
				for _, off := range []int{0, 7, 14} {
					c05AddCase(out, "bad-padding-valid-mac", c05Input{Target: t, Suite: su, Recs: base,
						Edit: c05Edit{Kind: "badpad", Rec: rec, Off: off, Mask: []int{0x01, 0x80, 0xfe}[(rec+off)%3], N: rec + off}})
				}
			}
		}
	}
	// injected records without a body, of every content type, at every position
	for _, typ := range []int{20, 21, 22, 23, 24, 0, 255} {
		for rec := 0; rec < 4; rec++ {
			if p.tier != "thorough" && typ != 23 && (typ+rec)%2 == 1 {
				continue
			}
			add("inject-empty", base, c05Edit{Kind: "inject", Rec: rec, Type: typ, N: 0})
		}
	}
	// injected records shorter than an explicit nonce / a MAC, of every content type
	for _, typ := range []int{20, 21, 22, 23, 99} {
		for n := 3; n <= 9; n++ {
			if p.tier != "thorough" && (typ+n)%2 == 1 && typ != 23 {
				continue
			}
			add("inject-short", base, c05Edit{Kind: "inject", Rec: 1 + n%3, Type: typ, N: n})
		}
	}
	// the receiver has half-closed (CloseWrite) and keeps reading: the same attacks must end the same way
	for i, ed := range []c05Edit{{Kind: "none"}, {Kind: "flip", Rec: 1, Off: 9, Mask: 4}, {Kind: "drop", Rec: 1}, {Kind: "dup", Rec: 0}, {Kind: "swap", Rec: 0},
		{Kind: "inject", Rec: 1, Type: 23, N: 16}, {Kind: "inject", Rec: 2, Type: 21, N: 2}, {Kind: "trunc", At: 40}, {Kind: "flip", Rec: 3, Off: 6, Mask: 1}} {
		for _, su := range []uint16{0xe013, 0xe053} {
			c05AddCase(out, "half-closed-receiver", c05Input{Target: []string{"server", "client"}[i%2], Suite: su, Recs: base, Edit: ed, HalfClosed: true})
			c05AddCase(out, "half-closed-receiver", c05Input{Target: []string{"client", "server"}[i%2], Suite: su, Recs: base, Edit: ed, HalfClosed: true})
		}
	}
	add("inject-oversize", base, c05Edit{Kind: "inject", Rec: 1, Type: 23, N: 18433})
	add("inject-oversize", base, c05Edit{Kind: "inject", Rec: 1, Type: 23, N: 18432})
	return out.Finish()
}

func init() { register("C05", runC05) }
