package main

// C09, endpoint scenarios: a puppet peer drives a real endpoint (either role, either stack) with
// valid keys to some handshake state and then sends malformed messages / floods / garbage; the
// endpoint runs under a watchdog with recover(), its buffer sizes are sampled at every transport
// read.

import (
	"encoding/hex"
	"fmt"
	"net"
	"strings"

	"gitee.com/Trisia/gotlcp/dtlcp"
	"gitee.com/Trisia/gotlcp/tlcp"
	"verifharness/internal/puppet"
	"verifharness/internal/tk"
)

var c09Secret = []byte("c09-cookie-secret-c09-cookie-sec")

type fAddr string

func (a fAddr) Network() string { return "vudp" }
func (a fAddr) String() string  { return string(a) }

type c09Mut struct {
	Kind string `json:"kind"` // trunc | setbyte | xor | body | append | type | hdrlen | fraglen | fragoff | split
	Off  int    `json:"off,omitempty"`
	Val  int    `json:"val,omitempty"`
	Data string `json:"data,omitempty"` // hex
}

type c09Step struct {
	Op     string  `json:"op"`            // hs | rec | raw | rawcbc | ccs | absorb | frag | foreign | chain
	Msg    string  `json:"msg,omitempty"` // hs: CH SH HVR CERT SKX CR SHD CKX CV FIN
	Mut    *c09Mut `json:"mut,omitempty"`
	Typ    int     `json:"typ,omitempty"`  // rec: record type; frag: handshake type
	Data   string  `json:"data,omitempty"` // rec / raw: payload (hex)
	Fill   int     `json:"fill,omitempty"` // rec / raw: followed by Fill zero bytes
	N      int     `json:"n,omitempty"`    // repetitions (default 1)
	Batch  int     `json:"batch,omitempty"`
	Total  int     `json:"total,omitempty"` // frag: announced message length
	Seq    int     `json:"seq,omitempty"`
	Off    int     `json:"off,omitempty"`
	Len    int     `json:"len,omitempty"`
	SeqInc bool    `json:"seq_inc,omitempty"` // frag: next message_seq for every repetition
	Pack   int     `json:"pack,omitempty"`    // rec (dtlcp): records per datagram
}

type c09Ep struct {
	Stack    string    `json:"stack"`
	Target   string    `json:"target"` // the real endpoint's role
	Suite    uint16    `json:"suite"`
	CertReq  bool      `json:"certreq"`            // server target: request (ECC) a client certificate; client target: puppet sends CertificateRequest
	Ident    string    `json:"ident"`              // the puppet's chain: sm2 | rsa | rsa-sig | rsa-enc | p256 | p256-sig | p256-enc | ed | ed-sig | ed-enc | one | none
	TIdent   string    `json:"tident,omitempty"`   // the target's own identity ("" = default for its role)
	Policy   int       `json:"policy,omitempty"`   // server target with CertReq: its ClientAuth policy (0 = RequireAndVerifyClientCert)
	Foreign  bool      `json:"foreign,omitempty"`  // dtlcp: datagrams starting with 0xFA arrive from another address
	ReadFrom bool      `json:"readfrom,omitempty"` // dtlcp: the application reads with Conn.ReadFrom
	Script   []c09Step `json:"script"`
}

type c09EpObs struct {
	Complete bool    `json:"complete"`
	Err      string  `json:"err"`
	ErrText  string  `json:"err_text,omitempty"`
	Panic    string  `json:"panic,omitempty"`
	Hung     bool    `json:"hung"`
	Read     int     `json:"read"` // application bytes delivered
	Max      *c09Max `json:"max"`
}

func c09Chain(ident string, clientRole bool) (sig, enc *tk.Leaf) {
	pk := tk.GetPKI()
	s, e := pk.SrvSig, pk.SrvEnc
	if clientRole {
		s, e = pk.CliSig, pk.CliEnc
	}
	switch ident {
	case "", "sm2":
	case "rsa":
		s, e = pk.RSASig, pk.RSAEnc
	case "rsa-sig":
		s = pk.RSASig
	case "rsa-enc":
		e = pk.RSAEnc
	case "p256":
		s, e = pk.P256Sig, pk.P256Enc
	case "p256-sig":
		s = pk.P256Sig
	case "p256-enc":
		e = pk.P256Enc
	case "ed":
		s, e = pk.EdSig, pk.EdEnc
	case "ed-sig":
		s = pk.EdSig
	case "ed-enc":
		e = pk.EdEnc
	case "one":
		e = nil
	case "none":
		s, e = nil, nil
	default:
		panic("c09: unknown ident " + ident)
	}
	return s, e
}

func unhex(s string) []byte {
	b, err := hex.DecodeString(s)
	if err != nil {
		panic(err)
	}
	return b
}

func c09ApplyBody(m *c09Mut, typ byte, body []byte) (byte, []byte) {
	b := append([]byte{}, body...)
	switch m.Kind {
	case "trunc":
		if m.Off < len(b) {
			b = b[:m.Off]
		}
	case "setbyte":
		if m.Off < len(b) {
			b[m.Off] = byte(m.Val)
		}
	case "xor":
		if m.Off < len(b) {
			b[m.Off] ^= byte(m.Val)
		}
	case "body":
		b = unhex(m.Data)
	case "append":
		b = append(b, unhex(m.Data)...)
		b = append(b, make([]byte, m.Val)...)
	case "type":
		typ = byte(m.Val)
	}
	return typ, b
}

func c09ApplyFrame(m *c09Mut, dtls bool, msg []byte) []byte {
	f := append([]byte{}, msg...)
	put24 := func(at, v int) {
		if at+3 <= len(f) {
			f[at], f[at+1], f[at+2] = byte(v>>16), byte(v>>8), byte(v)
		}
	}
	switch m.Kind {
	case "hdrlen": // announced message length
		put24(1, m.Val)
	case "fraglen":
		if dtls {
			put24(9, m.Val)
		}
	case "fragoff":
		if dtls {
			put24(6, m.Val)
		}
	case "cut": // the framed message loses its tail (the length fields keep announcing it)
		if m.Off < len(f) {
			f = f[:m.Off]
		}
	}
	return f
}

// c09SendHS sends the honest message kind k (with the mutation, if any).
func c09SendHS(p *puppet.Peer, in c09Ep, st c09Step) {
	if st.Mut != nil {
		m := st.Mut
		switch m.Kind {
		case "hdrlen", "fraglen", "fragoff", "cut":
			p.MutFrame = func(msg []byte) []byte { p.MutFrame = nil; return c09ApplyFrame(m, p.DTLS, msg) }
		default:
			p.MutBody = func(typ byte, body []byte) (byte, []byte) { p.MutBody = nil; return c09ApplyBody(m, typ, body) }
		}
	}
	defer func() { p.MutBody, p.MutFrame = nil, nil }()
	switch st.Msg {
	case "CH":
		o := puppet.CHOpt{Suites: []uint16{in.Suite}}
		if p.DTLS {
			o.Cookie = p.Cookie
		}
		p.SendClientHello(o)
	case "CERT":
		p.SendCertificate(p.OwnChain())
	case "CKX":
		p.SendClientKeyExchange("ok")
	case "CV":
		p.SendCertVerify("ok")
	case "FIN":
		p.SendFinished("ok")
	case "SH":
		p.SendServerHello(puppet.SHOpt{Suite: in.Suite})
	case "HVR":
		p.SendHelloVerify([]byte("cookie-cookie-cookie-cookie-0123"))
	case "SKX":
		p.SendServerKeyExchange(puppet.SKXOpt{Mode: "ok"})
	case "CR":
		p.SendCertRequest(nil)
	case "SHD":
		p.SendServerHelloDone()
	default:
		panic("c09: unknown message " + st.Msg)
	}
}

func c09Payload(st c09Step) []byte {
	b := unhex(st.Data)
	if st.Fill > 0 {
		b = append(b, make([]byte, st.Fill)...)
	}
	return b
}

func c09Frag(typ byte, total int, seq uint16, off, l int) []byte {
	h := []byte{typ, byte(total >> 16), byte(total >> 8), byte(total), byte(seq >> 8), byte(seq), byte(off >> 16), byte(off >> 8), byte(off), byte(l >> 16), byte(l >> 8), byte(l)}
	return append(h, make([]byte, l)...)
}

// c09Exec interprets a script against the puppet.
func c09Exec(p *puppet.Peer, in c09Ep) {
	for _, st := range in.Script {
		if p.L.TargetDone() {
			return
		}
		n := st.N
		if n <= 0 {
			n = 1
		}
		batch := st.Batch
		if batch <= 0 {
			batch = 64
		}
		switch st.Op {
		case "absorb":
			p.Absorb(5)
		case "hs":
			for i := 0; i < n; i++ {
				c09SendHS(p, in, st)
			}
			p.Absorb(5)
		case "ccs":
			p.SendCCS()
			p.Absorb(5)
		case "rec":
			pl := c09Payload(st)
			for i := 0; i < n && !p.L.TargetDone(); {
				if p.DTLS && st.Pack > 1 {
					var recs [][]byte
					for k := 0; k < st.Pack && i < n; k++ {
						recs = append(recs, p.Seal(byte(st.Typ), pl))
						i++
					}
					p.SendRecords(recs...)
				} else {
					p.SendRecord(byte(st.Typ), pl)
					i++
				}
				if i%batch == 0 {
					p.Absorb(5)
				}
			}
			p.Absorb(5)
		case "rawcbc": // a CBC record that decrypts to Len bytes all equal to Off (valid padding of Off+1 bytes, no room checked for a MAC)
			pt := make([]byte, st.Len)
			for i := range pt {
				pt[i] = byte(st.Off)
			}
			p.SendRaw(p.SealRawCBC(byte(st.Typ), pt))
			p.Absorb(5)
		case "raw":
			pl := c09Payload(st)
			for i := 0; i < n && !p.L.TargetDone(); i++ {
				p.SendRaw(pl)
				if (i+1)%batch == 0 {
					p.Absorb(5)
				}
			}
			p.Absorb(5)
		case "frag":
			seq := st.Seq
			for i := 0; i < n && !p.L.TargetDone(); i++ {
				p.SendRecord(puppet.RecHS, c09Frag(byte(st.Typ), st.Total, uint16(seq), st.Off, st.Len))
				if st.SeqInc {
					seq++
				}
				if (i+1)%batch == 0 {
					p.Absorb(5)
				}
			}
			p.Absorb(5)
		case "chain": // dtlcp: [handshake record of Fill bytes][empty handshake record of another epoch] in one datagram; Typ 21: followed by a warning alert
			for i := 0; i < n && !p.L.TargetDone(); i++ {
				r1 := p.Seal(puppet.RecHS, c09Payload(st))
				r2 := p.Seal(puppet.RecHS, nil)
				r2[4]++
				if st.Typ == 21 {
					p.SendRecords(r1, r2, p.Seal(puppet.RecAlert, []byte{1, 90}))
				} else {
					p.SendRecords(r1, r2)
				}
				if (i+1)%batch == 0 {
					p.Absorb(5)
				}
			}
			p.Absorb(5)
		case "foreign":
			for i := 0; i < n && !p.L.TargetDone(); i++ {
				p.SendRaw([]byte{0xFA, 22, 1, 1, 0, 0})
				if (i+1)%batch == 0 {
					p.Absorb(5)
				}
			}
			p.Absorb(5)
		default:
			panic("c09: unknown op " + st.Op)
		}
	}
	p.Absorb(5)
}

func c09TargetConfig(in c09Ep) tk.EPConfig {
	var ep tk.EPConfig
	if in.Target == "client" {
		ep = tk.EPConfig{Suites: []uint16{in.Suite}, Ident: "cli", ServerName: "server.test"}
	} else {
		ep = tk.EPConfig{Ident: "srv"}
		if in.CertReq {
			ep.Auth = int(tlcp.RequireAndVerifyClientCert)
			if in.Policy != 0 {
				ep.Auth = in.Policy
			}
		}
		if puppet.IsECDHE(in.Suite) {
			ep.Auth = int(tlcp.RequireAndVerifyClientCert)
		}
	}
	if in.TIdent != "" {
		ep.Ident = in.TIdent
	}
	return ep
}

// c09RunEp runs one endpoint scenario.
func c09RunEp(in c09Ep) c09EpObs {
	o, _ := c09RunRaw(in, func(p *puppet.Peer) { c09Exec(p, in) })
	return o
}

// c09RunRaw runs the puppet program prog against the endpoint described by in.
func c09RunRaw(in c09Ep, prog func(p *puppet.Peer)) (c09EpObs, *c09Max) {
	ep := c09TargetConfig(in)
	m := &c09Max{}
	var o puppet.TargetOutcome
	setup := func(p *puppet.Peer) {
		p.Sig, p.Enc = c09Chain(in.Ident, in.Target == "server")
	}
	if in.Stack == "dtlcp" {
		ep.PMTU, ep.RetransMs, ep.MaxRetransMs, ep.CookieSecret = 16000, 10000, 60000, c09Secret
		pc := &c09PC{M: m}
		if in.Foreign {
			pc.Foreign = fAddr("10.9.9.9:999")
		}
		opt := puppet.SessOpt{
			WrapD:       func(c net.PacketConn) net.PacketConn { pc.PacketConn = c; return pc },
			OnDTLCP:     func(c *dtlcp.Conn) { pc.T = c },
			OnHandshake: pc.onHandshake,
			OnFinish:    func() { pc.sample() },
			ReadFrom:    in.ReadFrom,
		}
		_, o = puppet.RunDTLCPOpt(tk.BuildDTLCP(ep, tk.NewRegistry()), in.Target == "client", opt, func(p *puppet.Peer) {
			setup(p)
			prog(p)
		})
	} else {
		cc := &c09Conn{M: m}
		opt := puppet.SessOpt{
			WrapT:       func(c net.Conn) net.Conn { cc.Conn = c; return cc },
			OnTLCP:      func(c *tlcp.Conn) { cc.T = c },
			OnHandshake: func(err error) { cc.done = err == nil },
			OnFinish:    func() { cc.sample() },
		}
		s := puppet.NewTLCPSessionOpt(tk.BuildTLCP(ep, tk.NewRegistry()), in.Target == "client", opt)
		setup(s.P)
		prog(s.P)
		o = s.Finish()
	}
	return c09EpObs{Complete: o.Res.Complete && o.Res.Err == "", Err: o.Res.Err, ErrText: o.Res.ErrText, Panic: o.Panic, Hung: o.Hung, Read: len(o.Read), Max: m}, m
}

// c09Flow is the honest message order the puppet follows for a configuration.
func c09Flow(in c09Ep) []c09Step {
	hs := func(k string) c09Step { return c09Step{Op: "hs", Msg: k} }
	ecdhe := puppet.IsECDHE(in.Suite)
	var fl []c09Step
	if in.Target == "client" {
		fl = []c09Step{hs("SH"), hs("CERT"), hs("SKX")}
		if in.CertReq || ecdhe {
			fl = append(fl, hs("CR"))
		}
		fl = append(fl, hs("SHD"), c09Step{Op: "ccs"}, hs("FIN"))
		return append([]c09Step{{Op: "absorb"}}, fl...)
	}
	fl = []c09Step{hs("CH")}
	if in.Stack == "dtlcp" {
		fl = append(fl, hs("CH"))
	}
	if in.CertReq || ecdhe {
		fl = append(fl, hs("CERT"), hs("CKX"), hs("CV"))
	} else {
		fl = append(fl, hs("CKX"))
	}
	return append(fl, c09Step{Op: "ccs"}, hs("FIN"))
}

func c09StepName(st c09Step) string {
	switch st.Op {
	case "hs":
		return st.Msg
	case "ccs":
		return "CCS"
	}
	return strings.ToUpper(st.Op)
}

func c09EpName(in c09Ep) string {
	return fmt.Sprintf("%s-%s", in.Stack, in.Target)
}
