package main

// C06: the protected stream is delivered exactly, in order, within record size limits (TLCP).

import (
	"bytes"
	"encoding/json"
	"fmt"
	"gitee.com/Trisia/gotlcp/tlcp"
	"io"
	"math/rand/v2"
	"net"
	"os"
	"strings"
	"sync"
	"time"

	"verifharness/internal/emit"
	"verifharness/internal/tk"
)

type c06Input struct {
	Suite  uint16 `json:"suite"`
	DynOff bool   `json:"dyn_off"`
	Writes []int  `json:"writes"`
	Seg    []int  `json:"seg"`  // transport segmentation seen by the reader (cycled); empty = unlimited
	Bufs   []int  `json:"bufs"` // read buffer sizes (cycled)
	Dir    string `json:"dir"`  // c2s | s2c
	// EOFWithData: the transport returns the last bytes of the stream together with io.EOF
	EOFWithData bool `json:"eof_with_data,omitempty"`
	// Answer: the writer ends with CloseWrite instead of Close and then reads, until end-of-stream, what the
	// peer writes (these sizes) after it saw the end of the first stream; the transport honours deadlines
	Answer []int `json:"answer,omitempty"`
	// PauseAt > 0: the transport delivers PauseAt bytes of the application records and holds the rest back; the reader
	// has a read deadline armed, sees it expire in the middle of a record, clears it, the transport lets the rest through,
	// and the reader reads on: nothing may be lost
	PauseAt int `json:"pause_at,omitempty"`
	// Duplex: while the stream flows, the reading end writes the same sizes the other way and the writing end reads
	// them: Read and Write are in flight on each connection at the same time
	Duplex bool `json:"duplex,omitempty"`
}

func c06Mode(suite uint16) string {
	if suite == 0xe053 || suite == 0xe051 {
		return "MGcm"
	}
	return "MCbc"
}

// c06Slow delays every transport Read: what the peer wrote meanwhile (the end of its handshake flight and whatever it
// wrote right after it) is handed over in one piece.
type c06Slow struct {
	net.Conn
	d time.Duration
}

func (c *c06Slow) Read(p []byte) (int, error) {
	time.Sleep(c.d)
	return c.Conn.Read(p)
}

type c06CoalIn struct {
	Suite  uint16 `json:"suite"`
	Sizes  []int  `json:"sizes"`
	Resume bool   `json:"resume"` // a second connection on the session of the first: the client sends the last Finished and writes at once
}

// c06Coalesced: neither side calls Handshake; the side that sends the last Finished (server: full handshake, client:
// resumed) writes application data at once, and the reader's transport hands the Finished and that data over together.
// Everything written must be read, exactly and in order, and the stream must end with io.EOF.
func c06Coalesced(out *emit.Out, in c06CoalIn) {
	reg := tk.NewRegistry()
	cc := tk.EPConfig{Suites: []uint16{in.Suite}, Ident: "cli", ServerName: "server.test", Cache: "c"}
	sc := tk.EPConfig{Ident: "srv", Cache: "s"}
	if in.Suite == 0xe051 || in.Suite == 0xe011 {
		sc.Auth = 4
	}
	rounds := 1
	if in.Resume {
		rounds = 2
	}
	direct := ""
	var gotN, sentN int
	for round := 0; round < rounds && direct == ""; round++ {
		cliT, srvT, _, _ := tk.StreamPair()
		writerIsClient := round == 1
		var cli, srv *tlcp.Conn
		if writerIsClient {
			cli, srv = tlcp.Client(cliT, tk.BuildTLCP(cc, reg)), tlcp.Server(&c06Slow{Conn: srvT, d: 25 * time.Millisecond}, tk.BuildTLCP(sc, reg))
		} else {
			cli, srv = tlcp.Client(&c06Slow{Conn: cliT, d: 25 * time.Millisecond}, tk.BuildTLCP(cc, reg)), tlcp.Server(srvT, tk.BuildTLCP(sc, reg))
		}
		writer, reader := srv, cli
		if writerIsClient {
			writer, reader = cli, srv
		}
		var sent, got []byte
		var werr, rerr string
		done := make(chan struct{})
		go func() {
			defer close(done)
			var wg sync.WaitGroup
			wg.Add(2)
			go func() {
				defer wg.Done()
				for i, n := range in.Sizes {
					p := bytes.Repeat([]byte{byte(0x61 + i)}, n)
					sent = append(sent, p...)
					if _, err := writer.Write(p); err != nil {
						werr = tk.ErrClass(err)
						break
					}
				}
				writer.Close()
			}()
			go func() {
				defer wg.Done()
				buf := make([]byte, 4096)
				for {
					n, err := reader.Read(buf)
					got = append(got, buf[:n]...)
					if err != nil {
						rerr = tk.ErrClass(err)
						break
					}
				}
				reader.Close()
			}()
			wg.Wait()
		}()
		select {
		case <-done:
		case <-time.After(10 * time.Second):
			cliT.Close()
			srvT.Close()
			direct = "hang"
			continue
		}
		gotN, sentN = len(got), len(sent)
		switch {
		case werr != "":
			direct = "write right after the handshake failed: " + werr
		case !bytes.Equal(got, sent):
			direct = fmt.Sprintf("data written right after the last Finished and handed over together with it: read %d of %d bytes (then %s)", len(got), len(sent), rerr)
		case rerr != "eof":
			direct = "stream ends with " + rerr + " instead of io.EOF"
		}
	}
	out.Add(emit.Case{Scenario: "written-at-once-after-the-last-finished/" + c06Mode(in.Suite), Trivial: false, Input: in, Direct: direct,
		Observed: map[string]interface{}{"read": gotN, "written": sentN}})
}

func c06AddCase(out *emit.Out, scenario string, in c06Input) {
	cc := tk.EPConfig{Suites: []uint16{in.Suite}, Ident: "cli", ServerName: "server.test", DynOff: in.DynOff}
	sc := tk.EPConfig{Ident: "srv", DynOff: in.DynOff}
	if in.Suite == 0xe051 || in.Suite == 0xe011 {
		sc.Auth = 4
	}
	tp := tk.NewTPair(tk.BuildTLCP(cc, nil), tk.BuildTLCP(sc, nil))
	wire := tp.C2S
	writer, reader := tp.Cli, tp.Srv
	if in.Dir == "s2c" {
		wire = tp.S2C
		writer, reader = tp.Srv, tp.Cli
	}
	if len(in.Seg) > 0 {
		seg := in.Seg
		wire.Seg = func(k int) int { return seg[k%len(seg)] }
	}
	wire.EOFWithData = in.EOFWithData
	if len(in.Answer) > 0 {
		tp.C2S.Deadlines, tp.S2C.Deadlines = true, true
		tp.C2S.EOFWithData, tp.S2C.EOFWithData = in.EOFWithData, in.EOFWithData
	}
	cr, sr, hung := tp.Handshake(10 * time.Second)
	direct := ""
	if hung || cr.Err != "" || sr.Err != "" {
		direct = "handshake failed: " + cr.Err + "/" + sr.Err
		out.Add(emit.Case{Scenario: scenario, Input: in, Direct: direct, Coq: ""})
		return
	}
	if in.PauseAt > 0 {
		wire.Deadlines = true
		wire.PauseAt = wire.DeliveredLen() + in.PauseAt
	}
	hsRecords := len(wire.SentRecords())
	var bytes0 int
	for _, r := range wire.SentRecords() {
		bytes0 += len(r)
	}
	var sent []byte
	var rets []int
	var werr string
	var got []byte
	var readSizes []int
	var rerr string
	timedOut := false
	var ansSent, ansGot []byte
	var ansErr string
	var wg sync.WaitGroup
	wg.Add(2)
	backDone := make(chan struct{})
	var back, backGot []byte
	var backErr string
	if in.Duplex {
		wg.Add(2)
		go func() { // the reading end writes the other way
			defer wg.Done()
			for i, n := range in.Writes {
				p := bytes.Repeat([]byte{byte(0x40 + i)}, n)
				back = append(back, p...)
				if k, err := reader.Write(p); err != nil || k != n {
					backErr = "write:" + tk.ErrClass(err)
					return
				}
			}
		}()
		go func() { // the writing end reads it
			defer wg.Done()
			want := 0
			for _, n := range in.Writes {
				want += n
			}
			buf := make([]byte, 3000)
			for len(backGot) < want {
				n, err := writer.Read(buf)
				backGot = append(backGot, buf[:n]...)
				if err != nil {
					backErr = "read:" + tk.ErrClass(err)
					return
				}
			}
			close(backDone)
		}()
	}
	go func() {
		defer wg.Done()
		for i, n := range in.Writes {
			p := make([]byte, n)
			for j := range p {
				p[j] = byte(i*31 + j*7 + 1)
			}
			k, err := writer.Write(p)
			rets = append(rets, k)
			sent = append(sent, p...)
			if err != nil {
				werr = tk.ErrClass(err)
				break
			}
		}
		if in.Duplex {
			select { // close only once the other direction has been read to its end
			case <-backDone:
			case <-time.After(10 * time.Second):
			}
		}
		if len(in.Answer) == 0 {
			writer.Close()
			return
		}
		// half-close, then read the answer to its end
		if err := writer.CloseWrite(); err != nil {
			werr = "closewrite:" + tk.ErrClass(err)
		}
		buf := make([]byte, 4096)
		for {
			n, err := writer.Read(buf)
			ansGot = append(ansGot, buf[:n]...)
			if err != nil {
				if err != io.EOF {
					ansErr = tk.ErrClass(err)
				}
				break
			}
		}
		writer.Close()
	}()
	go func() {
		defer wg.Done()
		if in.PauseAt > 0 {
			reader.SetReadDeadline(time.Now().Add(40 * time.Millisecond))
		}
		for i := 0; ; i++ {
			b := in.Bufs[i%len(in.Bufs)]
			buf := make([]byte, b)
			n, err := reader.Read(buf)
			if n > 0 {
				readSizes = append(readSizes, n)
				got = append(got, buf[:n]...)
			}
			if err != nil && in.PauseAt > 0 && !timedOut && tk.ErrClass(err) == "timeout" {
				// the deadline expired with part of a record in hand: clear it, let the rest arrive, read on
				timedOut = true
				reader.SetReadDeadline(time.Time{})
				wire.Resume()
				continue
			}
			if err != nil {
				if err != io.EOF {
					rerr = tk.ErrClass(err)
				} else {
					rerr = "eof"
				}
				if len(in.Answer) > 0 {
					for i, n := range in.Answer {
						p := bytes.Repeat([]byte{byte(0xA0 + i)}, n)
						ansSent = append(ansSent, p...)
						if k, err := reader.Write(p); err != nil || k != n {
							ansErr = "answer-write:" + tk.ErrClass(err)
							break
						}
					}
					reader.Close()
				}
				return
			}
		}
	}()
	done := make(chan struct{})
	go func() { wg.Wait(); close(done) }()
	select {
	case <-done:
	case <-time.After(20 * time.Second):
		direct = "hang"
		tp.Close()
		<-done
	}
	tp.Close()
	var wireLens []int
	for _, r := range wire.SentRecords()[hsRecords:] {
		if r[0] == 23 {
			wireLens = append(wireLens, len(r))
		}
	}
	intact := bytes.Equal(sent, got) && bytes.Equal(ansSent, ansGot) && bytes.Equal(back, backGot) && backErr == ""
	zs := func(xs []int) string {
		var s []string
		for _, x := range xs {
			s = append(s, fmt.Sprint(x))
		}
		return "[" + strings.Join(s, ";") + "]"
	}
	total := 0
	for _, n := range in.Writes {
		total += n
	}
	out.Add(emit.Case{Scenario: scenario, Trivial: len(in.Writes) < 2, Input: in, Direct: direct,
		Observed: map[string]interface{}{"bytes_sent_before": bytes0, "wire_lens": wireLens, "rets": rets, "write_err": werr,
			"read_sizes_n": len(readSizes), "read_err": rerr, "intact": intact, "total": total,
			"answer_bytes": len(ansSent), "answer_read": len(ansGot), "answer_err": ansErr},
		Coq: fmt.Sprintf("StreamCase %s %s %d %s %s %s %s %s %s %s", emit.Bool(in.DynOff), c06Mode(in.Suite), bytes0, zs(in.Writes), zs(wireLens), zs(rets),
			zs(in.Bufs), zs(readSizes), emit.Bool(intact), emit.Bool(rerr == "eof" && werr == "" && ansErr == ""))})
}

func runC06(p params) error {
	out := emit.New(p.out, "C06", "V.Corr.Run_C06", "case",
		"write-size lists x transport segmentations x read-buffer sizes x suites x dynamic sizing on/off x direction on an established TLCP pair; non-trivial = at least two writes; distinct by Coq term")
	out.Scope = "Z_scope"
	if p.replay != "" {
		b, err := os.ReadFile(p.replay)
		if err != nil {
			return err
		}
		var rp struct {
			Cases []struct {
				Scenario string   `json:"scenario"`
				Input    c06Input `json:"input"`
			} `json:"cases"`
		}
		if err := json.Unmarshal(b, &rp); err != nil {
			return err
		}
		for _, c := range rp.Cases {
			c06AddCase(out, c.Scenario, c.Input)
		}
		return out.Finish()
	}
	r := rand.New(rand.NewPCG(p.seed, 0xC06))
	suites := []uint16{0xe053, 0xe013, 0xe051, 0xe011}
	n := 120
	if p.tier == "thorough" {
		n = 2500
	}
	// corpus: the ramp reaching the 16384 cap before the 128 KiB boost, the boost itself, sizing off
	for i, su := range suites {
		big := [][]int{{1, 4096}, {16384}, {65536}, {20000}}[i]
		c06AddCase(out, "corpus-ramp-cap", c06Input{Suite: su, Writes: []int{200000}, Bufs: big, Dir: []string{"c2s", "s2c"}[i%2]})
		c06AddCase(out, "corpus-ramp-cap", c06Input{Suite: su, Writes: []int{60000, 60000, 1}, Bufs: big, Seg: []int{1400}, Dir: "c2s"})
		c06AddCase(out, "corpus-sizing-off", c06Input{Suite: su, DynOff: true, Writes: []int{16384*3 + 5, 16384, 16385}, Bufs: big, Dir: "s2c"})
	}
	// corpus: both directions at once (Read and Write in flight on the same connection)
	for i, su := range suites {
		c06AddCase(out, "corpus-full-duplex", c06Input{Suite: su, Writes: []int{300000, 5, 70000}, Bufs: []int{1000}, Dir: []string{"c2s", "s2c"}[i%2], Duplex: true, DynOff: i >= 2})
	}
	// corpus: the reader's deadline expires in the middle of a record (header cut, body cut), then it reads on
	for i, su := range suites {
		for _, at := range []int{3, 5, 15, 600} {
			c06AddCase(out, "corpus-deadline-inside-record", c06Input{Suite: su, Writes: []int{1000, 20, 700}, Bufs: []int{4096}, Dir: []string{"c2s", "s2c"}[i%2], PauseAt: at})
		}
	}
	// corpus: the last bytes arrive together with the transport's EOF; request, half-close, read the answer
	for i, su := range suites {
		dir := []string{"c2s", "s2c"}[i%2]
		c06AddCase(out, "corpus-eof-with-data", c06Input{Suite: su, Writes: []int{1, 700, 0, 3000}, Bufs: []int{1000}, Seg: [][]int{nil, {1}, {7, 13}, {1400}}[i], Dir: dir, EOFWithData: true})
		c06AddCase(out, "corpus-half-close-then-answer", c06Input{Suite: su, Writes: []int{5, 2000}, Bufs: []int{512}, Dir: dir, Answer: []int{1, 40000, 17}, EOFWithData: i >= 2})
	}
	for i := 0; i < n; i++ {
		in := c06Input{Suite: suites[i%4], DynOff: r.IntN(3) == 0, Dir: []string{"c2s", "s2c"}[r.IntN(2)]}
		in.EOFWithData = r.IntN(4) == 0
		if r.IntN(5) == 0 {
			in.Answer = [][]int{{1}, {100, 0, 100}, {20000}, {16384, 1}}[r.IntN(4)]
		}
		small := r.IntN(2) == 0
		if small { // tiny buffers / 1-byte segmentation, little data
			k := 1 + r.IntN(5)
			for j := 0; j < k; j++ {
				in.Writes = append(in.Writes, []int{0, 1, 2, 17, 100, 400, 1179, 1180, 1151, 1152}[r.IntN(10)])
			}
			in.Seg = [][]int{{1}, {1, 2, 3}, {5}, {4, 1}, {7, 13}, nil}[r.IntN(6)]
			in.Bufs = [][]int{{1}, {1, 2}, {3, 1, 7}, {16}, {5}, {1000}}[r.IntN(6)]
			c06AddCase(out, "small-bufs", in)
		} else {
			k := 1 + r.IntN(7)
			for j := 0; j < k; j++ {
				in.Writes = append(in.Writes, []int{0, 1, 1179, 1180, 2358, 5000, 16384, 16385, 32768, 40000, 49152, 50000}[r.IntN(12)])
			}
			if r.IntN(4) == 0 { // cross the 128 KiB boost threshold
				in.Writes = append(in.Writes, 60000, 60000, 20000, 3000)
			}
			in.Seg = [][]int{nil, {1400}, {4096, 1}, {512}, {100000}}[r.IntN(5)]
			in.Bufs = [][]int{{4096}, {16384}, {20000}, {1179}, {700, 3000}, {65536}}[r.IntN(6)]
			c06AddCase(out, "large-writes", in)
		}
	}
	for _, su := range []uint16{0xe053, 0xe013, 0xe051, 0xe011} {
		for _, rs := range []bool{false, true} {
			c06Coalesced(out, c06CoalIn{Suite: su, Sizes: []int{360, 1, 5000}, Resume: rs})
		}
	}
	// configurations used through Config.Clone carry the fields this property depends on
	cloneCases(out, []string{"tlcp"}, map[string][]string{"tlcp": {"DynamicRecordSizingDisabled"}})
	return out.Finish()
}

func init() { register("C06", runC06) }
