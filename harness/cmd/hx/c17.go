package main

// C17: fragmented handshake messages reassemble exactly, for any fragmentation.
//  buf   : dtlcp fragmentBuffer driven directly (every add result, complete, assembled)
//  recv  : readHandshake fed a stream of fragments (what the transcript gets, error, pending buffers)
//  send  : writeHandshakeRecord at a given PMTU (the records produced, what the transcript gets)
//  pair  : full handshakes with independent PMTU values on each side

import (
	"encoding/json"
	"errors"
	"fmt"
	"math/rand/v2"
	"net"
	"os"
	"strings"
	"time"

	"gitee.com/Trisia/gotlcp/dtlcp"
	"verifharness/internal/emit"
	"verifharness/internal/tk"
)

type c17Add struct {
	Off  int    `json:"off"`
	Len  int    `json:"len"`
	Frag []byte `json:"frag"`
}
type c17Frag struct {
	Type byte   `json:"type"`
	BLen int    `json:"blen"`
	Seq  int    `json:"seq"`
	Off  int    `json:"off"`
	Len  int    `json:"len"`
	Body []byte `json:"body"`
}
type c17Input struct {
	Kind  string    `json:"kind"`
	Total int       `json:"total,omitempty"`
	Adds  []c17Add  `json:"adds,omitempty"`
	Msg   []byte    `json:"msg,omitempty"` // buf: the message the fragments are slices of (nil: arbitrary content)
	Frags []c17Frag `json:"frags,omitempty"`
	Calls int       `json:"calls,omitempty"`
	PMTU  int       `json:"pmtu,omitempty"`
	Type  byte      `json:"type,omitempty"`
	Seq   int       `json:"seq,omitempty"`
	Body  []byte    `json:"body,omitempty"`
	CP    int       `json:"cpmtu,omitempty"`
	SP    int       `json:"spmtu,omitempty"`
	Suite uint16    `json:"suite,omitempty"`
	Auth  int       `json:"auth,omitempty"`
	// recv: the fragments from index GapAt on arrive one datagram each, GapMs of wall-clock time apart (the library
	// ages incomplete reassembly buffers by the wall clock)
	GapAt int `json:"gap_at,omitempty"`
	GapMs int `json:"gap_ms,omitempty"`
}

func fragBytes(f c17Frag) []byte {
	h := []byte{f.Type, byte(f.BLen >> 16), byte(f.BLen >> 8), byte(f.BLen), byte(f.Seq >> 8), byte(f.Seq),
		byte(f.Off >> 16), byte(f.Off >> 8), byte(f.Off), byte(f.Len >> 16), byte(f.Len >> 8), byte(f.Len)}
	return append(h, f.Body...)
}

func coqFrag(f c17Frag) string {
	return fmt.Sprintf("mkFrag %d %d%%nat %d %d%%nat %d%%nat %s", f.Type, f.BLen, f.Seq, f.Off, f.Len, emit.Bytes(f.Body))
}

func errCode(err error) int {
	// 0 none, 1 blocked (no more input), otherwise the alert number the endpoint raised locally, 999 other
	if err == nil {
		return 0
	}
	if errors.Is(err, tk.ErrNoInput) {
		return 1
	}
	var op *net.OpError
	if errors.As(err, &op) && op.Op == "local error" {
		s := op.Err.Error()
		switch {
		case strings.Contains(s, "unexpected message"):
			return 10
		case strings.Contains(s, "internal error"):
			return 80
		case strings.Contains(s, "error decoding"):
			return 50
		}
	}
	s := err.Error()
	switch {
	case strings.Contains(s, "too many fragment reads"):
		return 10
	case strings.Contains(s, "exceeds maximum"):
		return 80
	case strings.Contains(s, "fragment out of bounds"):
		return 50
	}
	return 999
}

func c17AddCase(out *emit.Out, scenario string, in c17Input) {
	switch in.Kind {
	case "buf":
		fb := dtlcp.VerifNewFragBuf(in.Total)
		var rs []string
		var obs []bool
		for _, a := range in.Adds {
			ok := fb.Add(a.Off, a.Len, a.Frag)
			rs = append(rs, emit.Bool(ok))
			obs = append(obs, ok)
		}
		comp := fb.Complete()
		asm := fb.Assembled()
		var adds []string
		for _, a := range in.Adds {
			adds = append(adds, fmt.Sprintf("(%d%%nat,%d%%nat,%s)", a.Off, a.Len, emit.Bytes(a.Frag)))
		}
		slices := "false"
		if in.Msg != nil {
			slices = "true"
		}
		out.Add(emit.Case{Scenario: scenario, Trivial: len(in.Adds) < 2, Input: in,
			Observed: map[string]interface{}{"adds": obs, "complete": comp, "assembled_len": len(asm)},
			Coq: fmt.Sprintf("BufCase %d%%nat [%s] %s %s [%s] %s %s", in.Total, strings.Join(adds, ";"), slices, emit.Bytes(in.Msg),
				strings.Join(rs, ";"), emit.Bool(comp), emit.Bytes(asm))})
	case "recv":
		var stream []byte
		var fs []string
		for _, f := range in.Frags {
			stream = append(stream, fragBytes(f)...)
			fs = append(fs, coqFrag(f))
		}
		pc := tk.NewSinkPC()
		if in.GapMs > 0 && in.GapAt < len(in.Frags) {
			stream = nil
			for _, f := range in.Frags[:in.GapAt] {
				stream = append(stream, fragBytes(f)...)
			}
			for i, f := range in.Frags[in.GapAt:] {
				b := fragBytes(f)
				pc.Inbox = append(pc.Inbox, append([]byte{22, 1, 1, 0, 0, 0, 0, 0, 0, 0, byte(i + 1), byte(len(b) >> 8), byte(len(b))}, b...))
			}
			pc.Delay = time.Duration(in.GapMs) * time.Millisecond
		}
		msgs, err, pend, pbytes := dtlcp.VerifReadHandshakes(pc, pc.Remote, &dtlcp.Config{}, stream, in.Calls)
		var ms []string
		for _, m := range msgs {
			ms = append(ms, emit.Bytes(m))
		}
		out.Add(emit.Case{Scenario: scenario, Trivial: len(in.Frags) < 2, Input: in,
			Observed: map[string]interface{}{"msgs": len(msgs), "err": fmt.Sprint(err), "pending": pend, "pending_bytes": pbytes},
			Coq:      fmt.Sprintf("RecvCase [%s] %d%%nat [%s] %d %d%%nat %d%%nat", strings.Join(fs, ";\n   "), in.Calls, strings.Join(ms, ";"), errCode(err), pend, pbytes)})
	case "send":
		pc := tk.NewSinkPC()
		tr, err := dtlcp.VerifWriteHandshake(pc, pc.Remote, &dtlcp.Config{PMTU: in.PMTU}, in.Type, uint16(in.Seq), in.Body)
		var fs []string
		maxLen := 0
		bad := 0
		for _, d := range pc.Out {
			if len(d) > maxLen {
				maxLen = len(d)
			}
			if len(d) < 25 || d[0] != 22 {
				bad++
				continue
			}
			h := d[13:]
			f := c17Frag{Type: h[0], BLen: int(h[1])<<16 | int(h[2])<<8 | int(h[3]), Seq: int(h[4])<<8 | int(h[5]),
				Off: int(h[6])<<16 | int(h[7])<<8 | int(h[8]), Len: int(h[9])<<16 | int(h[10])<<8 | int(h[11]), Body: h[12:]}
			fs = append(fs, coqFrag(f))
		}
		ec := 0
		if err != nil {
			ec = 1
		}
		out.Add(emit.Case{Scenario: scenario, Trivial: len(pc.Out) < 2, Input: in,
			Observed: map[string]interface{}{"datagrams": len(pc.Out), "max_len": maxLen, "err": fmt.Sprint(err), "unparsed": bad},
			Coq:      fmt.Sprintf("SendCase (%d)%%Z %d %d %s [%s] %s %d %d%%nat", in.PMTU, in.Type, in.Seq, emit.Bytes(in.Body), strings.Join(fs, ";\n   "), emit.Bytes(tr), ec+bad*2, maxLen)})
	case "pair":
		reg := tk.NewRegistry()
		cc := tk.EPConfig{Suites: []uint16{in.Suite}, Ident: "cli", ServerName: "server.test", PMTU: in.CP}
		sc := tk.EPConfig{Ident: "srv", Auth: in.Auth, PMTU: in.SP}
		dp := tk.NewDPair(tk.BuildDTLCP(cc, reg), tk.BuildDTLCP(sc, reg))
		cr, sr, hung := dp.Handshake(10 * time.Second)
		okk := cr.Err == "" && sr.Err == "" && cr.Complete && sr.Complete && !hung
		// a server records only the client's Finished in a full handshake
		agree := cr.Suite == sr.Suite && cr.Version == sr.Version && string(cr.ClientFinished) == string(sr.ClientFinished) &&
			cr.Suite == in.Suite
		direct := ""
		if cr.Panic != "" || sr.Panic != "" {
			direct = "panic"
		}
		out.Add(emit.Case{Scenario: scenario, Trivial: false, Input: in, Direct: direct,
			Observed: map[string]interface{}{"client": cr, "server": sr, "hung": hung, "virtual_ms": dp.Net.Now().Milliseconds()},
			Coq:      fmt.Sprintf("PairCase (%d)%%Z (%d)%%Z %s %s", in.CP, in.SP, emit.Bool(okk), emit.Bool(agree))})
	}
}

func c17Split(body []byte, typ byte, seq int, cuts []int) []c17Frag {
	var fs []c17Frag
	prev := 0
	for _, c := range append(cuts, len(body)) {
		if c <= prev {
			continue
		}
		fs = append(fs, c17Frag{typ, len(body), seq, prev, c - prev, body[prev:c]})
		prev = c
	}
	return fs
}

func runC17(p params) error {
	out := emit.New(p.out, "C17", "V.Corr.Run_C17", "case",
		"fragment sets / fragment streams / sender splits / PMTU pairs; non-trivial = at least two fragments (or a pair run); distinct by Coq term")
	if p.replay != "" {
		b, err := os.ReadFile(p.replay)
		if err != nil {
			return err
		}
		var rp struct {
			Cases []struct {
				Scenario string   `json:"scenario"`
				Input    c17Input `json:"input"`
			} `json:"cases"`
		}
		if err := json.Unmarshal(b, &rp); err != nil {
			return err
		}
		for _, c := range rp.Cases {
			c17AddCase(out, c.Scenario, c.Input)
		}
		return out.Finish()
	}
	r := rand.New(rand.NewPCG(p.seed, 0xC17))
	rb := func(n int) []byte {
		b := make([]byte, n)
		for i := range b {
			b[i] = byte(r.IntN(256))
		}
		return b
	}
	// ---- buf: exhaustive small (thorough) + random
	if p.tier == "thorough" {
		for total := 1; total <= 5; total++ {
			msg := rb(total)
			var pieces []c17Add
			for off := 0; off <= total; off++ {
				for l := 0; off+l <= total+1; l++ {
					fr := []byte{}
					if off+l <= total {
						fr = msg[off : off+l]
					} else {
						fr = rb(l)
					}
					pieces = append(pieces, c17Add{off, l, fr})
				}
			}
			// all ordered selections of up to 3 pieces
			for i := range pieces {
				c17AddCase(out, "buf-exhaustive", c17Input{Kind: "buf", Total: total, Msg: msg, Adds: []c17Add{pieces[i]}})
				for j := range pieces {
					c17AddCase(out, "buf-exhaustive", c17Input{Kind: "buf", Total: total, Msg: msg, Adds: []c17Add{pieces[i], pieces[j]}})
					if total <= 3 {
						for k := range pieces {
							c17AddCase(out, "buf-exhaustive", c17Input{Kind: "buf", Total: total, Msg: msg, Adds: []c17Add{pieces[i], pieces[j], pieces[k]}})
						}
					}
				}
			}
		}
		out.Extra["exhaustive"] = "every ordered selection of up to 2 (3 for total<=3) fragments (all offsets/lengths incl. out of range) for totals 1..5"
	}
	nBuf, nRecv, nSend := 120, 120, 100
	if p.tier == "thorough" {
		nBuf, nRecv, nSend = 1500, 1500, 1200
	}
	for i := 0; i < nBuf; i++ {
		total := []int{0, 1, 2, 7, 8, 9, 15, 16, 17, 23, 64, 100}[r.IntN(12)]
		if r.IntN(4) == 0 {
			total = 1 + r.IntN(300)
		}
		n := total
		if n < 1 {
			n = 1
		}
		msg := rb(n)
		var adds []c17Add
		k := 1 + r.IntN(8)
		for j := 0; j < k; j++ {
			off := r.IntN(n + 2)
			l := r.IntN(n + 2 - off + 1)
			if r.IntN(3) == 0 && off < n {
				l = n - off // to the end
			}
			var fr []byte
			if off+l <= n {
				fr = msg[off : off+l]
			} else {
				fr = rb(l)
			}
			adds = append(adds, c17Add{off, l, fr})
		}
		if r.IntN(3) == 0 { // make it complete
			cut := r.IntN(n + 1)
			adds = append(adds, c17Add{cut, n - cut, msg[cut:]}, c17Add{0, cut, msg[:cut]})
		}
		c17AddCase(out, "buf-random", c17Input{Kind: "buf", Total: total, Msg: msg, Adds: adds})
	}
	// ---- recv: fragment streams
	for i := 0; i < nRecv; i++ {
		var frags []c17Frag
		nmsg := 1 + r.IntN(3)
		calls := nmsg + r.IntN(2)
		var all [][]c17Frag
		for m := 0; m < nmsg; m++ {
			blen := []int{0, 1, 2, 9, 33, 120}[r.IntN(6)]
			body := rb(blen)
			var cuts []int
			if blen > 1 && r.IntN(4) > 0 {
				nc := 1 + r.IntN(4)
				for c := 0; c < nc; c++ {
					cuts = append(cuts, 1+r.IntN(blen-1))
				}
				// sort
				for a := range cuts {
					for b := a + 1; b < len(cuts); b++ {
						if cuts[b] < cuts[a] {
							cuts[a], cuts[b] = cuts[b], cuts[a]
						}
					}
				}
			}
			fs := c17Split(body, 16, m, cuts)
			if blen == 0 {
				fs = []c17Frag{{16, 0, m, 0, 0, nil}}
			}
			all = append(all, fs)
		}
		mode := r.IntN(6)
		for _, fs := range all {
			switch mode {
			case 0: // in order
			case 1: // reversed
				for a, b := 0, len(fs)-1; a < b; a, b = a+1, b-1 {
					fs[a], fs[b] = fs[b], fs[a]
				}
			case 2: // shuffled with duplicates
				r.Shuffle(len(fs), func(a, b int) { fs[a], fs[b] = fs[b], fs[a] })
				if len(fs) > 0 {
					fs = append([]c17Frag{fs[r.IntN(len(fs))]}, fs...)
				}
			case 3: // one fragment missing
				if len(fs) > 1 {
					k := r.IntN(len(fs))
					fs = append(fs[:k:k], fs[k+1:]...)
				}
			case 4: // overlapping extra fragment
				if len(fs) > 1 {
					f := fs[0]
					g := fs[1]
					ext := append(append([]byte(nil), f.Body...), g.Body...)
					fs = append([]c17Frag{{f.Type, f.BLen, f.Seq, f.Off, len(ext), ext}}, fs[1:]...)
				}
			case 5: // hostile: out-of-bounds / oversized
				f := c17Frag{16, 10, 7, 8, 5, rb(5)}
				switch r.IntN(6) {
				case 0:
					f = c17Frag{16, 70000, 7, 0, 3, rb(3)}
				case 1: // one byte beyond the announced length
					f = c17Frag{16, 10, 7, 8, 3, rb(3)}
				case 2: // offset 0, one byte longer than announced
					f = c17Frag{16, 10, 7, 0, 11, rb(11)}
				case 3: // exactly fits (legal)
					f = c17Frag{16, 10, 7, 8, 2, rb(2)}
				case 4: // a long announced length, one byte beyond
					f = c17Frag{16, 2000, 7, 1995, 6, rb(6)}
				}
				fs = append(fs, f)
			}
			frags = append(frags, fs...)
		}
		sc := []string{"recv-inorder", "recv-reversed", "recv-shuffled-dup", "recv-missing", "recv-overlap", "recv-hostile"}[mode]
		c17AddCase(out, sc, c17Input{Kind: "recv", Frags: frags, Calls: calls})
	}
	// a message covered by windows that overlap their neighbours (every fragment but the first starts inside what has
	// arrived and brings bytes that have not: a re-split after a path MTU change looks like this), in every order
	{
		for k, v := range [][3]int{{100, 40, 60}, {100, 50, 51}, {200, 7, 30}, {64, 1, 2}, {300, 90, 120}, {33, 16, 33}} {
			blen, step, width := v[0], v[1], v[2]
			body := rb(blen)
			var fs []c17Frag
			for off := 0; off < blen; off += step {
				l := width
				if off+l > blen {
					l = blen - off
				}
				fs = append(fs, c17Frag{16, blen, 2 + k, off, l, body[off : off+l]})
			}
			c17AddCase(out, "recv-overlapping-windows", c17Input{Kind: "recv", Frags: append([]c17Frag{}, fs...), Calls: 1})
			rev := append([]c17Frag{}, fs...)
			for a, b := 0, len(rev)-1; a < b; a, b = a+1, b-1 {
				rev[a], rev[b] = rev[b], rev[a]
			}
			c17AddCase(out, "recv-overlapping-windows", c17Input{Kind: "recv", Frags: rev, Calls: 1})
			sh := append([]c17Frag{}, fs...)
			r.Shuffle(len(sh), func(a, b int) { sh[a], sh[b] = sh[b], sh[a] })
			c17AddCase(out, "recv-overlapping-windows", c17Input{Kind: "recv", Frags: sh, Calls: 1})
		}
		// the re-split of the agent-independent textbook case: [0,30) [50,100) [0,50)
		body := rb(100)
		c17AddCase(out, "recv-overlapping-windows", c17Input{Kind: "recv", Calls: 1,
			Frags: []c17Frag{{16, 100, 9, 0, 30, body[:30]}, {16, 100, 9, 50, 50, body[50:]}, {16, 100, 9, 0, 50, body[:50]}}})
	}
	// the second half of a message arrives 1.3 s of wall-clock time after the first (a retransmitted flight brings it)
	{
		body := rb(200)
		frags := []c17Frag{{16, 200, 3, 0, 100, body[:100]}, {16, 200, 3, 100, 100, body[100:]}}
		c17AddCase(out, "recv-second-half-later", c17Input{Kind: "recv", Frags: frags, Calls: 1, GapAt: 1, GapMs: 1300})
		frags = []c17Frag{{16, 200, 2, 150, 50, body[150:]}, {16, 200, 2, 0, 80, body[:80]}, {16, 200, 2, 80, 70, body[80:150]}}
		c17AddCase(out, "recv-second-half-later", c17Input{Kind: "recv", Frags: frags, Calls: 1, GapAt: 2, GapMs: 1300})
	}
	// interleaved message_seq and the 256-iteration cap
	{
		var frags []c17Frag
		body := rb(300)
		for i := 0; i < 300; i++ {
			frags = append(frags, c17Frag{16, 300, 1, i, 1, body[i : i+1]})
		}
		c17AddCase(out, "recv-tiny-fragments", c17Input{Kind: "recv", Frags: frags, Calls: 1})
		c17AddCase(out, "recv-tiny-fragments", c17Input{Kind: "recv", Frags: frags[:255], Calls: 1})
		var many []c17Frag
		for i := 0; i < 40; i++ {
			many = append(many, c17Frag{16, 50, i, 0, 10, rb(10)})
		}
		c17AddCase(out, "recv-many-seqs", c17Input{Kind: "recv", Frags: many, Calls: 1})
		// one tiny fragment per message_seq, each announcing a large message: the read loop must give up
		// after its fixed number of iterations however the fragments are spread over message_seq values
		var flood []c17Frag
		for i := 0; i < 300; i++ {
			flood = append(flood, c17Frag{16, 200, i, i % 7, 1, rb(1)})
		}
		c17AddCase(out, "recv-seq-flood", c17Input{Kind: "recv", Frags: flood, Calls: 1})
		c17AddCase(out, "recv-seq-flood", c17Input{Kind: "recv", Frags: flood[:256], Calls: 1})
		c17AddCase(out, "recv-seq-flood", c17Input{Kind: "recv", Frags: flood[:257], Calls: 2})
	}
	// ---- send
	for i := 0; i < nSend; i++ {
		pmtu := []int{-1, 26, 27, 38, 40, 64, 100, 200, 20, 576}[r.IntN(10)]
		blen := []int{0, 1, 13, 14, 15, 50, 75, 76, 200, 563, 564}[r.IntN(11)]
		if r.IntN(3) == 0 {
			blen = r.IntN(300)
		}
		if i%25 == 0 { // the default PMTU boundary (1400 - 13 - 12 = 1375)
			pmtu = []int{0, 1400, 3000}[r.IntN(3)]
			blen = []int{1375, 1376, 2000}[r.IntN(3)]
		}
		c17AddCase(out, "send", c17Input{Kind: "send", PMTU: pmtu, Type: 16, Seq: r.IntN(5), Body: rb(blen)})
	}
	// ---- pairs
	pm := []int{100, 137, 256, 577, 1400}
	if p.tier == "thorough" {
		pm = nil
		for v := 90; v <= 1500; v += 47 {
			pm = append(pm, v)
		}
	}
	suites := []uint16{0xe053, 0xe013}
	for _, su := range suites {
		for _, a := range pm {
			for _, b := range pm {
				if p.tier != "thorough" && r.IntN(2) == 0 {
					continue
				}
				c17AddCase(out, "pair", c17Input{Kind: "pair", CP: a, SP: b, Suite: su, Auth: 4 * r.IntN(2)})
			}
		}
	}
	return out.Finish()
}

func init() { register("C17", runC17) }
