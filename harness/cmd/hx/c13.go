package main

// C13: concurrent use of a connection is race-free, deadlock-free, keeps writes whole.
//
// Two kinds of cases go to Coq (Corr/Run_C13.v):
//
//   - stress observations.  The goroutines run in a separate binary built with -race
//     (cmd/hxrace, next to this executable); one child = one (scenario, stack, suite,
//     GOMAXPROCS, seed, yield level).  Every run of a child yields a CStream case (payload tags,
//     the plaintext the peer received, the result of every Handshake caller, goroutines stuck
//     after Close, the dtlcp interlock word after Close); every distinct report of the race
//     detector yields a CRace case whose scenario is the pair of racing call sites; a child
//     that dies (fatal error: concurrent map writes ...) or hangs is a direct violation.
//   - one CField case per field of the tracked structs (names obtained by reflection): Coq
//     answers from the skeleton generated from the Go sources whether some pair of
//     conflicting accesses to that field holds no common mutex.
//
// Transport: tlcp over the in-memory stream of tk (StreamPair) wrapped by a yield injector;
// dtlcp over real UDP sockets on 127.0.0.1 (works offline) with a 100 ms initial
// retransmission timeout — the virtual-time network of tk acts only at quiescence, which
// free-running goroutines never reach deterministically.

import (
	"bufio"
	"bytes"
	"context"
	"encoding/json"
	"fmt"
	"math/rand/v2"
	"os"
	"os/exec"
	"path/filepath"
	"reflect"
	"regexp"
	"sort"
	"strings"
	"sync"
	"time"

	"gitee.com/Trisia/gotlcp/dtlcp"
	"gitee.com/Trisia/gotlcp/pa"
	"gitee.com/Trisia/gotlcp/tlcp"
	"verifharness/internal/emit"
)

type c13Input struct {
	Kind     string `json:"kind"` // "stress" | "field"
	Scenario string `json:"scenario,omitempty"`
	Stack    string `json:"stack,omitempty"`
	Suite    uint16 `json:"suite,omitempty"`
	Procs    int    `json:"procs,omitempty"`
	Seed     uint64 `json:"seed,omitempty"`
	Runs     int    `json:"runs,omitempty"`
	Yield    int    `json:"yield,omitempty"`
	Run      int    `json:"run,omitempty"` // which run of the child this case is (informative)
	Pkg      string `json:"pkg,omitempty"`
	Own      string `json:"own,omitempty"`
	Field    string `json:"field,omitempty"`
}

type c13Run struct {
	Scenario string   `json:"scenario"`
	Stack    string   `json:"stack"`
	Seed     uint64   `json:"seed"`
	Procs    int      `json:"procs"`
	Run      int      `json:"run"`
	Tags     [][2]int `json:"tags"`
	Stream   []byte   `json:"stream"`
	Tail     bool     `json:"tail"`
	Sub      bool     `json:"sub"`
	HsCli    []string `json:"hs_cli"`
	HsSrv    []string `json:"hs_srv"`
	Stuck    int      `json:"stuck"`
	Active   int      `json:"active"`
	BadWrite int      `json:"bad_write"`
	Panic    string   `json:"panic,omitempty"`
	Note     string   `json:"note,omitempty"`
	Skip     bool     `json:"skip,omitempty"`
	Stalled  bool     `json:"stalled,omitempty"`
}

type c13Child struct {
	in     c13Input
	runs   []c13Run
	races  map[string]string // signature -> first report text
	rc     int
	killed bool
	stderr string
	wall   time.Duration
}

func c13RaceBinary() string {
	if p := os.Getenv("VERIF_HXRACE"); p != "" {
		return p
	}
	exe, err := os.Executable()
	if err != nil {
		return "hxrace"
	}
	return filepath.Join(filepath.Dir(exe), "hxrace")
}

var c13FrameRe = regexp.MustCompile(`^  (gitee\.com/Trisia/gotlcp/\S+)\(`)
var c13AnyFrameRe = regexp.MustCompile(`^  (\S+)\(`)

// c13Signature: for both stacks of a report the innermost library frames up to and including
// the first method frame; the two sides sorted.
func c13Signature(report string) string {
	var sides []string
	var cur []string
	first := "" // innermost frame of any package, used when the stack has no library frame
	open, done := false, false
	flush := func() {
		if open {
			switch {
			case len(cur) > 0:
				sides = append(sides, strings.Join(cur, "<"))
			case first != "":
				sides = append(sides, first)
			}
		}
		cur, first, done, open = nil, "", false, false
	}
	for _, ln := range strings.Split(report, "\n") {
		if strings.HasPrefix(ln, "Read at") || strings.HasPrefix(ln, "Write at") || strings.HasPrefix(ln, "Previous ") ||
			strings.HasPrefix(ln, "Atomic ") {
			flush()
			open = true
			continue
		}
		if strings.HasPrefix(ln, "Goroutine ") {
			flush() // creation stacks are not part of the signature
			continue
		}
		if !open || done || len(cur) >= 6 {
			continue
		}
		if m := c13FrameRe.FindStringSubmatch(ln); m != nil {
			f := strings.TrimPrefix(m[1], "gitee.com/Trisia/gotlcp/")
			cur = append(cur, f)
			if strings.Contains(f, "(*") {
				done = true
			}
		} else if m := c13AnyFrameRe.FindStringSubmatch(ln); m != nil && first == "" {
			first = m[1]
		}
	}
	flush()
	if len(sides) > 2 {
		sides = sides[:2]
	}
	sort.Strings(sides)
	return strings.Join(sides, "~")
}

func c13SplitReports(stderr string) []string {
	var out []string
	parts := strings.Split(stderr, "WARNING: DATA RACE")
	for _, p := range parts[1:] {
		if i := strings.Index(p, "=================="); i >= 0 {
			p = p[:i]
		}
		out = append(out, p)
	}
	return out
}

func c13RunChild(in c13Input, timeout time.Duration) *c13Child {
	ch := &c13Child{in: in, races: map[string]string{}}
	ctx, cancel := context.WithTimeout(context.Background(), timeout)
	defer cancel()
	cmd := exec.CommandContext(ctx, c13RaceBinary(),
		"-scenario", in.Scenario, "-stack", in.Stack, "-suite", fmt.Sprint(in.Suite), "-procs", fmt.Sprint(in.Procs),
		"-seed", fmt.Sprint(in.Seed), "-runs", fmt.Sprint(in.Runs), "-yield", fmt.Sprint(in.Yield))
	cmd.Env = append(os.Environ(), "GORACE=halt_on_error=0 exitcode=66 history_size=3")
	var so, se bytes.Buffer
	cmd.Stdout, cmd.Stderr = &so, &se
	t0 := time.Now()
	err := cmd.Run()
	ch.wall = time.Since(t0)
	if ctx.Err() != nil {
		ch.killed = true
	}
	if err != nil {
		if ee, ok := err.(*exec.ExitError); ok {
			ch.rc = ee.ExitCode()
		} else {
			ch.rc = -1
		}
	}
	ch.stderr = se.String()
	sc := bufio.NewScanner(&so)
	sc.Buffer(make([]byte, 1<<20), 1<<26)
	for sc.Scan() {
		var r c13Run
		if json.Unmarshal(sc.Bytes(), &r) == nil {
			ch.runs = append(ch.runs, r)
		}
	}
	for _, rep := range c13SplitReports(ch.stderr) {
		sig := c13Signature(rep)
		if sig == "" {
			sig = "unattributed"
		}
		if _, ok := ch.races[sig]; !ok {
			if len(rep) > 3000 {
				rep = rep[:3000]
			}
			ch.races[sig] = rep
		}
	}
	return ch
}

var c13ClassCodes = map[string]int{"ok": 0}

func c13HsCodes(v []string) string {
	var xs []string
	for _, s := range v {
		c, ok := c13ClassCodes[s]
		if !ok {
			c = len(c13ClassCodes)
			c13ClassCodes[s] = c
		}
		xs = append(xs, fmt.Sprint(c))
	}
	return "[" + strings.Join(xs, ";") + "]"
}

func c13CoqStream(r c13Run) string {
	var tg []string
	for _, t := range r.Tags {
		tg = append(tg, fmt.Sprintf("(%d,%d)", t[0], t[1]))
	}
	// a stream far longer than everything that was written is a violation whatever follows:
	// keep the Coq literal bounded
	limit := 4096
	for _, t := range r.Tags {
		limit += 5 + t[1]
	}
	if len(r.Stream) > limit {
		r.Stream = r.Stream[:limit]
	}
	active := 9999
	if r.Active >= 0 {
		active = r.Active
	}
	return fmt.Sprintf("CStream %s %s [%s] %s %s %s %d %d %d %s %s", emit.Bool(r.Tail), emit.Bool(r.Sub), strings.Join(tg, ";"),
		emit.Bytes(r.Stream), c13HsCodes(r.HsCli), c13HsCodes(r.HsSrv), r.Stuck, active, r.BadWrite, emit.Bool(r.Panic != ""), emit.Bool(r.Stalled))
}

func c13AddChild(out *emit.Out, mu *sync.Mutex, ch *c13Child) {
	mu.Lock()
	defer mu.Unlock()
	in := ch.in
	scen := in.Scenario + "/" + in.Stack
	for _, r := range ch.runs {
		if r.Skip {
			// the sequential handshake before the concurrent part failed (datagram retransmission
			// findings under load): counted, not judged
			out.Count("inconclusive/" + in.Stack)
			n, _ := out.Extra["inconclusive_runs"].(int)
			out.Extra["inconclusive_runs"] = n + 1
			continue
		}
		ci := in
		ci.Run = r.Run
		obs := map[string]interface{}{"tags": r.Tags, "stream_len": len(r.Stream), "hs_cli": r.HsCli, "hs_srv": r.HsSrv,
			"stuck": r.Stuck, "active": r.Active, "bad_write": r.BadWrite, "panic": r.Panic, "note": r.Note, "tail": r.Tail, "stalled": r.Stalled}
		out.Add(emit.Case{Scenario: scen, Trivial: len(r.Tags) < 2 && in.Scenario != "close-handshake" && in.Scenario != "close-blocked" && in.Scenario != "deadline-wakes" && in.Scenario != "short-reads" && in.Scenario != "hs-timeout" && in.Scenario != "accessors" && in.Scenario != "cache" && in.Scenario != "deadlines",
			Input: ci, Observed: obs, Coq: c13CoqStream(r)})
	}
	var sigs []string
	for s := range ch.races {
		sigs = append(sigs, s)
	}
	sort.Strings(sigs)
	for _, s := range sigs {
		out.Add(emit.Case{Scenario: "race/" + s, Input: in, Observed: map[string]interface{}{"report": ch.races[s], "child": scen}, Coq: "CRace"})
		out.Count("races-reported")
	}
	if ch.killed || (ch.rc != 0 && ch.rc != 66) || len(ch.runs) < in.Runs {
		what := "crash"
		if ch.killed {
			what = "hang"
		}
		tail := ch.stderr
		if i := strings.Index(tail, "fatal error"); i >= 0 {
			tail = tail[i:]
		} else if i := strings.Index(tail, "panic:"); i >= 0 {
			tail = tail[i:]
		}
		if len(tail) > 2500 {
			tail = tail[:2500]
		}
		out.Add(emit.Case{Scenario: scen, Input: in, Observed: map[string]interface{}{"rc": ch.rc, "runs_completed": len(ch.runs), "stderr": tail},
			Direct: what})
	}
}

// ---- static cases: one per field of the tracked structs

func c13Fields(out *emit.Out) {
	add := func(pkg, own, ownCoq string, t reflect.Type) {
		for i := 0; i < t.NumField(); i++ {
			f := t.Field(i).Name
			out.Add(emit.Case{Scenario: "lockset/" + pkg + "/" + own + "." + f, Trivial: false,
				Input:    c13Input{Kind: "field", Pkg: pkg, Own: ownCoq, Field: f},
				Observed: map[string]interface{}{"field": f, "type": t.Field(i).Type.String()},
				Coq:      fmt.Sprintf("CField \"%s\" %s \"%s\"", pkg, ownCoq, f)})
		}
	}
	tc := reflect.TypeOf(tlcp.Conn{})
	add("tlcp", "Conn", "OConn", tc)
	if f, ok := tc.FieldByName("in"); ok {
		add("tlcp", "in", "OIn", f.Type)
		add("tlcp", "out", "OOut", f.Type)
	}
	add("tlcp", "lruSessionCache", "OCache", reflect.TypeOf(tlcp.NewLRUSessionCache(1)).Elem())
	dc := reflect.TypeOf(dtlcp.Conn{})
	add("dtlcp", "Conn", "OConn", dc)
	if f, ok := dc.FieldByName("in"); ok {
		add("dtlcp", "in", "OIn", f.Type)
		add("dtlcp", "out", "OOut", f.Type)
	}
	add("pa", "ProtocolSwitchServerConn", "OPa", reflect.TypeOf(pa.ProtocolSwitchServerConn{}))
}

func runC13(p params) error {
	out := emit.New(p.out, "C13", "V.Corr.Run_C13", "case",
		"stress runs of goroutines on one connection under the race detector (writers / first use / readers / Close racing Write and Read / Close racing the handshake / accessors / pa / session cache; tlcp and dtlcp; GOMAXPROCS 1..16; seeds; injected yields) + one lockset query per struct field against the skeleton generated from the sources; non-trivial stress run = at least two payloads")
	out.Scope = "N_scope"
	if _, err := os.Stat(c13RaceBinary()); err != nil {
		return fmt.Errorf("race-instrumented binary %s missing (bin/check builds it with go build -race ./cmd/hxrace)", c13RaceBinary())
	}
	var plan []c13Input
	if p.replay != "" {
		b, err := os.ReadFile(p.replay)
		if err != nil {
			return err
		}
		var rp struct {
			Cases []struct {
				Input c13Input `json:"input"`
			} `json:"cases"`
		}
		if err := json.Unmarshal(b, &rp); err != nil {
			return err
		}
		seen := map[string]bool{}
		fields := false
		for _, c := range rp.Cases {
			if c.Input.Kind == "field" {
				fields = true
				continue
			}
			in := c.Input
			in.Run = 0
			k := fmt.Sprint(in)
			if !seen[k] {
				seen[k] = true
				plan = append(plan, in)
			}
		}
		if fields {
			c13Fields(out)
		}
	} else {
		c13Fields(out)
		r := rand.New(rand.NewPCG(p.seed, 0xC13))
		suites := []uint16{0xe013, 0xe053}
		mk := func(sc, st string, procs, runs int) {
			plan = append(plan, c13Input{Kind: "stress", Scenario: sc, Stack: st, Suite: suites[r.IntN(2)], Procs: procs,
				Seed: r.Uint64() % 1000000, Runs: runs, Yield: 1 + r.IntN(3)})
		}
		rounds := 1
		procs := map[string][]int{"writers": {1, 2, 4, 8}, "first-use": {1, 2, 4, 16}, "readers": {1, 4, 8}, "close-race": {1, 2, 8}}
		if p.tier == "thorough" {
			rounds = 8
			procs = map[string][]int{"writers": {1, 2, 3, 4, 8, 16}, "first-use": {1, 2, 3, 4, 8, 16}, "readers": {1, 2, 4, 8, 16}, "close-race": {1, 2, 4, 8, 16}}
		}
		for round := 0; round < rounds; round++ {
			for _, st := range []string{"tlcp", "dtlcp"} {
				for _, sc := range []string{"writers", "first-use", "readers", "close-race"} {
					for _, pr := range procs[sc] {
						n := 2
						if sc == "close-race" {
							n = 3
						}
						mk(sc, st, pr, n)
					}
				}
				mk("close-handshake", st, 4, 5)
				if st == "dtlcp" {
					mk("short-reads", st, 2, 3)
					mk("short-reads", st, 8, 3)
				}
				if st == "tlcp" {
					mk("hs-timeout", st, 4, 4)
					mk("deadline-wakes", st, 2, 3)
					mk("deadline-wakes", st, 8, 3)
				}
				mk("close-blocked", st, 2, 3)
				mk("close-blocked", st, 8, 3)
				mk("accessors", st, 4, 1)
				mk("deadlines", st, 4, 1)
				mk("cache", st, 1, 1)
				mk("cache", st, 8, 2)
			}
			mk("pa", "tlcp", 2, 2)
			mk("pa", "tlcp", 8, 2)
		}
	}
	// run the children, a few at a time
	var mu sync.Mutex
	var wg sync.WaitGroup
	sem := make(chan struct{}, 6)
	results := make([]*c13Child, len(plan))
	t0 := time.Now()
	for i, in := range plan {
		wg.Add(1)
		sem <- struct{}{}
		go func(i int, in c13Input) {
			defer wg.Done()
			defer func() { <-sem }()
			results[i] = c13RunChild(in, 120*time.Second)
		}(i, in)
	}
	wg.Wait()
	var cpu time.Duration
	for _, ch := range results {
		c13AddChild(out, &mu, ch)
		cpu += ch.wall
	}
	out.Extra["children"] = len(plan)
	out.Extra["stress_wall_s"] = time.Since(t0).Seconds()
	out.Extra["children_wall_sum_s"] = cpu.Seconds()
	out.Extra["transport"] = "tlcp: tk.StreamPair + yield injector; dtlcp: UDP 127.0.0.1, 100 ms initial retransmission timeout"
	codes := map[string]int{}
	for k, v := range c13ClassCodes {
		codes[k] = v
	}
	out.Extra["handshake_result_codes"] = codes
	return out.Finish()
}

func init() { register("C13", runC13) }
