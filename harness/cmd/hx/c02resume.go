package main

import (
	"fmt"

	"verifharness/internal/emit"
	"verifharness/internal/puppet"
	"verifharness/internal/tk"
)

// c02Resume: a session is created by a NON-verifying configuration against a puppet server
// presenting `Chain`; then a VERIFYING configuration sharing the cache (same destination)
// connects and the puppet tries to resume.  Oracle: do the recorded certificates pass under the
// verifying configuration?
func c02Resume(out *emit.Out, in c02Input) {
	reg := tk.NewRegistry()
	chain, sig, enc := c02Chain(in.Chain)
	var sid, master []byte
	offered := false
	run := func(insecure bool, resume bool) puppet.TargetOutcome {
		cc := tk.EPConfig{Suites: []uint16{in.Suite}, Ident: "cli", ServerName: "server.test", Insecure: insecure, Cache: "shared"}
		if in.PtrCache {
			cc.Cache = "ptr:shared"
		}
		if resume {
			cc.TimeShiftYears = in.TimeShift
			cc.Roots = in.Roots2
			if in.Name != "" {
				cc.ServerName = in.Name
			}
		}
		script := func(p *puppet.Peer) {
			p.Sig, p.Enc = sig, enc
			p.Absorb(5)
			if p.DTLS && p.PeerHello != nil && len(p.PeerHello.Cookie) == 0 {
				p.SendHelloVerify([]byte("cookie-cookie-cookie-cookie-0123"))
				p.Absorb(30000)
			}
			if resume && p.PeerHello != nil && string(p.PeerHello.SID) == string(sid) && len(sid) > 0 {
				offered = true
				p.ForceMaster = master
				if in.ZeroMaster {
					p.ForceMaster = make([]byte, 48)
				}
				p.SendServerHello(puppet.SHOpt{Suite: in.Suite, SID: sid})
				p.SendCCS()
				p.SendFinished("ok")
				p.Absorb(5)
			} else {
				p.SendServerHello(puppet.SHOpt{Suite: in.Suite})
				p.SendCertificate(chain)
				p.SendServerKeyExchange(puppet.SKXOpt{Mode: "ok", EncCertDER: chain[1]})
				if puppet.IsECDHE(in.Suite) {
					p.SendCertRequest(nil)
				}
				p.SendServerHelloDone()
				p.Absorb(5)
				if p.L.TargetDone() {
					return
				}
				p.SendCCS()
				p.SendFinished("ok")
				p.Absorb(5)
				sid, master = p.SID, p.Master
			}
			if !p.L.TargetDone() {
				p.SendApp([]byte("secret application data"))
				p.Absorb(5)
			}
		}
		if in.Stack == "dtlcp" {
			cc.PMTU, cc.RetransMs, cc.MaxRetransMs = 16000, 10000, 60000
			_, o := puppet.RunDTLCP(tk.BuildDTLCP(cc, reg), true, script)
			return o
		}
		s := puppet.NewTLCPSession(tk.BuildTLCP(cc, reg), true)
		script(s.P)
		return s.Finish()
	}
	first := run(!in.FirstVerifies, false)
	if !first.Res.Complete {
		out.Add(emit.Case{Scenario: "resume-cross-config/" + in.Stack, Input: in, Direct: "setup handshake failed: " + first.Res.ErrText})
		return
	}
	second := run(false, true)
	sessOK := c02VerifyRoots(chain[0], in.TimeShift, 0, in.Name, in.Roots2) && c02VerifyRoots(chain[1], in.TimeShift, 0, in.Name, in.Roots2)
	acc := second.Res.Complete && second.Res.Err == ""
	direct := ""
	if second.Panic != "" {
		direct = "panic: " + second.Panic
	}
	out.Add(emit.Case{Scenario: "resume-cross-config/" + in.Stack, Input: in, Direct: direct,
		Observed: map[string]interface{}{"session_offered": offered, "accepted": acc, "resumed": second.Res.Resumed, "delivered": len(second.Read) > 0},
		Coq:      fmt.Sprintf("ResumeCase false (mkRV %s %s %s) %s %s %s %s", emit.Bool(sessOK), emit.Bool(offered), emit.Bool(!in.ZeroMaster), emit.Bool(offered), emit.Bool(acc), emit.Bool(second.Res.Resumed), emit.Bool(len(second.Read) > 0))})
}
