package main

// Concurrent part of C11: "concurrent use is equivalent to some sequential order".
//  (A) small rounds: three goroutines perform three operations each on a fresh cache; every call is
//      stamped from one atomic counter before and after; Coq searches for a linearization (an order
//      that respects "ended before the other started" and gives the model's results).
//  (B) stress: four goroutines hammer one small cache; Coq checks the necessary condition that every
//      session a Get returned is intact and was stored under that key at some time.

import (
	"encoding/json"
	"fmt"
	"math/rand/v2"
	"sort"
	"strings"
	"sync"
	"sync/atomic"
	"time"

	"gitee.com/Trisia/gotlcp/dtlcp"
	"gitee.com/Trisia/gotlcp/tlcp"
	"verifharness/internal/emit"
)

type c11COp struct {
	G     int    `json:"g"`
	Kind  string `json:"kind"` // put | del | get
	Key   int    `json:"key"`
	Val   uint64 `json:"val,omitempty"`
	Start uint64 `json:"start"`
	End   uint64 `json:"end"`
	Hit   bool   `json:"hit"`
	Got   uint64 `json:"got,omitempty"`
}

type c11Cache struct {
	put func(k string, v uint64)
	del func(k string)
	get func(k string) (hit bool, v uint64)
}

func c11NewCache(stack string, capacity int) c11Cache {
	decode := func(id, master []byte, isNil, ok bool) (bool, uint64) {
		switch {
		case !ok && isNil:
			return false, 0
		case !ok:
			return true, c11BadID
		case isNil:
			return true, c11NilOK
		}
		n, good := idFromBytes(id)
		if !good {
			return true, c11BadID
		}
		if string(master) != string(masterFor(n)) {
			return true, n + c11Corrupt
		}
		return true, n
	}
	if stack == "tlcp" {
		c := tlcp.NewLRUSessionCache(capacity)
		return c11Cache{
			put: func(k string, v uint64) { c.Put(k, tlcp.VerifNewSession(idBytes(v), masterFor(v), 0x0101, 0xe013)) },
			del: func(k string) { c.Put(k, nil) },
			get: func(k string) (bool, uint64) {
				s, ok := c.Get(k)
				if s == nil {
					return decode(nil, nil, true, ok)
				}
				return decode(s.VerifSessionID(), s.VerifMaster(), false, ok)
			}}
	}
	c := dtlcp.NewLRUSessionCache(capacity)
	return c11Cache{
		put: func(k string, v uint64) { c.Put(k, dtlcp.VerifNewSession(idBytes(v), masterFor(v), 0x0101, 0xe013)) },
		del: func(k string) { c.Put(k, nil) },
		get: func(k string) (bool, uint64) {
			s, ok := c.Get(k)
			if s == nil {
				return decode(nil, nil, true, ok)
			}
			return decode(s.VerifSessionID(), s.VerifMaster(), false, ok)
		}}
}

type c11ConcInput struct {
	Stack string   `json:"stack"`
	Cap   int      `json:"cap"`
	Ops   []c11COp `json:"ops"` // as executed (a replay re-runs the same programs; the interleaving is the scheduler's)
}

func c11ConcRound(stack string, capacity int, progs [][]c11COp) []c11COp {
	cache := c11NewCache(stack, capacity)
	var clock atomic.Uint64
	var wg sync.WaitGroup
	var gate sync.WaitGroup
	gate.Add(1)
	out := make([][]c11COp, len(progs))
	for g := range progs {
		wg.Add(1)
		go func(g int) {
			defer wg.Done()
			gate.Wait()
			for _, o := range progs[g] {
				o.G = g
				o.Start = clock.Add(1)
				switch o.Kind {
				case "put":
					cache.put(keyName(o.Key), o.Val)
				case "del":
					cache.del(keyName(o.Key))
				default:
					o.Hit, o.Got = cache.get(keyName(o.Key))
				}
				o.End = clock.Add(1)
				out[g] = append(out[g], o)
			}
		}(g)
	}
	gate.Done()
	wg.Wait()
	var all []c11COp
	for _, l := range out {
		all = append(all, l...)
	}
	sort.Slice(all, func(i, j int) bool { return all[i].Start < all[j].Start })
	return all
}

func c11ConcCoq(capacity int, ops []c11COp) string {
	var xs []string
	for _, o := range ops {
		var op, res string
		switch o.Kind {
		case "put":
			op = fmt.Sprintf("Put %d %d", o.Key, o.Val)
		case "del":
			op = fmt.Sprintf("Del %d", o.Key)
		default:
			op = fmt.Sprintf("Get %d", o.Key)
		}
		res = "None"
		if o.Hit {
			res = fmt.Sprintf("(Some %d)", o.Got)
		}
		xs = append(xs, fmt.Sprintf("mkCop (%s) %s %d %d", op, res, o.Start, o.End))
	}
	if capacity < 0 {
		capacity = 0
	}
	return fmt.Sprintf("ConcCase %d%%nat [%s]", capacity, strings.Join(xs, "; "))
}

func c11ConcPrograms(r *rand.Rand, next *uint64) [][]c11COp {
	progs := make([][]c11COp, 3)
	for g := range progs {
		for i := 0; i < 3; i++ {
			k := 1 + r.IntN(3)
			switch x := r.IntN(10); {
			case x < 4:
				*next++
				progs[g] = append(progs[g], c11COp{Kind: "put", Key: k, Val: *next})
			case x < 5:
				progs[g] = append(progs[g], c11COp{Kind: "del", Key: k})
			case x < 6:
				progs[g] = append(progs[g], c11COp{Kind: "get", Key: 0})
			default:
				progs[g] = append(progs[g], c11COp{Kind: "get", Key: k})
			}
		}
	}
	return progs
}

type c11StressInput struct {
	Stack string `json:"stack"`
	Cap   int    `json:"cap"`
	Ops   int    `json:"ops_per_goroutine"`
	Seed  uint64 `json:"seed"`
}

// c11Stress: puts[(k,v)] every pair ever stored; gets[(k,v)] every distinct hit.
func c11Stress(in c11StressInput) (puts, gets [][2]uint64) {
	cache := c11NewCache(in.Stack, in.Cap)
	const G = 4
	var wg sync.WaitGroup
	var next atomic.Uint64
	putSets := make([]map[[2]uint64]bool, G)
	getSets := make([]map[[2]uint64]bool, G)
	for g := 0; g < G; g++ {
		putSets[g], getSets[g] = map[[2]uint64]bool{}, map[[2]uint64]bool{}
		wg.Add(1)
		go func(g int) {
			defer wg.Done()
			r := rand.New(rand.NewPCG(in.Seed, uint64(g)))
			for i := 0; i < in.Ops; i++ {
				k := 1 + r.IntN(4)
				switch x := r.IntN(10); {
				case x < 5:
					v := next.Add(1)%40 + 1 // few values: the same pair is stored again and again
					putSets[g][[2]uint64{uint64(k), v}] = true
					cache.put(keyName(k), v)
				case x < 6:
					cache.del(keyName(k))
				default:
					if r.IntN(8) == 0 {
						k = 0
					}
					if hit, v := cache.get(keyName(k)); hit {
						getSets[g][[2]uint64{uint64(k), v}] = true
					}
				}
			}
		}(g)
	}
	wg.Wait()
	merge := func(sets []map[[2]uint64]bool) [][2]uint64 {
		m := map[[2]uint64]bool{}
		for _, s := range sets {
			for p := range s {
				m[p] = true
			}
		}
		var l [][2]uint64
		for p := range m {
			l = append(l, p)
		}
		sort.Slice(l, func(i, j int) bool { return l[i][0] < l[j][0] || l[i][0] == l[j][0] && l[i][1] < l[j][1] })
		return l
	}
	return merge(putSets), merge(getSets)
}

func c11PairList(l [][2]uint64) string {
	var xs []string
	for _, p := range l {
		xs = append(xs, fmt.Sprintf("(%d, %d)", p[0], p[1]))
	}
	return "[" + strings.Join(xs, "; ") + "]"
}

func c11ConcGen(out *emit.Out, p params, r *rand.Rand) {
	rounds, stress := 400, 6
	if p.tier == "thorough" {
		rounds, stress = 1500, 40
	}
	for i := 0; i < rounds; i++ {
		var next uint64
		st := []string{"tlcp", "dtlcp"}[i%2]
		capacity := 1 + r.IntN(3)
		progs := c11ConcPrograms(r, &next)
		if c11Hung {
			break
		}
		var ops []c11COp
		if !c11Guard(20*time.Second, func() { ops = c11ConcRound(st, capacity, progs) }) {
			c11Hung = true
			var flat []c11COp
			for g, pr := range progs {
				for _, o := range pr {
					o.G = g
					flat = append(flat, o)
				}
			}
			out.Add(emit.Case{Scenario: "concurrent-small/" + st, Input: c11ConcInput{st, capacity, flat}, Observed: "an operation never returned", Direct: "hang", Coq: c11ConcCoq(capacity, nil)})
			continue
		}
		out.Add(emit.Case{Scenario: "concurrent-small/" + st, Input: c11ConcInput{st, capacity, ops}, Observed: ops, Coq: c11ConcCoq(capacity, ops)})
	}
	for i := 0; i < stress; i++ {
		in := c11StressInput{Stack: []string{"tlcp", "dtlcp"}[i%2], Cap: 1 + i%3, Ops: 30000, Seed: r.Uint64()}
		var puts, gets [][2]uint64
		if c11Hung {
			break
		}
		if !c11Guard(60*time.Second, func() { puts, gets = c11Stress(in) }) {
			c11Hung = true
			out.Add(emit.Case{Scenario: "concurrent-stress/" + in.Stack, Input: in, Observed: "an operation never returned", Direct: "hang", Coq: "StressCase [] []"})
			continue
		}
		out.Add(emit.Case{Scenario: "concurrent-stress/" + in.Stack, Input: in, Observed: map[string]interface{}{"distinct_puts": len(puts), "distinct_hits": len(gets)},
			Coq: fmt.Sprintf("StressCase %s %s", c11PairList(puts), c11PairList(gets))})
	}
}

// replay: the programs of a small round are re-run many times (the interleaving that failed is up
// to the scheduler); a stress case is re-run with its seed.
func c11ConcReplay(out *emit.Out, scenario string, raw []byte) {
	if strings.HasPrefix(scenario, "concurrent-stress") {
		var in c11StressInput
		if json.Unmarshal(raw, &in) != nil {
			return
		}
		puts, gets := c11Stress(in)
		out.Add(emit.Case{Scenario: "concurrent-stress/" + in.Stack, Input: in, Observed: map[string]interface{}{"distinct_puts": len(puts), "distinct_hits": len(gets)},
			Coq: fmt.Sprintf("StressCase %s %s", c11PairList(puts), c11PairList(gets))})
		return
	}
	var in c11ConcInput
	if json.Unmarshal(raw, &in) != nil {
		return
	}
	progs := make([][]c11COp, 3)
	for _, o := range in.Ops {
		if o.G >= 0 && o.G < 3 {
			progs[o.G] = append(progs[o.G], c11COp{Kind: o.Kind, Key: o.Key, Val: o.Val})
		}
	}
	for i := 0; i < 200; i++ {
		ops := c11ConcRound(in.Stack, in.Cap, progs)
		out.Add(emit.Case{Scenario: "concurrent-small/" + in.Stack, Input: c11ConcInput{in.Stack, in.Cap, ops}, Observed: ops, Coq: c11ConcCoq(in.Cap, ops)})
	}
}
