package main

// Connection-level part of C16: an established DTLCP connection is fed a scripted history of
// datagrams: genuine application records of the peer (captured from the real client, delivered in
// any order, any number of times) interleaved with datagrams that are not genuine (bit flips at any
// position of a genuine record incl. its header, truncations, random bytes, records of the
// handshake epoch).  After every arrival the harness notes what the receiving application got
// from Read (or ReadFrom).

import (
	"encoding/json"
	"fmt"
	"math/rand/v2"
	"strings"
	"time"

	"gitee.com/Trisia/gotlcp/dtlcp"
	"verifharness/internal/emit"
	"verifharness/internal/tk"
)

type c16Item struct {
	Kind string `json:"kind"` // gen | packed (a forged record and the genuine one in one datagram) | flip | trunc | junk | old | short (a forged record of the current epoch whose body has Len (0..15) bytes)
	I    int    `json:"i"`    // which written record (gen, flip, trunc)
	Pos  int    `json:"pos,omitempty"`
	Mask byte   `json:"mask,omitempty"`
	Len  int    `json:"len,omitempty"`
}

type c16ConnInput struct {
	Suite    uint16    `json:"suite"`
	Window   int       `json:"window"`
	ReadFrom bool      `json:"read_from"`
	N        int       `json:"n"` // records written by the peer
	Items    []c16Item `json:"items"`
	JunkSeed uint64    `json:"junk_seed"`
	SeqBase  uint64    `json:"seq_base,omitempty"` // the peer's record sequence number is moved here before it writes (large numbers)
	// PerClient: the window size comes from the configuration GetConfigForClient returns for this client; the listener-wide
	// configuration says 32
	PerClient bool `json:"per_client,omitempty"`
	// Tail: the application takes the first two bytes of a record with a short Read, then calls ReadFrom and Read in
	// turn: the rest of that record must come out unchanged whatever arrives (and is fetched) in between
	Tail bool `json:"tail,omitempty"`
	// Big: the peer is configured with a path MTU of 4000 and writes payloads of 3000 bytes; the receiving end's own
	// configuration leaves the path MTU at its default (a path MTU limits what an endpoint sends, not what it receives)
	Big bool `json:"big,omitempty"`
}

func c16Pay(in c16ConnInput, i int) string {
	s := fmt.Sprintf("m%04d", i)
	if in.Big {
		s += strings.Repeat("x", 2995)
	}
	return s
}

type c16ConnObs struct {
	Outcomes []string `json:"outcomes"`
	Seqs     []uint64 `json:"seqs"` // record sequence number of each written payload
	Err      string   `json:"err,omitempty"`
	Hung     bool     `json:"hung,omitempty"`
}

const c16Tick = 100 * time.Millisecond

func c16ConnRun(in c16ConnInput) (obs c16ConnObs, coqItems, coqOuts []string) {
	reg := tk.NewRegistry()
	cc := tk.EPConfig{Suites: []uint16{in.Suite}, Ident: "cli", ServerName: "server.test", PMTU: 4000}
	sc := tk.EPConfig{Ident: "srv", PMTU: 4000, ReplayWindow: in.Window}
	if in.Big {
		sc.PMTU = 0
	}
	scfg := tk.BuildDTLCP(sc, reg)
	if in.PerClient {
		per := scfg.Clone()
		scfg.ReplayWindow = 32
		scfg.GetConfigForClient = func(*dtlcp.ClientHelloInfo) (*dtlcp.Config, error) { return per, nil }
	}
	dp := tk.NewDPair(tk.BuildDTLCP(cc, reg), scfg)
	dp.Net.Quantum = 50 * time.Millisecond
	capturing := false
	var captured, early [][]byte
	dp.Net.Decide = func(d *tk.Dgram) tk.Action {
		if d.From == 0 && capturing {
			captured = append(captured, append([]byte(nil), d.Data...))
			return tk.Action{Kind: "drop"}
		}
		if d.From == 0 {
			early = append(early, append([]byte(nil), d.Data...))
		}
		return tk.Action{}
	}
	type got struct {
		at  time.Duration
		pay string
		err string
	}
	var log []got
	var at []time.Duration
	endAt := time.Duration(len(in.Items)+6) * c16Tick
	cprog := func(c *dtlcp.Conn) {
		if err := c.Handshake(); err != nil {
			obs.Err = "client handshake: " + err.Error()
			dp.Net.End(0).Close()
			return
		}
		sleep := func() {
			c.SetReadDeadline(time.Now().Add(c16Tick))
			c.Read(make([]byte, 64))
		}
		sleep() // the server's last flight has been handled
		capturing = true
		if in.SeqBase != 0 {
			c.VerifSetWriteSeq(in.SeqBase)
		}
		for i := 0; i < in.N; i++ {
			c.Write([]byte(c16Pay(in, i)))
		}
		sleep() // all records are with the network now
		jr := rand.New(rand.NewPCG(in.JunkSeed, 0xC16C))
		for _, it := range in.Items {
			var data []byte
			switch it.Kind {
			case "gen", "flip", "trunc":
				if it.I >= len(captured) {
					obs.Err = "item refers to a record that was not captured"
					return
				}
				data = append([]byte(nil), captured[it.I]...)
				if it.Kind == "flip" {
					m := it.Mask
					if m == 0 {
						m = 1
					}
					data[it.Pos%len(data)] ^= m
				}
				if it.Kind == "trunc" {
					data = data[:it.Len%len(data)]
				}
			case "packed":
				// one datagram: a record that does not authenticate (a copy of the written record under a sequence number
				// nobody used, last byte changed) in front of the genuine record
				if it.I >= len(captured) {
					obs.Err = "item refers to a record that was not captured"
					return
				}
				forged := append([]byte(nil), captured[it.I]...)
				fs := uint64(5000 + it.I + it.Pos)
				forged[5], forged[6], forged[7], forged[8], forged[9], forged[10] = byte(fs>>40), byte(fs>>32), byte(fs>>24), byte(fs>>16), byte(fs>>8), byte(fs)
				forged[len(forged)-1] ^= 0x20
				data = append(forged, captured[it.I]...)
			case "old":
				data = append([]byte(nil), early[it.I%len(early)]...)
			case "short":
				n := it.Len % 16
				seq := uint64(1000 + it.I)
				data = []byte{23, 1, 1, 0, 1, byte(seq >> 40), byte(seq >> 32), byte(seq >> 24), byte(seq >> 16), byte(seq >> 8), byte(seq), 0, byte(n)}
				for i := 0; i < n; i++ {
					data = append(data, byte(jr.IntN(256)))
				}
			default:
				data = make([]byte, 1+it.Len%120)
				for i := range data {
					data[i] = byte(jr.IntN(256))
				}
			}
			at = append(at, dp.Net.Now())
			dp.Net.Deliver(1, data)
			sleep()
		}
	}
	sprog := func(c *dtlcp.Conn) {
		defer func() {
			if r := recover(); r != nil {
				log = append(log, got{at: dp.Net.Now(), err: fmt.Sprintf("panic: %v", r)})
			}
		}()
		if err := c.Handshake(); err != nil {
			obs.Err = "server handshake: " + err.Error()
			dp.Net.End(1).Close()
			return
		}
		buf := make([]byte, 4096)
		for call := 0; dp.Net.Now() < endAt; call++ {
			c.SetReadDeadline(time.Now().Add(endAt - dp.Net.Now() + c16Tick))
			var n int
			var err error
			if in.Tail {
				switch {
				case call == 0:
					n, err = c.Read(buf[:2])
				case call%2 == 1:
					n, _, err = c.ReadFrom(buf)
				default:
					n, err = c.Read(buf)
				}
			} else if in.ReadFrom {
				n, _, err = c.ReadFrom(buf)
			} else {
				n, err = c.Read(buf)
			}
			if n > 0 {
				log = append(log, got{at: dp.Net.Now(), pay: string(buf[:n])})
			}
			if err != nil {
				if tk.ErrClass(err) == "timeout" {
					return
				}
				log = append(log, got{at: dp.Net.Now(), err: tk.ErrClass(err) + ": " + err.Error()})
				return
			}
		}
	}
	obs.Hung = dp.Run(cprog, sprog, 30*time.Second)
	if obs.Err != "" {
		return
	}
	if in.Tail {
		// judged here: the pieces delivered, in order, are the genuine payloads with the first one's rest after the second
		var want, gotS []string
		gens := 0
		for _, it := range in.Items {
			if it.Kind == "gen" {
				p := c16Pay(in, it.I)
				switch gens {
				case 0:
					want = append(want, p[:2])
				case 1:
					want = append(want, p, c16Pay(in, in.Items[0].I)[2:])
				default:
					want = append(want, p)
				}
				gens++
			}
		}
		for _, g := range log {
			if g.err != "" {
				gotS = append(gotS, "ERR:"+g.err)
			} else {
				gotS = append(gotS, g.pay)
			}
		}
		obs.Outcomes = gotS
		if strings.Join(gotS, "|") != strings.Join(want, "|") {
			obs.Err = fmt.Sprintf("delivered %q, the peer's payloads in this call order are %q", gotS, want)
		}
		return
	}
	seqOf := map[string]uint64{}
	for i, d := range captured {
		var s uint64
		if len(d) >= 13 {
			for _, b := range d[5:11] {
				s = s<<8 | uint64(b)
			}
		}
		obs.Seqs = append(obs.Seqs, s)
		seqOf[c16Pay(in, i)] = s
	}
	failed := false
	for k, it := range in.Items {
		if k >= len(at) {
			break
		}
		if it.Kind == "gen" || it.Kind == "packed" { // a record that is not genuine is inert wherever it travels
			coqItems = append(coqItems, fmt.Sprintf("Gen %d", obs.Seqs[it.I]))
		} else {
			coqItems = append(coqItems, "Bogus")
		}
		o := "Nothing"
		for _, g := range log {
			if failed { // the connection is gone: nothing is delivered any more
				break
			}
			if g.at != at[k] {
				continue
			}
			if g.err != "" {
				o = "Failed"
				failed = true
			} else if s, ok := seqOf[g.pay]; ok {
				o = fmt.Sprintf("Delivered %d", s)
			} else {
				o = "Delivered 281474976710655" // not a payload of the peer
			}
		}
		obs.Outcomes = append(obs.Outcomes, o)
		coqOuts = append(coqOuts, o)
	}
	return
}

func c16ConnAdd(out *emit.Out, scenario string, in c16ConnInput) {
	obs, its, outs := c16ConnRun(in)
	direct := ""
	if obs.Hung {
		direct = "hang"
	} else if obs.Err != "" && in.Tail {
		direct = "delivered bytes that are not the peer's payload in order"
	} else if obs.Err != "" {
		direct = "setup: " + obs.Err
	}
	mode := "read"
	if in.ReadFrom {
		mode = "readfrom"
	}
	cipher := "cbc"
	if in.Suite == 0xe053 || in.Suite == 0xe051 {
		cipher = "gcm"
	}
	out.Add(emit.Case{Scenario: "conn-" + scenario + "/" + mode + "-" + cipher, Trivial: len(in.Items) < 3, Input: in, Observed: obs, Direct: direct,
		Coq: fmt.Sprintf("ConnCase (%d)%%Z [%s] [%s]", in.Window, strings.Join(its, "; "), strings.Join(outs, "; "))})
}

// c16ConnScript: a history over n written records: runs in order, replays, jumps ahead and back,
// numbers around the window edge, with forgeries interleaved.
func c16ConnScript(r *rand.Rand, n, window int, forge int) []c16Item {
	eff := window
	if eff <= 0 || eff > 64 {
		eff = 64
	}
	if eff < 32 {
		eff = 32
	}
	var items []c16Item
	cur := 0
	bogus := func() c16Item {
		switch r.IntN(7) {
		case 6:
			return c16Item{Kind: "short", I: r.IntN(n), Len: r.IntN(16)}
		case 0:
			return c16Item{Kind: "flip", I: r.IntN(n), Pos: r.IntN(13), Mask: byte(1 << r.IntN(8))} // header: type, version, epoch, sequence number, length
		case 1, 2:
			return c16Item{Kind: "flip", I: r.IntN(n), Pos: 13 + r.IntN(60), Mask: byte(1 + r.IntN(255))}
		case 3:
			return c16Item{Kind: "trunc", I: r.IntN(n), Len: r.IntN(60)}
		case 4:
			return c16Item{Kind: "old", I: r.IntN(4)}
		default:
			return c16Item{Kind: "junk", Len: r.IntN(120)}
		}
	}
	for len(items) < 70 {
		if r.IntN(100) < forge {
			items = append(items, bogus())
			continue
		}
		i := cur
		switch r.IntN(8) {
		case 0, 1, 2:
			if cur < n-1 {
				cur++
			}
			i = cur
		case 3:
			i = cur - r.IntN(eff+8)
		case 4:
			i = cur - eff + r.IntN(3) - 1
		case 5:
			if len(items) > 0 {
				j := items[r.IntN(len(items))]
				if j.Kind == "gen" {
					i = j.I
				}
			}
		case 6:
			cur += r.IntN(eff + 10)
			if cur > n-1 {
				cur = n - 1
			}
			i = cur
		default:
			i = r.IntN(n)
		}
		if i < 0 {
			i = 0
		}
		if i > n-1 {
			i = n - 1
		}
		items = append(items, c16Item{Kind: "gen", I: i})
	}
	return items
}

func c16ConnGen(out *emit.Out, p params, r *rand.Rand) error {
	windows := []int{0, 32, 48, 64, 100, 160}
	n := 16
	if p.tier == "thorough" {
		n = 120
	}
	// sequence numbers that do not fit in 32 bits (the header field has 48): in-order records around 2^32
	// and close to 2^48 must be delivered like any others
	for k, base := range []uint64{1<<32 - 20, 1<<40 + 5, 1<<48 - 200} {
		in := c16ConnInput{Suite: []uint16{0xe013, 0xe053}[k%2], Window: []int{0, 48, 100}[k%3], ReadFrom: k%2 == 0, N: 150, JunkSeed: r.Uint64(), SeqBase: base}
		in.Items = c16ConnScript(r, in.N, in.Window, 10)
		c16ConnAdd(out, "large-sequence-numbers", in)
		in.ReadFrom = !in.ReadFrom
		c16ConnAdd(out, "large-sequence-numbers", in)
	}
	// forged records of the current epoch with every body length below a nonce / a MAC, between genuine ones
	for k, su := range []uint16{0xe053, 0xe013} {
		in := c16ConnInput{Suite: su, Window: 64, ReadFrom: k == 1, N: 40, JunkSeed: r.Uint64()}
		for i := 0; i < 16; i++ {
			in.Items = append(in.Items, c16Item{Kind: "gen", I: i}, c16Item{Kind: "short", I: i, Len: i})
		}
		in.Items = append(in.Items, c16Item{Kind: "gen", I: 20})
		c16ConnAdd(out, "short-forged-records", in)
		in.ReadFrom = !in.ReadFrom
		c16ConnAdd(out, "short-forged-records", in)
	}
	// a record that does not authenticate in front of the genuine one in the same datagram; records larger than the
	// receiving end's own (default) path MTU
	for _, su := range []uint16{0xe053, 0xe013} {
		for _, rf := range []bool{false, true} {
			in := c16ConnInput{Suite: su, Window: 64, ReadFrom: rf, N: 30, JunkSeed: r.Uint64()}
			for _, i := range []int{0, 1, 5, 3, 10, 2} {
				in.Items = append(in.Items, c16Item{Kind: "packed", I: i, Pos: len(in.Items)}, c16Item{Kind: "gen", I: i})
			}
			in.Items = append(in.Items, c16Item{Kind: "gen", I: 12}, c16Item{Kind: "packed", I: 12}, c16Item{Kind: "packed", I: 20})
			c16ConnAdd(out, "forged-and-genuine-in-one-datagram", in)
			big := c16ConnInput{Suite: su, Window: 64, ReadFrom: rf, N: 12, JunkSeed: r.Uint64(), Big: true}
			for _, i := range []int{0, 2, 1, 2, 7, 11} {
				big.Items = append(big.Items, c16Item{Kind: "gen", I: i})
			}
			c16ConnAdd(out, "records-above-the-receivers-own-path-mtu", big)
		}
	}
	// every byte of the record header altered (type, version, epoch, sequence number, length), each followed by the untouched original
	for k, su := range []uint16{0xe053, 0xe013} {
		for _, rf := range []bool{false, true} {
			in := c16ConnInput{Suite: su, Window: 64, ReadFrom: rf, N: 60, JunkSeed: r.Uint64()}
			for pos := 0; pos < 13; pos++ {
				for _, m := range []byte{1, 2, 0x80} {
					i := pos*3 + int(m%3)
					in.Items = append(in.Items, c16Item{Kind: "flip", I: i, Pos: pos, Mask: m}, c16Item{Kind: "gen", I: i})
				}
			}
			_ = k
			c16ConnAdd(out, "header-byte-altered", in)
		}
	}
	// a short Read, then ReadFrom and Read in turn, with forged datagrams arriving in between
	for k, su := range []uint16{0xe053, 0xe013} {
		in := c16ConnInput{Suite: su, Window: 64, N: 10, JunkSeed: r.Uint64(), Tail: true,
			Items: []c16Item{{Kind: "gen", I: 0}, {Kind: "junk", Len: 90}, {Kind: "short", I: 1, Len: 12}, {Kind: "gen", I: 1 + k}, {Kind: "flip", I: 3, Pos: 20, Mask: 1}, {Kind: "gen", I: 4}, {Kind: "gen", I: 5}}}
		c16ConnAdd(out, "rest-of-a-record-across-readfrom", in)
	}
	// the window size set for this client by GetConfigForClient (64, 100, 160), not the listener-wide 32
	for k, w := range []int{64, 100, 160} {
		in := c16ConnInput{Suite: []uint16{0xe013, 0xe053}[k%2], Window: w, ReadFrom: k%2 == 0, N: 150, JunkSeed: r.Uint64(), PerClient: true}
		in.Items = c16ConnScript(r, in.N, w, 0)
		c16ConnAdd(out, "per-client-window", in)
	}
	for k := 0; k < n; k++ {
		w := windows[k%len(windows)]
		suite := []uint16{0xe013, 0xe053}[(k/len(windows))%2]
		in := c16ConnInput{Suite: suite, Window: w, ReadFrom: k%4 >= 2, N: 150, JunkSeed: r.Uint64(), PerClient: w > 32 && k%2 == 1}
		forge := []int{0, 25, 50}[k%3]
		in.Items = c16ConnScript(r, in.N, w, forge)
		c16ConnAdd(out, fmt.Sprintf("forge%d", forge), in)
	}
	return nil
}

func c16ConnReplay(out *emit.Out, scenario string, raw json.RawMessage) error {
	var in c16ConnInput
	if err := json.Unmarshal(raw, &in); err != nil {
		return err
	}
	s := strings.TrimPrefix(scenario, "conn-")
	if i := strings.Index(s, "/"); i >= 0 {
		s = s[:i]
	}
	c16ConnAdd(out, s, in)
	return nil
}
