package main

import (
	"encoding/json"
	"math/rand/v2"

	"verifharness/internal/emit"
)

// connection-level part of C16: filled in once the DTLCP pair harness exists.
func c16ConnGen(out *emit.Out, p params, r *rand.Rand) error { return nil }

func c16ConnReplay(out *emit.Out, scenario string, in json.RawMessage) error { return nil }
