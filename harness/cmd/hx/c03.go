package main

// C03: tampering with a handshake never yields two completed endpoints that differ.
//
// A scripted man in the middle sits between two REAL endpoints (tlcp: tk.Wire edits on the
// record stream; dtlcp: tk.VNet datagram edits).  Config.Rand of both endpoints and the PKI are
// deterministic, so the untampered handshake of a configuration is one fixed byte string: it is
// captured once per configuration ("baseline") and every tampered run is described by the
// baseline plus a small edit script.  The Coq runner (Corr/Run_C03.v)
//   - re-derives the baseline inside Coq (one message per record, ServerHello fields through the
//     C14 decoders, both Finished values through Spec/PRF + SM3 over the wire transcript),
//   - runs the two-party model of Model/Mitm.v on the baseline messages under the same edit
//     script (stream stack) and compares its verdict with what the implementation did,
//   - evaluates the property on the implementation's observables alone (spec_code).
// A third family plays a key-holding peer (harness/internal/puppet) whose Finished verify_data
// is altered in one byte / shortened / extended: the real endpoint must not complete.

import (
	"bytes"
	"encoding/json"
	"fmt"
	"math/rand/v2"
	"os"
	"sort"
	"strings"
	"sync"
	"time"

	"gitee.com/Trisia/gotlcp/dtlcp"
	"gitee.com/Trisia/gotlcp/tlcp"
	"verifharness/internal/emit"
	"verifharness/internal/tk"
)

type c03Cfg struct {
	Stack  string `json:"stack"` // tlcp | dtlcp
	Suite  uint16 `json:"suite"`
	Resume bool   `json:"resume"`
	Auth   bool   `json:"auth"`            // client authentication
	Seed   uint64 `json:"seed"`            // Config.Rand of both endpoints derives from it
	Steer  bool   `json:"steer,omitempty"` // the server selects its configuration by server name (GetConfigForClient): another name gets the other cipher mode
}

func (c c03Cfg) name() string {
	s := fmt.Sprintf("%s-%04x", c.Stack, c.Suite)
	if c.Resume {
		s += "-resumed"
	} else {
		s += "-full"
	}
	if c.Auth {
		s += "-auth"
	}
	if c.Steer {
		s += "-steer"
	}
	return s
}

type c03Edit struct {
	Kind     string `json:"kind"` // flip drop dup swap cut inject split merge
	ToServer bool   `json:"to_server"`
	Idx      int    `json:"idx"` // index of the sender's record (tlcp) / datagram (dtlcp) in that direction
	Off      int    `json:"off,omitempty"`
	Mask     int    `json:"mask,omitempty"`
	At       int    `json:"at,omitempty"`
	After    bool   `json:"after,omitempty"`
	Data     []byte `json:"data,omitempty"`
}

func (e c03Edit) coq() string {
	b := emit.Bool
	switch e.Kind {
	case "flip":
		return fmt.Sprintf("EFlip %s %d%%nat %d%%nat %d", b(e.ToServer), e.Idx, e.Off, e.Mask)
	case "drop":
		return fmt.Sprintf("EDrop %s %d%%nat", b(e.ToServer), e.Idx)
	case "dup":
		return fmt.Sprintf("EDup %s %d%%nat", b(e.ToServer), e.Idx)
	case "swap":
		return fmt.Sprintf("ESwap %s %d%%nat", b(e.ToServer), e.Idx)
	case "cut":
		return fmt.Sprintf("ECut %s %d%%nat", b(e.ToServer), e.At)
	case "inject":
		return fmt.Sprintf("EInject %s %d%%nat %s %s", b(e.ToServer), e.Idx, b(e.After), emit.Bytes(e.Data))
	case "split":
		return fmt.Sprintf("ESplit %s %d%%nat %d%%nat", b(e.ToServer), e.Idx, e.At)
	case "merge":
		return fmt.Sprintf("EMerge %s %d%%nat", b(e.ToServer), e.Idx)
	case "append":
		return fmt.Sprintf("EAppend %s %d%%nat %s", b(e.ToServer), e.Idx, emit.Bytes(e.Data))
	case "strip": // datagram stack only: the model is given the records handed over, not the script
		return fmt.Sprintf("EDrop %s %d%%nat", b(e.ToServer), e.Idx)
	}
	panic("c03: unknown edit " + e.Kind)
}

type c03Input struct {
	Cfg   c03Cfg    `json:"cfg"`
	Edits []c03Edit `json:"edits"`
}

// ---------------------------------------------------------------- what an endpoint ended with

type c03View struct {
	Vers    uint16   `json:"vers"`
	Suite   uint16   `json:"suite"`
	ALPN    string   `json:"alpn"`
	Resumed bool     `json:"resumed"`
	SNI     string   `json:"sni"`
	SID     []byte   `json:"sid"`
	Master  []byte   `json:"-"`
	CFin    []byte   `json:"cfin"` // clientFinished as recorded by this endpoint
	SFin    []byte   `json:"sfin"`
	Peer    [][]byte `json:"-"` // DER of the peer certificates
	PeerCN  []string `json:"peer"`
}

type c03Side struct {
	Ok    bool    `json:"ok"`
	Class int     `json:"class"` // 0 ok, 1 refused by the endpoint itself, 2 told by the peer's alert, 3 end of transport, 4 timeout, 5 other
	Err   string  `json:"err"`
	Text  string  `json:"text,omitempty"`
	Panic string  `json:"panic,omitempty"`
	View  c03View `json:"view"`
}

type c03Run struct {
	C, S     c03Side
	Hung     bool
	Sent     [2][][]byte // records (tlcp) / datagrams (dtlcp) as the endpoints wrote them; 0 = client to server
	Handed   [2][][]byte // dtlcp: datagrams handed to the receiver of that direction
	Why      string
	Expiries int
	Stalled  bool // dtlcp: virtual time ran out with an endpoint still waiting
	Livelock bool // dtlcp: the endpoints kept exchanging datagrams without any timer involved
}

func c03Class(err string) int {
	switch {
	case err == "":
		return 0
	case strings.HasPrefix(err, "remote-error"):
		return 2
	case err == "eof" || err == "unexpected-eof" || err == "closed" || err == "shutdown":
		return 3
	case err == "timeout" || err == "ctx-deadline":
		return 4
	case strings.HasPrefix(err, "local-error") || err == "error" || err == "cert-verify":
		return 1
	}
	return 5
}

func c03SideOf(r tk.EPResult) c03Side {
	s := c03Side{Ok: r.Err == "" && r.Complete && r.Panic == "", Class: c03Class(r.Err), Err: r.Err, Text: r.ErrText, Panic: r.Panic}
	s.View = c03View{Vers: r.Version, Suite: r.Suite, ALPN: r.ALPN, Resumed: r.Resumed, SNI: r.ServerName,
		CFin: r.ClientFinished, SFin: r.ServerFinished, Peer: r.PeerDER, PeerCN: r.PeerCerts}
	return s
}

// ---------------------------------------------------------------- recording session caches (public interface)

type c03Sess struct{ id, master []byte }

type c03CacheT struct {
	inner tlcp.SessionCache
	mu    sync.Mutex
	puts  []c03Sess
	hits  []c03Sess
}

func (c *c03CacheT) Get(k string) (*tlcp.SessionState, bool) {
	s, ok := c.inner.Get(k)
	if ok && s != nil {
		c.mu.Lock()
		c.hits = append(c.hits, c03Sess{append([]byte(nil), s.VerifSessionID()...), append([]byte(nil), s.VerifMaster()...)})
		c.mu.Unlock()
	}
	return s, ok
}
func (c *c03CacheT) Put(k string, s *tlcp.SessionState) {
	if s != nil {
		c.mu.Lock()
		c.puts = append(c.puts, c03Sess{append([]byte(nil), s.VerifSessionID()...), append([]byte(nil), s.VerifMaster()...)})
		c.mu.Unlock()
	}
	c.inner.Put(k, s)
}
func (c *c03CacheT) reset() { c.mu.Lock(); c.puts, c.hits = nil, nil; c.mu.Unlock() }
func (c *c03CacheT) last(resumed bool) (id, master []byte) {
	c.mu.Lock()
	defer c.mu.Unlock()
	l := c.puts
	if resumed {
		l = c.hits
	}
	if len(l) == 0 {
		return nil, nil
	}
	return l[len(l)-1].id, l[len(l)-1].master
}

type c03CacheD struct {
	inner dtlcp.SessionCache
	mu    sync.Mutex
	puts  []c03Sess
	hits  []c03Sess
}

func (c *c03CacheD) Get(k string) (*dtlcp.SessionState, bool) {
	s, ok := c.inner.Get(k)
	if ok && s != nil {
		c.mu.Lock()
		c.hits = append(c.hits, c03Sess{append([]byte(nil), s.VerifSessionID()...), append([]byte(nil), s.VerifMaster()...)})
		c.mu.Unlock()
	}
	return s, ok
}
func (c *c03CacheD) Put(k string, s *dtlcp.SessionState) {
	if s != nil {
		c.mu.Lock()
		c.puts = append(c.puts, c03Sess{append([]byte(nil), s.VerifSessionID()...), append([]byte(nil), s.VerifMaster()...)})
		c.mu.Unlock()
	}
	c.inner.Put(k, s)
}
func (c *c03CacheD) reset() { c.mu.Lock(); c.puts, c.hits = nil, nil; c.mu.Unlock() }
func (c *c03CacheD) last(resumed bool) (id, master []byte) {
	c.mu.Lock()
	defer c.mu.Unlock()
	l := c.puts
	if resumed {
		l = c.hits
	}
	if len(l) == 0 {
		return nil, nil
	}
	return l[len(l)-1].id, l[len(l)-1].master
}

// ---------------------------------------------------------------- configurations

const c03ALPNwant = "verif/1"

func c03EPs(cfg c03Cfg) (cc, sc tk.EPConfig) {
	cc = tk.EPConfig{Suites: []uint16{cfg.Suite}, Ident: "none", ServerName: "server.test", ALPN: []string{"h2", c03ALPNwant}, PMTU: 4000}
	sc = tk.EPConfig{Ident: "srv", ALPN: []string{c03ALPNwant, "h2"}, PMTU: 4000}
	if cfg.Auth || cfg.Suite == 0xe011 || cfg.Suite == 0xe051 {
		cc.Ident = "cli"
		sc.Auth = 4
	}
	if cfg.Steer { // the client accepts both cipher modes, each server configuration enables one
		cc.Suites = []uint16{cfg.Suite, c03OtherMode(cfg.Suite)}
		sc.Suites = []uint16{cfg.Suite}
	}
	return
}

func c03OtherMode(s uint16) uint16 {
	return map[uint16]uint16{0xe013: 0xe053, 0xe053: 0xe013, 0xe011: 0xe051, 0xe051: 0xe011}[s]
}

func c03IsECDHE(s uint16) bool { return s == 0xe011 || s == 0xe051 }

// ---------------------------------------------------------------- the scripted middle (record / datagram level)

func c03Plain(typ byte, payload []byte) []byte {
	return append([]byte{typ, 1, 1, byte(len(payload) >> 8), byte(len(payload))}, payload...)
}

// c03Middle applies the edits of one direction to the sender's units, one at a time; it mirrors
// apply_edit / through of Model/MitmWire.v.
type c03Middle struct {
	toServer bool
	edits    []c03Edit
	held     []byte
	hdr      int
}

func (m *c03Middle) one(e c03Edit, idx int, r []byte) [][]byte {
	same := func(i int) bool { return e.ToServer == m.toServer && i == idx }
	switch e.Kind {
	case "flip":
		if same(e.Idx) && e.Off < len(r) {
			w := append([]byte(nil), r...)
			w[e.Off] ^= byte(e.Mask)
			return [][]byte{w}
		}
	case "drop":
		if same(e.Idx) {
			return nil
		}
	case "dup":
		if same(e.Idx) {
			return [][]byte{r, r}
		}
	case "swap":
		if same(e.Idx) {
			m.held = r
			return nil
		}
		if same(e.Idx+1) && m.held != nil {
			h := m.held
			m.held = nil
			return [][]byte{r, h}
		}
	case "inject":
		if same(e.Idx) {
			if e.After {
				return [][]byte{r, e.Data}
			}
			return [][]byte{e.Data, r}
		}
	case "trunc":
		if same(e.Idx) && e.At < len(r) {
			return [][]byte{r[:e.At]}
		}
	case "strip": // every datagram of the direction (retransmissions too) loses its records of content type Mask
		if e.ToServer == m.toServer && m.hdr == 13 {
			var keep []byte
			b := r
			for len(b) >= 13 {
				n := int(b[11])<<8 | int(b[12])
				if 13+n > len(b) {
					break
				}
				if int(b[0]) != e.Mask {
					keep = append(keep, b[:13+n]...)
				}
				b = b[13+n:]
			}
			keep = append(keep, b...)
			if len(keep) == 0 {
				return nil
			}
			return [][]byte{keep}
		}
	case "split":
		if same(e.Idx) && m.hdr == 13 { // one datagram per record
			var out [][]byte
			b := r
			for len(b) >= 13 {
				n := int(b[11])<<8 | int(b[12])
				if 13+n > len(b) {
					break
				}
				out = append(out, b[:13+n])
				b = b[13+n:]
			}
			if len(b) > 0 {
				out = append(out, b)
			}
			return out
		}
		if same(e.Idx) && len(r) >= m.hdr {
			p := r[m.hdr:]
			at := e.At
			if at > len(p) {
				at = len(p)
			}
			return [][]byte{c03Plain(r[0], p[:at]), c03Plain(r[0], p[at:])}
		}
	case "append":
		if same(e.Idx) && len(r) >= m.hdr {
			return [][]byte{c03Plain(r[0], append(append([]byte(nil), r[m.hdr:]...), e.Data...))}
		}
	case "merge":
		if same(e.Idx) {
			m.held = r
			return nil
		}
		if same(e.Idx+1) && m.held != nil {
			h := m.held
			m.held = nil
			return [][]byte{c03Plain(h[0], append(append([]byte(nil), h[m.hdr:]...), r[m.hdr:]...))}
		}
	}
	return [][]byte{r}
}

func (m *c03Middle) apply(idx int, rec []byte) [][]byte {
	out := [][]byte{rec}
	for _, e := range m.edits {
		var next [][]byte
		for _, r := range out {
			next = append(next, m.one(e, idx, r)...)
		}
		out = next
	}
	return out
}

func c03Cut(edits []c03Edit, toServer bool) int {
	cut := -1
	for _, e := range edits {
		if e.Kind == "cut" && e.ToServer == toServer {
			cut = e.At
		}
	}
	return cut
}

// ---------------------------------------------------------------- one tlcp connection under the middle

func c03Guard(f func() error) (err error, pan string) {
	defer func() {
		if r := recover(); r != nil {
			pan = fmt.Sprint(r)
			err = fmt.Errorf("panic: %v", r)
		}
	}()
	return f(), ""
}

// c03DriveT runs both handshakes.  When neither endpoint can make progress any more (both
// blocked reading, nothing deliverable) the middle ends both transports; hung means the watchdog
// fired although the endpoints were not waiting for input.
func c03DriveT(tp *tk.TPair) (cres, sres tk.EPResult, hung bool) {
	var wg sync.WaitGroup
	var cerr, serr error
	var cpan, span string
	var cfin, sfin bool
	var mu sync.Mutex
	wg.Add(2)
	go func() {
		defer wg.Done()
		cerr, cpan = c03Guard(tp.Cli.Handshake)
		if cerr != nil {
			tp.CliRaw.CloseWrite() // the peer sees the alert, then the end; its own writes go nowhere
		}
		mu.Lock()
		cfin = true
		mu.Unlock()
	}()
	go func() {
		defer wg.Done()
		serr, span = c03Guard(tp.Srv.Handshake)
		if serr != nil {
			tp.SrvRaw.CloseWrite()
		}
		mu.Lock()
		sfin = true
		mu.Unlock()
	}()
	done := make(chan struct{})
	go func() { wg.Wait(); close(done) }()
	deadline := time.Now().Add(8 * time.Second)
	idleSince := 0
loop:
	for {
		select {
		case <-done:
			break loop
		default:
		}
		mu.Lock()
		cf, sf := cfin, sfin
		mu.Unlock()
		idle := (cf || tp.S2C.ReaderIdle()) && (sf || tp.C2S.ReaderIdle())
		if idle {
			idleSince++
		} else {
			idleSince = 0
		}
		if idleSince >= 3 {
			// stalled: the adversary withholds what the endpoints wait for; end the transports
			tp.CliRaw.CloseWrite()
			tp.SrvRaw.CloseWrite()
			<-done
			break loop
		}
		if time.Now().After(deadline) {
			hung = true
			tp.CliRaw.Close()
			tp.SrvRaw.Close()
			select {
			case <-done:
			case <-time.After(2 * time.Second):
			}
			break loop
		}
		time.Sleep(30 * time.Microsecond)
	}
	cres, sres = tk.StateTLCP(tp.Cli, cerr), tk.StateTLCP(tp.Srv, serr)
	cres.Panic, sres.Panic = cpan, span
	return
}

type c03EndpointsT struct {
	cc, sc *tlcp.Config
	ccache *c03CacheT
	scache *c03CacheT
}

func c03BuildT(cfg c03Cfg) *c03EndpointsT {
	ecc, esc := c03EPs(cfg)
	e := &c03EndpointsT{cc: tk.BuildTLCP(ecc, nil), sc: tk.BuildTLCP(esc, nil)}
	e.ccache = &c03CacheT{inner: tlcp.NewLRUSessionCache(8)}
	e.scache = &c03CacheT{inner: tlcp.NewLRUSessionCache(8)}
	e.cc.SessionCache, e.sc.SessionCache = e.ccache, e.scache
	if cfg.Steer {
		alt := esc
		alt.Suites = []uint16{c03OtherMode(cfg.Suite)}
		ac := tk.BuildTLCP(alt, nil)
		ac.SessionCache = e.scache
		e.sc.GetConfigForClient = func(chi *tlcp.ClientHelloInfo) (*tlcp.Config, error) {
			if chi.ServerName != "server.test" {
				ac.Rand = e.sc.Rand
				return ac, nil
			}
			return nil, nil
		}
	}
	return e
}

func (e *c03EndpointsT) conn(cfg c03Cfg, k int, edits []c03Edit) c03Run {
	e.cc.Rand = tk.NewBlindRand(cfg.Seed*1000 + uint64(2*k) + 1)
	e.sc.Rand = tk.NewBlindRand(cfg.Seed*1000 + uint64(2*k) + 2)
	e.ccache.reset()
	e.scache.reset()
	tp := tk.NewTPairNamed(e.cc, e.sc, "server.test:443")
	mc := &c03Middle{toServer: true, edits: edits, hdr: 5}
	ms := &c03Middle{toServer: false, edits: edits, hdr: 5}
	tp.C2S.Edit, tp.S2C.Edit = mc.apply, ms.apply
	tp.C2S.Cut, tp.S2C.Cut = c03Cut(edits, true), c03Cut(edits, false)
	cr, sr, hung := c03DriveT(tp)
	run := c03Run{C: c03SideOf(cr), S: c03SideOf(sr), Hung: hung}
	run.Sent[0], run.Sent[1] = tp.C2S.SentRecords(), tp.S2C.SentRecords()
	run.C.View.SID, run.C.View.Master = e.ccache.last(cr.Resumed)
	run.S.View.SID, run.S.View.Master = e.scache.last(sr.Resumed)
	tp.Close()
	return run
}

func c03RunT(in c03Input) c03Run {
	e := c03BuildT(in.Cfg)
	if in.Cfg.Resume {
		first := e.conn(in.Cfg, 0, nil)
		if !first.C.Ok || !first.S.Ok {
			first.Why = "the full handshake that creates the session failed"
			return first
		}
		return e.conn(in.Cfg, 1, in.Edits)
	}
	return e.conn(in.Cfg, 0, in.Edits)
}

// ---------------------------------------------------------------- one dtlcp connection under the middle

type c03EndpointsD struct {
	cc, sc *dtlcp.Config
	ccache *c03CacheD
	scache *c03CacheD
}

func c03BuildD(cfg c03Cfg) *c03EndpointsD {
	ecc, esc := c03EPs(cfg)
	esc.CookieSecret = []byte("c03-cookie-secret-0123456789abcdef")
	e := &c03EndpointsD{cc: tk.BuildDTLCP(ecc, nil), sc: tk.BuildDTLCP(esc, nil)}
	e.ccache = &c03CacheD{inner: dtlcp.NewLRUSessionCache(8)}
	e.scache = &c03CacheD{inner: dtlcp.NewLRUSessionCache(8)}
	e.cc.SessionCache, e.sc.SessionCache = e.ccache, e.scache
	if cfg.Steer {
		alt := esc
		alt.Suites = []uint16{c03OtherMode(cfg.Suite)}
		ac := tk.BuildDTLCP(alt, nil)
		ac.SessionCache = e.scache
		e.sc.GetConfigForClient = func(chi *dtlcp.ClientHelloInfo) (*dtlcp.Config, error) {
			if chi.ServerName != "server.test" {
				ac.Rand, ac.NewTimer = e.sc.Rand, e.sc.NewTimer
				return ac, nil
			}
			return nil, nil
		}
	}
	return e
}

func c03SideOfD(r tk.EPResult) c03Side { return c03SideOf(r) }

func (e *c03EndpointsD) conn(cfg c03Cfg, k int, edits []c03Edit) c03Run {
	e.cc.Rand = tk.NewBlindRand(cfg.Seed*1000 + uint64(2*k) + 1)
	e.sc.Rand = tk.NewBlindRand(cfg.Seed*1000 + uint64(2*k) + 2)
	e.ccache.reset()
	e.scache.reset()
	dp := tk.NewDPairAddr(e.cc, e.sc, "10.0.0.2:443")
	dp.Net.MaxVirtual = 40 * time.Second
	mid := [2]*c03Middle{{toServer: true, edits: edits, hdr: 13}, {toServer: false, edits: edits, hdr: 13}}
	run := c03Run{}
	var mu sync.Mutex
	total, lastExp, sinceExp := 0, 0, 0
	dp.Net.Mangle = func(d *tk.Dgram) [][]byte {
		mu.Lock()
		defer mu.Unlock()
		total++
		if dp.Net.Expiries != lastExp {
			lastExp, sinceExp = dp.Net.Expiries, 0
		}
		sinceExp++
		if sinceExp > 200 { // 200 datagrams without a single timer expiry: a ping-pong that feeds itself
			run.Livelock = true
		}
		if run.Livelock || total > 3000 {
			return nil // cut the wire: the endpoints run into their timers until virtual time is up
		}
		run.Sent[d.From] = append(run.Sent[d.From], append([]byte(nil), d.Data...))
		outs := mid[d.From].apply(d.Idx, d.Data)
		for _, o := range outs {
			run.Handed[d.From] = append(run.Handed[d.From], append([]byte(nil), o...))
		}
		return outs
	}
	cr, sr, hung := dp.Handshake(10 * time.Second)
	run.C, run.S, run.Hung, run.Stalled = c03SideOf(cr), c03SideOf(sr), hung, dp.Net.Stuck
	run.Expiries = dp.Net.Expiries
	run.C.View.SID, run.C.View.Master = e.ccache.last(cr.Resumed)
	run.S.View.SID, run.S.View.Master = e.scache.last(sr.Resumed)
	return run
}

func c03RunD(in c03Input) c03Run {
	e := c03BuildD(in.Cfg)
	if in.Cfg.Resume {
		first := e.conn(in.Cfg, 0, nil)
		if !first.C.Ok || !first.S.Ok {
			first.Why = "the full handshake that creates the session failed"
			return first
		}
		return e.conn(in.Cfg, 1, in.Edits)
	}
	return e.conn(in.Cfg, 0, in.Edits)
}

// ---------------------------------------------------------------- Coq rendering

func c03BytesList(rs [][]byte) string {
	var s []string
	for _, r := range rs {
		s = append(s, emit.Bytes(r))
	}
	return "[" + strings.Join(s, ";\n    ") + "]"
}

func c03ViewCoq(v c03View, own [][]byte) string {
	// own: DER of the certificates this endpoint's peer should have seen is checked in Go
	return fmt.Sprintf("(mkView %d %d %s %s %s %s %s %s)", v.Vers, v.Suite, emit.Bytes([]byte(v.ALPN)), emit.Bool(v.Resumed),
		emit.Bytes(v.SID), emit.Bytes(v.Master), emit.Bytes(v.CFin), emit.Bytes(v.SFin))
}

func c03DERsEqual(a, b [][]byte) bool {
	if len(a) != len(b) {
		return false
	}
	for i := range a {
		if !bytes.Equal(a[i], b[i]) {
			return false
		}
	}
	return true
}

func c03Certs(ident string) [][]byte {
	var out [][]byte
	for _, c := range tk.CertsTLCP(ident) {
		out = append(out, c.Certificate[0])
	}
	return out
}

// peer certificates as they must be: the client sees the server's pair; the server sees the
// client's pair when client authentication is on (full handshake: from the Certificate message,
// resumed: from the session)
func c03PeersOK(cfg c03Cfg, r c03Run) bool {
	ecc, esc := c03EPs(cfg)
	okC := c03DERsEqual(r.C.View.Peer, c03Certs(esc.Ident))
	want := [][]byte(nil)
	if ecc.Ident != "none" {
		want = c03Certs(ecc.Ident)
	}
	okS := c03DERsEqual(r.S.View.Peer, want)
	return okC && okS
}

func c03SameRecords(a, b [][]byte) bool { return c03DERsEqual(a, b) }

func c03ObsCoq(cfg c03Cfg, base, r c03Run) string {
	direct := r.Hung || r.C.Panic != "" || r.S.Panic != ""
	views := "None"
	if r.C.Ok && r.S.Ok {
		views = fmt.Sprintf("(Some (%s, %s, %s, %s))", c03ViewCoq(r.C.View, nil), c03ViewCoq(r.S.View, nil),
			emit.Bool(c03PeersOK(cfg, r)),
			emit.Bool(c03SameRecords(r.Sent[0], base.Sent[0]) && c03SameRecords(r.Sent[1], base.Sent[1])))
	}
	return fmt.Sprintf("(mkObs %s %s %d %d %s %s)", emit.Bool(r.C.Ok), emit.Bool(r.S.Ok), r.C.Class, r.S.Class, emit.Bool(direct), views)
}

// ---------------------------------------------------------------- groups: one baseline, many edits

type c03Group struct {
	cfg   c03Cfg
	base  c03Run
	items []string // Coq terms of the sub-cases
	first bool     // recompute the Finished values with Spec/PRF in this group
	size  int
}

func c03Direct(r c03Run) string {
	switch {
	case r.C.Panic != "" || r.S.Panic != "":
		return "panic: " + r.C.Panic + r.S.Panic
	case r.Hung:
		return "hang"
	}
	return ""
}

type c03Obs struct {
	C    c03Side `json:"client"`
	S    c03Side `json:"server"`
	Hung bool    `json:"hung,omitempty"`
	Why  string  `json:"why,omitempty"`
}

func (g *c03Group) add(out *emit.Out, scenario string, edits []c03Edit, r c03Run) {
	in := c03Input{Cfg: g.cfg, Edits: edits}
	idx := out.Add(emit.Case{Scenario: scenario + "/" + g.cfg.name(), Trivial: len(edits) == 0, Input: in,
		Observed: c03Obs{r.C, r.S, r.Hung, r.Why}, Direct: c03Direct(r)})
	var es []string
	for _, e := range edits {
		es = append(es, e.coq())
	}
	g.items = append(g.items, fmt.Sprintf("(%d, [%s], %s)", idx, strings.Join(es, "; "), c03ObsCoq(g.cfg, g.base, r)))
	g.size++
}

func (g *c03Group) flush(out *emit.Out) {
	if len(g.items) == 0 {
		return
	}
	b := g.base
	term := fmt.Sprintf("TGroup %d %s %s\n  %s\n  %s\n  %s\n  [%s]", g.cfg.Suite, emit.Bool(g.first), emit.Bool(c03PeersOK(g.cfg, b)),
		c03BytesList(b.Sent[0]), c03BytesList(b.Sent[1]), c03ObsCoq(g.cfg, b, b), strings.Join(g.items, ";\n   "))
	// the carrier case: no input of its own (its sub-cases are the cases), only the Coq term
	out.Cases = append(out.Cases, emit.Case{Idx: len(out.Cases), Scenario: "group/" + g.cfg.name(), Trivial: true,
		Input: map[string]interface{}{"group_of": g.cfg}, Coq: term})
	g.items, g.size, g.first = nil, 0, false
}

// c03Targets: byte positions of one unit (record / datagram) that carry a negotiated value in
// the clear: the ALPN protocol name, the session identifier, the suite, the hello version field.
func c03Targets(unit []byte, hdr int, sid []byte, suite uint16) map[string][]int {
	t := map[string][]int{}
	if i := bytes.Index(unit, []byte(c03ALPNwant)); i >= 0 {
		t["flip-alpn"] = []int{i + len(c03ALPNwant) - 1, i - 1} // last character, length byte
	}
	if len(sid) > 0 {
		if i := bytes.Index(unit, sid); i >= 0 {
			t["flip-session-id"] = []int{i, i + len(sid) - 1, i - 1}
		}
	}
	if i := bytes.Index(unit, []byte("server.test")); i >= 0 {
		t["flip-server-name"] = []int{i + 5, i + 10} // "server.test" -> "serves.test" / "server.tesu": still a well-formed name
	}
	su := []byte{byte(suite >> 8), byte(suite)}
	if i := bytes.Index(unit, su); i >= 0 {
		t["flip-suite"] = []int{i, i + 1}
	}
	if len(unit) > hdr+6 && unit[0] == 22 {
		hl := 4
		if hdr == 13 {
			hl = 12
		}
		if unit[hdr] == 1 || unit[hdr] == 2 || unit[hdr] == 3 { // hello messages: version, first byte of the random
			t["flip-hello-version"] = []int{hdr + hl, hdr + hl + 1}
			t["flip-hello-random"] = []int{hdr + hl + 2, hdr + hl + 33}
		}
	}
	return t
}

// ---------------------------------------------------------------- edit generation (tlcp)

func c03Masks(r *rand.Rand, n int) []int {
	all := []int{0x01, 0x80, 0xff, 0x10, 0x02}
	return all[:n]
}

// positions of one record worth trying always: the 5 header bytes, the 4 handshake header bytes,
// the first and last body byte
func c03Boundary(rec []byte, hdr int) []int {
	var p []int
	for i := 0; i < hdr+4 && i < len(rec); i++ {
		p = append(p, i)
	}
	if len(rec) > hdr+4 {
		p = append(p, hdr+4, len(rec)-1)
	}
	return p
}

func c03GenT(out *emit.Out, p params, r *rand.Rand, cfg c03Cfg, exhaustive bool) error {
	base := c03RunT(c03Input{Cfg: cfg})
	if !base.C.Ok || !base.S.Ok || base.Hung {
		out.Add(emit.Case{Scenario: "baseline-failed/" + cfg.name(), Input: c03Input{Cfg: cfg}, Observed: c03Obs{base.C, base.S, base.Hung, base.Why},
			Direct: "untampered handshake does not complete: " + base.C.Text + " / " + base.S.Text})
		return nil
	}
	g := &c03Group{cfg: cfg, base: base, first: true}
	limit := 60
	if exhaustive {
		limit = 250
	}
	run := func(scenario string, edits ...c03Edit) {
		res := c03RunT(c03Input{Cfg: cfg, Edits: edits})
		g.add(out, scenario, edits, res)
		if g.size >= limit {
			g.flush(out)
		}
	}
	// the untampered run again: same bytes, same views (determinism is part of what is checked)
	run("untampered")
	// a well-formed alteration that no single flip produces: something the hello parsers ignore (an
	// unknown extension, a server_name entry of an unknown type) is added to the ClientHello / ServerHello
	// with every enclosing length corrected.  Both ends can only complete if the receiver hashes what it
	// received, not a re-encoding of what it understood.
	for dir := 0; dir < 2; dir++ {
		recs := base.Sent[dir]
		if len(recs) == 0 || len(recs[0]) < 5+4+2+32+1 || recs[0][0] != 22 {
			continue
		}
		rec := recs[0]
		body := rec[9:]
		o := 2 + 32
		o += 1 + int(body[o]) // session id
		if dir == 0 {
			if o+2 > len(body) {
				continue
			}
			o += 2 + (int(body[o])<<8 | int(body[o+1])) // cipher suites
			if o >= len(body) {
				continue
			}
			o += 1 + int(body[o]) // compression methods
		} else {
			o += 3 // suite, compression method
		}
		if o+2 > len(body) { // no extension block to extend
			continue
		}
		extLenOff := 9 + o
		hsLen := int(rec[6])<<16 | int(rec[7])<<8 | int(rec[8])
		extLen := int(rec[extLenOff])<<8 | int(rec[extLenOff+1])
		for _, add := range [][]byte{{0xff, 0x77, 0x00, 0x01, 0x00}, {0xff, 0x77, 0x00, 0x00}, {0x00, 0x15, 0x00, 0x03, 0x00, 0x00, 0x00}} {
			n := len(add)
			edits := []c03Edit{{Kind: "append", ToServer: dir == 0, Idx: 0, Data: add}}
			fl := func(off, old, new int) {
				if old != new {
					edits = append(edits, c03Edit{Kind: "flip", ToServer: dir == 0, Idx: 0, Off: off, Mask: old ^ new})
				}
			}
			nh, ne := hsLen+n, extLen+n
			fl(6, hsLen>>16&0xff, nh>>16&0xff)
			fl(7, hsLen>>8&0xff, nh>>8&0xff)
			fl(8, hsLen&0xff, nh&0xff)
			fl(extLenOff, extLen>>8&0xff, ne>>8&0xff)
			fl(extLenOff+1, extLen&0xff, ne&0xff)
			run("extend-hello-with-ignored-extension", edits...)
		}
	}
	for dir := 0; dir < 2; dir++ {
		ts := dir == 0
		recs := base.Sent[dir]
		for i, rec := range recs {
			// byte flips
			var offs []int
			if exhaustive {
				for o := range rec {
					offs = append(offs, o)
				}
			} else {
				offs = c03Boundary(rec, 5)
				for k := 0; k < 3 && len(rec) > 12; k++ {
					offs = append(offs, 9+r.IntN(len(rec)-9))
				}
			}
			for _, o := range offs {
				masks := []int{[]int{0x01, 0x80, 0xff}[r.IntN(3)]}
				if exhaustive {
					masks = []int{0x01, 0x80, 0xff}
				} else if o < 5 {
					masks = []int{0x01, 0xff}
				}
				for _, m := range masks {
					sc := "flip-body"
					switch {
					case o == 0:
						sc = "flip-record-type"
					case o < 3:
						sc = "flip-record-version"
					case o < 5:
						sc = "flip-record-length"
					case o < 9 && rec[0] == 22 && rec[3] < 64: // plaintext handshake record
						sc = "flip-message-header"
					}
					if rec[0] == 20 {
						sc = "flip-ccs"
					}
					run(sc, c03Edit{Kind: "flip", ToServer: ts, Idx: i, Off: o, Mask: m})
				}
			}
			if rec[0] == 22 && i < 6 && !exhaustive {
				tg := c03Targets(rec, 5, base.C.View.SID, cfg.Suite)
				names := []string{}
				for name := range tg {
					names = append(names, name)
				}
				sort.Strings(names)
				for _, name := range names {
					offs := tg[name]
					for _, o := range offs {
						if o >= 5 && o < len(rec) {
							run(name, c03Edit{Kind: "flip", ToServer: ts, Idx: i, Off: o, Mask: 0x01})
						}
					}
				}
			}
			run("drop", c03Edit{Kind: "drop", ToServer: ts, Idx: i})
			run("duplicate", c03Edit{Kind: "dup", ToServer: ts, Idx: i})
			if i+1 < len(recs) {
				run("swap", c03Edit{Kind: "swap", ToServer: ts, Idx: i})
			}
		}
		// truncation at and around every record boundary
		at := 0
		for i, rec := range recs {
			cuts := []int{at, at + 1, at + 5, at + len(rec) - 1}
			if !exhaustive {
				cuts = []int{at, at + 1 + r.IntN(len(rec)-1)}
			}
			for _, c := range cuts {
				run("truncate", c03Edit{Kind: "cut", ToServer: ts, At: c})
			}
			at += len(rec)
			_ = i
		}
		run("truncate", c03Edit{Kind: "cut", ToServer: ts, At: at}) // everything delivered, then the end: nothing is missing
		// injected records before each record and after the last
		warn := c03Plain(21, []byte{1, 90})
		type inj struct {
			name string
			data []byte
		}
		injs := []inj{
			{"inject-warning", warn},
			{"inject-fatal-alert", c03Plain(21, []byte{2, 40})},
			{"inject-ccs", c03Plain(20, []byte{1})},
			{"inject-appdata", c03Plain(23, []byte{1, 2, 3})},
			{"inject-empty-handshake", c03Plain(22, nil)},
			{"inject-handshake-fragment", c03Plain(22, []byte{20, 0})},
			{"inject-handshake-message", c03Plain(22, []byte{14, 0, 0, 0})},
			{"inject-unknown-type", c03Plain(99, []byte{0})},
			{"inject-copy-of-first-record", recs[0]},
		}
		for i := range recs {
			for k, j := range injs {
				if !exhaustive && (i+k+dir)%3 != 0 {
					continue
				}
				run(j.name, c03Edit{Kind: "inject", ToServer: ts, Idx: i, Data: j.data})
			}
		}
		// injected handshake messages without a body, of every kind of type code (hello_request 0, the known ones, unassigned ones)
		for ti, typ := range []byte{0, 1, 2, 4, 11, 12, 13, 15, 16, 20, 21, 255} {
			for i := range recs {
				if !exhaustive && typ != 0 && (i+ti+dir)%3 != 0 {
					continue
				}
				run(fmt.Sprintf("inject-handshake-type-%d", typ), c03Edit{Kind: "inject", ToServer: ts, Idx: i, Data: c03Plain(22, []byte{typ, 0, 0, 0})})
			}
		}
		run("inject-warning", c03Edit{Kind: "inject", ToServer: ts, Idx: len(recs) - 1, After: true, Data: warn})
		// 16 and 17 warning alerts in a row before the second record
		if len(recs) > 1 {
			for _, n := range []int{16, 17} {
				run(fmt.Sprintf("inject-%d-warnings", n), c03Edit{Kind: "inject", ToServer: ts, Idx: 1, Data: bytes.Repeat(warn, n)})
			}
		}
		// re-framing: the same handshake bytes in other records
		for i, rec := range recs {
			if rec[0] != 22 || i >= len(recs)-1 && false {
				continue
			}
			sealed := false
			for _, q := range recs[:i] {
				if q[0] == 20 {
					sealed = true
				}
			}
			if sealed {
				continue
			}
			ats := []int{1, 4, len(rec) - 6}
			if !exhaustive {
				ats = []int{1 + r.IntN(len(rec)-6)}
			}
			for _, a := range ats {
				run("split-record", c03Edit{Kind: "split", ToServer: ts, Idx: i, At: a})
			}
			if i+1 < len(recs) && recs[i+1][0] == 22 {
				run("merge-records", c03Edit{Kind: "merge", ToServer: ts, Idx: i})
			}
		}
		// handshake bytes pending in the reassembly buffer when the ChangeCipherSpec arrives (they
		// ride at the end of the record that holds the last message before it), with and without
		// anything after the ChangeCipherSpec
		at = 0
		for i, rec := range recs {
			if rec[0] == 20 && i > 0 {
				frag := []byte{20, 0, 0}
				run("pending-bytes-then-ccs", c03Edit{Kind: "append", ToServer: ts, Idx: i - 1, Data: frag},
					c03Edit{Kind: "cut", ToServer: ts, At: at + len(frag) + len(rec)})
				run("pending-bytes-then-ccs", c03Edit{Kind: "append", ToServer: ts, Idx: i - 1, Data: frag})
				run("ccs-then-nothing", c03Edit{Kind: "cut", ToServer: ts, At: at + len(rec)})
			}
			at += len(rec)
		}
		if dir == 1 && !cfg.Resume {
			// the server's ChangeCipherSpec follows the client's flight: pending bytes at the end of
			// the server's first flight are still there when it arrives
			last := 0
			for i, rec := range recs {
				if rec[0] == 22 && i+1 < len(recs) && recs[i+1][0] == 20 {
					last = i
				}
			}
			run("pending-bytes-then-ccs", c03Edit{Kind: "append", ToServer: ts, Idx: last, Data: []byte{20, 0}})
		}
	}
	g.flush(out)
	return nil
}

// ---------------------------------------------------------------- dtlcp: baseline structure, traces, generation

func c03SplitD(d []byte) (recs [][]byte, ok bool) {
	b := d
	for len(b) > 0 {
		if len(b) < 13 {
			return recs, false
		}
		n := int(b[11])<<8 | int(b[12])
		if 13+n > len(b) {
			return recs, false
		}
		recs = append(recs, b[:13+n])
		b = b[13+n:]
	}
	return recs, true
}

// the distinct records of one direction of the untampered run, in order of first appearance
func c03BaseRecs(dgrams [][]byte) (recs [][]byte) {
	seen := map[string]bool{}
	for _, d := range dgrams {
		rs, _ := c03SplitD(d)
		for _, r := range rs {
			if !seen[string(r)] {
				seen[string(r)] = true
				recs = append(recs, r)
			}
		}
	}
	return
}

// what was handed to the receiver of a direction, as indices of untampered records; ok = false
// when something else (an altered or foreign record) was handed over
func c03Trace(handed [][]byte, base [][]byte) (ids []int, ok bool) {
	idx := map[string]int{}
	for i, r := range base {
		idx[string(r)] = i
	}
	for _, d := range handed {
		rs, whole := c03SplitD(d)
		if !whole || len(d) == 0 {
			return nil, false
		}
		for _, r := range rs {
			i, known := idx[string(r)]
			if !known {
				return nil, false
			}
			ids = append(ids, i)
		}
	}
	return ids, true
}

// the handshake messages of the transcript an endpoint wrote (first transmissions, epoch 0,
// without HelloVerifyRequest and the cookieless ClientHello)
func c03SentMsgsD(dgrams [][]byte) [][]byte {
	var msgs [][]byte
	var hello []byte
	seen := map[string]bool{}
	for _, d := range dgrams {
		rs, _ := c03SplitD(d)
		for _, r := range rs {
			if r[0] != 22 || r[3] != 0 || r[4] != 0 || len(r) < 13+12 {
				continue
			}
			m := append([]byte(nil), r[13:]...)
			m[4], m[5] = 0, 0 // message_seq depends on how many HelloVerifyRequests / hellos went before
			switch m[0] {
			case 3:
				continue
			case 1:
				hello = m // the last ClientHello written is the one of the transcript
				continue
			case 15:
				m = []byte{15} // the CertificateVerify signs the transcript, message_seq fields included
			}
			if seen[string(m)] {
				continue
			}
			seen[string(m)] = true
			msgs = append(msgs, m)
		}
	}
	if hello != nil {
		msgs = append([][]byte{hello}, msgs...)
	}
	return msgs
}

func c03IntList(xs []int) string {
	var s []string
	for _, x := range xs {
		s = append(s, fmt.Sprint(x))
	}
	return "[" + strings.Join(s, ";") + "]"
}

type c03GroupD struct {
	cfg      c03Cfg
	base     c03Run
	baseRecs [2][][]byte
	items    []string
	first    bool
	size     int
}

func c03DirectD(r c03Run) string {
	switch {
	case r.C.Panic != "" || r.S.Panic != "":
		return "panic: " + r.C.Panic + r.S.Panic
	case r.Hung:
		return "hang"
	case r.Livelock:
		return "livelock"
	}
	return ""
}

func c03ObsCoqD(cfg c03Cfg, base, r c03Run) string {
	direct := r.Hung || r.C.Panic != "" || r.S.Panic != ""
	views := "None"
	if r.C.Ok && r.S.Ok {
		same := c03SameRecords(c03SentMsgsD(r.Sent[0]), c03SentMsgsD(base.Sent[0])) && c03SameRecords(c03SentMsgsD(r.Sent[1]), c03SentMsgsD(base.Sent[1]))
		views = fmt.Sprintf("(Some (%s, %s, %s, %s))", c03ViewCoq(r.C.View, nil), c03ViewCoq(r.S.View, nil), emit.Bool(c03PeersOK(cfg, r)), emit.Bool(same))
	}
	return fmt.Sprintf("(mkObs %s %s %d %d %s %s)", emit.Bool(r.C.Ok), emit.Bool(r.S.Ok), r.C.Class, r.S.Class, emit.Bool(direct), views)
}

type c03ObsD struct {
	C        c03Side `json:"client"`
	S        c03Side `json:"server"`
	Hung     bool    `json:"hung,omitempty"`
	Stalled  bool    `json:"stalled,omitempty"`
	Livelock bool    `json:"livelock,omitempty"`
	Expiries int     `json:"timer_expiries"`
	Why      string  `json:"why,omitempty"`
}

func (g *c03GroupD) add(out *emit.Out, scenario string, edits []c03Edit, r c03Run) {
	in := c03Input{Cfg: g.cfg, Edits: edits}
	idx := out.Add(emit.Case{Scenario: scenario + "/" + g.cfg.name(), Trivial: len(edits) == 0, Input: in,
		Observed: c03ObsD{r.C, r.S, r.Hung, r.Stalled, r.Livelock, r.Expiries, r.Why}, Direct: c03DirectD(r)})
	trace := "None"
	ts, ok1 := c03Trace(r.Handed[0], g.baseRecs[0])
	tc, ok2 := c03Trace(r.Handed[1], g.baseRecs[1])
	if ok1 && ok2 && !r.Livelock {
		trace = fmt.Sprintf("(Some (%s, %s))", c03IntList(ts), c03IntList(tc))
	}
	g.items = append(g.items, fmt.Sprintf("(%d, %s, %s)", idx, trace, c03ObsCoqD(g.cfg, g.base, r)))
	g.size++
	if r.C.Ok && r.S.Ok && len(edits) > 0 {
		out.Extra["both-complete:"+scenario] = c03Inc(out.Extra["both-complete:"+scenario])
	}
}

func c03Inc(v interface{}) int {
	if n, ok := v.(int); ok {
		return n + 1
	}
	return 1
}

func (g *c03GroupD) flush(out *emit.Out) {
	if len(g.items) == 0 {
		return
	}
	b := g.base
	term := fmt.Sprintf("DGroup %d %s %s\n  %s\n  %s\n  %s\n  [%s]", g.cfg.Suite, emit.Bool(g.first), emit.Bool(c03PeersOK(g.cfg, b)),
		c03BytesList(g.baseRecs[0]), c03BytesList(g.baseRecs[1]), c03ObsCoqD(g.cfg, b, b), strings.Join(g.items, ";\n   "))
	out.Cases = append(out.Cases, emit.Case{Idx: len(out.Cases), Scenario: "group/" + g.cfg.name(), Trivial: true,
		Input: map[string]interface{}{"group_of": g.cfg}, Coq: term})
	g.items, g.size, g.first = nil, 0, false
}

func c03NewGroupD(cfg c03Cfg) (*c03GroupD, bool) {
	base := c03RunD(c03Input{Cfg: cfg})
	g := &c03GroupD{cfg: cfg, base: base, first: true}
	g.baseRecs[0], g.baseRecs[1] = c03BaseRecs(base.Sent[0]), c03BaseRecs(base.Sent[1])
	return g, base.C.Ok && base.S.Ok && !base.Hung && !base.Stalled
}

func c03GenD(out *emit.Out, p params, r *rand.Rand, cfg c03Cfg, exhaustive bool) error {
	g, ok := c03NewGroupD(cfg)
	base := g.base
	if !ok {
		out.Add(emit.Case{Scenario: "baseline-failed/" + cfg.name(), Input: c03Input{Cfg: cfg}, Observed: c03ObsD{C: base.C, S: base.S, Hung: base.Hung},
			Direct: "untampered handshake does not complete: " + base.C.Text + " / " + base.S.Text})
		return nil
	}
	limit := 60
	if exhaustive {
		limit = 400
	}
	run := func(scenario string, edits ...c03Edit) {
		res := c03RunD(c03Input{Cfg: cfg, Edits: edits})
		g.add(out, scenario, edits, res)
		if g.size >= limit {
			g.flush(out)
		}
	}
	run("untampered")
	// every ChangeCipherSpec record of one direction, or of both, is removed (from retransmissions too): the
	// records around it arrive; no endpoint may take the next epoch's records as the signal
	run("strip-every-ccs", c03Edit{Kind: "strip", ToServer: true, Mask: 20})
	run("strip-every-ccs", c03Edit{Kind: "strip", ToServer: false, Mask: 20})
	run("strip-every-ccs", c03Edit{Kind: "strip", ToServer: true, Mask: 20}, c03Edit{Kind: "strip", ToServer: false, Mask: 20})
	for dir := 0; dir < 2; dir++ {
		ts := dir == 0
		dgs := base.Sent[dir]
		for i, d := range dgs {
			// record structure of the datagram
			type span struct {
				at, n, epoch int
				typ          byte
			}
			var recs []span
			b, at := d, 0
			for len(b) >= 13 {
				n := int(b[11])<<8 | int(b[12])
				if 13+n > len(b) {
					break
				}
				recs = append(recs, span{at, 13 + n, int(b[3])<<8 | int(b[4]), b[0]})
				at += 13 + n
				b = b[13+n:]
			}
			for _, rc := range recs {
				var offs []int
				if exhaustive {
					for o := 0; o < rc.n; o++ {
						offs = append(offs, rc.at+o)
					}
				} else {
					for o := 0; o < 13; o++ {
						offs = append(offs, rc.at+o)
					}
					if rc.typ == 22 && rc.epoch == 0 {
						for o := 13; o < 25 && o < rc.n; o++ {
							offs = append(offs, rc.at+o)
						}
					}
					if rc.n > 26 {
						offs = append(offs, rc.at+25, rc.at+rc.n-1, rc.at+26+r.IntN(rc.n-26), rc.at+26+r.IntN(rc.n-26))
					}
				}
				for _, o := range offs {
					rel := o - rc.at
					sc := "flip-body"
					switch {
					case rel == 0:
						sc = "flip-record-type"
					case rel < 3:
						sc = "flip-record-version"
					case rel < 5:
						sc = "flip-record-epoch"
					case rel < 11:
						sc = "flip-record-sequence"
					case rel < 13:
						sc = "flip-record-length"
					case rel < 25 && rc.typ == 22 && rc.epoch == 0:
						sc = "flip-message-header"
					}
					if rc.epoch > 0 {
						sc += "-protected"
					} else if rc.typ == 22 && len(d) > rc.at+13 {
						switch d[rc.at+13] {
						case 3:
							sc += "-helloverifyrequest"
						case 1:
							if i == 0 {
								sc += "-cookieless-hello"
							}
						}
					}
					masks := []int{[]int{0x01, 0x80, 0xff}[r.IntN(3)]}
					if exhaustive {
						masks = []int{0x01, 0x80, 0xff}
					}
					for _, m := range masks {
						run(sc, c03Edit{Kind: "flip", ToServer: ts, Idx: i, Off: o, Mask: m})
					}
				}
				run("truncate-datagram", c03Edit{Kind: "trunc", ToServer: ts, Idx: i, At: rc.at})
				run("truncate-datagram", c03Edit{Kind: "trunc", ToServer: ts, Idx: i, At: rc.at + 1 + r.IntN(rc.n-1)})
			}
			if !exhaustive && len(recs) > 0 && recs[0].epoch == 0 && recs[0].typ == 22 {
				first := d[:recs[0].n]
				names := []string{}
				tg := c03Targets(first, 13, base.C.View.SID, cfg.Suite)
				for name := range tg {
					names = append(names, name)
				}
				sort.Strings(names)
				for _, name := range names {
					for _, o := range tg[name] {
						if o >= 13 && o < len(first) {
							sc := name
							if first[13] == 3 {
								sc += "-helloverifyrequest"
							} else if first[13] == 1 && i == 0 {
								sc += "-cookieless-hello"
							}
							run(sc, c03Edit{Kind: "flip", ToServer: ts, Idx: i, Off: o, Mask: 0x01})
						}
					}
				}
			}
			run("drop", c03Edit{Kind: "drop", ToServer: ts, Idx: i})
			run("duplicate", c03Edit{Kind: "dup", ToServer: ts, Idx: i})
			if i+1 < len(dgs) {
				run("swap", c03Edit{Kind: "swap", ToServer: ts, Idx: i})
			}
			if len(recs) > 1 {
				run("split-datagram", c03Edit{Kind: "split", ToServer: ts, Idx: i})
			}
			// injected datagrams before this one
			injs := []struct {
				name string
				data []byte
			}{
				{"inject-copy-of-first-datagram", dgs[0]},
				{"inject-copy-of-last-datagram", dgs[len(dgs)-1]},
				{"inject-warning", append([]byte{21, 1, 1, 0, 0, 0, 0, 0, 0, 0, 99, 0, 2}, 1, 90)},
				{"inject-fatal-alert", append([]byte{21, 1, 1, 0, 0, 0, 0, 0, 0, 0, 98, 0, 2}, 2, 40)},
				{"inject-ccs", append([]byte{20, 1, 1, 0, 0, 0, 0, 0, 0, 0, 97, 0, 1}, 1)},
				{"inject-appdata", append([]byte{23, 1, 1, 0, 0, 0, 0, 0, 0, 0, 96, 0, 3}, 1, 2, 3)},
				{"inject-garbage", []byte{1, 2, 3, 4, 5, 6, 7}},
				{"inject-peer-datagram-reflected", base.Sent[1-dir][0]},
			}
			for k, j := range injs {
				if !exhaustive && (i+k+dir)%2 != 0 {
					continue
				}
				run(j.name, c03Edit{Kind: "inject", ToServer: ts, Idx: i, Data: j.data})
			}
		}
	}
	g.flush(out)
	return nil
}

// ---------------------------------------------------------------- entry

type c03Replay struct {
	Cases []struct {
		Scenario string          `json:"scenario"`
		Input    json.RawMessage `json:"input"`
	} `json:"cases"`
}

func runC03(p params) error {
	tk.SeedPKI(0xC03)
	out := emit.New(p.out, "C03", "V.Corr.Run_C03", "case",
		"one edit script (byte flips with several masks at record-header, message-header, first/last and sampled or all body positions; record drop, duplication, adjacent swap, truncation at and inside every record, injected records of every content type, re-framing) on the records / datagrams of a deterministic untampered handshake, per configuration (4 suites x full/resumed x client authentication x tlcp/dtlcp); plus a key-holding puppet peer whose Finished is altered; non-trivial = at least one edit; distinct by input")
	out.ShardBytes = 1000
	out.ShardMax = 100000
	if p.replay != "" {
		b, err := os.ReadFile(p.replay)
		if err != nil {
			return err
		}
		var rp c03Replay
		if err := json.Unmarshal(b, &rp); err != nil {
			return err
		}
		groups := map[string]*c03Group{}
		groupsD := map[string]*c03GroupD{}
		for _, c := range rp.Cases {
			var fin c03FinInput
			if err := json.Unmarshal(c.Input, &fin); err == nil && fin.Target != "" {
				c03FinAdd(out, fin)
				continue
			}
			var in c03Input
			if err := json.Unmarshal(c.Input, &in); err != nil || in.Cfg.Stack == "" {
				continue
			}
			if in.Cfg.Stack == "dtlcp" {
				g := groupsD[in.Cfg.name()]
				if g == nil {
					g, _ = c03NewGroupD(in.Cfg)
					groupsD[in.Cfg.name()] = g
				}
				g.add(out, strings.SplitN(c.Scenario, "/", 2)[0], in.Edits, c03RunD(in))
				continue
			}
			g := groups[in.Cfg.name()]
			if g == nil {
				g = &c03Group{cfg: in.Cfg, base: c03RunT(c03Input{Cfg: in.Cfg}), first: true}
				groups[in.Cfg.name()] = g
			}
			g.add(out, strings.SplitN(c.Scenario, "/", 2)[0], in.Edits, c03RunT(in))
		}
		for _, g := range groups {
			g.flush(out)
		}
		for _, g := range groupsD {
			g.flush(out)
		}
		return out.Finish()
	}
	r := rand.New(rand.NewPCG(p.seed, 0xC03))
	type plan struct {
		cfg        c03Cfg
		exhaustive bool
	}
	var plans []plan
	suites := []uint16{0xe013, 0xe053, 0xe011, 0xe051}
	for i, s := range suites {
		for _, resume := range []bool{false, true} {
			for _, auth := range []bool{false, true} {
				if c03IsECDHE(s) && !auth {
					continue // ECDHE always authenticates the client
				}
				if p.tier != "thorough" && (i+b2i(resume)+b2i(auth))%2 == 1 && !(s == 0xe013 && !resume) {
					continue
				}
				plans = append(plans, plan{c03Cfg{Stack: "tlcp", Suite: s, Resume: resume, Auth: auth, Seed: p.seed}, false})
			}
		}
	}
	if p.tier == "thorough" {
		plans = append(plans, plan{c03Cfg{Stack: "tlcp", Suite: 0xe013, Auth: true, Seed: p.seed + 1}, true},
			plan{c03Cfg{Stack: "tlcp", Suite: 0xe053, Resume: true, Seed: p.seed + 1}, true})
	}
	// a server that selects its configuration by the name in the ClientHello
	plans = append(plans, plan{c03Cfg{Stack: "tlcp", Suite: 0xe053, Seed: p.seed, Steer: true}, false})
	for _, pl := range plans {
		if err := c03GenT(out, p, r, pl.cfg, pl.exhaustive); err != nil {
			return err
		}
	}
	var plansD []plan
	for i, s := range suites {
		for _, resume := range []bool{false, true} {
			for _, auth := range []bool{false, true} {
				if c03IsECDHE(s) && !auth {
					continue
				}
				if p.tier != "thorough" && (i+b2i(resume)+b2i(auth))%2 == 0 && !(s == 0xe053 && !resume && !auth) {
					continue
				}
				plansD = append(plansD, plan{c03Cfg{Stack: "dtlcp", Suite: s, Resume: resume, Auth: auth, Seed: p.seed}, false})
			}
		}
	}
	if p.tier == "thorough" {
		plansD = append(plansD, plan{c03Cfg{Stack: "dtlcp", Suite: 0xe053, Auth: true, Seed: p.seed + 1}, true},
			plan{c03Cfg{Stack: "dtlcp", Suite: 0xe013, Resume: true, Seed: p.seed + 1}, true})
	}
	plansD = append(plansD, plan{c03Cfg{Stack: "dtlcp", Suite: 0xe053, Seed: p.seed, Steer: true}, false},
		plan{c03Cfg{Stack: "dtlcp", Suite: 0xe013, Auth: true, Seed: p.seed, Steer: true}, false})
	for _, pl := range plansD {
		if err := c03GenD(out, p, r, pl.cfg, pl.exhaustive); err != nil {
			return err
		}
	}
	plans = append(plans, plansD...)
	c03FinGen(out, p)
	out.Extra["configurations"] = len(plans)
	return out.Finish()
}

func b2i(b bool) int {
	if b {
		return 1
	}
	return 0
}

func init() { register("C03", runC03) }
