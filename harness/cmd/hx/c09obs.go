package main

// C09 observation layer: transports handed to the endpoint under test that sample, from inside the
// endpoint's own goroutine at every transport read, the sizes of the buffers the connection holds
// (through the add-only hooks VerifBufSizes09) and the depth of the call stack.

import (
	"net"
	"runtime"
	"strings"
	"sync"

	"gitee.com/Trisia/gotlcp/dtlcp"
	"gitee.com/Trisia/gotlcp/tlcp"
)

// c09Max: maxima over all samples of one run.
type c09Max struct {
	mu       sync.Mutex
	Samples  int `json:"samples"`
	HandLen  int `json:"hand_len"`
	HandCap  int `json:"hand_cap"`
	RawLen   int `json:"raw_len"`
	RawCap   int `json:"raw_cap"`
	InLen    int `json:"in_len"`
	Retry    int `json:"retry"`
	Pending  int `json:"pending"`       // dtlcp: reassembly buffers
	PendingB int `json:"pending_bytes"` // dtlcp: their total size
	Depth    int `json:"depth"`         // call-stack depth at a transport read (dtlcp: frames of readDatagram)
	Frames   int `json:"frames"`        // dtlcp: frames of readRecordOrCCS on the stack at a transport read
	PostHand int `json:"post_hand"`     // handshake bytes held at a transport read after completion
	Reads    int `json:"reads"`         // transport reads
	EmptyRun int `json:"empty_run"`     // longest run of consecutive transport reads that returned no byte and no error
}

func mx(a *int, b int) {
	if b > *a {
		*a = b
	}
}

func stackDepth() int {
	var pcs [4096]uintptr
	return runtime.Callers(0, pcs[:])
}

// dtlcpFrames counts, on the calling goroutine's stack, the frames of dtlcp.(*Conn).readDatagram (a
// recursion before fix 593205a) and of dtlcp.(*Conn).readRecordOrCCS (re-entered through
// retryReadRecord for every warning alert before fix bfc7028).
func dtlcpFrames() (rd, rr int) {
	var pcs [8192]uintptr
	n := runtime.Callers(0, pcs[:])
	fr := runtime.CallersFrames(pcs[:n])
	for {
		f, more := fr.Next()
		if strings.HasSuffix(f.Function, "dtlcp.(*Conn).readDatagram") {
			rd++
		}
		if strings.HasSuffix(f.Function, "dtlcp.(*Conn).readRecordOrCCS") {
			rr++
		}
		if !more {
			break
		}
	}
	return rd, rr
}

// ---- stream

type c09Conn struct {
	net.Conn
	T        *tlcp.Conn
	M        *c09Max
	emptyRun int
	done     bool // Handshake returned nil (set in the target's goroutine)
	// the last sample (guarded by M.mu)
	lastHand, lastRetry int
}

func (c *c09Conn) sample() {
	if c.T == nil {
		return
	}
	hl, hc, rl, rc, il, rt := c.T.VerifBufSizes09()
	m := c.M
	m.mu.Lock()
	m.Samples++
	mx(&m.HandLen, hl)
	mx(&m.HandCap, hc)
	mx(&m.RawLen, rl)
	mx(&m.RawCap, rc)
	mx(&m.InLen, il)
	mx(&m.Retry, rt)
	if c.done {
		mx(&m.PostHand, hl)
	}
	c.lastHand, c.lastRetry = hl, rt
	m.mu.Unlock()
}

func (c *c09Conn) Read(p []byte) (int, error) {
	c.sample()
	d := stackDepth()
	n, err := c.Conn.Read(p)
	m := c.M
	m.mu.Lock()
	m.Reads++
	mx(&m.Depth, d)
	if n == 0 && err == nil {
		c.emptyRun++
		mx(&m.EmptyRun, c.emptyRun)
	} else {
		c.emptyRun = 0
	}
	m.mu.Unlock()
	return n, err
}

// ---- datagram

type c09PC struct {
	net.PacketConn
	T *dtlcp.Conn
	M *c09Max
	// Foreign: a datagram whose first byte is 0xFA is reported as coming from this address (and
	// loses that byte); nil: never.
	Foreign net.Addr
	done    bool
	// the last sample (guarded by M.mu)
	lastHand, lastRetry, lastPending, lastPendingB, lastDepth int
	hsFailed                                                  bool // Handshake returned an error (guarded by M.mu)
}

// onHandshake is the session's OnHandshake callback.  The session closes the endpoint's socket
// right after a failed handshake, which the virtual network already counts as "finished" although
// the goroutine is still unwinding: the failure is therefore noted here, before that.
func (c *c09PC) onHandshake(err error) {
	c.M.mu.Lock()
	c.done = err == nil
	c.hsFailed = err != nil
	c.M.mu.Unlock()
}

func (c *c09PC) failed() bool {
	c.M.mu.Lock()
	defer c.M.mu.Unlock()
	return c.hsFailed
}

func (c *c09PC) sample() {
	if c.T == nil {
		return
	}
	hl, hc, rl, il, pn, pb, rt := c.T.VerifBufSizes09()
	m := c.M
	m.mu.Lock()
	m.Samples++
	mx(&m.HandLen, hl)
	mx(&m.HandCap, hc)
	mx(&m.RawLen, rl)
	mx(&m.InLen, il)
	mx(&m.Pending, pn)
	mx(&m.PendingB, pb)
	mx(&m.Retry, rt)
	if c.done {
		mx(&m.PostHand, hl)
	}
	c.lastHand, c.lastRetry, c.lastPending, c.lastPendingB = hl, rt, pn, pb
	m.mu.Unlock()
}

func (c *c09PC) ReadFrom(p []byte) (int, net.Addr, error) {
	c.sample()
	d, rr := dtlcpFrames()
	m := c.M
	m.mu.Lock()
	m.Reads++
	mx(&m.Depth, d)
	mx(&m.Frames, rr)
	c.lastDepth = d
	m.mu.Unlock()
	n, a, err := c.PacketConn.ReadFrom(p)
	if err == nil && c.Foreign != nil && n > 0 && p[0] == 0xFA {
		copy(p, p[1:n])
		return n - 1, c.Foreign, nil
	}
	return n, a, err
}
