package main

// C07: a server completes only when its client-authentication policy is satisfied.
// A puppet client plays every behaviour against the real server under each of the six policies;
// chain and signature verdicts are computed here with smx509 / sm2 on the bytes exchanged.

import (
	"crypto/ecdsa"
	"crypto/rsa"
	"encoding/json"
	"fmt"
	"os"
	"strings"

	"github.com/emmansun/gmsm/sm2"
	x509 "github.com/emmansun/gmsm/smx509"
	"verifharness/internal/emit"
	"verifharness/internal/puppet"
	"verifharness/internal/tk"
)

type c07Input struct {
	Stack   string `json:"stack"`
	Suite   uint16 `json:"suite"`
	Policy  int    `json:"policy"`
	Chain   string `json:"chain"`             // none | cli | cli-untrusted | cli-expired | cli-wrongeku | cli-sig | cli-enc-untrusted | cli-enc-wrongeku
	CV      string `json:"cv"`                // ok | missing | wrong-key | other-transcript | corrupt
	Policy2 int    `json:"policy2,omitempty"` // resume: policy of the second configuration (shares the cache)
	Resume  bool   `json:"resume,omitempty"`
	Suite2  uint16 `json:"suite2,omitempty"` // declined resumption: the second connection offers the session but only this other suite
	Chain2  string `json:"chain2,omitempty"` // ... and presents this chain in the full handshake that follows
	// the server's trust settings: Roots "" (ClientCAs = RootCAs = the CA), "other" (another CA), "rootcas-only" (RootCAs = the CA,
	// no ClientCAs: nothing is configured for client certificates); Shift moves the server's configured clock by whole years
	Roots string `json:"roots,omitempty"`
	Shift int    `json:"shift,omitempty"`
	// Via: how the server's configuration reaches the connection (tk.EPConfig.Via); SNI1 / SNI2: the server name in the
	// client's hello (SNI2: in the hello that answers the HelloVerifyRequest, datagram stack; empty = SNI1)
	Via  string `json:"via,omitempty"`
	SNI1 string `json:"sni1,omitempty"`
	SNI2 string `json:"sni2,omitempty"`
}

// c07SNI is a server_name extension (the raw extensions block of a hello that carries nothing else).
func c07SNI(name string) []byte {
	if name == "" {
		return nil
	}
	n := len(name)
	return append([]byte{0, 0, byte((n + 5) >> 8), byte(n + 5), byte((n + 3) >> 8), byte(n + 3), 0, byte(n >> 8), byte(n)}, name...)
}

var c07Policies = []string{"NoClientCert", "RequestClientCert", "RequireAnyClientCert", "VerifyClientCertIfGiven", "RequireAndVerifyClientCert", "RequireAndVerifyAnyKeyUsageClientCert"}

func c07Chain(name string) (chain [][]byte, sig, enc *tk.Leaf) {
	pk := tk.GetPKI()
	switch name {
	case "none", "skip": // skip: asked for a certificate, the client sends no Certificate message at all
		return nil, nil, pk.CliEnc
	case "cli":
		return [][]byte{pk.CliSig.DER, pk.CliEnc.DER}, pk.CliSig, pk.CliEnc
	case "cli-sig":
		return [][]byte{pk.CliSig.DER}, pk.CliSig, pk.CliEnc
	case "cli-untrusted":
		return [][]byte{pk.CliUntrustedSig.DER, pk.CliUntrustedEnc.DER}, pk.CliUntrustedSig, pk.CliUntrustedEnc
	case "cli-expired":
		return [][]byte{pk.CliExpiredSig.DER, pk.CliEnc.DER}, pk.CliExpiredSig, pk.CliEnc
	case "cli-wrongeku":
		return [][]byte{pk.CliWrongEKUSig.DER, pk.CliWrongEKUEnc.DER}, pk.CliWrongEKUSig, pk.CliWrongEKUEnc
	case "cli-enc-untrusted": // a good signing certificate beside an encryption certificate of another CA
		return [][]byte{pk.CliSig.DER, pk.CliUntrustedEnc.DER}, pk.CliSig, pk.CliUntrustedEnc
	case "cli-enc-wrongeku":
		return [][]byte{pk.CliSig.DER, pk.CliWrongEKUEnc.DER}, pk.CliSig, pk.CliWrongEKUEnc
	}
	panic("chain " + name)
}

func c07Verify(der []byte, policy int) bool { return c07VerifyAt(der, policy, "", 0) }

// c07VerifyAt: the oracle's chain verdict under the server's client roots and configured clock
func c07VerifyAt(der []byte, policy int, roots string, shift int) bool {
	pk := tk.GetPKI()
	c, err := x509.ParseCertificate(der)
	if err != nil {
		return false
	}
	ku := []x509.ExtKeyUsage{x509.ExtKeyUsageClientAuth, x509.ExtKeyUsageServerAuth}
	if policy == 5 {
		ku = []x509.ExtKeyUsage{x509.ExtKeyUsageAny}
	}
	pool := pk.CA.Pool
	switch roots {
	case "other":
		pool = pk.OtherCA.Pool
	case "rootcas-only", "none":
		pool = x509.NewCertPool()
	}
	_, err = c.Verify(x509.VerifyOptions{Roots: pool, CurrentTime: tk.EPConfig{TimeShiftYears: shift}.Clock(), Intermediates: x509.NewCertPool(), KeyUsages: ku})
	return err == nil
}

type c07Result struct {
	view     [10]int
	accepted bool
	resumed  bool
	peerN    int
	chainsN  int
	direct   string
	sid      []byte
	master   []byte
	deliv    bool
	judged   int // the policy the connection is judged under
}

// one connection of the puppet client against a real server configured with `policy`
func c07Conn(in c07Input, policy int, reg *tk.Registry, offerSID, offerMaster []byte) c07Result {
	var r c07Result
	b2i := func(b bool) int {
		if b {
			return 1
		}
		return 0
	}
	sc := tk.EPConfig{Ident: "srv", Auth: policy, Cache: "shared", Roots: in.Roots, TimeShiftYears: in.Shift, Via: in.Via}
	finalSNI := in.SNI1
	chain, sig, enc := c07Chain(in.Chain)
	ecdhe := puppet.IsECDHE(in.Suite)
	var cvSig, cvTBS []byte
	certMsg, cvMsg, ckxOK, finOK := false, false, false, false
	script := func(p *puppet.Peer) {
		p.Sig, p.Enc = sig, enc
		o := puppet.CHOpt{Suites: []uint16{in.Suite}, SID: offerSID, Ext: c07SNI(in.SNI1)}
		if offerSID != nil {
			p.ForceMaster = offerMaster
		}
		p.SendClientHello(o)
		p.Absorb(5)
		if p.DTLS && p.Cookie != nil && p.PeerHello == nil {
			o.Cookie = p.Cookie
			if in.SNI2 != "" {
				o.Ext, finalSNI = c07SNI(in.SNI2), in.SNI2
			}
			p.SendClientHello(o)
			p.Absorb(5)
		}
		if p.L.TargetDone() || p.PeerHello == nil {
			return
		}
		if offerSID != nil && string(p.SID) == string(offerSID) { // resumed
			r.resumed = true
			p.Absorb(5)
			p.SendCCS()
			p.SendFinished("ok")
			p.Absorb(5)
		} else {
			p.ForceMaster = nil
			p.Master = nil
			if p.CertRequested && in.Chain != "skip" {
				certMsg = true
				p.SendCertificate(chain)
			}
			p.SendClientKeyExchange("ok")
			ckxOK = p.Master != nil
			if p.CertRequested && len(chain) > 0 && in.CV != "missing" {
				cvMsg = true
				cvTBS = puppet.SM3(p.Transcript)
				before := len(p.Transcript)
				p.SendCertVerify(in.CV)
				hl := 4
				if p.DTLS {
					hl = 12
				}
				body := p.Transcript[before+hl:]
				if len(body) >= 2 {
					cvSig = append([]byte{}, body[2:]...)
				}
			}
			p.SendCCS()
			finOK = p.Master != nil
			p.SendFinished("ok")
			p.Absorb(5)
			r.sid, r.master = p.SID, p.Master
		}
		if !p.L.TargetDone() {
			p.SendApp([]byte("client data"))
			p.Absorb(5)
		}
	}
	var o puppet.TargetOutcome
	if in.Stack == "dtlcp" {
		sc.PMTU, sc.RetransMs, sc.MaxRetransMs = 16000, 10000, 60000
		_, o = puppet.RunDTLCP(tk.BuildDTLCP(sc, reg), false, script)
	} else {
		s := puppet.NewTLCPSession(tk.BuildTLCP(sc, reg), false)
		script(s.P)
		o = s.Finish()
	}
	if o.Panic != "" {
		r.direct = "panic: " + o.Panic
	} else if o.Hung {
		r.direct = "hang"
	}
	// the policy in force is the one of the configuration that the hello which entered the handshake selects
	if in.Via == "host-lax" && finalSNI == "lax.example" {
		policy = 0
	}
	r.judged = policy
	r.accepted = o.Res.Complete && o.Res.Err == ""
	r.peerN, r.chainsN = len(o.Res.PeerCerts), o.Res.VerifiedChains
	r.deliv = len(o.Read) > 0
	// oracle view
	parseOK := true
	var certs []*x509.Certificate
	for _, d := range chain {
		c, err := x509.ParseCertificate(d)
		if err != nil {
			parseOK = false
		}
		certs = append(certs, c)
	}
	r.view[0] = b2i(certMsg)
	r.view[1] = len(chain)
	if !certMsg {
		r.view[1] = 0
	}
	r.view[2] = b2i(parseOK)
	if len(chain) > 0 {
		r.view[3] = b2i(c07VerifyAt(chain[0], policy, in.Roots, in.Shift))
	}
	if len(chain) > 1 {
		r.view[4] = b2i(c07VerifyAt(chain[1], policy, in.Roots, in.Shift))
	}
	var pub *ecdsa.PublicKey
	if len(certs) > 0 && certs[0] != nil {
		switch k := certs[0].PublicKey.(type) {
		case *ecdsa.PublicKey:
			r.view[5], pub = 1, k
		case *rsa.PublicKey:
			r.view[5] = 1
		}
	}
	r.view[6] = b2i(ckxOK)
	r.view[7] = b2i(cvMsg)
	if cvMsg && pub != nil {
		r.view[8] = b2i(sm2.VerifyASN1WithSM2(pub, nil, cvTBS, cvSig))
	}
	r.view[9] = b2i(finOK)
	_ = ecdhe
	return r
}

func c07AddCase(out *emit.Out, scenario string, in c07Input) {
	reg := tk.NewRegistry()
	ecdhe := puppet.IsECDHE(in.Suite)
	if !in.Resume {
		r := c07Conn(in, in.Policy, reg, nil, nil)
		b := func(i int) string { return emit.Bool(r.view[i] == 1) }
		out.Add(emit.Case{Scenario: scenario + "/" + in.Stack, Trivial: false, Input: in, Direct: r.direct,
			Observed: map[string]interface{}{"view": r.view, "accepted": r.accepted, "peer_certs": r.peerN, "verified_chains": r.chainsN},
			Coq: fmt.Sprintf("SrvFullCase %s %s (mkCV %s %d%%nat %s %s %s %s %s %s %s %s) %s %s %s", c07Policies[r.judged], emit.Bool(ecdhe),
				b(0), r.view[1], b(2), b(3), b(4), b(5), b(6), b(7), b(8), b(9), emit.Bool(r.accepted), emit.Bool(r.peerN > 0), emit.Bool(r.chainsN > 0))})
		return
	}
	// resumption across configurations sharing the cache
	first := c07Conn(in, in.Policy, reg, nil, nil)
	if !first.accepted {
		return // the creating policy refused this behaviour: nothing to resume
	}
	if in.Suite2 != 0 {
		// the session is offered with a suite it was not created on: the server must decline and run a full
		// handshake, which is judged like any other full handshake (nothing of the offered session may stick)
		in2 := in
		in2.Suite, in2.Chain = in.Suite2, in.Chain2
		r := c07Conn(in2, in.Policy2, reg, first.sid, first.master)
		e2 := puppet.IsECDHE(in.Suite2)
		b := func(i int) string { return emit.Bool(r.view[i] == 1) }
		direct := r.direct
		if r.resumed {
			direct = "resumed a session on a suite it was not created on"
		}
		out.Add(emit.Case{Scenario: scenario + "/" + in.Stack, Trivial: false, Input: in, Direct: direct,
			Observed: map[string]interface{}{"view": r.view, "accepted": r.accepted, "peer_certs": r.peerN, "verified_chains": r.chainsN, "resumed": r.resumed},
			Coq: fmt.Sprintf("SrvFullCase %s %s (mkCV %s %d%%nat %s %s %s %s %s %s %s %s) %s %s %s", c07Policies[in.Policy2], emit.Bool(e2),
				b(0), r.view[1], b(2), b(3), b(4), b(5), b(6), b(7), b(8), b(9), emit.Bool(r.accepted), emit.Bool(r.peerN > 0), emit.Bool(r.chainsN > 0))})
		return
	}
	second := c07Conn(in, in.Policy2, reg, first.sid, first.master)
	chain, _, _ := c07Chain(in.Chain)
	n := len(chain)
	if first.view[0] == 0 {
		n = 0
	}
	chainOK := n > 0 && c07VerifyAt(chain[0], in.Policy2, in.Roots, in.Shift) && (!ecdhe || (n > 1 && c07VerifyAt(chain[1], in.Policy2, in.Roots, in.Shift)))
	out.Add(emit.Case{Scenario: scenario + "/" + in.Stack, Trivial: false, Input: in, Direct: second.direct,
		Observed: map[string]interface{}{"resumed": second.resumed, "accepted": second.accepted, "peer_certs": second.peerN, "verified_chains": second.chainsN},
		Coq: fmt.Sprintf("SrvResumeCase %s (mkSeV %d%%nat %s %s) %s %s %s", c07Policies[in.Policy2], n, emit.Bool(chainOK), emit.Bool(ecdhe),
			emit.Bool(second.resumed), emit.Bool(second.accepted), emit.Bool(second.chainsN > 0))})
}

func runC07(p params) error {
	out := emit.New(p.out, "C07", "V.Corr.Run_C07", "case",
		"six policies x client behaviours (no certificate, trusted, untrusted CA, expired, wrong extended key usage, single certificate; CertificateVerify ok / missing / wrong key / other transcript / corrupt) x ECC and ECDHE x full and resumed across configurations sharing a cache x both stacks; every case non-trivial; distinct by input")
	out.Scope = "nat_scope"
	if p.replay != "" {
		b, err := os.ReadFile(p.replay)
		if err != nil {
			return err
		}
		var rp struct {
			Cases []struct {
				Scenario string   `json:"scenario"`
				Input    c07Input `json:"input"`
			} `json:"cases"`
		}
		if err := json.Unmarshal(b, &rp); err != nil {
			return err
		}
		for _, c := range rp.Cases {
			c07AddCase(out, strings.SplitN(c.Scenario, "/", 2)[0], c.Input)
		}
		return out.Finish()
	}
	chains := []string{"none", "cli", "cli-untrusted", "cli-expired", "cli-wrongeku", "cli-sig", "cli-enc-untrusted", "cli-enc-wrongeku"}
	cvs := []string{"missing", "wrong-key", "other-transcript", "corrupt"}
	for _, st := range []string{"tlcp", "dtlcp"} {
		for _, su := range []uint16{0xe053, 0xe013, 0xe051, 0xe011} {
			if p.tier != "thorough" && (su == 0xe013 || su == 0xe011) && st == "dtlcp" {
				continue
			}
			for pol := 0; pol < 6; pol++ {
				for _, ch := range chains {
					c07AddCase(out, "chain-"+ch, c07Input{Stack: st, Suite: su, Policy: pol, Chain: ch, CV: "ok"})
				}
				for _, cv := range cvs {
					c07AddCase(out, "cv-"+cv, c07Input{Stack: st, Suite: su, Policy: pol, Chain: "cli", CV: cv})
				}
				// asked for a certificate, the client goes straight to the key exchange
				c07AddCase(out, "chain-skip", c07Input{Stack: st, Suite: su, Policy: pol, Chain: "skip", CV: "ok"})
				// the server's own trust settings: another CA / nothing configured for client certificates (only RootCAs);
				// its configured clock after the end of the chain's validity (+20 years)
				for _, ro := range []string{"other", "rootcas-only"} {
					for _, ch := range []string{"cli", "cli-untrusted"} {
						c07AddCase(out, "roots-"+ro, c07Input{Stack: st, Suite: su, Policy: pol, Chain: ch, CV: "ok", Roots: ro})
					}
				}
				c07AddCase(out, "clock-after-validity", c07Input{Stack: st, Suite: su, Policy: pol, Chain: "cli", CV: "ok", Shift: 20})
				// the configuration reaches the connection through Clone, or through GetConfigForClient handing out a clone
				for _, via := range []string{"clone", "host-clone"} {
					for _, ch := range []string{"none", "cli", "cli-untrusted"} {
						c07AddCase(out, "via-"+via, c07Input{Stack: st, Suite: su, Policy: pol, Chain: ch, CV: "ok", Via: via})
					}
				}
				// a callback that serves one host name with a configuration asking for no certificate and answers nil for every
				// other: the policy in force is the one selected by the hello that enters the handshake (datagram stack: the
				// hello that carries the cookie, whatever the cookie-less one said)
				snis := [][2]string{{"strict.example", ""}, {"lax.example", ""}}
				if st == "dtlcp" {
					snis = append(snis, [2]string{"lax.example", "strict.example"}, [2]string{"strict.example", "lax.example"}, [2]string{"lax.example", "lax.example"})
				}
				for _, sn := range snis {
					for _, ch := range []string{"none", "cli"} {
						c07AddCase(out, "host-lax-"+sn[0]+"-"+sn[1], c07Input{Stack: st, Suite: su, Policy: pol, Chain: ch, CV: "ok", Via: "host-lax", SNI1: sn[0], SNI2: sn[1]})
					}
				}
				// a session created with a certificate, then offered on another suite by a client that presents none
				if !puppet.IsECDHE(su) && pol >= 3 {
					other := map[uint16]uint16{0xe053: 0xe013, 0xe013: 0xe053}[su]
					for _, pol2 := range []int{1, 3} {
						for _, ch2 := range []string{"none", "cli-untrusted"} {
							c07AddCase(out, "declined-resumption-then-full", c07Input{Stack: st, Suite: su, Policy: pol, Policy2: pol2, Chain: "cli", CV: "ok", Resume: true, Suite2: other, Chain2: ch2})
						}
					}
				}
				// resumption under every second policy
				for pol2 := 0; pol2 < 6; pol2++ {
					for _, ch := range []string{"none", "cli", "cli-untrusted", "cli-wrongeku", "cli-enc-untrusted", "cli-enc-wrongeku"} {
						if p.tier != "thorough" && (pol+pol2)%2 == 1 && ch != "none" && !(puppet.IsECDHE(su) && strings.HasPrefix(ch, "cli-enc")) {
							continue
						}
						c07AddCase(out, "resume-"+ch, c07Input{Stack: st, Suite: su, Policy: pol, Policy2: pol2, Chain: ch, CV: "ok", Resume: true})
					}
				}
			}
		}
	}
	// configurations used through Config.Clone carry the fields this property depends on
	cloneCases(out, []string{"tlcp", "dtlcp"}, map[string][]string{"tlcp": c07CloneFields, "dtlcp": c07CloneFields})
	return out.Finish()
}

func init() { register("C07", runC07) }

// the fields of a server configuration that decide how a client is authenticated
var c07CloneFields = []string{"ClientAuth", "ClientCAs", "Time", "VerifyPeerCertificate", "VerifyConnection", "GetConfigForClient", "SessionCache", "CipherSuites"}
