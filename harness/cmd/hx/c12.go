package main

// C12: shutdown, end-of-stream and errors are reported faithfully and stay reported (TLCP).
// A history of API calls (Read / Write / CloseWrite / Close / Handshake / HandshakeContext) is
// issued one call at a time on a real tlcp.Conn whose peer is the puppet.  Between calls the
// puppet makes records arrive (application data, alerts of any level and code, handshake,
// change_cipher_spec, damaged records) or ends its sending direction at any byte offset.
// Arrivals queued before the handshake has run are injected inside the handshake at a chosen
// position (early application data, early alerts, early end of transport).

import (
	"context"
	"encoding/json"
	"errors"
	"fmt"
	"io"
	"math/rand/v2"
	"net"
	"os"
	"reflect"
	"strings"
	"sync/atomic"
	"time"

	"gitee.com/Trisia/gotlcp/tlcp"
	"verifharness/internal/emit"
	"verifharness/internal/puppet"
	"verifharness/internal/tk"
)

type c12Ev struct {
	K string `json:"k"` // app | alert | hs | ccs | damaged
	N int    `json:"n,omitempty"`
	L int    `json:"l,omitempty"`
	C int    `json:"c,omitempty"`
}

type c12Call struct {
	Op  string  `json:"op"` // read | write | closewrite | close | handshake | hsctx | arrive | end | gone
	N   int     `json:"n,omitempty"`
	Evs []c12Ev `json:"evs,omitempty"`
	T   string  `json:"t,omitempty"` // end: "" on a record boundary; "app" / "alert": after N (>=1) bytes of such a record
	L   int     `json:"l,omitempty"` // end inside an application data record: its payload length (default 20)
}

type c12Input struct {
	Target  string    `json:"target"` // the real endpoint: server | client
	Suite   uint16    `json:"suite"`
	Plan    string    `json:"plan"` // ok | wrong-finished | deadline (the peer falls silent after DlSteps steps and the endpoint's read deadline expires; afterwards the deadline is cleared and the peer carries on)
	DlSteps int       `json:"dl_steps,omitempty"`
	Pos     int       `json:"pos"`                // handshake position (puppet steps done) where early arrivals are injected
	Big     bool      `json:"big,omitempty"`      // more than 480 bytes may be pending (only streams where nothing follows delivered data)
	EofData bool      `json:"eof_data,omitempty"` // the transport hands over the last bytes before its end together with io.EOF (one Read), not in a separate (0, EOF)
	Pipe    bool      `json:"pipe,omitempty"`     // the transport reports a read on a closed stream as io.ErrClosedPipe (like net.Pipe), not net.ErrClosed
	Calls   []c12Call `json:"calls"`
}

type c12Obs struct {
	Op        string `json:"op"`
	Err       string `json:"err"`
	N         int    `json:"n"`
	Data      []byte `json:"data,omitempty"`
	Sent      string `json:"sent,omitempty"`
	RawClosed bool   `json:"raw_closed"`
	HsDone    bool   `json:"hs_done"`
	Hang      bool   `json:"hang,omitempty"`
	Panic     string `json:"panic,omitempty"`
}

// ---------------------------------------------------------------- error classes

func c12AlertCode(e error) int {
	v := reflect.ValueOf(e)
	switch v.Kind() {
	case reflect.Uint8, reflect.Uint16, reflect.Uint32, reflect.Uint, reflect.Uint64:
		return int(v.Uint())
	}
	return 255
}

// c12Class maps an error to the model's eclass (Coq term) and a readable name.
func c12Class(err error) (coq, name string) {
	if err == nil {
		return "None", ""
	}
	if err == io.EOF {
		return "(Some XEof)", "eof"
	}
	if err == io.ErrUnexpectedEOF {
		return "(Some XUnexpectedEof)", "unexpected-eof"
	}
	var op *net.OpError
	if errors.As(err, &op) && (op.Op == "remote error" || op.Op == "local error") {
		code := c12AlertCode(op.Err)
		if op.Op == "remote error" {
			return fmt.Sprintf("(Some (XRemote %d))", code), fmt.Sprintf("remote-alert-%d", code)
		}
		return fmt.Sprintf("(Some (XLocal %d))", code), fmt.Sprintf("local-alert-%d", code)
	}
	var rh tlcp.RecordHeaderError
	if errors.As(err, &rh) {
		return "(Some XFirstRecord)", "record-header"
	}
	s := err.Error()
	switch {
	case errors.Is(err, context.Canceled), errors.Is(err, context.DeadlineExceeded):
		return "(Some XCtx)", "ctx-canceled"
	case errors.Is(err, net.ErrClosed), strings.Contains(s, "closed pipe"), strings.Contains(s, "use of closed"):
		return "(Some XClosed)", "closed"
	case strings.Contains(s, "protocol is shutdown"):
		return "(Some XShutdown)", "shutdown"
	case strings.Contains(s, "CloseWrite called before handshake complete"):
		return "(Some XEarlyCloseWrite)", "early-closewrite"
	case strings.Contains(s, "too many ignored records"):
		return "(Some XTooMany)", "too-many-ignored"
	}
	return "(Some XInternal)", "error:" + s
}

// ---------------------------------------------------------------- session

type c12Sess struct {
	in       c12Input
	P        *puppet.Peer
	T        *tlcp.Conn
	raw      *tk.SConn // the target's transport
	pconn    *tk.SConn // the puppet's end
	inflight atomic.Bool
	hung     bool
	steps    []func()
	allSteps []func()
	dlFired  bool
	hsRan    bool
	closed   bool // Close was called on the target
	early    []c12Call
	kinds0   int
	ended    bool // the puppet ended its sending direction
	autoEnd  bool // the last call blocked waiting for the transport: the puppet ended the transport to release it
}

type c12Link struct{ s *c12Sess }

func (l *c12Link) Send(b []byte) error { _, err := l.s.pconn.Write(b); return err }
func (l *c12Link) TargetDone() bool    { return !l.s.inflight.Load() }
func (l *c12Link) Pump(int) [][]byte {
	deadline := time.Now().Add(3 * time.Second)
	for !l.TargetDone() && !l.s.pconn.Out.ReaderBlocked() {
		if time.Now().After(deadline) {
			l.s.hung = true
			break
		}
		time.Sleep(20 * time.Microsecond)
	}
	if b := l.s.pconn.In.Drain(); len(b) > 0 {
		return [][]byte{b}
	}
	return nil
}

func c12New(in c12Input) *c12Sess {
	pk := tk.GetPKI()
	s := &c12Sess{in: in}
	targetIsClient := in.Target == "client"
	var cfg tk.EPConfig
	if targetIsClient {
		cfg = tk.EPConfig{Suites: []uint16{in.Suite}, Ident: "cli", ServerName: "server.test"}
	} else {
		cfg = tk.EPConfig{Ident: "srv"}
		if puppet.IsECDHE(in.Suite) {
			cfg.Auth = 4
		}
	}
	cli, srv, c2s, s2c := tk.StreamPair()
	c2s.Framed, s2c.Framed = false, false
	tc := tk.BuildTLCP(cfg, nil)
	if targetIsClient {
		s.T, s.raw, s.pconn = tlcp.Client(cli, tc), cli, srv
	} else {
		s.T, s.raw, s.pconn = tlcp.Server(srv, tc), srv, cli
	}
	if in.Pipe {
		s.raw.In.ClosedErr = io.ErrClosedPipe
	}
	s.raw.In.EOFWithData = in.EofData
	p := &puppet.Peer{L: &c12Link{s}, Client: !targetIsClient, Vers: puppet.VersionTLCP}
	s.P = p
	fin := "ok"
	if in.Plan == "wrong-finished" {
		fin = "wrong"
	}
	if targetIsClient {
		p.Sig, p.Enc = pk.SrvSig, pk.SrvEnc
		s.steps = []func(){
			func() { p.SendServerHello(puppet.SHOpt{Suite: in.Suite}) },
			func() { p.SendCertificate(p.OwnChain()) },
			func() { p.SendServerKeyExchange(puppet.SKXOpt{Mode: "ok"}) },
		}
		if puppet.IsECDHE(in.Suite) {
			s.steps = append(s.steps, func() { p.SendCertRequest(nil) })
		}
		s.steps = append(s.steps,
			func() { p.SendServerHelloDone() },
			func() { p.SendCCS() },
			func() { p.SendFinished(fin) })
	} else {
		p.Sig, p.Enc = pk.CliSig, pk.CliEnc
		s.steps = []func(){func() { p.SendClientHello(puppet.CHOpt{Suites: []uint16{in.Suite}}) }}
		if puppet.IsECDHE(in.Suite) {
			s.steps = append(s.steps, func() { p.SendCertificate(p.OwnChain()) })
		}
		s.steps = append(s.steps, func() { p.SendClientKeyExchange("ok") })
		if puppet.IsECDHE(in.Suite) {
			s.steps = append(s.steps, func() { p.SendCertVerify("ok") })
		}
		s.steps = append(s.steps,
			func() { p.SendCCS() },
			func() { p.SendFinished(fin) })
	}
	if in.Plan == "deadline" {
		s.raw.In.Deadlines = true
		s.allSteps = s.steps
		s.steps = s.steps[:in.DlSteps]
	}
	return s
}

func c12Payload(tag, n int) []byte {
	d := make([]byte, n)
	for j := range d {
		d[j] = byte(tag*37 + j + 1)
	}
	return d
}

// seal turns events into protected records under the puppet's current write state
func (s *c12Sess) seal(evs []c12Ev, tag int) []byte {
	var out []byte
	for i, e := range evs {
		switch e.K {
		case "app":
			out = append(out, s.P.Seal(puppet.RecApp, c12Payload(tag+i, e.N))...)
		case "alert":
			out = append(out, s.P.Seal(puppet.RecAlert, []byte{byte(e.L), byte(e.C)})...)
		case "hs":
			out = append(out, s.P.Seal(puppet.RecHS, []byte{0, 0, 0, 0})...)
		case "ccs":
			out = append(out, s.P.Seal(puppet.RecCCS, []byte{1})...)
		case "damaged":
			w := s.P.Seal(puppet.RecApp, c12Payload(tag+i, 20))
			w[len(w)-3] ^= 0x40
			out = append(out, w...)
		default:
			panic("c12: event kind " + e.K)
		}
	}
	return out
}

func (s *c12Sess) push(b []byte) {
	if len(b) == 0 {
		return
	}
	if !s.in.Big && s.pconn.Out.Pending()+len(b) > 480 {
		panic("c12: more than 480 bytes pending towards the endpoint under test (generator bug)")
	}
	s.pconn.Write(b)
}

// transport events; tag makes payloads distinct
func (s *c12Sess) arrive(c c12Call, tag int) {
	switch c.Op {
	case "arrive":
		s.push(s.seal(c.Evs, tag))
	case "end":
		if c.T != "" {
			var w []byte
			if c.T == "alert" {
				w = s.P.Seal(puppet.RecAlert, []byte{1, 0})
			} else {
				l := c.L
				if l == 0 {
					l = 20
				}
				w = s.P.Seal(puppet.RecApp, c12Payload(tag, l))
			}
			n := c.N
			if n < 1 {
				n = 1
			}
			if n > len(w)-1 {
				n = len(w) - 1
			}
			s.push(w[:n])
		}
		s.pconn.CloseWrite()
		s.ended = true
	case "gone":
		s.pconn.Close()
		s.ended = true
	}
}

// run one API call with a watchdog; drive the puppet's handshake script while it runs
func (s *c12Sess) call(c c12Call, idx int) c12Obs {
	o := c12Obs{Op: c.Op}
	var err error
	var n int
	var data []byte
	var pan string
	var cancel context.CancelFunc
	ctx := context.Background()
	if c.Op == "hsctx" {
		ctx, cancel = context.WithCancel(ctx)
		defer cancel()
	}
	done := make(chan struct{})
	drive := !s.hsRan && (c.Op == "handshake" || c.Op == "hsctx" || ((c.Op == "read" || c.Op == "write") && !s.closed))
	arm := drive && s.in.Plan == "deadline" && !s.dlFired
	if arm {
		s.T.SetReadDeadline(time.Now().Add(60 * time.Millisecond))
	}
	s.inflight.Store(true)
	go func() {
		defer close(done)
		defer s.inflight.Store(false)
		defer func() {
			if r := recover(); r != nil {
				pan = fmt.Sprint(r)
			}
		}()
		switch c.Op {
		case "read":
			buf := make([]byte, c.N)
			n, err = s.T.Read(buf)
			data = buf[:n]
		case "write":
			n, err = s.T.Write(c12Payload(100+idx, c.N))
		case "closewrite":
			err = s.T.CloseWrite()
		case "close":
			err = s.T.Close()
		case "handshake":
			err = s.T.Handshake()
		case "hsctx":
			err = s.T.HandshakeContext(ctx)
		}
	}()
	isDone := func() bool {
		select {
		case <-done:
			return true
		default:
			return !s.inflight.Load() // the call has returned; its goroutine is about to signal
		}
	}
	if drive {
		s.hsRan = true
		for k := 0; ; k++ {
			s.P.Absorb(0)
			if isDone() {
				break
			}
			if c.Op == "hsctx" && k == c.N {
				cancel()
				break
			}
			if k == s.in.Pos && len(s.early) > 0 {
				for i, e := range s.early {
					s.arrive(e, 50+i)
				}
				s.early = nil
				s.P.Absorb(0)
				if isDone() {
					break
				}
			}
			if k >= len(s.steps) {
				break
			}
			s.steps[k]()
		}
	}
	// a call that blocks waiting for the transport (nothing pending, not ended) is released by
	// ending the transport; the history then reads "end, call" (the end flag is consulted by the
	// code only at the point where it would block, so the two orders are indistinguishable)
	s.autoEnd = false
	deadline := time.Now().Add(3 * time.Second)
	for {
		if isDone() {
			<-done
			break
		}
		if !drive && !s.ended && s.pconn.Out.ReaderBlocked() {
			s.pconn.CloseWrite()
			s.ended, s.autoEnd = true, true
		}
		if time.Now().After(deadline) {
			o.Hang = true
			s.raw.Close()
			s.pconn.Close()
			<-done
			break
		}
		time.Sleep(20 * time.Microsecond)
	}
	if c.Op == "close" {
		s.closed = true
	}
	if arm {
		// the deadline has done its work: clear it and let the peer carry on, so that a handshake
		// that is (wrongly) started again finds a live, willing peer
		s.dlFired = true
		s.T.SetDeadline(time.Time{})
		s.steps = s.allSteps
		if s.in.DlSteps > 0 {
			s.steps = s.allSteps[s.in.DlSteps:]
		}
		s.hsRan = false
	}
	s.P.Absorb(0)
	_, o.Err = c12Class(err)
	o.N, o.Data, o.Panic = n, append([]byte{}, data...), pan
	o.RawClosed = s.raw.Closed()
	o.HsDone = s.T.ConnectionState().HandshakeComplete
	return o
}

// what the puppet received since the last call: application data and alerts, in order
func (s *c12Sess) sentSince() (coq []string, readable string) {
	ai, di := 0, 0
	// indexes of alerts / app data seen before
	for _, k := range s.P.Kinds[:s.kinds0] {
		if strings.HasPrefix(k, "alert(") {
			ai++
		} else if k == "app" {
			di++
		}
	}
	var rd []string
	for _, k := range s.P.Kinds[s.kinds0:] {
		switch {
		case strings.HasPrefix(k, "alert("):
			a := s.P.Alerts[ai]
			ai++
			coq = append(coq, fmt.Sprintf("SAlert %d %d", a.Level, a.Code))
			rd = append(rd, k)
		case k == "app":
			d := s.P.AppData[di]
			di++
			coq = append(coq, "SApp "+emit.Bytes(d))
			rd = append(rd, fmt.Sprintf("app(%d)", len(d)))
		case strings.HasPrefix(k, "undecryptable"):
			coq = append(coq, "SAlert 255 255")
			rd = append(rd, k)
		}
	}
	s.kinds0 = len(s.P.Kinds)
	return coq, strings.Join(rd, ",")
}

func c12EvCoq(evs []c12Ev, tag int) string {
	var xs []string
	for i, e := range evs {
		switch e.K {
		case "app":
			xs = append(xs, "EApp "+emit.Bytes(c12Payload(tag+i, e.N)))
		case "alert":
			xs = append(xs, fmt.Sprintf("EAlert %d %d", e.L, e.C))
		case "hs":
			xs = append(xs, "EHs")
		case "ccs":
			xs = append(xs, "ECcs")
		case "damaged":
			xs = append(xs, "EDamaged 23")
		}
	}
	return "[" + strings.Join(xs, "; ") + "]"
}

func c12PlanRes(plan string) string {
	switch plan {
	case "ok":
		return "None"
	case "wrong-finished":
		return "(Some (XInternal, [SAlert 2 40]))"
	case "deadline":
		return "(Some (XInternal, []))"
	}
	panic("c12: plan " + plan)
}

func c12AddCase(out *emit.Out, scenario string, in c12Input) {
	s := c12New(in)
	var obs []c12Obs
	var items []string
	direct := ""
	for i, c := range in.Calls {
		var o c12Obs
		var callCoq string
		switch c.Op {
		case "arrive", "end", "gone":
			tag := i
			if !s.hsRan {
				tag = 50 + len(s.early)
				s.early = append(s.early, c)
			} else {
				s.arrive(c, i)
			}
			o = c12Obs{Op: c.Op, RawClosed: s.raw.Closed()}
			if c.Op == "arrive" {
				callCoq = "CArrive " + c12EvCoq(c.Evs, tag)
			} else if c.Op == "gone" {
				callCoq = "CGone"
			} else if c.T == "" {
				callCoq = "CEnd None"
			} else {
				callCoq = fmt.Sprintf("CEnd (Some (%d, %s))", map[string]int{"app": 23, "alert": 21}[c.T], emit.Bool(c.N >= 5))
			}
		default:
			o = s.call(c, i)
			switch c.Op {
			case "read":
				callCoq = fmt.Sprintf("CRead %d", c.N)
			case "write":
				callCoq = "CWrite " + emit.Bytes(c12Payload(100+i, c.N))
			case "closewrite":
				callCoq = "CCloseWrite"
			case "close":
				callCoq = "CClose"
			case "handshake":
				callCoq = "CHandshake None"
			case "hsctx":
				callCoq = fmt.Sprintf("CHandshake (Some %d%%nat)", c.N)
			default:
				panic("c12: op " + c.Op)
			}
		}
		if s.autoEnd {
			s.autoEnd = false
			obs = append(obs, c12Obs{Op: "auto-end"})
			items = append(items, "(CEnd None, mkObs None 0 [] [] false false)")
		}
		sent, rd := s.sentSince()
		o.Sent = rd
		obs = append(obs, o)
		errCoq := "None"
		if o.Err != "" {
			errCoq = c12ErrCoq(o.Err)
		}
		items = append(items, fmt.Sprintf("(%s, mkObs %s %d %s [%s] %s %s)", callCoq, errCoq, o.N, emit.Bytes(o.Data), strings.Join(sent, "; "), emit.Bool(o.RawClosed), emit.Bool(o.HsDone)))
		if o.Panic != "" && direct == "" {
			direct = "panic: " + o.Panic
		}
		if o.Hang && direct == "" {
			direct = "hang"
		}
	}
	if s.hung && direct == "" {
		direct = "hang"
	}
	s.raw.Close()
	s.pconn.Close()
	nontrivial := false
	for _, o := range obs {
		if o.Err != "" {
			nontrivial = true
		}
	}
	first := in.Pos == 0
	out.Add(emit.Case{Scenario: scenario + "/" + in.Target, Trivial: !nontrivial, Input: in, Direct: direct, Observed: obs,
		Coq: fmt.Sprintf("ApiCase (mkPlan %d %d %s %s)\n  [%s]", c12PlanSteps(s), in.Pos, emit.Bool(first), c12PlanRes(in.Plan), strings.Join(items, ";\n   "))})
	if os.Getenv("C12_DEBUG") != "" {
		b, _ := json.Marshal(in)
		fmt.Fprintf(os.Stderr, "%s %s\n", scenario, b)
		for _, o := range obs {
			fmt.Fprintf(os.Stderr, "   %-10s err=%-22s n=%-3d sent=%-20s rawclosed=%v hsdone=%v hang=%v %s\n", o.Op, o.Err, o.N, o.Sent, o.RawClosed, o.HsDone, o.Hang, o.Panic)
		}
	}
}

func c12PlanSteps(s *c12Sess) int {
	if s.in.Plan == "deadline" {
		return s.in.DlSteps
	}
	return len(s.steps)
}

// readable class name -> Coq term (inverse of c12Class's second result)
func c12ErrCoq(name string) string {
	switch {
	case name == "eof":
		return "(Some XEof)"
	case name == "unexpected-eof":
		return "(Some XUnexpectedEof)"
	case strings.HasPrefix(name, "remote-alert-"):
		return "(Some (XRemote " + strings.TrimPrefix(name, "remote-alert-") + "))"
	case strings.HasPrefix(name, "local-alert-"):
		return "(Some (XLocal " + strings.TrimPrefix(name, "local-alert-") + "))"
	case name == "record-header":
		return "(Some XFirstRecord)"
	case name == "ctx-canceled":
		return "(Some XCtx)"
	case name == "closed":
		return "(Some XClosed)"
	case name == "shutdown":
		return "(Some XShutdown)"
	case name == "early-closewrite":
		return "(Some XEarlyCloseWrite)"
	case name == "too-many-ignored":
		return "(Some XTooMany)"
	}
	return "(Some XInternal)"
}

// ---------------------------------------------------------------- both ends real

type c12PairOp struct {
	Side string `json:"side"` // c | s
	Op   string `json:"op"`   // read | write | closewrite | close | handshake
	N    int    `json:"n,omitempty"`
}

type c12PairInput struct {
	Suite uint16      `json:"suite"`
	Ops   []c12PairOp `json:"ops"`
}

type c12Side struct {
	name     string
	conn     *tlcp.Conn
	raw      *tk.SConn
	out, in  *tk.Wire // records this side sends / receives
	nsent    int
	alerts   []int
	nalerts  int
	closed   bool
	items    []string
	obs      []c12Obs
	lastData []byte
}

// records the side put on the wire since the last look, as events for the peer and as sent items
func (x *c12Side) flushSent(payload []byte) (evs, sent []string, readable string) {
	recs := x.out.SentRecords()
	var rd []string
	for _, r := range recs[x.nsent:] {
		switch r[0] {
		case 23:
			evs = append(evs, "EApp "+emit.Bytes(payload))
			sent = append(sent, "SApp "+emit.Bytes(payload))
			rd = append(rd, fmt.Sprintf("app(%d)", len(payload)))
		case 21:
			level, code := 1, 0
			if x.nalerts < len(x.alerts) {
				code = x.alerts[x.nalerts]
				x.nalerts++
				if code != 100 && code != 0 {
					level = 2
				}
			}
			evs = append(evs, fmt.Sprintf("EAlert %d %d", level, code))
			sent = append(sent, fmt.Sprintf("SAlert %d %d", level, code))
			rd = append(rd, fmt.Sprintf("alert(%d,%d)", level, code))
		}
	}
	x.nsent = len(recs)
	return evs, sent, strings.Join(rd, ",")
}

func c12AddPair(out *emit.Out, scenario string, in c12PairInput) {
	cc := tk.EPConfig{Suites: []uint16{in.Suite}, Ident: "cli", ServerName: "server.test"}
	sc := tk.EPConfig{Ident: "srv"}
	if puppet.IsECDHE(in.Suite) {
		sc.Auth = 4
	}
	c := &c12Side{name: "client"}
	sv := &c12Side{name: "server"}
	ccfg, scfg := tk.BuildTLCP(cc, nil), tk.BuildTLCP(sc, nil)
	ccfg.OnAlert = func(code uint8, _ *tlcp.Conn) { c.alerts = append(c.alerts, int(code)) }
	scfg.OnAlert = func(code uint8, _ *tlcp.Conn) { sv.alerts = append(sv.alerts, int(code)) }
	tp := tk.NewTPair(ccfg, scfg)
	c.conn, c.raw, c.out, c.in = tp.Cli, tp.CliRaw, tp.C2S, tp.S2C
	sv.conn, sv.raw, sv.out, sv.in = tp.Srv, tp.SrvRaw, tp.S2C, tp.C2S
	cr, sr, hung := tp.Handshake(10 * time.Second)
	direct := ""
	if hung || cr.Err != "" || sr.Err != "" {
		out.Add(emit.Case{Scenario: scenario + "/client", Input: in, Direct: "handshake of the pair failed: " + cr.Err + "/" + sr.Err})
		return
	}
	for _, x := range []*c12Side{c, sv} {
		x.nsent = len(x.out.SentRecords())
		x.items = append(x.items, "(CHandshake None, mkObs None 0 [] [] false true)")
		x.obs = append(x.obs, c12Obs{Op: "handshake", HsDone: true})
	}
	var skipped []int
	for i, o := range in.Ops {
		x, y := c, sv
		if o.Side == "s" {
			x, y = sv, c
		}
		// never issue a call that would wait for the peer; keep less than a fetch pending
		if o.Op == "read" && o.N > 0 && !(x.closed || y.closed || x.in.Pending() > 0) {
			skipped = append(skipped, i)
			continue
		}
		if (o.Op == "write" || o.Op == "closewrite" || o.Op == "close") && x.out.Pending()+c12RecLen(in.Suite, 24) > 440 {
			skipped = append(skipped, i)
			continue
		}
		var err error
		var n int
		var data, payload []byte
		var pan string
		done := make(chan struct{})
		go func() {
			defer close(done)
			defer func() {
				if r := recover(); r != nil {
					pan = fmt.Sprint(r)
				}
			}()
			switch o.Op {
			case "read":
				buf := make([]byte, o.N)
				n, err = x.conn.Read(buf)
				data = buf[:n]
			case "write":
				payload = c12Payload(100+i, o.N)
				n, err = x.conn.Write(payload)
			case "closewrite":
				err = x.conn.CloseWrite()
			case "close":
				err = x.conn.Close()
			case "handshake":
				err = x.conn.Handshake()
			}
		}()
		ob := c12Obs{Op: o.Side + ":" + o.Op}
		select {
		case <-done:
		case <-time.After(3 * time.Second):
			ob.Hang = true
			tp.Close()
			<-done
		}
		firstClose := o.Op == "close" && !x.closed
		if o.Op == "close" {
			x.closed = true
		}
		_, ob.Err = c12Class(err)
		ob.N, ob.Data, ob.Panic = n, append([]byte{}, data...), pan
		ob.RawClosed = x.raw.Closed()
		ob.HsDone = x.conn.ConnectionState().HandshakeComplete
		evs, sent, rd := x.flushSent(payload)
		ob.Sent = rd
		var callCoq string
		switch o.Op {
		case "read":
			callCoq = fmt.Sprintf("CRead %d", o.N)
		case "write":
			callCoq = "CWrite " + emit.Bytes(c12Payload(100+i, o.N))
		case "closewrite":
			callCoq = "CCloseWrite"
		case "close":
			callCoq = "CClose"
		case "handshake":
			callCoq = "CHandshake None"
		}
		errCoq := "None"
		if ob.Err != "" {
			errCoq = c12ErrCoq(ob.Err)
		}
		x.items = append(x.items, fmt.Sprintf("(%s, mkObs %s %d %s [%s] %s %s)", callCoq, errCoq, ob.N, emit.Bytes(ob.Data), strings.Join(sent, "; "), emit.Bool(ob.RawClosed), emit.Bool(ob.HsDone)))
		x.obs = append(x.obs, ob)
		if len(evs) > 0 {
			y.items = append(y.items, fmt.Sprintf("(CArrive [%s], mkObs None 0 [] [] false false)", strings.Join(evs, "; ")))
			y.obs = append(y.obs, c12Obs{Op: "arrive:" + rd})
		}
		if firstClose {
			y.items = append(y.items, "(CGone, mkObs None 0 [] [] false false)")
			y.obs = append(y.obs, c12Obs{Op: "gone"})
		}
		if ob.Hang && direct == "" {
			direct = "hang"
		}
		if ob.Panic != "" && direct == "" {
			direct = "panic: " + ob.Panic
		}
		if ob.Hang {
			break
		}
	}
	tp.Close()
	for _, x := range []*c12Side{c, sv} {
		nontrivial := false
		for _, o := range x.obs {
			if o.Err != "" {
				nontrivial = true
			}
		}
		out.Add(emit.Case{Scenario: scenario + "/" + x.name, Trivial: !nontrivial, Input: in, Direct: direct,
			Observed: map[string]interface{}{"side": x.name, "steps": x.obs, "skipped_ops": skipped},
			Coq:      fmt.Sprintf("ApiCase (mkPlan 0 0 false None)\n  [%s]", strings.Join(x.items, ";\n   "))})
		if os.Getenv("C12_DEBUG") != "" {
			b, _ := json.Marshal(in)
			fmt.Fprintf(os.Stderr, "%s/%s %s\n", scenario, x.name, b)
			for _, o := range x.obs {
				fmt.Fprintf(os.Stderr, "   %-14s err=%-18s n=%-3d sent=%-16s rawclosed=%v hang=%v %s\n", o.Op, o.Err, o.N, o.Sent, o.RawClosed, o.Hang, o.Panic)
			}
		}
	}
}

// ---------------------------------------------------------------- generators

var c12AlertCodes = []int{0, 10, 20, 21, 22, 30, 40, 42, 43, 44, 45, 46, 47, 48, 49, 50, 51, 60, 70, 71, 80, 86, 90, 100, 110, 111, 112, 113, 114, 115, 120}

func c12Steps(target string, suite uint16) int {
	if target == "client" {
		if puppet.IsECDHE(suite) {
			return 7
		}
		return 6
	}
	if puppet.IsECDHE(suite) {
		return 6
	}
	return 4
}

// upper bound of the wire length of a record with n bytes of content
func c12RecLen(suite uint16, n int) int {
	if puppet.IsGCM(suite) {
		return 5 + 8 + n + 16
	}
	return 5 + 16 + 16*((n+33+15)/16)
}

func c12EvLen(suite uint16, e c12Ev) int {
	switch e.K {
	case "app":
		return c12RecLen(suite, e.N)
	case "alert":
		return c12RecLen(suite, 2)
	case "hs":
		return c12RecLen(suite, 4)
	case "ccs":
		return c12RecLen(suite, 1)
	}
	return c12RecLen(suite, 20)
}

type c12Gen struct {
	r      *rand.Rand
	suite  uint16
	budget int // bytes that may still be made pending towards the endpoint in this history
}

func (g *c12Gen) event(early bool) c12Ev {
	r := g.r
	code := c12AlertCodes[1+r.IntN(len(c12AlertCodes)-1)]
	switch x := r.IntN(20); {
	case x < 7:
		return c12Ev{K: "app", N: 1 + r.IntN(24)}
	case x < 8:
		return c12Ev{K: "app", N: 0}
	case x < 11:
		return c12Ev{K: "alert", L: 1, C: code}
	case x < 13:
		return c12Ev{K: "alert", L: 1 + r.IntN(2), C: 0}
	case x < 15:
		return c12Ev{K: "alert", L: 2, C: code}
	case x < 16:
		return c12Ev{K: "alert", L: []int{0, 3, 255}[r.IntN(3)], C: []int{0, code}[r.IntN(2)]}
	case x < 17 && !early:
		return c12Ev{K: "hs"}
	case x < 18 && !early:
		return c12Ev{K: "ccs"}
	case x < 19 && !early:
		return c12Ev{K: "damaged"}
	}
	return c12Ev{K: "app", N: 1 + r.IntN(24)}
}

func (g *c12Gen) arrival(early bool) (c12Call, bool) {
	k := 1 + g.r.IntN(3)
	var evs []c12Ev
	for i := 0; i < k; i++ {
		e := g.event(early)
		if l := c12EvLen(g.suite, e); l <= g.budget {
			g.budget -= l
			evs = append(evs, e)
		}
	}
	return c12Call{Op: "arrive", Evs: evs}, len(evs) > 0
}

func (g *c12Gen) end() c12Call {
	switch g.r.IntN(5) {
	case 0, 1:
		return c12Call{Op: "end"}
	case 2:
		return c12Call{Op: "gone"}
	case 3:
		if g.budget >= 30 {
			g.budget -= 30
			return c12Call{Op: "end", T: "app", N: 1 + g.r.IntN(28)}
		}
	default:
		if g.budget >= 30 {
			g.budget -= 30
			return c12Call{Op: "end", T: "alert", N: 1 + g.r.IntN(20)}
		}
	}
	return c12Call{Op: "end"}
}

// one random history
func (g *c12Gen) history(target string) c12Input {
	r := g.r
	suites := []uint16{0xe013, 0xe053, 0xe013, 0xe053, 0xe011, 0xe051}
	g.suite = suites[r.IntN(len(suites))]
	g.budget = 440
	n := c12Steps(target, g.suite)
	in := c12Input{Target: target, Suite: g.suite, Plan: "ok", Pos: r.IntN(n)}
	if r.IntN(10) == 0 {
		in.Plan = "wrong-finished"
	}
	ended := false
	// before the handshake runs
	earlyEnd := false
	if r.IntN(4) == 0 {
		for i, k := 0, 1+r.IntN(3); i < k; i++ {
			switch x := r.IntN(10); {
			case x < 5:
				if c, ok := g.arrival(true); ok {
					in.Calls = append(in.Calls, c)
				}
			case x < 7 && !ended:
				in.Calls = append(in.Calls, g.end())
				ended, earlyEnd = true, true
			case x < 8:
				in.Calls = append(in.Calls, c12Call{Op: "closewrite"})
			case x < 9 && r.IntN(3) == 0:
				in.Calls = append(in.Calls, c12Call{Op: "close"})
			}
		}
	}
	// the call that runs the handshake
	switch x := r.IntN(10); {
	case x < 4:
		in.Calls = append(in.Calls, c12Call{Op: "handshake"})
	case x < 6:
		k := n
		if r.IntN(3) == 0 {
			k = r.IntN(n + 1)
		}
		in.Calls = append(in.Calls, c12Call{Op: "hsctx", N: k})
	case x < 8:
		in.Calls = append(in.Calls, c12Call{Op: "write", N: r.IntN(12)})
	default:
		rn := 0
		if earlyEnd {
			rn = 1 + r.IntN(30)
		}
		in.Calls = append(in.Calls, c12Call{Op: "read", N: rn})
	}
	// afterwards
	for i, k := 0, 4+r.IntN(9); i < k; i++ {
		switch x := r.IntN(24); {
		case x < 5 && !ended:
			if c, ok := g.arrival(false); ok {
				in.Calls = append(in.Calls, c)
			}
		case x < 7 && !ended:
			in.Calls = append(in.Calls, g.end())
			ended = true
		case x < 14:
			in.Calls = append(in.Calls, c12Call{Op: "read", N: []int{0, 1, 3, 7, 16, 40, 100}[r.IntN(7)]})
		case x < 18:
			in.Calls = append(in.Calls, c12Call{Op: "write", N: []int{0, 1, 5, 20}[r.IntN(4)]})
		case x < 20:
			in.Calls = append(in.Calls, c12Call{Op: "closewrite"})
		case x < 22:
			in.Calls = append(in.Calls, c12Call{Op: "close"})
		case x < 23:
			in.Calls = append(in.Calls, c12Call{Op: "handshake"})
		default:
			in.Calls = append(in.Calls, c12Call{Op: "hsctx", N: r.IntN(n + 1)})
		}
	}
	return in
}

func runC12(p params) error {
	out := emit.New(p.out, "C12", "V.Corr.Run_C12", "case",
		"call histories (Read / Write / CloseWrite / Close / Handshake / HandshakeContext with cancellation) on a real tlcp.Conn, client or server, whose peer is the puppet (records of every content kind and alerts of every level and code arrive between calls, the transport ends at byte offsets on and inside records, early records are injected at every handshake position) or a real peer (calls alternate between the two ends, both ends are checked); non-trivial = at least one call returned an error; distinct by input and end")
	out.ShardBytes = 30000
	if p.replay != "" {
		b, err := os.ReadFile(p.replay)
		if err != nil {
			return err
		}
		var rp struct {
			Cases []struct {
				Scenario string          `json:"scenario"`
				Input    json.RawMessage `json:"input"`
			} `json:"cases"`
		}
		if err := json.Unmarshal(b, &rp); err != nil {
			return err
		}
		seenPair := map[string]bool{}
		for _, c := range rp.Cases {
			sc := strings.SplitN(c.Scenario, "/", 2)[0]
			if sc == "pair" { // one input yields the client's and the server's case
				if seenPair[string(c.Input)] {
					continue
				}
				seenPair[string(c.Input)] = true
				var in c12PairInput
				if err := json.Unmarshal(c.Input, &in); err != nil {
					return err
				}
				c12AddPair(out, sc, in)
				continue
			}
			if sc == "dial" {
				var in c12DialInput
				if err := json.Unmarshal(c.Input, &in); err != nil {
					return err
				}
				c12AddDial(out, in)
				continue
			}
			var in c12Input
			if err := json.Unmarshal(c.Input, &in); err != nil {
				return err
			}
			c12AddCase(out, sc, in)
		}
		return out.Finish()
	}
	r := rand.New(rand.NewPCG(p.seed, 0xC12))
	thorough := p.tier == "thorough"
	targets := []string{"server", "client"}
	cbcgcm := []uint16{0xe013, 0xe053}
	rd := func(n int) c12Call { return c12Call{Op: "read", N: n} }
	wr := func(n int) c12Call { return c12Call{Op: "write", N: n} }
	op := func(o string) c12Call { return c12Call{Op: o} }
	arr := func(evs ...c12Ev) c12Call { return c12Call{Op: "arrive", Evs: evs} }
	app := func(n int) c12Ev { return c12Ev{K: "app", N: n} }
	al := func(l, c int) c12Ev { return c12Ev{K: "alert", L: l, C: c} }
	nth := 0
	pick := func() (string, uint16) { nth++; return targets[nth%2], cbcgcm[(nth/2)%2] }

	// (1) the transport ends at byte offset `cut` of a 3-record stream
	for _, last := range []string{"close-notify", "app"} {
		for ti, target := range targets {
			for si, suite := range cbcgcm {
				recs := []c12Ev{app(17), app(9), app(5)}
				if last == "close-notify" {
					recs[2] = al(1, 0)
				}
				lens := []int{c12RecLen(suite, 17), c12RecLen(suite, 9), c12EvLen(suite, recs[2])}
				total := lens[0] + lens[1] + lens[2]
				for cut := 0; cut <= total; cut++ {
					// quick: boundaries, the header bytes of every record, and a sample of the rest
					b, k := 0, 0
					for k < 3 && cut >= b+lens[k] {
						b += lens[k]
						k++
					}
					off := cut - b
					if !thorough && !(off <= 5 || off == lens[min(k, 2)]-1 || r.IntN(9) == 0) {
						continue
					}
					if !thorough && (cut+ti+si)%2 == 1 && off > 0 && off != 3 {
						continue
					}
					calls := []c12Call{op("handshake")}
					if k > 0 {
						calls = append(calls, arr(recs[:k]...))
					}
					e := c12Call{Op: "end"}
					if off > 0 {
						e.T, e.N, e.L = "app", off, recs[k].N
						if recs[k].K == "alert" {
							e.T = "alert"
						}
					}
					calls = append(calls, e)
					bufs := [][]int{{100, 100, 100, 100}, {7, 7, 7, 7, 7, 7}, {17, 9, 5, 1}}[cut%3]
					for _, n := range bufs {
						calls = append(calls, rd(n))
					}
					calls = append(calls, wr(3), rd(10), op("close"), rd(10))
					c12AddCase(out, "transport-end-at-offset", c12Input{Target: target, Suite: suite, Plan: "ok", Pos: 1, Calls: calls})
					if off == 0 || cut%3 == 0 {
						c12AddCase(out, "transport-end-with-last-bytes", c12Input{Target: target, Suite: suite, Plan: "ok", Pos: 1, Calls: calls, EofData: true})
					}
				}
			}
		}
	}
	// (2) incoming alerts of every level and code: after the handshake, and inside it
	for _, code := range c12AlertCodes {
		for _, level := range []int{1, 2, 3} {
			t, su := pick()
			c12AddCase(out, "alert-after-handshake", c12Input{Target: t, Suite: su, Plan: "ok", Pos: 1, Calls: []c12Call{
				op("handshake"), arr(app(6), al(level, code), app(4)), op("end"), rd(100), rd(100), wr(2), rd(100), op("handshake"), op("close"), op("close")}})
			if thorough || (code+level)%2 == 0 {
				pos := r.IntN(c12Steps(t, su))
				c12AddCase(out, "alert-inside-handshake", c12Input{Target: t, Suite: su, Plan: "ok", Pos: pos, Calls: []c12Call{
					arr(al(level, code)), []c12Call{op("handshake"), wr(3), rd(0)}[r.IntN(3)], op("handshake"), op("end"), rd(5), wr(2), op("close"), op("close")}})
			}
		}
	}
	// (3) application data before / inside the handshake, at every position
	for _, target := range targets {
		for _, suite := range []uint16{0xe013, 0xe053, 0xe011} {
			if !thorough && suite == 0xe011 && target == "client" {
				continue
			}
			for pos := 0; pos < c12Steps(target, suite); pos++ {
				for ti, trig := range []c12Call{op("handshake"), wr(4), rd(8)} {
					if !thorough && (pos+ti+int(suite))%2 == 1 && suite != 0xe013 {
						continue
					}
					evs := []c12Ev{app(6)}
					switch (pos + ti) % 4 {
					case 1:
						evs = []c12Ev{al(1, 90), app(6)}
					case 2:
						evs = []c12Ev{app(0)}
					}
					tr := trig
					if tr.Op == "read" {
						tr.N = []int{0, 8}[pos%2] // the handshake fails, so the Read cannot block
					}
					c12AddCase(out, "early-application-data", c12Input{Target: target, Suite: suite, Plan: "ok", Pos: pos, Calls: []c12Call{
						arr(evs...), tr, op("handshake"), rd(10), wr(2), op("closewrite"), op("close"), rd(10)}})
				}
			}
		}
	}
	// (4) cancellation of the handshake context once the peer has sent k messages
	for _, target := range targets {
		for _, suite := range []uint16{0xe013, 0xe053, 0xe051} {
			n := c12Steps(target, suite)
			for k := 0; k <= n; k++ {
				c12AddCase(out, "cancel-at-step", c12Input{Target: target, Suite: suite, Plan: "ok", Pos: r.IntN(n), Calls: []c12Call{
					{Op: "hsctx", N: k}, op("handshake"), wr(3), op("end"), rd(5), {Op: "hsctx", N: 0}, op("closewrite"), op("close"), op("close"), op("handshake")}})
				// the same over a transport whose closed-stream error is not net.ErrClosed
				c12AddCase(out, "cancel-at-step-pipe", c12Input{Target: target, Suite: suite, Plan: "ok", Pos: r.IntN(n), Pipe: true, Calls: []c12Call{
					{Op: "hsctx", N: k}, op("handshake"), wr(3), rd(5), op("close")}})
				if thorough || k%2 == 0 { // with records that arrive before: ignored ones and fatal ones
					pos := r.IntN(n)
					c12AddCase(out, "cancel-at-step", c12Input{Target: target, Suite: suite, Plan: "ok", Pos: pos, Calls: []c12Call{
						arr([]c12Ev{al(1, 90), al(2, 40), app(3)}[k%3]), {Op: "hsctx", N: k}, op("handshake"), rd(0), wr(1), op("close")}})
				}
			}
		}
	}
	// (4b) the endpoint's read deadline expires while the peer is silent after k messages: the handshake has failed and
	// stays failed although the deadline is cleared and the peer then carries on
	for _, target := range targets {
		for _, suite := range []uint16{0xe013, 0xe053, 0xe051} {
			n := c12Steps(target, suite)
			for k := 0; k < n; k++ {
				if !thorough && k > 1 && k != n-1 {
					continue
				}
				first := []c12Call{op("handshake"), rd(8), wr(4)}[k%3]
				c12AddCase(out, "deadline-at-step", c12Input{Target: target, Suite: suite, Plan: "deadline", DlSteps: k, Calls: []c12Call{
					first, op("handshake"), rd(5), wr(3), op("handshake"), op("closewrite"), op("close"), op("close")}})
				c12AddCase(out, "deadline-at-step", c12Input{Target: target, Suite: suite, Plan: "deadline", DlSteps: k, Calls: []c12Call{
					op("handshake"), wr(3), rd(5), op("handshake")}})
			}
		}
	}
	// (5) corpus: close / shutdown orders, ignored-record limit, the shapes of the findings (fixed ones included: a regression shows up as a violation)
	corpus := [][]c12Call{
		{op("handshake"), wr(5), op("closewrite"), wr(5), op("closewrite"), arr(app(8), al(1, 0)), rd(100), rd(100), op("close"), op("close"), rd(1), wr(1), op("handshake"), op("closewrite")},
		{op("close"), op("close"), op("handshake"), rd(4), wr(4), op("closewrite")},
		{op("closewrite"), op("handshake"), op("closewrite"), op("closewrite"), wr(1), op("end"), rd(9), rd(9), op("close")},
		{op("handshake"), op("gone"), wr(3), wr(3), rd(5), op("closewrite"), op("close"), op("close")},
		{op("handshake"), arr(app(10)), op("gone"), rd(4), op("closewrite"), rd(100), rd(100), wr(1), op("close")},
		{op("handshake"), arr(app(10), al(2, 40), app(5)), op("end"), rd(100), rd(100), wr(7), rd(100)},                          // former K10 (fixed 46481b8): fatal alert received, then Write
		{op("handshake"), arr(app(10)), {Op: "end", T: "app", N: 3}, rd(100), rd(100), wr(7), rd(100)},                           // former K10: truncated transport, then Write
		{op("handshake"), arr(app(10), al(1, 90), c12Ev{K: "hs"}, app(5)), op("end"), rd(100), rd(100), rd(100), rd(100), wr(3)}, // former K11 (fixed 46481b8): no_renegotiation with data buffered
		{op("handshake"), arr(app(10), c12Ev{K: "hs"}, app(5)), op("end"), rd(100), rd(100), rd(100), wr(3)},
		{op("handshake"), arr(app(10), al(1, 90), c12Ev{K: "hs"}), op("end"), rd(100), rd(100), rd(100), wr(3)},
		{op("handshake"), arr(app(4), c12Ev{K: "ccs"}, app(3)), rd(10), rd(10), rd(10), wr(1)},
		{op("handshake"), arr(app(4), c12Ev{K: "damaged"}, app(3)), rd(10), rd(10), rd(10), wr(1), op("close")},
		{op("handshake"), arr(app(12)), rd(5), op("close"), rd(5), op("end"), rd(5)}, // F15
		{op("gone"), op("handshake"), rd(3), wr(3), op("close")},
		{{Op: "end", T: "app", N: 2}, rd(4), op("handshake"), wr(4)},
		{op("end"), wr(4), op("handshake"), rd(4), op("close"), op("handshake")},
		{op("handshake"), arr(app(10)), op("gone"), wr(3), rd(100), rd(100), wr(1), op("close")},              // former K10: failed transport write, then Read of data that had arrived
		{op("handshake"), arr(app(10)), rd(4), op("gone"), wr(3), rd(100), rd(2), wr(1), op("close")},         // ... with part of the record already consumed: the rest must not be delivered either
		{op("handshake"), arr(app(10), app(6)), rd(4), rd(3), op("gone"), wr(3), rd(1), rd(100), op("close")}, // ... and a further record buffered
		{op("handshake"), arr(app(10), al(2, 40)), rd(4), rd(100), rd(100), wr(2), op("close")},               // leftover of a record, then the peer's fatal alert
	}
	for i, calls := range corpus {
		for _, target := range targets {
			su := cbcgcm[i%2]
			c12AddCase(out, "corpus", c12Input{Target: target, Suite: su, Plan: "ok", Pos: 1 + i%3, Calls: calls})
			if thorough {
				c12AddCase(out, "corpus", c12Input{Target: target, Suite: cbcgcm[(i+1)%2], Plan: "ok", Pos: i % 4, Calls: calls})
			}
		}
	}
	for _, m := range []int{16, 17} { // 16 ignored records are tolerated, the 17th is not
		for _, target := range targets {
			var w []c12Ev
			for i := 0; i < m; i++ {
				w = append(w, []c12Ev{al(1, 90), app(0)}[i%2])
			}
			c12AddCase(out, "ignored-records", c12Input{Target: target, Suite: 0xe053, Plan: "ok", Pos: 1, Big: true, Calls: []c12Call{
				op("handshake"), arr(w[:8]...), arr(w[8:]...), arr(app(3)), op("end"), rd(10), rd(10), wr(1), rd(10)}})
			c12AddCase(out, "ignored-records", c12Input{Target: target, Suite: 0xe053, Plan: "ok", Pos: 1, Big: true, Calls: []c12Call{
				arr(w[:8]...), arr(w[8:]...), op("handshake"), op("handshake"), wr(1)}})
		}
	}
	for _, target := range targets {
		for _, suite := range cbcgcm {
			c12AddCase(out, "failed-handshake", c12Input{Target: target, Suite: suite, Plan: "wrong-finished", Pos: 1, Calls: []c12Call{
				[]c12Call{op("handshake"), wr(2)}[nth%2], op("handshake"), rd(4), wr(4), op("closewrite"), arr(app(4)), rd(4), op("close"), op("handshake"), rd(4), op("close")}})
			nth++
		}
	}
	// (6) both ends real: calls on the two ends alternate, each end's arrivals are what the other sent
	npairs := 60
	if thorough {
		npairs = 1500
	}
	for i := 0; i < npairs; i++ {
		in := c12PairInput{Suite: []uint16{0xe013, 0xe053, 0xe011, 0xe051}[i%4]}
		for k, m := 0, 6+r.IntN(12); k < m; k++ {
			o := c12PairOp{Side: []string{"c", "s"}[r.IntN(2)]}
			switch x := r.IntN(20); {
			case x < 8:
				o.Op, o.N = "read", []int{0, 1, 3, 7, 16, 40}[r.IntN(6)]
			case x < 14:
				o.Op, o.N = "write", []int{0, 1, 5, 20, 24}[r.IntN(5)]
			case x < 16:
				o.Op = "closewrite"
			case x < 17 && k > 3:
				o.Op = "close"
			default:
				o.Op = "handshake"
			}
			in.Ops = append(in.Ops, o)
		}
		c12AddPair(out, "pair", in)
	}
	// (7) random histories against the puppet
	g := &c12Gen{r: r}
	n := 150
	if thorough {
		n = 10000
	}
	for i := 0; i < n; i++ {
		t := targets[i%2]
		in := g.history(t)
		in.EofData = i%5 == 4
		c12AddCase(out, "history", in)
	}
	// (8) the dialing entry points: the dialer's timeout / deadline and the caller's context bound the handshake too
	c12Dial(out, thorough)
	return out.Finish()
}

func init() { register("C12", runC12) }
