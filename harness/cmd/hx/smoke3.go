package main

import (
	"fmt"
	"time"

	"verifharness/internal/tk"
)

func runSmoke3(_ params) error {
	reg := tk.NewRegistry()
	for i := 0; i < 3; i++ {
		cc := tk.EPConfig{Suites: []uint16{0xe053}, Ident: "cli", ServerName: "server.test", Cache: "c", PMTU: 4000}
		sc := tk.EPConfig{Ident: "srv", Cache: "s", PMTU: 4000}
		dp := tk.NewDPair(tk.BuildDTLCP(cc, reg), tk.BuildDTLCP(sc, reg))
		cr, sr, hung := dp.Handshake(5 * time.Second)
		fmt.Printf("conn %d: c=%q/%q resumed=%v s=%q/%q resumed=%v hung=%v vt=%v log=%v\n", i, cr.Err, cr.ErrText, cr.Resumed, sr.Err, sr.ErrText, sr.Resumed, hung, dp.Net.Now(), len(dp.Net.Log))
		for _, l := range dp.Net.Log {
			fmt.Printf("   %v\n", l)
		}
	}
	return nil
}

func init() { register("smoke3", runSmoke3) }
