package main

// C10: session resumption is sound and falls back transparently.
// Histories of connections between one client (one cache) and several servers (one cache each)
// interleaved with server cache loss, suite reconfiguration, forged identifiers, induced
// failures and evictions; both stacks.

import (
	"crypto/rand"
	"encoding/hex"
	"encoding/json"
	"fmt"
	mrand "math/rand/v2"
	"os"
	"sort"
	"strings"
	"time"

	"gitee.com/Trisia/gotlcp/dtlcp"
	"gitee.com/Trisia/gotlcp/tlcp"
	x509 "github.com/emmansun/gmsm/smx509"
	"verifharness/internal/emit"
	"verifharness/internal/tk"
)

type c10Ev struct {
	K   string      `json:"k"` // connect | loss | forge
	Srv int         `json:"srv"`
	C   tk.EPConfig `json:"c,omitempty"`
	S   tk.EPConfig `json:"s,omitempty"`
	Cap int         `json:"cap,omitempty"`
	Len int         `json:"len,omitempty"` // forge: length of the forged identifier (0: 32); any length up to 32 is a legal opaque<0..32>
}

type c10Input struct {
	Stack string  `json:"stack"`
	CCap  int     `json:"ccap"`
	SCap  int     `json:"scap"`
	Evs   []c10Ev `json:"evs"`
}

type c10Obs struct {
	Offered int  `json:"offered"`
	ResC    bool `json:"resumed_c"`
	ResS    bool `json:"resumed_s"`
	OkC     bool `json:"ok_c"`
	OkS     bool `json:"ok_s"`
	New     int  `json:"new"`
	SameID  bool `json:"same_identity"`
}

func c10Addr(stack string, j int) string {
	if stack == "dtlcp" {
		return fmt.Sprintf("10.0.1.%d:5000", j)
	}
	return fmt.Sprintf("server-%d", j)
}

// sidOf extracts the session id of a ClientHello / ServerHello body (after the handshake header).
func c10Sid(msg []byte, hl int) []byte {
	if len(msg) < hl+35 {
		return nil
	}
	b := msg[hl+34:]
	n := int(b[0])
	if len(b) < 1+n {
		return nil
	}
	return b[1 : 1+n]
}

func c10AddCase(out *emit.Out, scenario string, in c10Input) {
	pk := tk.GetPKI()
	reg := tk.NewRegistry()
	numbers := map[string]int{}
	idents := map[int][2]string{}
	next := 1
	var obs []c10Obs
	var coqEvs []string
	b := emit.Bool
	direct := ""
	for _, e := range in.Evs {
		switch e.K {
		case "loss":
			if in.Stack == "tlcp" {
				delete(reg.T, fmt.Sprintf("s%d", e.Srv))
			} else {
				delete(reg.D, fmt.Sprintf("s%d", e.Srv))
			}
			coqEvs = append(coqEvs, fmt.Sprintf("HLoss %d %d%%nat", e.Srv, in.SCap))
		case "forge":
			n := e.Len
			if n <= 0 || n > 32 {
				n = 32
			}
			id := make([]byte, n)
			rand.Read(id)
			numbers[hex.EncodeToString(id)] = next
			next++
			certs := [][]byte{pk.SrvSig.DER, pk.SrvEnc.DER}
			cc := tk.EPConfig{Cache: "c", CacheCap: in.CCap}
			if in.Stack == "tlcp" {
				cfg := tk.BuildTLCP(cc, reg)
				s, _ := tlcp.VerifNewSessionWithCerts(id, make([]byte, 48), 0x0101, 0xe053, certs)
				cfg.SessionCache.Put(c10Addr(in.Stack, e.Srv), s)
			} else {
				cfg := tk.BuildDTLCP(cc, reg)
				s, _ := dtlcp.VerifNewSessionWithCerts(id, make([]byte, 48), 0x0101, 0xe053, certs)
				cfg.SessionCache.Put(c10Addr(in.Stack, e.Srv), s)
			}
			coqEvs = append(coqEvs, fmt.Sprintf("HForge %d %d", e.Srv, 0xe053))
		case "connect":
			cc, sc := e.C, e.S
			cc.Cache, cc.CacheCap = "c", in.CCap
			sc.Cache, sc.CacheCap = fmt.Sprintf("s%d", e.Srv), in.SCap
			cc.PMTU, sc.PMTU = 4000, 4000
			var cr, sr tk.EPResult
			var hung bool
			var chSID, shSID []byte
			if in.Stack == "tlcp" {
				tp := tk.NewTPairNamed(tk.BuildTLCP(cc, reg), tk.BuildTLCP(sc, reg), c10Addr(in.Stack, e.Srv))
				cr, sr, hung = tp.Handshake(10 * time.Second)
				if rs := tp.C2S.SentRecords(); len(rs) > 0 && rs[0][0] == 22 {
					chSID = c10Sid(rs[0][5:], 4)
				}
				if rs := tp.S2C.SentRecords(); len(rs) > 0 && rs[0][0] == 22 && len(rs[0]) > 5 && rs[0][5] == 2 {
					shSID = c10Sid(rs[0][5:], 4)
				}
				tp.Close()
			} else {
				dp := tk.NewDPairAddr(tk.BuildDTLCP(cc, reg), tk.BuildDTLCP(sc, reg), c10Addr(in.Stack, e.Srv))
				dp.Net.Mangle = func(d *tk.Dgram) [][]byte {
					b := d.Data
					for len(b) >= 13+12 {
						n := int(b[11])<<8 | int(b[12])
						if len(b) < 13+n {
							break
						}
						if b[0] == 22 && b[3] == 0 && b[4] == 0 { // epoch 0 handshake record
							m := b[13 : 13+n]
							if m[0] == 1 && d.From == 0 {
								// ClientHello: sid after the 12-byte header
								chSID = c10Sid(m, 12)
							}
							if m[0] == 2 && d.From == 1 && shSID == nil {
								shSID = c10Sid(m, 12)
							}
						}
						b = b[13+n:]
					}
					return [][]byte{d.Data}
				}
				cr, sr, hung = dp.Handshake(10 * time.Second)
			}
			if hung {
				direct = "hang"
			}
			if cr.Panic != "" || sr.Panic != "" {
				direct = "panic: " + cr.Panic + sr.Panic
			}
			o := c10Obs{ResC: cr.Resumed && cr.Err == "", ResS: sr.Resumed && sr.Err == "", OkC: cr.Err == "" && cr.Complete, OkS: sr.Err == "" && sr.Complete}
			if len(chSID) > 0 {
				o.Offered = numbers[hex.EncodeToString(chSID)]
				if o.Offered == 0 {
					o.Offered = 9999 // an identifier this history never created
				}
			}
			if o.OkC && o.OkS && !o.ResS && len(shSID) > 0 {
				numbers[hex.EncodeToString(shSID)] = next
				o.New = next
				// the peer identities both ends saw on the connection that created the session
				idents[next] = [2]string{strings.Join(cr.PeerCerts, ","), strings.Join(sr.PeerCerts, ",")}
				next++
			}
			o.SameID = true
			if o.OkC {
				o.SameID = strings.Join(cr.PeerCerts, ",") == "srv-sig,srv-enc"
			}
			if o.OkC && o.OkS && o.ResC && o.ResS {
				// a resumed connection has the same peer identity, on both ends, as the connection that created the session
				if id, ok := idents[o.Offered]; ok && (id[0] != strings.Join(cr.PeerCerts, ",") || id[1] != strings.Join(sr.PeerCerts, ",")) {
					o.SameID = false
				}
			}
			if !o.SameID && direct == "" {
				direct = "resumed connection reports another peer identity than the connection that created the session"
			}
			obs = append(obs, o)
			// oracle verdicts
			srvCerts := tk.CertsTLCP(sc.Ident)
			srvChainOK := len(srvCerts) >= 2 && c01Verify(srvCerts[0].Certificate[0], cc.Roots, cc.ServerName, nil) && c01Verify(srvCerts[1].Certificate[0], cc.Roots, cc.ServerName, nil)
			cliCerts := tk.CertsTLCP(cc.Ident)
			ku := []x509.ExtKeyUsage{x509.ExtKeyUsageClientAuth, x509.ExtKeyUsageServerAuth}
			if sc.Auth == 5 {
				ku = []x509.ExtKeyUsage{x509.ExtKeyUsageAny}
			}
			cliChainOK := len(cliCerts) > 0 && c01Verify(cliCerts[0].Certificate[0], "ca", "", ku)
			cliEncOK := len(cliCerts) > 1 && c01Verify(cliCerts[1].Certificate[0], "ca", "", ku)
			revalid := cc.Insecure || (c01Verify(pk.SrvSig.DER, cc.Roots, cc.ServerName, nil) && c01Verify(pk.SrvEnc.DER, cc.Roots, cc.ServerName, nil))
			coqC := fmt.Sprintf("(mkC %s %s %s [] %s 0 0 %s true)", c01Suites(cc.Suites), b(len(cliCerts) > 0), b(len(cliCerts) > 1), b(cc.Insecure), b(srvChainOK))
			coqS := fmt.Sprintf("(mkS %s true %s [] 0 0 %s %s)", c01Suites(sc.Suites), c07Policies[sc.Auth], b(cliChainOK), b(cliEncOK))
			coqEvs = append(coqEvs, fmt.Sprintf("HConnect %d %s %s %s %s (mkObs %d %s %s %s %s %d)", e.Srv, coqC, coqS, b(revalid), b(cliChainOK && (len(cliCerts) < 2 || cliEncOK)),
				o.Offered, b(o.ResC), b(o.ResS), b(o.OkC), b(o.OkS), o.New))
		}
	}
	out.Add(emit.Case{Scenario: scenario + "/" + in.Stack, Trivial: len(in.Evs) < 3, Input: in, Direct: direct,
		Observed: obs,
		Coq:      fmt.Sprintf("HistCase %d%%nat %d%%nat [%s]", in.CCap, in.SCap, strings.Join(coqEvs, ";\n   "))})
}

func runC10(p params) error {
	out := emit.New(p.out, "C10", "V.Corr.Run_C10", "case",
		"histories of up to 12 connections between one client and three servers with cache loss, suite reconfiguration, forged identifiers, induced failures, small caches (evictions), with and without client certificates, both stacks; non-trivial = at least three events; distinct by input")
	out.ShardBytes = 20000
	if p.replay != "" {
		b, err := os.ReadFile(p.replay)
		if err != nil {
			return err
		}
		var rp struct {
			Cases []struct {
				Scenario string   `json:"scenario"`
				Input    c10Input `json:"input"`
			} `json:"cases"`
		}
		if err := json.Unmarshal(b, &rp); err != nil {
			return err
		}
		for _, c := range rp.Cases {
			c10AddCase(out, strings.SplitN(c.Scenario, "/", 2)[0], c.Input)
		}
		return out.Finish()
	}
	// directed histories (run first): every reason for which an offered session must not be resumed,
	// each followed by a connection that shows the fallback and what is offered next
	for _, st := range []string{"tlcp", "dtlcp"} {
		conn := func(srv int, cs, ss []uint16, ident string, pol int, name string, insecure bool) c10Ev {
			return c10Ev{K: "connect", Srv: srv, C: tk.EPConfig{Suites: cs, Ident: ident, ServerName: name, Insecure: insecure},
				S: tk.EPConfig{Suites: ss, Ident: "srv", Auth: pol}}
		}
		cbc, gcm, both := []uint16{0xe013}, []uint16{0xe053}, []uint16{0xe053, 0xe013}
		ok := func(srv int) c10Ev { return conn(srv, both, both, "cli", 0, "server.test", false) }
		corpus := map[string][]c10Ev{
			"server-drops-the-suite":  {conn(1, both, cbc, "cli", 0, "server.test", false), conn(1, both, cbc, "cli", 0, "server.test", false), conn(1, both, gcm, "cli", 0, "server.test", false), conn(1, both, gcm, "cli", 0, "server.test", false)},
			"client-drops-the-suite":  {conn(1, cbc, both, "cli", 0, "server.test", false), conn(1, cbc, both, "cli", 0, "server.test", false), conn(1, gcm, both, "cli", 0, "server.test", false), conn(1, gcm, both, "cli", 0, "server.test", false)},
			"declined-then-failed":    {ok(1), conn(1, both, both, "none", 4, "server.test", false), ok(1), ok(1)},
			"declined-then-failed-2":  {conn(1, both, both, "none", 0, "server.test", false), conn(1, both, both, "none", 0, "server.test", false), conn(1, both, both, "none", 4, "server.test", false), conn(1, both, both, "none", 0, "server.test", false), conn(1, both, both, "none", 0, "server.test", false)},
			"policy-tightened":        {conn(1, both, both, "none", 0, "server.test", false), conn(1, both, both, "none", 1, "server.test", false), conn(1, both, both, "none", 3, "server.test", false), conn(1, both, both, "cli", 4, "server.test", false), conn(1, both, both, "cli", 4, "server.test", false)},
			"name-changed":            {ok(1), conn(1, both, both, "cli", 0, "wrong.test", false), ok(1), ok(1)},
			"insecure-then-verifying": {conn(1, both, both, "cli", 0, "wrong.test", true), conn(1, both, both, "cli", 0, "wrong.test", true), conn(1, both, both, "cli", 0, "wrong.test", false), conn(1, both, both, "cli", 0, "server.test", false)},
			"server-cache-lost":       {ok(1), {K: "loss", Srv: 1}, ok(1), ok(1)},
			"forged-identifier":       {ok(1), {K: "forge", Srv: 1}, ok(1), ok(1)},
			"forged-short-identifier": {ok(1), {K: "forge", Srv: 1, Len: 16}, ok(1), {K: "forge", Srv: 1, Len: 1}, ok(1), {K: "forge", Srv: 1, Len: 31}, ok(1), {K: "forge", Srv: 1, Len: 8}, ok(1)},
			"three-servers-capacity":  {ok(1), ok(2), ok(3), ok(1), ok(2), ok(3), ok(3), ok(1)},
		}
		// sessions created on every suite family under every policy, resumed twice: the identity both ends report stays
		// the one of the connection that created the session (ECDHE: the client's certificates whatever the policy says)
		for pol := 0; pol < 6; pol++ {
			for _, su := range [][]uint16{{0xe051}, {0xe011}, {0xe053}, {0xe013}} {
				corpus[fmt.Sprintf("identity-policy-%d-suite-%04x", pol, su[0])] = []c10Ev{conn(1, su, su, "cli", pol, "server.test", false), conn(1, su, su, "cli", pol, "server.test", false), conn(1, su, su, "cli", pol, "server.test", false)}
			}
		}
		names := make([]string, 0, len(corpus))
		for k := range corpus {
			names = append(names, k)
		}
		sort.Strings(names)
		for _, k := range names {
			for ci, caps := range [][2]int{{64, 64}, {1, 1}, {2, 2}} {
				if ci > 0 && strings.HasPrefix(k, "identity-") && p.tier != "thorough" {
					continue
				}
				c10AddCase(out, "corpus-"+k, c10Input{Stack: st, CCap: caps[0], SCap: caps[1], Evs: corpus[k]})
			}
		}
	}
	r := mrand.New(mrand.NewPCG(p.seed, 0xC10))
	n := 80
	if p.tier == "thorough" {
		n = 2500
	}
	suiteChoices := [][]uint16{nil, {0xe053, 0xe013}, {0xe013}, {0xe053}, {0xe051, 0xe011, 0xe013}, {0xe011, 0xe053}}
	for i := 0; i < n; i++ {
		in := c10Input{Stack: []string{"tlcp", "dtlcp"}[i%2], CCap: []int{1, 2, 3, 8, 64}[r.IntN(5)], SCap: []int{1, 2, 4, 64}[r.IntN(4)]}
		ident := []string{"cli", "cli", "none"}[r.IntN(3)]
		cSuites, sSuites := suiteChoices[r.IntN(len(suiteChoices))], suiteChoices[r.IntN(2)]
		policy := []int{0, 0, 1, 3, 4}[r.IntN(5)]
		insecure := r.IntN(4) == 0
		name := "server.test"
		k := 3 + r.IntN(10)
		for j := 0; j < k; j++ {
			switch x := r.IntN(20); {
			case x < 2:
				in.Evs = append(in.Evs, c10Ev{K: "loss", Srv: 1 + r.IntN(3)})
			case x < 3:
				in.Evs = append(in.Evs, c10Ev{K: "forge", Srv: 1 + r.IntN(3), Len: []int{32, 32, 16, 1, 31, 8}[r.IntN(6)]})
			case x < 5: // reconfigure something for the rest of the history
				switch r.IntN(5) {
				case 0:
					cSuites = suiteChoices[r.IntN(len(suiteChoices))]
				case 1:
					sSuites = suiteChoices[r.IntN(len(suiteChoices))]
				case 2:
					policy = r.IntN(6)
				case 3:
					insecure = !insecure
				case 4:
					name = []string{"server.test", "wrong.test"}[r.IntN(2)]
				}
				fallthrough
			default:
				srv := 1 + r.IntN(3)
				if r.IntN(2) == 0 && len(in.Evs) > 0 && in.Evs[len(in.Evs)-1].K == "connect" {
					srv = in.Evs[len(in.Evs)-1].Srv // reconnect to the same server more often than not
				}
				in.Evs = append(in.Evs, c10Ev{K: "connect", Srv: srv,
					C: tk.EPConfig{Suites: cSuites, Ident: ident, ServerName: name, Insecure: insecure},
					S: tk.EPConfig{Suites: sSuites, Ident: "srv", Auth: policy}})
			}
		}
		c10AddCase(out, "random-history", in)
	}
	// configurations used through Config.Clone carry the fields this property depends on
	cloneCases(out, []string{"tlcp", "dtlcp"}, map[string][]string{"tlcp": {"SessionCache", "CipherSuites", "ClientAuth", "ServerName", "InsecureSkipVerify"}, "dtlcp": {"SessionCache", "CipherSuites", "ClientAuth", "ServerName", "InsecureSkipVerify"}})
	return out.Finish()
}

func init() { register("C10", runC10) }
