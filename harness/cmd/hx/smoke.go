package main

import (
	"fmt"
	"time"

	"verifharness/internal/tk"
)

func runSmoke(p params) error {
	reg := tk.NewRegistry()
	for _, suite := range []uint16{0xe053, 0xe013, 0xe051, 0xe011} {
		cc := tk.EPConfig{Suites: []uint16{suite}, Ident: "cli", ServerName: "server.test"}
		sc := tk.EPConfig{Ident: "srv", Auth: 0}
		t0 := time.Now()
		tp := tk.NewTPair(tk.BuildTLCP(cc, reg), tk.BuildTLCP(sc, reg))
		cr, sr, hung := tp.Handshake(5 * time.Second)
		fmt.Printf("tlcp %04x: c=%q s=%q hung=%v complete=%v/%v suite=%04x %v\n", suite, cr.Err+cr.ErrText, sr.Err+sr.ErrText, hung, cr.Complete, sr.Complete, cr.Suite, time.Since(t0))
		t0 = time.Now()
		dp := tk.NewDPair(tk.BuildDTLCP(cc, reg), tk.BuildDTLCP(sc, reg))
		cr, sr, hung = dp.Handshake(5 * time.Second)
		fmt.Printf("dtlcp %04x: c=%q s=%q hung=%v complete=%v/%v suite=%04x vt=%v expiries=%d stuck=%v %v\n", suite, cr.Err+cr.ErrText, sr.Err+sr.ErrText, hung, cr.Complete, sr.Complete, cr.Suite, dp.Net.Now(), dp.Net.Expiries, dp.Net.Stuck, time.Since(t0))
	}
	return nil
}

func init() { register("smoke", runSmoke) }
