package main

// C19: the DTLCP handshake survives datagram loss, duplication and reordering.
// Every fault script (up to k faults: drop / duplicate / delay of the n-th datagram of either
// direction, both orders of simultaneous expiry) is replayed on the real endpoints under the
// deterministic virtual-time network; the complete event trace (every datagram sent, with the
// epoch / sequence number / kind of each record in it, every network action, every expiry of a
// read deadline, handshake completion and application data) is handed to the Coq simulator,
// which must produce the same trace for the same script.
//
// Application program (both directions): after its handshake the client writes "ping" and reads
// with a 400 ms deadline, writing "ping" again on every timeout (8 tries) until "pong" arrives;
// the server reads with a 400 ms deadline, answers every "ping" by "pong", and leaves after 5
// consecutive timeouts.

import (
	"encoding/json"
	"fmt"
	"math/rand/v2"
	"os"
	"strings"
	"time"

	"gitee.com/Trisia/gotlcp/dtlcp"
	"verifharness/internal/emit"
	"verifharness/internal/tk"
)

type c19Fault struct {
	Dir  int    `json:"dir"`  // 0: sent by the client, 1: sent by the server
	Idx  int    `json:"idx"`  // n-th datagram of that direction
	Kind string `json:"kind"` // drop | dup | delay
	Ms   int    `json:"ms,omitempty"`
}

type c19Input struct {
	Suite   uint16     `json:"suite"`
	Resume  bool       `json:"resume"`
	Auth    int        `json:"auth"`
	Faults  []c19Fault `json:"faults"`
	TieFlip bool       `json:"tie_flip"`
	PMTU    int        `json:"pmtu,omitempty"` // 0: 4000 (every flight travels in one datagram, as the discrete-event model assumes)
}

type c19Result struct {
	COk, SOk   bool
	CErr, SErr string
	Agree      bool
	Pong, Ping bool // the client got "pong"; the server got "ping"
	VirtualMs  int64
	DoneMs     [2]int64
	Expiries   int
	Trace      []string
	Hung       bool
	Panic      string
}

const (
	c19Init   = 100
	c19Max    = 1000
	c19AppMs  = 400
	c19Tries  = 8
	c19Idle   = 5
	c19CapSec = 60
)

// c19Records renders a datagram as the Coq list of its records.
func c19Records(d []byte) string {
	var rs []string
	for len(d) >= 13 {
		typ, epoch := d[0], int(d[3])<<8|int(d[4])
		seq := 0
		for _, b := range d[5:11] {
			seq = seq<<8 | int(b)
		}
		n := int(d[11])<<8 | int(d[12])
		if 13+n > len(d) {
			rs = append(rs, "Rbad")
			break
		}
		body := d[13 : 13+n]
		d = d[13+n:]
		kind := "BOther"
		switch {
		case typ == 20:
			kind = "BCcs"
		case typ == 23:
			kind = "BApp"
		case typ == 21:
			kind = "BAlert"
		case typ == 22 && epoch > 0:
			kind = "BEnc"
		case typ == 22 && len(body) >= 12:
			mt, ml := body[0], int(body[1])<<16|int(body[2])<<8|int(body[3])
			ms := int(body[4])<<8 | int(body[5])
			fo, fl := int(body[6])<<16|int(body[7])<<8|int(body[8]), int(body[9])<<16|int(body[10])<<8|int(body[11])
			name := map[byte]string{1: "CH0", 2: "SH", 3: "HVR", 11: "CERT", 12: "SKX", 13: "CR", 14: "SHD", 15: "CV", 16: "CKX", 20: "FIN"}[mt]
			if name == "" || fo != 0 || fl != ml || len(body) != 12+ml {
				kind = "BFrag"
				break
			}
			if mt == 1 { // ClientHello: vers(2) random(32) sid cookie
				b := body[12:]
				if len(b) > 35 && len(b) > 35+int(b[34]) && b[35+int(b[34])] > 0 {
					name = "CH1"
				}
			}
			kind = fmt.Sprintf("(BHs %s %d)", name, ms)
		}
		rs = append(rs, fmt.Sprintf("mkRec %d %d %s", epoch, seq, kind))
	}
	if len(d) != 0 {
		rs = append(rs, "Rbad")
	}
	return "[" + strings.Join(rs, "; ") + "]"
}

func c19Run(in c19Input) (res c19Result, coqTrace []string) {
	reg := tk.NewRegistry()
	cc := tk.EPConfig{Suites: []uint16{in.Suite}, Ident: "cli", ServerName: "server.test", PMTU: 4000, Cache: "c", RetransMs: c19Init, MaxRetransMs: c19Max}
	sc := tk.EPConfig{Ident: "srv", Auth: in.Auth, PMTU: 4000, Cache: "s", RetransMs: c19Init, MaxRetransMs: c19Max}
	if in.PMTU != 0 {
		cc.PMTU, sc.PMTU = in.PMTU, in.PMTU
	}
	if in.Resume { // an undisturbed first connection creates the session
		dp := tk.NewDPair(tk.BuildDTLCP(cc, reg), tk.BuildDTLCP(sc, reg))
		cr, sr, _ := dp.Handshake(10 * time.Second)
		if cr.Err != "" || sr.Err != "" {
			return c19Result{CErr: "setup:" + cr.Err, SErr: "setup:" + sr.Err}, nil
		}
	}
	dp := tk.NewDPair(tk.BuildDTLCP(cc, reg), tk.BuildDTLCP(sc, reg))
	dp.Net.TieFlip = in.TieFlip
	dp.Net.MaxVirtual = c19CapSec * time.Second
	dp.Net.Quantum = 50 * time.Millisecond // every deadline of this experiment is a multiple of 100 ms
	dp.Net.Decide = func(d *tk.Dgram) tk.Action {
		for _, f := range in.Faults {
			if f.Dir == d.From && f.Idx == d.Idx {
				return tk.Action{Kind: f.Kind, Delay: time.Duration(f.Ms) * time.Millisecond}
			}
		}
		return tk.Action{}
	}
	var cr, sr tk.EPResult
	hs := func(id int, c *dtlcp.Conn) bool {
		var err error
		func() {
			defer func() {
				if r := recover(); r != nil {
					res.Panic = fmt.Sprint(r)
					err = fmt.Errorf("panic")
				}
			}()
			err = c.Handshake()
		}()
		st := tk.StateDTLCP(c, err)
		if id == 0 {
			cr = st
		} else {
			sr = st
		}
		if err != nil {
			if !dp.Net.IsStuck() { // not the network giving up at the end of the experiment
				dp.Net.Note(id, "done-err")
			}
			dp.Net.End(id).Close()
			return false
		}
		res.DoneMs[id] = dp.Net.Now().Milliseconds()
		dp.Net.Note(id, "done-ok")
		return true
	}
	cprog := func(c *dtlcp.Conn) {
		if !hs(0, c) {
			return
		}
		buf := make([]byte, 256)
		c.Write([]byte("ping"))
		for tries := 0; tries < c19Tries; tries++ {
			c.SetReadDeadline(time.Now().Add(c19AppMs * time.Millisecond))
			n, err := c.Read(buf)
			if n > 0 && string(buf[:n]) == "pong" {
				res.Pong = true
				dp.Net.Note(0, "got")
				return
			}
			if err != nil && tk.ErrClass(err) != "timeout" {
				res.CErr = "read:" + tk.ErrClass(err)
				if !dp.Net.IsStuck() {
					dp.Net.Note(0, "app-err")
				}
				return
			}
			if err != nil {
				c.Write([]byte("ping"))
			}
		}
	}
	sprog := func(c *dtlcp.Conn) {
		if !hs(1, c) {
			return
		}
		buf := make([]byte, 256)
		for idle := 0; idle < c19Idle; {
			c.SetReadDeadline(time.Now().Add(c19AppMs * time.Millisecond))
			n, err := c.Read(buf)
			if n > 0 && string(buf[:n]) == "ping" {
				res.Ping = true
				dp.Net.Note(1, "got")
				c.Write([]byte("pong"))
				idle = 0
				continue
			}
			if err != nil && tk.ErrClass(err) != "timeout" {
				res.SErr = "read:" + tk.ErrClass(err)
				if !dp.Net.IsStuck() {
					dp.Net.Note(1, "app-err")
				}
				return
			}
			if err != nil {
				idle++
			}
		}
	}
	res.Hung = dp.Run(cprog, sprog, 20*time.Second)
	res.COk, res.SOk = cr.Err == "" && cr.Complete, sr.Err == "" && sr.Complete
	if res.CErr == "" {
		res.CErr = cr.Err
	}
	if res.SErr == "" {
		res.SErr = sr.Err
	}
	res.Agree = cr.Suite == sr.Suite && cr.Version == sr.Version && cr.Resumed == sr.Resumed && cr.ALPN == sr.ALPN
	res.VirtualMs = dp.Net.Now().Milliseconds()
	res.Expiries = dp.Net.Expiries
	side := []string{"Cl", "Sv"}
	for _, e := range dp.Net.Events {
		t := e.At.Milliseconds()
		switch e.Kind {
		case "send":
			res.Trace = append(res.Trace, fmt.Sprintf("%d send %d#%d %s", t, e.Side, e.Idx, c19Records(e.Data)))
			coqTrace = append(coqTrace, fmt.Sprintf("(%d, ESend %s %d %s)", t, side[e.Side], e.Idx, c19Records(e.Data)))
		case "deliver", "dup", "late", "drop", "hold":
			res.Trace = append(res.Trace, fmt.Sprintf("%d %s %d#%d", t, e.Kind, e.Side, e.Idx))
			coqTrace = append(coqTrace, fmt.Sprintf("(%d, ENet N%s %s %d)", t, e.Kind, side[e.Side], e.Idx))
		case "expire":
			res.Trace = append(res.Trace, fmt.Sprintf("%d expire %d", t, e.Side))
			coqTrace = append(coqTrace, fmt.Sprintf("(%d, EExpire %s)", t, side[e.Side]))
		case "done-ok", "done-err":
			res.Trace = append(res.Trace, fmt.Sprintf("%d %s %d", t, e.Kind, e.Side))
			coqTrace = append(coqTrace, fmt.Sprintf("(%d, EDone %s %s)", t, side[e.Side], emit.Bool(e.Kind == "done-ok")))
		case "got":
			res.Trace = append(res.Trace, fmt.Sprintf("%d got %d", t, e.Side))
			coqTrace = append(coqTrace, fmt.Sprintf("(%d, EGot %s)", t, side[e.Side]))
		default:
			res.Trace = append(res.Trace, fmt.Sprintf("%d %s %d", t, e.Kind, e.Side))
			coqTrace = append(coqTrace, fmt.Sprintf("(%d, EOther %s)", t, side[e.Side]))
		}
	}
	return res, coqTrace
}

func c19AddCase(out *emit.Out, scenario string, in c19Input) {
	r, tr := c19Run(in)
	direct := ""
	if r.Panic != "" {
		direct = "panic: " + r.Panic
	} else if r.Hung {
		direct = "hang"
	}
	var fs []string
	for _, f := range in.Faults {
		k := map[string]string{"drop": "FDrop", "dup": "FDup", "delay": "FDelay"}[f.Kind]
		fs = append(fs, fmt.Sprintf("mkFault %s %d %s %d", []string{"Cl", "Sv"}[f.Dir], f.Idx, k, f.Ms))
	}
	if os.Getenv("HX_DEBUG") != "" {
		fmt.Fprintf(os.Stderr, "== %s %+v: cok=%v sok=%v cerr=%q serr=%q agree=%v pong=%v ping=%v vms=%d exp=%d\n  %s\n", scenario, in, r.COk, r.SOk, r.CErr, r.SErr, r.Agree, r.Pong, r.Ping, r.VirtualMs, r.Expiries, strings.Join(r.Trace, "\n  "))
	}
	if strings.HasPrefix(scenario, "split-flight") {
		// flights that span several datagrams are outside the discrete-event model: judged on the outcome alone
		out.Add(emit.Case{Scenario: scenario, Trivial: len(in.Faults) == 0, Input: in, Direct: direct, Observed: r,
			Coq: fmt.Sprintf("SplitFlightCase %s %s %s %s %s", emit.Bool(r.COk), emit.Bool(r.SOk), emit.Bool(r.Agree), emit.Bool(r.Pong), emit.Bool(r.Ping))})
		return
	}
	ecdhe := in.Suite == 0xe011 || in.Suite == 0xe051
	out.Add(emit.Case{Scenario: scenario, Trivial: len(in.Faults) == 0, Input: in, Direct: direct,
		Observed: r,
		Coq: fmt.Sprintf("%s (mkCfg %s %s %s) [%s] %s %s %s %s %s [%s]", map[bool]string{false: "FaultCase", true: "TraceCase"}[strings.HasPrefix(scenario, "long-")], emit.Bool(in.Resume), emit.Bool(in.Auth >= 1 || ecdhe), emit.Bool(in.TieFlip),
			strings.Join(fs, "; "), emit.Bool(r.COk), emit.Bool(r.SOk), emit.Bool(r.Agree), emit.Bool(r.Pong), emit.Bool(r.Ping), strings.Join(tr, "; "))})
}

func c19Singles(maxIdx int) []c19Fault {
	var singles []c19Fault
	for dir := 0; dir < 2; dir++ {
		for idx := 0; idx < maxIdx; idx++ {
			for _, k := range []string{"drop", "dup", "delay"} {
				singles = append(singles, c19Fault{Dir: dir, Idx: idx, Kind: k, Ms: 150})
			}
		}
	}
	return singles
}

func runC19(p params) error {
	out := emit.New(p.out, "C19", "V.Corr.Run_C19", "case",
		"fault scripts of up to k lost / duplicated / delayed datagrams (every datagram index of both directions) on full and resumed handshakes, suites, client authentication, both tie orders, under virtual time; non-trivial = at least one fault; distinct by input")
	if p.replay != "" {
		b, err := os.ReadFile(p.replay)
		if err != nil {
			return err
		}
		var rp struct {
			Cases []struct {
				Scenario string   `json:"scenario"`
				Input    c19Input `json:"input"`
			} `json:"cases"`
		}
		if err := json.Unmarshal(b, &rp); err != nil {
			return err
		}
		for _, c := range rp.Cases {
			c19AddCase(out, c.Scenario, c.Input)
		}
		return out.Finish()
	}
	cfgs := []c19Input{{Suite: 0xe053}, {Suite: 0xe013, Auth: 4}, {Suite: 0xe053, Resume: true}, {Suite: 0xe051, Auth: 4}}
	if p.tier == "thorough" {
		cfgs = append(cfgs, c19Input{Suite: 0xe011, Auth: 4}, c19Input{Suite: 0xe013, Resume: true}, c19Input{Suite: 0xe013})
	}
	// a path MTU of 500 bytes: the certificate flights span several datagrams; none lost, then each one lost or delayed
	for _, cfg := range []c19Input{{Suite: 0xe013, PMTU: 500}, {Suite: 0xe013, Auth: 4, PMTU: 500}} {
		c19AddCase(out, "split-flight-fault-free", cfg)
		for dir := 0; dir < 2; dir++ {
			for idx := 0; idx < 8; idx++ {
				for _, k := range []string{"drop", "delay"} {
					if p.tier != "thorough" && k == "delay" && idx%2 == 1 {
						continue
					}
					in := cfg
					in.Faults = []c19Fault{{Dir: dir, Idx: idx, Kind: k, Ms: 150}}
					c19AddCase(out, fmt.Sprintf("split-flight-%s-%s%d", k, []string{"c", "s"}[dir], idx), in)
				}
			}
		}
	}
	singles := c19Singles(6)
	for _, cfg := range cfgs {
		for _, tie := range []bool{false, true} {
			in := cfg
			in.TieFlip = tie
			c19AddCase(out, "fault-free", in)
		}
		for _, f := range singles {
			for _, tie := range []bool{false, true} {
				in := cfg
				in.Faults = []c19Fault{f}
				in.TieFlip = tie
				c19AddCase(out, "k1-"+f.Kind, in)
			}
		}
	}
	// directed scripts
	for _, cfg := range cfgs[:4] {
		for _, tie := range []bool{false, true} {
			in := cfg
			in.TieFlip = tie
			// a HelloVerifyRequest that arrives again (late) while the ServerHello is awaited
			in.Faults = []c19Fault{{Dir: 1, Idx: 0, Kind: "delay", Ms: 150}, {Dir: 1, Idx: 2, Kind: "drop"}}
			c19AddCase(out, "k2-late-hello-verify", in)
			in.Faults = []c19Fault{{Dir: 1, Idx: 0, Kind: "dup"}, {Dir: 1, Idx: 1, Kind: "drop"}}
			c19AddCase(out, "k2-dup-hello-verify", in)
			// the client's very first (cookie-less) hello is late and arrives while the server awaits the client's
			// key-exchange flight (whose first transmission is lost) / while it awaits the cookie-bearing hello
			if !in.Resume {
				in.Faults = []c19Fault{{Dir: 0, Idx: 0, Kind: "delay", Ms: 150}, {Dir: 0, Idx: 3, Kind: "drop"}}
				c19AddCase(out, "k2-late-first-hello", in)
				in.Faults = []c19Fault{{Dir: 0, Idx: 0, Kind: "delay", Ms: 150}, {Dir: 0, Idx: 2, Kind: "drop"}}
				c19AddCase(out, "k2-late-first-hello", in)
				in.Faults = []c19Fault{{Dir: 0, Idx: 0, Kind: "delay", Ms: 450}, {Dir: 0, Idx: 3, Kind: "drop"}, {Dir: 0, Idx: 4, Kind: "drop"}}
				c19AddCase(out, "k3-late-first-hello", in)
			}
			// the same flight lost again and again: the timeout doubles up to the maximum and stays there.
			// More faults than the application's patience covers: only the trace is compared ("long-").
			var fs []c19Fault
			for i := 0; i < 7; i++ {
				fs = append(fs, c19Fault{Dir: 1, Idx: 1 + i, Kind: "drop"})
			}
			in.Faults = fs
			c19AddCase(out, "long-server-flight-lost-7-times", in)
			fs = nil
			for i := 0; i < 7; i++ {
				fs = append(fs, c19Fault{Dir: 1, Idx: 2 + i, Kind: "drop"})
			}
			in.Faults = fs
			c19AddCase(out, "long-last-server-flight-lost-7-times", in)
		}
	}
	// k = 2: exhaustive in the thorough tier, sampled otherwise; k = 3 (and delays of other lengths): sampled
	r := rand.New(rand.NewPCG(p.seed, 0xC19))
	wide := c19Singles(9)
	pick := func(k int) []c19Fault {
		for {
			var fs []c19Fault
			ok := true
			for len(fs) < k {
				f := wide[r.IntN(len(wide))]
				if f.Kind == "delay" {
					f.Ms = []int{30, 150, 450, 1200}[r.IntN(4)]
				}
				for _, g := range fs {
					if g.Dir == f.Dir && g.Idx == f.Idx {
						ok = false
					}
				}
				fs = append(fs, f)
			}
			if ok {
				return fs
			}
		}
	}
	if p.tier == "thorough" {
		for _, cfg := range cfgs[:4] {
			for i, f := range singles {
				for j, g := range singles {
					if j <= i || (f.Dir == g.Dir && f.Idx == g.Idx) {
						continue
					}
					in := cfg
					in.Faults = []c19Fault{f, g}
					in.TieFlip = (i+j)%2 == 1
					c19AddCase(out, "k2", in)
				}
			}
		}
	}
	n2, n3 := 160, 60
	if p.tier == "thorough" {
		n2, n3 = 600, 1500
	}
	for i := 0; i < n2+n3; i++ {
		in := cfgs[r.IntN(len(cfgs))]
		k := 2
		if i >= n2 {
			k = 3
		}
		in.Faults = pick(k)
		in.TieFlip = r.IntN(2) == 1
		c19AddCase(out, fmt.Sprintf("k%d-sampled", k), in)
	}
	// configurations used through Config.Clone carry the fields this property depends on
	cloneCases(out, []string{"dtlcp"}, map[string][]string{"dtlcp": {"InitialRetransmitTimeout", "MaxRetransmitTimeout", "NewTimer", "PMTU"}})
	return out.Finish()
}

func init() { register("C19", runC19) }
