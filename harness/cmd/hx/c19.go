package main

// C19: the DTLCP handshake survives datagram loss, duplication and reordering.
// Every fault script (up to k faults: drop / duplicate / delay of the n-th datagram of either
// direction, both orders of simultaneous expiry) is replayed on the real endpoints under the
// deterministic virtual-time network.

import (
	"bytes"
	"encoding/json"
	"fmt"
	"os"
	"strings"
	"time"

	"gitee.com/Trisia/gotlcp/dtlcp"
	"verifharness/internal/emit"
	"verifharness/internal/tk"
)

type c19Fault struct {
	Dir  int    `json:"dir"` // 0: sent by the client, 1: sent by the server
	Idx  int    `json:"idx"` // n-th datagram of that direction
	Kind string `json:"kind"` // drop | dup | delay
	Ms   int    `json:"ms,omitempty"`
}

type c19Input struct {
	Suite   uint16     `json:"suite"`
	Resume  bool       `json:"resume"`
	Auth    int        `json:"auth"`
	Faults  []c19Fault `json:"faults"`
	TieFlip bool       `json:"tie_flip"`
}

type c19Result struct {
	COk, SOk       bool
	CErr, SErr     string
	Agree          bool
	DataOK         bool
	EarlyData      bool
	VirtualMs      int64
	Expiries       int
	NDgram         [2]int
	Trace          []string
	Hung           bool
	Panic          string
}

func c19Run(in c19Input) c19Result {
	reg := tk.NewRegistry()
	cc := tk.EPConfig{Suites: []uint16{in.Suite}, Ident: "cli", ServerName: "server.test", PMTU: 4000, Cache: "c", RetransMs: 100, MaxRetransMs: 1600}
	sc := tk.EPConfig{Ident: "srv", Auth: in.Auth, PMTU: 4000, Cache: "s", RetransMs: 100, MaxRetransMs: 1600}
	if in.Resume { // an undisturbed first connection creates the session
		dp := tk.NewDPair(tk.BuildDTLCP(cc, reg), tk.BuildDTLCP(sc, reg))
		cr, sr, _ := dp.Handshake(10 * time.Second)
		if cr.Err != "" || sr.Err != "" {
			return c19Result{CErr: "setup:" + cr.Err, SErr: "setup:" + sr.Err}
		}
	}
	dp := tk.NewDPair(tk.BuildDTLCP(cc, reg), tk.BuildDTLCP(sc, reg))
	dp.Net.TieFlip = in.TieFlip
	dp.Net.MaxVirtual = 60 * time.Second
	dp.Net.Decide = func(d *tk.Dgram) tk.Action {
		for _, f := range in.Faults {
			if f.Dir == d.From && f.Idx == d.Idx {
				return tk.Action{Kind: f.Kind, Delay: time.Duration(f.Ms) * time.Millisecond}
			}
		}
		return tk.Action{}
	}
	var res c19Result
	var cr, sr tk.EPResult
	var gotC, gotS []byte
	msgC, msgS := []byte("application data from the client"), []byte("application data from the server")
	prog := func(id int) func(c *dtlcp.Conn) {
		return func(c *dtlcp.Conn) {
			var err error
			func() {
				defer func() {
					if r := recover(); r != nil {
						res.Panic = fmt.Sprint(r)
						err = fmt.Errorf("panic")
					}
				}()
				err = c.Handshake()
			}()
			if id == 0 {
				cr = tk.StateDTLCP(c, err)
			} else {
				sr = tk.StateDTLCP(c, err)
			}
			if err != nil {
				dp.Net.End(id).Close()
				return
			}
			mine, theirs := msgC, &gotC
			if id == 1 {
				mine, theirs = msgS, &gotS
			}
			c.Write(mine)
			buf := make([]byte, 4096)
			for tries := 0; tries < 6 && len(*theirs) == 0; tries++ {
				c.SetReadDeadline(time.Now().Add(400 * time.Millisecond))
				n, rerr := c.Read(buf)
				if n > 0 {
					*theirs = append(*theirs, buf[:n]...)
				}
				if rerr != nil && tk.ErrClass(rerr) != "timeout" {
					if id == 0 {
						res.CErr = "read:" + tk.ErrClass(rerr)
					} else {
						res.SErr = "read:" + tk.ErrClass(rerr)
					}
					break
				}
			}
		}
	}
	res.Hung = dp.Run(prog(0), prog(1), 20*time.Second)
	res.COk, res.SOk = cr.Err == "" && cr.Complete, sr.Err == "" && sr.Complete
	if res.CErr == "" {
		res.CErr = cr.Err
	}
	if res.SErr == "" {
		res.SErr = sr.Err
	}
	res.Agree = cr.Suite == sr.Suite && cr.Version == sr.Version && cr.Resumed == sr.Resumed && cr.ALPN == sr.ALPN
	res.DataOK = bytes.Equal(gotC, msgS) && bytes.Equal(gotS, msgC)
	res.VirtualMs = dp.Net.Now().Milliseconds()
	res.Expiries = dp.Net.Expiries
	res.NDgram = [2]int{len(dp.Net.End(0).Sizes), len(dp.Net.End(1).Sizes)}
	for _, l := range dp.Net.Log {
		res.Trace = append(res.Trace, fmt.Sprintf("%d#%d:%s@%d", l.From, l.Idx, l.Act, l.At.Milliseconds()))
	}
	return res
}

func c19AddCase(out *emit.Out, scenario string, in c19Input) {
	r := c19Run(in)
	direct := ""
	if r.Panic != "" {
		direct = "panic: " + r.Panic
	} else if r.Hung {
		direct = "hang"
	}
	var fs []string
	for _, f := range in.Faults {
		k := map[string]string{"drop": "FDrop", "dup": "FDup", "delay": "FDelay"}[f.Kind]
		fs = append(fs, fmt.Sprintf("mkFault %d %d %s %d", f.Dir, f.Idx, k, f.Ms))
	}
	out.Add(emit.Case{Scenario: scenario, Trivial: len(in.Faults) == 0, Input: in, Direct: direct,
		Observed: r,
		Coq: fmt.Sprintf("FaultCase %s %s [%s] %s %s %s %s %d %d%%nat", emit.Bool(in.Resume), emit.Bool(in.Auth >= 1), strings.Join(fs, "; "),
			emit.Bool(r.COk), emit.Bool(r.SOk), emit.Bool(r.Agree), emit.Bool(r.DataOK), r.VirtualMs, r.Expiries)})
}

func runC19(p params) error {
	out := emit.New(p.out, "C19", "V.Corr.Run_C19", "case",
		"fault scripts of up to k lost / duplicated / delayed datagrams (every datagram index of both directions) on full and resumed handshakes, suites, client authentication, both tie orders, under virtual time; non-trivial = at least one fault; distinct by input")
	if p.replay != "" {
		b, err := os.ReadFile(p.replay)
		if err != nil {
			return err
		}
		var rp struct {
			Cases []struct {
				Scenario string   `json:"scenario"`
				Input    c19Input `json:"input"`
			} `json:"cases"`
		}
		if err := json.Unmarshal(b, &rp); err != nil {
			return err
		}
		for _, c := range rp.Cases {
			c19AddCase(out, c.Scenario, c.Input)
		}
		return out.Finish()
	}
	cfgs := []c19Input{{Suite: 0xe053}, {Suite: 0xe013, Auth: 4}, {Suite: 0xe053, Resume: true}, {Suite: 0xe051, Auth: 4}}
	if p.tier == "thorough" {
		cfgs = append(cfgs, c19Input{Suite: 0xe011, Auth: 4}, c19Input{Suite: 0xe013, Resume: true}, c19Input{Suite: 0xe013})
	}
	for _, cfg := range cfgs {
		c19AddCase(out, "fault-free", cfg)
		var singles []c19Fault
		for dir := 0; dir < 2; dir++ {
			for idx := 0; idx < 5; idx++ {
				for _, k := range []string{"drop", "dup", "delay"} {
					singles = append(singles, c19Fault{Dir: dir, Idx: idx, Kind: k, Ms: 150})
				}
			}
		}
		for _, f := range singles {
			for _, tie := range []bool{false, true} {
				in := cfg
				in.Faults = []c19Fault{f}
				in.TieFlip = tie
				c19AddCase(out, "k1-"+f.Kind, in)
			}
		}
		if p.tier == "thorough" {
			for i, f := range singles {
				for j, g := range singles {
					if j <= i || (f.Dir == g.Dir && f.Idx == g.Idx) {
						continue
					}
					in := cfg
					in.Faults = []c19Fault{f, g}
					c19AddCase(out, "k2", in)
				}
			}
		}
	}
	return out.Finish()
}

func init() { register("C19", runC19) }
