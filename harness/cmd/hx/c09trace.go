package main

// C09, record-machine traces: a real endpoint is brought to a handshake state by an honest
// puppet and then sent a scripted sequence of records (stream) / datagrams; after every step the
// harness notes whether the endpoint still runs and what it holds (hooks, sampled at the
// endpoint's last transport read, i.e. where it waits for input).  The same script is run
// through the Gallina machines of Model/ConnT.v / Model/ConnD.v.

import (
	"fmt"
	"net"
	"strings"

	"gitee.com/Trisia/gotlcp/dtlcp"
	"gitee.com/Trisia/gotlcp/tlcp"
	"verifharness/internal/emit"
	"verifharness/internal/puppet"
	"verifharness/internal/tk"
)

type c09Chunk struct {
	Lit   string `json:"lit,omitempty"` // hex
	Zeros int    `json:"zeros,omitempty"`
}

func c09Expand(p []c09Chunk) []byte {
	var b []byte
	for _, c := range p {
		b = append(b, unhex(c.Lit)...)
		b = append(b, make([]byte, c.Zeros)...)
	}
	return b
}

func c09CoqPayload(p []c09Chunk) string {
	var parts []string
	for _, c := range p {
		if c.Lit != "" {
			parts = append(parts, "Lit "+emit.Bytes(unhex(c.Lit)))
		}
		if c.Zeros > 0 {
			parts = append(parts, fmt.Sprintf("Zeros %d", c.Zeros))
		}
	}
	return "[" + strings.Join(parts, "; ") + "]"
}

// ---------------------------------------------------------------- stream

type c09TEv struct {
	K     string     `json:"k"` // hs | alert | ccs | app | other | vers | badmac
	P     []c09Chunk `json:"p,omitempty"`
	N     int        `json:"n,omitempty"`
	Typ   int        `json:"typ,omitempty"`
	Vers  int        `json:"vers,omitempty"`
	Glued bool       `json:"glued,omitempty"` // written together with the previous event
}

type c09TraceT struct {
	Target string   `json:"target"` // server | client
	Phase  string   `json:"phase"`  // p0 | p1 | p2 | p4
	Evs    []c09TEv `json:"evs"`
}

type c09TObs struct {
	Sampled bool `json:"sampled"`
	Running bool `json:"running"`
	Hand    int  `json:"hand"`
	Retry   int  `json:"retry"`
}

func (e c09TEv) coq() string {
	switch e.K {
	case "hs":
		return fmt.Sprintf("THs %s %s", c09CoqPayload(e.P), emit.Bool(e.Glued))
	case "alert":
		return fmt.Sprintf("TAlert %s %s", c09CoqPayload(e.P), emit.Bool(e.Glued))
	case "ccs":
		return fmt.Sprintf("TCcs %s %s", c09CoqPayload(e.P), emit.Bool(e.Glued))
	case "app":
		return fmt.Sprintf("TApp %d %s", e.N, emit.Bool(e.Glued))
	case "other":
		return fmt.Sprintf("TOther %d %d", e.Typ, e.N)
	case "vers":
		return fmt.Sprintf("TVers %d %d %d", e.Typ, e.Vers, e.N)
	case "badmac":
		return "TBadMac"
	}
	panic("c09: unknown stream event " + e.K)
}

// phase parameters: what the endpoint is blocked in, whether it fixed the version, whether it
// decrypts
func c09TPhase(phase string) (want string, versKnown, cipher bool) {
	switch phase {
	case "p0":
		return "WMsg", false, false
	case "p1":
		return "WMsg", true, false
	case "p2":
		return "WCcs", true, false
	case "p4":
		return "WApp", true, true
	}
	panic("c09: unknown phase " + phase)
}

// c09RunTraceT runs a stream trace.
func c09RunTraceT(in c09TraceT) (obs []c09TObs, o puppet.TargetOutcome, m *c09Max) {
	suite := uint16(0xe013)
	epIn := c09Ep{Stack: "tlcp", Target: in.Target, Suite: suite, Ident: "sm2"}
	ep := c09TargetConfig(epIn)
	m = &c09Max{}
	cc := &c09Conn{M: m}
	opt := puppet.SessOpt{
		WrapT:       func(c net.Conn) net.Conn { cc.Conn = c; return cc },
		OnTLCP:      func(c *tlcp.Conn) { cc.T = c },
		OnHandshake: func(err error) { cc.done = err == nil },
		OnFinish:    func() { cc.sample() },
	}
	s := puppet.NewTLCPSessionOpt(tk.BuildTLCP(ep, tk.NewRegistry()), in.Target == "client", opt)
	p := s.P
	p.Sig, p.Enc = c09Chain("sm2", in.Target == "server")
	// reach the state
	flow := c09Flow(epIn)
	var pre []c09Step
	switch in.Phase {
	case "p0":
		if in.Target == "client" {
			pre = flow[:1] // absorb the ClientHello
		}
	case "p1": // server: hello exchanged, ClientKeyExchange awaited
		pre = flow[:1]
	case "p2": // server: ClientKeyExchange processed, ChangeCipherSpec awaited
		pre = flow[:2]
	case "p4":
		pre = flow
	}
	c09Exec(p, c09Ep{Stack: "tlcp", Target: in.Target, Suite: suite, Ident: "sm2", Script: pre})
	var group [][]byte
	flush := func() {
		if len(group) > 0 {
			var all []byte
			for _, g := range group {
				all = append(all, g...)
			}
			p.SendRaw(all)
			group = nil
		}
		p.Absorb(5)
	}
	for i, e := range in.Evs {
		var rec []byte
		switch e.K {
		case "hs":
			rec = p.Seal(puppet.RecHS, c09Expand(e.P))
		case "alert":
			rec = p.Seal(puppet.RecAlert, c09Expand(e.P))
		case "ccs":
			pl := c09Expand(e.P)
			if in.Phase == "p2" && len(pl) == 1 && pl[0] == 1 && !e.Glued && (i+1 >= len(in.Evs) || !in.Evs[i+1].Glued) {
				// a usable ChangeCipherSpec: the puppet switches its write keys as the endpoint switches its read keys
				flush()
				p.SendCCS()
				p.Absorb(5)
				obs = append(obs, c09TSample(p, cc))
				continue
			}
			rec = p.Seal(puppet.RecCCS, pl)
		case "app":
			rec = p.Seal(puppet.RecApp, make([]byte, e.N))
		case "other":
			rec = p.Seal(byte(e.Typ), make([]byte, e.N))
		case "vers":
			rec = append([]byte{byte(e.Typ), byte(e.Vers >> 8), byte(e.Vers), byte(e.N >> 8), byte(e.N)}, make([]byte, e.N)...)
		case "badmac":
			rec = append([]byte{23, 1, 1, 0, 40}, []byte("this-record-does-not-authenticate-at-all")...)
		}
		if e.Glued && len(obs) > 0 {
			obs[len(obs)-1].Sampled = false // the previous event is not observed on its own
		}
		group = append(group, rec)
		if i+1 < len(in.Evs) && in.Evs[i+1].Glued {
			obs = append(obs, c09TObs{})
			continue
		}
		flush()
		obs = append(obs, c09TSample(p, cc))
	}
	o = s.Finish()
	return obs, o, m
}

func c09TSample(p *puppet.Peer, cc *c09Conn) c09TObs {
	running := !p.L.TargetDone()
	cc.M.mu.Lock()
	defer cc.M.mu.Unlock()
	return c09TObs{Sampled: true, Running: running, Hand: cc.lastHand, Retry: cc.lastRetry}
}

func c09CoqTObs(obs []c09TObs) string {
	var s []string
	for _, o := range obs {
		if !o.Sampled {
			s = append(s, "None")
		} else {
			s = append(s, fmt.Sprintf("Some (%s, %d%%nat, %d%%nat)", emit.Bool(o.Running), o.Hand, o.Retry))
		}
	}
	return "[" + strings.Join(s, "; ") + "]"
}

func c09TraceTCoq(in c09TraceT, obs []c09TObs) string {
	w, vk, ci := c09TPhase(in.Phase)
	var evs []string
	for _, e := range in.Evs {
		evs = append(evs, e.coq())
	}
	return fmt.Sprintf("TraceT %s %s %s [%s] %s", w, emit.Bool(vk), emit.Bool(ci), strings.Join(evs, "; "), c09CoqTObs(obs))
}

// ---------------------------------------------------------------- datagram

type c09DRec struct {
	Typ    int        `json:"typ"`
	Other  bool       `json:"other,omitempty"`  // another epoch
	Replay int        `json:"replay,omitempty"` // >0: resend the record sent as number Replay-1 of this trace
	Bad    bool       `json:"bad,omitempty"`
	P      []c09Chunk `json:"p,omitempty"`
}

type c09DEv struct {
	K    string    `json:"k"` // dgram | foreign | short
	Recs []c09DRec `json:"recs,omitempty"`
	N    int       `json:"n,omitempty"`
}

type c09TraceD struct {
	Target string   `json:"target"`
	Phase  string   `json:"phase"` // p0 | p4
	Evs    []c09DEv `json:"evs"`
}

type c09DObs struct {
	Running  bool `json:"running"`
	Hand     int  `json:"hand"`
	Pending  int  `json:"pending"`
	PendingB int  `json:"pending_bytes"`
	Retry    int  `json:"retry"`
}

func c09RunTraceD(in c09TraceD) (obs []c09DObs, o puppet.TargetOutcome, m *c09Max) {
	suite := uint16(0xe013)
	epIn := c09Ep{Stack: "dtlcp", Target: in.Target, Suite: suite, Ident: "sm2"}
	ep := c09TargetConfig(epIn)
	ep.PMTU, ep.RetransMs, ep.MaxRetransMs, ep.CookieSecret = 16000, 10000, 60000, c09Secret
	m = &c09Max{}
	pc := &c09PC{M: m, Foreign: fAddr("10.9.9.9:999")}
	opt := puppet.SessOpt{
		WrapD:       func(c net.PacketConn) net.PacketConn { pc.PacketConn = c; return pc },
		OnDTLCP:     func(c *dtlcp.Conn) { pc.T = c },
		OnHandshake: pc.onHandshake,
		OnFinish:    func() { pc.sample() },
	}
	_, o = puppet.RunDTLCPOpt(tk.BuildDTLCP(ep, tk.NewRegistry()), in.Target == "client", opt, func(p *puppet.Peer) {
		p.Sig, p.Enc = c09Chain("sm2", in.Target == "server")
		if in.Phase == "p4" {
			c09Exec(p, c09Ep{Stack: "dtlcp", Target: in.Target, Suite: suite, Ident: "sm2", Script: c09Flow(epIn)})
		} else if in.Target == "client" {
			p.Absorb(5)
		}
		var sent [][]byte // sealed records of this trace, in order
		for _, e := range in.Evs {
			switch e.K {
			case "foreign":
				p.SendRaw([]byte{0xFA, 22, 1, 1, 0, 0})
			case "short":
				p.SendRaw(make([]byte, e.N))
			case "dgram":
				var dg []byte
				for _, r := range e.Recs {
					var rec []byte
					switch {
					case r.Replay > 0 && r.Replay-1 < len(sent):
						rec = sent[r.Replay-1]
					case r.Bad:
						rec = p.Seal(byte(r.Typ), []byte{1, 2, 3})
						for k := 13; k < len(rec); k++ {
							rec[k] ^= 0x5a
						}
					default:
						rec = p.Seal(byte(r.Typ), c09Expand(r.P))
						if r.Other {
							rec[4]++ // epoch
						}
					}
					sent = append(sent, rec)
					dg = append(dg, rec...)
				}
				p.SendRaw(dg)
			}
			p.Absorb(5)
			running := !p.L.TargetDone() && !pc.failed()
			pc.M.mu.Lock()
			obs = append(obs, c09DObs{Running: running, Hand: pc.lastHand, Pending: pc.lastPending, PendingB: pc.lastPendingB, Retry: pc.lastRetry})
			pc.M.mu.Unlock()
		}
	})
	return obs, o, m
}

func c09TraceDCoq(in c09TraceD, obs []c09DObs, maxDepth, maxFrames int) string {
	w, vk, ci := "WMsg", false, false
	dwell := false
	if in.Phase == "p4" {
		w, vk, ci = "WApp", true, true
		dwell = in.Target == "server"
	}
	var evs []string
	for _, e := range in.Evs {
		switch e.K {
		case "foreign":
			evs = append(evs, "DForeign")
		case "short":
			evs = append(evs, fmt.Sprintf("DShort %d", e.N))
		case "dgram":
			var rs []string
			for _, r := range e.Recs {
				rs = append(rs, fmt.Sprintf("mkDR %d %s %s %s %s", r.Typ, emit.Bool(r.Other), emit.Bool(r.Replay > 0), emit.Bool(r.Bad), c09CoqPayload(r.P)))
			}
			evs = append(evs, "DGram ["+strings.Join(rs, "; ")+"]")
		}
	}
	var os []string
	for _, o := range obs {
		os = append(os, fmt.Sprintf("(%s, %d%%nat, %d%%nat, %d%%nat, %d%%nat)", emit.Bool(o.Running), o.Hand, o.Pending, o.PendingB, o.Retry))
	}
	return fmt.Sprintf("TraceD %s %s %s %s [%s] [%s] %d %d", w, emit.Bool(vk), emit.Bool(ci), emit.Bool(dwell), strings.Join(evs, "; "), strings.Join(os, "; "), maxDepth, maxFrames)
}
