package main

// C12, dialing entry points (tlcp/tlcp.go dial): DialWithDialer with a Timeout or a Deadline on the net.Dialer and
// Dialer.DialContext with a context that is cancelled or expires must abort a handshake whose peer has fallen silent
// with the context's error, within the bound; with an honest peer they return an established connection that
// outlives the bound.  Loopback TCP on an ephemeral port (these entry points take a network address).

import (
	"context"
	"fmt"
	"net"
	"time"

	"gitee.com/Trisia/gotlcp/tlcp"
	"verifharness/internal/emit"
	"verifharness/internal/tk"
)

type c12DialInput struct {
	How    string `json:"how"`    // timeout | deadline | both | ctx-cancel | ctx-deadline
	Honest bool   `json:"honest"` // the server completes the handshake (otherwise it accepts the connection and stays silent)
	Ms     int    `json:"ms"`     // the bound
}

var c12DialHow = map[string]int{"timeout": 1, "deadline": 2, "both": 3, "ctx-cancel": 4, "ctx-deadline": 5}

func c12AddDial(out *emit.Out, in c12DialInput) {
	ln, err := net.Listen("tcp", "127.0.0.1:0")
	if err != nil {
		out.Add(emit.Case{Scenario: "dial/" + in.How, Input: in, Direct: "cannot listen on loopback: " + err.Error()})
		return
	}
	defer ln.Close()
	stop := make(chan struct{})
	defer close(stop)
	go func() {
		for {
			c, err := ln.Accept()
			if err != nil {
				return
			}
			go func(c net.Conn) {
				defer c.Close()
				if in.Honest {
					s := tlcp.Server(c, tk.BuildTLCP(tk.EPConfig{Ident: "srv"}, nil))
					if s.Handshake() == nil {
						buf := make([]byte, 16)
						if n, err := s.Read(buf); err == nil {
							s.Write(buf[:n])
						}
					}
				}
				<-stop
			}(c)
		}
	}()
	cfg := tk.BuildTLCP(tk.EPConfig{Ident: "cli", ServerName: "server.test"}, nil)
	d := time.Duration(in.Ms) * time.Millisecond
	var conn net.Conn
	start := time.Now()
	done := make(chan error, 1)
	go func() {
		var err error
		switch in.How {
		case "timeout":
			conn, err = c12Conn(tlcp.DialWithDialer(&net.Dialer{Timeout: d}, "tcp", ln.Addr().String(), cfg))
		case "deadline":
			conn, err = c12Conn(tlcp.DialWithDialer(&net.Dialer{Deadline: time.Now().Add(d)}, "tcp", ln.Addr().String(), cfg))
		case "both":
			conn, err = c12Conn(tlcp.DialWithDialer(&net.Dialer{Deadline: time.Now().Add(d), Timeout: time.Hour}, "tcp", ln.Addr().String(), cfg))
		case "ctx-cancel":
			ctx, cancel := context.WithCancel(context.Background())
			time.AfterFunc(d, cancel)
			conn, err = (&tlcp.Dialer{Config: cfg}).DialContext(ctx, "tcp", ln.Addr().String())
		case "ctx-deadline":
			ctx, cancel := context.WithTimeout(context.Background(), d)
			defer cancel()
			conn, err = (&tlcp.Dialer{Config: cfg, NetDialer: &net.Dialer{}}).DialContext(ctx, "tcp", ln.Addr().String())
		}
		done <- err
	}()
	var derr error
	inTime := true
	select {
	case derr = <-done:
	case <-time.After(d + 4*time.Second):
		inTime = false
	}
	elapsed := time.Since(start)
	works := false
	if inTime && derr == nil && conn != nil {
		// an established connection is not affected by the bound having passed
		time.Sleep(time.Until(start.Add(d + 50*time.Millisecond)))
		conn.SetDeadline(time.Now().Add(3 * time.Second))
		if _, err := conn.Write([]byte("ping")); err == nil {
			buf := make([]byte, 4)
			n, _ := conn.Read(buf)
			works = string(buf[:n]) == "ping"
		}
		conn.Close()
	}
	coqErr, name := "None", ""
	if !inTime {
		coqErr, name = "(Some XBlock)", "still-blocked"
	} else {
		coqErr, name = c12Class(derr)
	}
	out.Add(emit.Case{Scenario: "dial/" + in.How, Trivial: false, Input: in,
		Observed: map[string]interface{}{"err": name, "elapsed_ms": elapsed.Milliseconds(), "in_time": inTime, "works_after_bound": works},
		Coq:      fmt.Sprintf("DialCase %d %s %s %s %s", c12DialHow[in.How], emit.Bool(in.Honest), coqErr, emit.Bool(inTime), emit.Bool(works))})
}

func c12Conn(c *tlcp.Conn, err error) (net.Conn, error) {
	if err != nil {
		return nil, err
	}
	return c, nil
}

func c12Dial(out *emit.Out, thorough bool) {
	for _, how := range []string{"timeout", "deadline", "both", "ctx-cancel", "ctx-deadline"} {
		c12AddDial(out, c12DialInput{How: how, Honest: false, Ms: 300})
		c12AddDial(out, c12DialInput{How: how, Honest: true, Ms: 800})
		if thorough {
			c12AddDial(out, c12DialInput{How: how, Honest: false, Ms: 50})
			c12AddDial(out, c12DialInput{How: how, Honest: false, Ms: 1000})
		}
	}
}
