package main

// C20: the protocol adapter routes by record version and loses no bytes (public API only).

import (
	"bytes"
	"crypto/ecdsa"
	"crypto/elliptic"
	crand "crypto/rand"
	"crypto/tls"
	"crypto/x509"
	"crypto/x509/pkix"
	"encoding/json"
	"errors"
	"fmt"
	"io"
	"math/big"
	"math/rand/v2"
	"net"
	"os"
	"strings"
	"sync"
	"time"

	"gitee.com/Trisia/gotlcp/pa"
	"gitee.com/Trisia/gotlcp/tlcp"
	"verifharness/internal/emit"
	"verifharness/internal/tk"
)

// chunkConn: a net.Conn whose Read hands out the scripted chunks, one Read never crossing a chunk.
type chunkConn struct {
	mu     sync.Mutex
	chunks [][]byte
	reads  int
}

func (c *chunkConn) Read(p []byte) (int, error) {
	c.mu.Lock()
	defer c.mu.Unlock()
	c.reads++
	if c.reads > 100000 {
		panic("chunkConn: runaway reader")
	}
	if len(c.chunks) == 0 {
		return 0, io.EOF
	}
	if len(p) == 0 {
		return 0, nil
	}
	if len(c.chunks[0]) == 0 { // scripted: the read deadline expires here, once
		c.chunks = c.chunks[1:]
		return 0, os.ErrDeadlineExceeded
	}
	n := copy(p, c.chunks[0])
	if n == len(c.chunks[0]) {
		c.chunks = c.chunks[1:]
	} else {
		c.chunks[0] = c.chunks[0][n:]
	}
	return n, nil
}
func (c *chunkConn) Write(p []byte) (int, error)        { return len(p), nil }
func (c *chunkConn) Close() error                       { return nil }
func (c *chunkConn) LocalAddr() net.Addr                { return &net.TCPAddr{IP: net.IPv4(127, 0, 0, 1), Port: 1} }
func (c *chunkConn) RemoteAddr() net.Addr               { return &net.TCPAddr{IP: net.IPv4(127, 0, 0, 1), Port: 2} }
func (c *chunkConn) SetDeadline(t time.Time) error      { return nil }
func (c *chunkConn) SetReadDeadline(t time.Time) error  { return nil }
func (c *chunkConn) SetWriteDeadline(t time.Time) error { return nil }

// oneShotListener hands out the given connections.
type oneShotListener struct{ conns chan net.Conn }

func (l *oneShotListener) Accept() (net.Conn, error) {
	c, ok := <-l.conns
	if !ok {
		return nil, io.EOF
	}
	return c, nil
}
func (l *oneShotListener) Close() error   { return nil }
func (l *oneShotListener) Addr() net.Addr { return &net.TCPAddr{IP: net.IPv4(127, 0, 0, 1), Port: 1} }

type c20Input struct {
	Kind    string   `json:"kind"` // detect | route | e2e
	Chunks  [][]byte `json:"chunks,omitempty"`
	Sizes   []int    `json:"sizes,omitempty"`
	HasTLCP bool     `json:"has_tlcp,omitempty"`
	HasTLS  bool     `json:"has_tls,omitempty"`
	Proto   string   `json:"proto,omitempty"`
	Seg     []int    `json:"seg,omitempty"`
	Payload []byte   `json:"payload,omitempty"`
	// ZeroFirst: the first call on the accepted connection is a Read with an empty buffer (the
	// documented way to force the handshake on tlcp.Conn / tls.Conn); it must select the stack too
	ZeroFirst bool `json:"zero_first,omitempty"`
	// SpeaksFirst: the server's first call on the accepted connection is a Write (a banner), which must run the
	// handshake as it does on tlcp.Conn / tls.Conn; the client reads the banner before it sends the payload
	SpeaksFirst bool `json:"speaks_first,omitempty"`
	// deadline kind: a read deadline of DeadlineMs is armed before the first Read; the client sends the first
	// Sent bytes of a record (0, or a complete header) and stalls: the Read must fail with a timeout when it is due
	// Concurrent (e2e): the server's first Read and first Write are issued at the same time by two goroutines, before the
	// client has sent anything
	Concurrent bool `json:"concurrent,omitempty"`
	// TLSViaCallback (e2e, tls): the TLS configuration has no Certificates; it supplies them through GetConfigForClient
	TLSViaCallback bool `json:"tls_via_callback,omitempty"`
	// route: Between: the first bytes of ANOTHER connection, accepted and read once between the scripted deadline expiry of
	// this connection's first Read and its retry
	Between []byte `json:"between,omitempty"`
	DeadlineMs     int  `json:"deadline_ms,omitempty"`
	Sent           int  `json:"sent,omitempty"`
}

var c20LastErr error

// c20Class: how a Read ended, coarse enough to be the same for the adapter and the stack
func c20Class(err error) string {
	switch {
	case err == nil:
		return "ok"
	case err == io.EOF:
		return "eof"
	case errors.Is(err, io.ErrUnexpectedEOF):
		return "unexpected-eof"
	}
	var ne net.Error
	if errors.As(err, &ne) && ne.Timeout() {
		return "timeout"
	}
	return "error"
}

func c20Err(err error) int {
	switch {
	case err == nil:
		return 0
	case err == io.EOF:
		return 1
	case err == io.ErrUnexpectedEOF:
		return 2
	}
	return 9
}

var (
	c20TLSOnce sync.Once
	c20TLSCert tls.Certificate
	c20TLSPool *x509.CertPool
)

func c20TLS() (tls.Certificate, *x509.CertPool) {
	c20TLSOnce.Do(func() {
		key, _ := ecdsa.GenerateKey(elliptic.P256(), crand.Reader)
		tpl := &x509.Certificate{SerialNumber: big.NewInt(7), Subject: pkix.Name{CommonName: "tls.test"},
			NotBefore: time.Now().Add(-time.Hour), NotAfter: time.Now().Add(24 * time.Hour),
			KeyUsage: x509.KeyUsageDigitalSignature | x509.KeyUsageCertSign, ExtKeyUsage: []x509.ExtKeyUsage{x509.ExtKeyUsageServerAuth},
			DNSNames: []string{"tls.test"}, IsCA: true, BasicConstraintsValid: true}
		der, err := x509.CreateCertificate(crand.Reader, tpl, tpl, &key.PublicKey, key)
		if err != nil {
			panic(err)
		}
		c20TLSCert = tls.Certificate{Certificate: [][]byte{der}, PrivateKey: key}
		cert, _ := x509.ParseCertificate(der)
		c20TLSPool = x509.NewCertPool()
		c20TLSPool.AddCert(cert)
	})
	return c20TLSCert, c20TLSPool
}

func c20Cfgs(hasTLCP, hasTLS bool) (*tlcp.Config, *tls.Config) {
	var tc *tlcp.Config
	var sc *tls.Config
	if hasTLCP {
		tc = tk.BuildTLCP(tk.EPConfig{Ident: "srv"}, nil)
	}
	if hasTLS {
		cert, _ := c20TLS()
		sc = &tls.Config{Certificates: []tls.Certificate{cert}}
	}
	return tc, sc
}

func coqChunks(cs [][]byte) string {
	var xs []string
	for _, c := range cs {
		xs = append(xs, emit.Bytes(c))
	}
	return "[" + strings.Join(xs, ";") + "]"
}

func cloneChunks(cs [][]byte) [][]byte {
	out := make([][]byte, len(cs))
	for i, c := range cs {
		out[i] = append([]byte(nil), c...)
	}
	return out
}

func c20AddCase(out *emit.Out, scenario string, in c20Input) {
	direct := ""
	switch in.Kind {
	case "detect":
		var res []string
		var obs []interface{}
		hdrErr := 0
		func() {
			defer func() {
				if r := recover(); r != nil {
					direct = fmt.Sprintf("panic: %v", r)
				}
			}()
			p := &pa.ProtocolDetectConn{Conn: &chunkConn{chunks: cloneChunks(in.Chunks)}}
			err := p.ReadFirstHeader()
			hdrErr = c20Err(err)
			if err != nil {
				return
			}
			for _, n := range in.Sizes {
				buf := make([]byte, n)
				k, err := p.Read(buf)
				res = append(res, fmt.Sprintf("(%s,%d)", emit.Bytes(buf[:k]), c20Err(err)))
				obs = append(obs, map[string]interface{}{"n": k, "err": c20Err(err)})
				if err != nil {
					break
				}
			}
		}()
		var sz []string
		for _, n := range in.Sizes {
			sz = append(sz, fmt.Sprintf("%d%%nat", n))
		}
		out.Add(emit.Case{Scenario: scenario, Trivial: len(in.Chunks) < 2 && len(in.Sizes) < 2, Input: in, Direct: direct,
			Observed: map[string]interface{}{"hdr_err": hdrErr, "reads": obs},
			Coq:      fmt.Sprintf("DetectCase %s [%s] %d [%s]", coqChunks(in.Chunks), strings.Join(sz, ";"), hdrErr, strings.Join(res, ";"))})
	case "route":
		code := 0
		func() {
			defer func() {
				if r := recover(); r != nil {
					direct = fmt.Sprintf("panic: %v", r)
				}
			}()
			tc, sc := c20Cfgs(in.HasTLCP, in.HasTLS)
			ch := make(chan net.Conn, 1)
			ch <- &chunkConn{chunks: cloneChunks(in.Chunks)}
			ln := pa.NewListener(&oneShotListener{ch}, tc, sc)
			if ln == nil {
				code = 12
				return
			}
			conn, err := ln.Accept()
			if err != nil {
				code = 13
				return
			}
			done := make(chan struct{})
			var rerr error
			go func() {
				defer close(done)
				defer func() {
					if r := recover(); r != nil {
						direct = fmt.Sprintf("panic: %v", r)
					}
				}()
				buf := make([]byte, 64)
				if in.ZeroFirst {
					buf = buf[:0]
				}
				for tries := 0; tries < 6; tries++ { // a scripted deadline expiry (empty chunk) is followed by a retry
					_, rerr = conn.Read(buf)
					if c20Class(rerr) != "timeout" {
						break
					}
					if tries == 0 && len(in.Between) > 0 {
						// while this connection waits for the rest of its first bytes, another one is accepted (by another
						// listener of the same process) and served: connections share nothing
						ch2 := make(chan net.Conn, 1)
						ch2 <- &chunkConn{chunks: [][]byte{append([]byte(nil), in.Between...)}}
						if ln2 := pa.NewListener(&oneShotListener{ch2}, tc, sc); ln2 != nil {
							if c2, err := ln2.Accept(); err == nil {
								c2.Read(make([]byte, 64))
							}
						}
					}
				}
				c20LastErr = rerr
			}()
			select {
			case <-done:
			case <-time.After(5 * time.Second):
				direct = "hang"
				return
			}
			sw, _ := conn.(*pa.ProtocolSwitchServerConn)
			var prot net.Conn
			if sw != nil {
				prot = sw.ProtectedConn()
			}
			var pe *pa.ProtocolNotSupportError
			switch {
			case prot != nil:
				if _, ok := prot.(*tlcp.Conn); ok {
					code = 1
				} else if _, ok := prot.(*tls.Conn); ok {
					code = 3
				} else {
					code = 14
				}
			case errors.As(rerr, &pe):
				code = 10
			case rerr != nil && strings.Contains(rerr.Error(), "config not set"):
				code = 11
			case rerr == io.EOF:
				code = 20
			case rerr == io.ErrUnexpectedEOF:
				code = 21
			default:
				code = 15
			}
		}()
		// once routed, the first Read ends as it does on the stack given the same stream directly
		var adapterCls, directCls string
		scripted := false // a scripted deadline expiry lands in the adapter's peek on one side and inside the stack's handshake (where it is latched) on the other
		for _, c := range in.Chunks {
			if len(c) == 0 {
				scripted = true
			}
		}
		if direct == "" && (code == 1 || code == 3) && !scripted {
			adapterCls = c20Class(c20LastErr)
			tc, sc := c20Cfgs(true, true)
			var st net.Conn
			if code == 1 {
				st = tlcp.Server(&chunkConn{chunks: cloneChunks(in.Chunks)}, tc)
			} else {
				st = tls.Server(&chunkConn{chunks: cloneChunks(in.Chunks)}, sc)
			}
			buf := make([]byte, 64)
			if in.ZeroFirst {
				buf = buf[:0]
			}
			done := make(chan error, 1)
			go func() {
				defer func() {
					if r := recover(); r != nil {
						done <- fmt.Errorf("panic: %v", r)
					}
				}()
				var err error
				for tries := 0; tries < 6; tries++ {
					_, err = st.Read(buf)
					if c20Class(err) != "timeout" {
						break
					}
				}
				done <- err
			}()
			select {
			case err := <-done:
				directCls = c20Class(err)
			case <-time.After(5 * time.Second):
				directCls = "hang"
			}
			if adapterCls != directCls {
				direct = "first Read through the adapter ends differently from the stack given the same stream"
			}
		}
		out.Add(emit.Case{Scenario: scenario, Trivial: false, Input: in, Direct: direct,
			Observed: map[string]interface{}{"code": code, "adapter_end": adapterCls, "direct_end": directCls},
			Coq:      fmt.Sprintf("RouteCase %s %s %s %d", emit.Bool(in.HasTLCP), emit.Bool(in.HasTLS), coqChunks(in.Chunks), code)})
	case "detect-timeout":
		// the caller's read deadline expires between two segments (scripted as an empty chunk): nothing is lost or replayed
		ok := false
		func() {
			defer func() {
				if r := recover(); r != nil {
					direct = fmt.Sprintf("panic: %v", r)
				}
			}()
			var want, got []byte
			for _, c := range in.Chunks {
				want = append(want, c...)
			}
			p := &pa.ProtocolDetectConn{Conn: &chunkConn{chunks: cloneChunks(in.Chunks)}}
			for tries := 0; tries < 4; tries++ {
				if err := p.ReadFirstHeader(); err == nil {
					break
				} else if c20Class(err) != "timeout" {
					return
				}
			}
			for i := 0; i < 200; i++ {
				buf := make([]byte, in.Sizes[i%len(in.Sizes)])
				k, err := p.Read(buf)
				got = append(got, buf[:k]...)
				if err != nil && c20Class(err) != "timeout" {
					break
				}
			}
			ok = bytes.Equal(got, want)
		}()
		out.Add(emit.Case{Scenario: scenario, Trivial: false, Input: in, Direct: direct,
			Observed: map[string]interface{}{"stream_intact": ok},
			Coq:      fmt.Sprintf("E2ECase %s true", emit.Bool(ok))})
	case "close-pending":
		okAdapter, okDirect := c20ClosePending(in, true), c20ClosePending(in, false)
		out.Add(emit.Case{Scenario: scenario, Trivial: false, Input: in,
			Observed: map[string]interface{}{"adapter_ok": okAdapter, "direct_ok": okDirect},
			Coq:      fmt.Sprintf("E2ECase %s %s", emit.Bool(okAdapter), emit.Bool(okDirect))})
	case "deadline":
		okAdapter, okDirect := c20Deadline(in, true), c20Deadline(in, false)
		out.Add(emit.Case{Scenario: scenario, Trivial: false, Input: in,
			Observed: map[string]interface{}{"adapter_ok": okAdapter, "direct_ok": okDirect},
			Coq:      fmt.Sprintf("E2ECase %s %s", emit.Bool(okAdapter), emit.Bool(okDirect))})
	case "e2e":
		okAdapter, okDirect := c20E2E(in, true), c20E2E(in, false)
		out.Add(emit.Case{Scenario: scenario, Trivial: false, Input: in,
			Observed: map[string]interface{}{"adapter_ok": okAdapter, "direct_ok": okDirect},
			Coq:      fmt.Sprintf("E2ECase %s %s", emit.Bool(okAdapter), emit.Bool(okDirect))})
	}
}

// c20ClosePending: a Read is pending on a client that has sent Sent (< 5) bytes; another goroutine closes the connection:
// Close returns, and the pending Read returns with an error.
func c20ClosePending(in c20Input, adapter bool) bool {
	cli, srv, c2s, _ := tk.StreamPair()
	c2s.Framed = false
	tc, sc := c20Cfgs(true, true)
	var server net.Conn
	if adapter {
		ch := make(chan net.Conn, 1)
		ch <- srv
		ln := pa.NewListener(&oneShotListener{ch}, tc, sc)
		var err error
		if server, err = ln.Accept(); err != nil {
			return false
		}
	} else {
		server = tlcp.Server(srv, tc)
	}
	if in.Sent > 0 {
		cli.Write([]byte{22, 1, 1, 0, 40}[:in.Sent])
	}
	readDone := make(chan error, 1)
	go func() { _, err := server.Read(make([]byte, 16)); readDone <- err }()
	time.Sleep(20 * time.Millisecond)
	closeDone := make(chan struct{})
	go func() { server.Close(); close(closeDone) }()
	ok := true
	select {
	case <-closeDone:
	case <-time.After(2 * time.Second):
		ok = false
	}
	select {
	case err := <-readDone:
		ok = ok && err != nil
	case <-time.After(2 * time.Second):
		ok = false
	}
	cli.Close()
	srv.Close()
	return ok
}

// c20Deadline: the caller's read deadline, armed before the first Read, is honoured through the adapter as on the stack.
func c20Deadline(in c20Input, adapter bool) bool {
	cli, srv, c2s, _ := tk.StreamPair()
	c2s.Framed = false
	c2s.Deadlines = true
	tc, sc := c20Cfgs(true, true)
	var server net.Conn
	if adapter {
		ch := make(chan net.Conn, 1)
		ch <- srv
		ln := pa.NewListener(&oneShotListener{ch}, tc, sc)
		var err error
		if server, err = ln.Accept(); err != nil {
			return false
		}
	} else if in.Proto == "tlcp" {
		server = tlcp.Server(srv, tc)
	} else {
		server = tls.Server(srv, sc)
	}
	major := byte(1)
	if in.Proto != "tlcp" {
		major = 3
	}
	if in.Sent > 0 {
		cli.Write([]byte{22, major, 1, 0, 40, 1, 0, 0, 36}[:in.Sent])
	}
	d := time.Duration(in.DeadlineMs) * time.Millisecond
	start := time.Now()
	server.SetReadDeadline(start.Add(d))
	res := make(chan error, 1)
	go func() { _, err := server.Read(make([]byte, 16)); res <- err }()
	ok := false
	select {
	case err := <-res:
		var ne net.Error
		ok = errors.As(err, &ne) && ne.Timeout() && time.Since(start) >= d-5*time.Millisecond
	case <-time.After(d + 2500*time.Millisecond):
	}
	cli.Close()
	srv.Close()
	return ok
}

// c20E2E runs a real client (TLCP or TLS) against the adapter (or the stack directly) over a
// segmented in-memory stream: handshake, then the payload echoed back.
func c20E2E(in c20Input, adapter bool) bool {
	cli, srv, c2s, _ := tk.StreamPair()
	c2s.Framed = false
	seg := in.Seg
	if len(seg) > 0 {
		c2s.Seg = func(k int) int {
			if k < len(seg) {
				return seg[k]
			}
			return 0
		}
	}
	tc, sc := c20Cfgs(true, true)
	if in.TLSViaCallback {
		inner := sc
		sc = &tls.Config{GetConfigForClient: func(*tls.ClientHelloInfo) (*tls.Config, error) { return inner, nil }}
	}
	var server net.Conn
	if adapter {
		ch := make(chan net.Conn, 1)
		ch <- srv
		ln := pa.NewListener(&oneShotListener{ch}, tc, sc)
		if ln == nil {
			return false
		}
		var err error
		if server, err = ln.Accept(); err != nil {
			return false
		}
	} else if in.Proto == "tlcp" {
		server = tlcp.Server(srv, tc)
	} else {
		server = tls.Server(srv, sc)
	}
	var client net.Conn
	if in.Proto == "tlcp" {
		client = tlcp.Client(cli, tk.BuildTLCP(tk.EPConfig{ServerName: "server.test"}, nil))
	} else {
		_, pool := c20TLS()
		client = tls.Client(cli, &tls.Config{RootCAs: pool, ServerName: "tls.test"})
	}
	res := make(chan bool, 2)
	if in.Concurrent {
		// first Read and first Write at the same time, before the client moves
		start := make(chan struct{})
		guard := func() {
			if r := recover(); r != nil {
				res <- false
			}
		}
		go func() {
			defer guard()
			<-start
			if _, err := server.Write([]byte("220 ready\r\n")); err != nil {
				res <- false
				return
			}
			res <- true
		}()
		go func() {
			defer guard()
			<-start
			buf := make([]byte, len(in.Payload))
			if _, err := io.ReadFull(server, buf); err != nil || !bytes.Equal(buf, in.Payload) {
				res <- false
				return
			}
			res <- true
		}()
		close(start)
		time.Sleep(30 * time.Millisecond)
		go func() {
			b := make([]byte, 11)
			if _, err := io.ReadFull(client, b); err != nil || string(b) != "220 ready\r\n" {
				res <- false
				return
			}
			_, err := client.Write(in.Payload)
			res <- err == nil
		}()
		ok := true
		for i := 0; i < 3; i++ {
			select {
			case r := <-res:
				ok = ok && r
			case <-time.After(5 * time.Second):
				cli.Close()
				srv.Close()
				return false
			}
		}
		cli.Close()
		srv.Close()
		return ok
	}
	go func() { // server: echo
		if in.SpeaksFirst {
			if _, err := server.Write([]byte("220 ready\r\n")); err != nil {
				res <- false
				return
			}
		}
		if in.ZeroFirst {
			// a zero-length Read forces the handshake, through the adapter as on the stack itself
			if _, err := server.Read(nil); err != nil {
				res <- false
				return
			}
			inner := server
			if sw, ok := server.(*pa.ProtocolSwitchServerConn); ok {
				inner = sw.ProtectedConn()
			}
			done := false
			switch c := inner.(type) {
			case *tlcp.Conn:
				done = c.ConnectionState().HandshakeComplete
			case *tls.Conn:
				done = c.ConnectionState().HandshakeComplete
			}
			if !done {
				res <- false
				return
			}
		}
		buf := make([]byte, len(in.Payload))
		if _, err := io.ReadFull(server, buf); err != nil {
			res <- false
			return
		}
		_, err := server.Write(buf)
		res <- err == nil
	}()
	go func() {
		if in.SpeaksFirst {
			b := make([]byte, 11)
			if _, err := io.ReadFull(client, b); err != nil || string(b) != "220 ready\r\n" {
				res <- false
				return
			}
		}
		if _, err := client.Write(in.Payload); err != nil {
			res <- false
			return
		}
		buf := make([]byte, len(in.Payload))
		if _, err := io.ReadFull(client, buf); err != nil {
			res <- false
			return
		}
		res <- string(buf) == string(in.Payload)
	}()
	ok := true
	for i := 0; i < 2; i++ {
		select {
		case r := <-res:
			ok = ok && r
		case <-time.After(5 * time.Second):
			cli.Close()
			srv.Close()
			return false
		}
	}
	cli.Close()
	srv.Close()
	return ok
}

func c20Chunk(r *rand.Rand, stream []byte, maxFirst int) [][]byte {
	var cs [][]byte
	i := 0
	for i < len(stream) {
		n := 1 + r.IntN(maxFirst)
		if i >= 8 {
			n = 1 + r.IntN(40)
		}
		if i+n > len(stream) {
			n = len(stream) - i
		}
		cs = append(cs, stream[i:i+n])
		i += n
	}
	return cs
}

func runC20(p params) error {
	out := emit.New(p.out, "C20", "V.Corr.Run_C20", "case",
		"first-record headers over version bytes x transport segmentations x read-buffer sizes x configurations; non-trivial = more than one chunk or read; distinct by Coq term")
	if p.replay != "" {
		b, err := os.ReadFile(p.replay)
		if err != nil {
			return err
		}
		var rp struct {
			Cases []struct {
				Scenario string   `json:"scenario"`
				Input    c20Input `json:"input"`
			} `json:"cases"`
		}
		if err := json.Unmarshal(b, &rp); err != nil {
			return err
		}
		for _, c := range rp.Cases {
			c20AddCase(out, c.Scenario, c.Input)
		}
		return out.Finish()
	}
	r := rand.New(rand.NewPCG(p.seed, 0xC20))
	rb := func(n int) []byte {
		b := make([]byte, n)
		for i := range b {
			b[i] = byte(r.IntN(256))
		}
		return b
	}
	// route: all 256 major version bytes, three configurations
	cfgs := [][2]bool{{true, true}, {true, false}, {false, true}}
	for v := 0; v < 256; v++ {
		for ci, cf := range cfgs {
			if p.tier != "thorough" && ci != v%3 && v != 1 && v != 3 {
				continue
			}
			stream := append([]byte{22, byte(v), 1, 0, 9}, rb(9)...)
			c20AddCase(out, "route-all-majors", c20Input{Kind: "route", HasTLCP: cf[0], HasTLS: cf[1], Chunks: c20Chunk(r, stream, 5)})
		}
	}
	// route: the minor version byte plays no part: majors 1, 3 (and 2) with many minors
	for _, v := range []byte{1, 3, 2} {
		for _, mn := range []byte{0, 1, 2, 3, 4, 0x0f, 0x7f, 0x80, 0xff, byte(r.IntN(256)), byte(r.IntN(256))} {
			stream := append([]byte{22, v, mn, 0, 9}, rb(9)...)
			c20AddCase(out, "route-minors", c20Input{Kind: "route", HasTLCP: true, HasTLS: true, Chunks: c20Chunk(r, stream, 5)})
			if mn < 2 {
				c20AddCase(out, "route-zero-length-first-read", c20Input{Kind: "route", HasTLCP: true, HasTLS: v != 2, Chunks: c20Chunk(r, stream, 5), ZeroFirst: true})
			}
		}
	}
	// route: the first record is not a handshake record: the major version byte still decides
	for _, typ := range []byte{20, 21, 23, 0, 24, 0x80, 255} {
		for _, v := range []byte{1, 3, 2} {
			stream := append([]byte{typ, v, 1, 0, 9}, rb(9)...)
			c20AddCase(out, "route-other-content-type", c20Input{Kind: "route", HasTLCP: true, HasTLS: true, Chunks: c20Chunk(r, stream, 5)})
		}
	}
	// route: the caller's read deadline expires between two segments of the first five bytes, then the Read is retried
	for _, v := range []byte{1, 3} {
		stream := append([]byte{22, v, 1, 0, 9}, rb(9)...)
		for cut := 1; cut <= 4; cut++ {
			c20AddCase(out, "route-deadline-inside-the-header", c20Input{Kind: "route", HasTLCP: true, HasTLS: true, Chunks: [][]byte{stream[:cut], {}, stream[cut:]}})
		}
		c20AddCase(out, "route-deadline-inside-the-header", c20Input{Kind: "route", HasTLCP: true, HasTLS: true, Chunks: [][]byte{stream[:1], {}, stream[1:3], {}, stream[3:]}})
		// ... and another connection, of the other protocol, is accepted and served in between
		for _, cut := range []int{1, 2, 3, 4} {
			other := []byte{22, 1, 1, 0, 40, 1, 0, 0, 36}
			if len(stream) > 1 && stream[1] == 1 {
				other = []byte{22, 3, 3, 0, 40, 1, 0, 0, 36}
			}
			c20AddCase(out, "route-deadline-inside-the-header-other-connection-between", c20Input{Kind: "route", HasTLCP: true, HasTLS: true, Chunks: [][]byte{stream[:cut], {}, stream[cut:]}, Between: other})
		}
	}
	// route: early disconnect at every offset 0..6, majors 1 and 3
	for _, v := range []byte{1, 3, 2} {
		for cut := 0; cut <= 6; cut++ {
			stream := append([]byte{22, v, 1, 0, 2}, 9, 9)[:cut]
			for k := 0; k < 2; k++ {
				c20AddCase(out, "route-early-eof", c20Input{Kind: "route", HasTLCP: true, HasTLS: true, Chunks: c20Chunk(r, stream, 1+k*4)})
			}
			if cut%3 == 0 {
				c20AddCase(out, "route-zero-length-first-read", c20Input{Kind: "route", HasTLCP: true, HasTLS: true, Chunks: c20Chunk(r, stream, 3), ZeroFirst: true})
			}
		}
	}
	// detect: segmentations of the first bytes x buffer sizes
	nDet := 250
	if p.tier == "thorough" {
		nDet = 4000
		// exhaustive: every composition of the first 6 bytes, buffer sizes 1..7 constant
		stream := []byte{22, 1, 1, 0, 3, 0xA, 0xB, 0xC}
		var rec func(i int, cur [][]byte)
		rec = func(i int, cur [][]byte) {
			if i >= 6 {
				cs := append(cloneChunks(cur), stream[6:])
				for sz := 1; sz <= 7; sz++ {
					sizes := make([]int, 10)
					for j := range sizes {
						sizes[j] = sz
					}
					c20AddCase(out, "detect-exhaustive", c20Input{Kind: "detect", Chunks: cs, Sizes: sizes})
				}
				return
			}
			for n := 1; i+n <= 6; n++ {
				rec(i+n, append(cur, stream[i:i+n]))
			}
		}
		rec(0, nil)
		out.Extra["exhaustive"] = "every segmentation of the first 6 stream bytes x constant read-buffer sizes 1..7; all 256 major bytes x 3 configurations"
	}
	for i := 0; i < nDet; i++ {
		n := r.IntN(40)
		if r.IntN(4) == 0 {
			n = r.IntN(7)
		}
		stream := rb(n)
		var sizes []int
		for j := 0; j < 2+r.IntN(12); j++ {
			sizes = append(sizes, []int{1, 2, 3, 4, 5, 6, 7, 16, 64}[r.IntN(9)])
		}
		if r.IntN(8) == 0 {
			sizes[0] = 0
		}
		c20AddCase(out, "detect-random", c20Input{Kind: "detect", Chunks: c20Chunk(r, stream, 6), Sizes: sizes})
	}
	// the deadline expires between two segments of the first bytes; Close while the first Read is pending
	for _, cs := range [][][]byte{{{22, 1, 1, 0, 7}, {}, {1, 2, 3, 4, 5, 6, 7}}, {{22, 1, 1}, {}, {0, 7, 1, 2}, {}, {3, 4, 5, 6, 7}}, {{}, {22, 3, 1, 0, 2, 9}, {}, {9}},
		{{22, 1, 1, 0, 7, 1}, {}, {2, 3, 4, 5, 6, 7}}} {
		for _, sz := range [][]int{{64}, {5}, {3, 1}, {6, 2}} {
			c20AddCase(out, "detect-deadline-between-segments", c20Input{Kind: "detect-timeout", Chunks: cs, Sizes: sz})
		}
	}
	for _, sent := range []int{0, 3, 4} {
		c20AddCase(out, "close-while-first-read-pending", c20Input{Kind: "close-pending", Sent: sent})
	}
	// e2e
	nE := 6
	if p.tier == "thorough" {
		nE = 60
	}
	for i := 0; i < nE; i++ {
		var seg []int
		for j := 0; j < 12; j++ {
			seg = append(seg, 1+r.IntN(7))
		}
		if i%3 == 0 {
			seg = nil
		}
		c20AddCase(out, "e2e", c20Input{Kind: "e2e", Proto: []string{"tlcp", "tls"}[i%2], Seg: seg, Payload: rb(1 + r.IntN(3000)), ZeroFirst: i%4 >= 2})
	}
	// the server speaks first; a read deadline armed before the first Read
	for i, proto := range []string{"tlcp", "tls"} {
		c20AddCase(out, "e2e-server-speaks-first", c20Input{Kind: "e2e", Proto: proto, Payload: rb(100 + 300*i), SpeaksFirst: true})
		c20AddCase(out, "e2e-server-speaks-first", c20Input{Kind: "e2e", Proto: proto, Seg: []int{1, 5, 2}, Payload: rb(700), SpeaksFirst: true})
		for _, sent := range []int{0, 3, 5, 9} {
			c20AddCase(out, "deadline-before-first-read", c20Input{Kind: "deadline", Proto: proto, DeadlineMs: 250, Sent: sent})
		}
		if proto == "tls" {
			c20AddCase(out, "e2e-tls-config-by-callback", c20Input{Kind: "e2e", Proto: proto, Payload: rb(300), TLSViaCallback: true})
		}
		for k := 0; k < 3; k++ {
			c20AddCase(out, "e2e-read-and-write-at-once", c20Input{Kind: "e2e", Proto: proto, Payload: rb(50 + 100*k), Concurrent: true})
		}
	}
	return out.Finish()
}

func init() { register("C20", runC20) }
