package main

// C08: each endpoint accepts exactly the message orders the standard allows.
// A puppet peer feeds the real endpoint a sequence of record events (handshake messages with
// valid or invalid contents, ChangeCipherSpec, warning alerts, application data, an incomplete
// handshake fragment), keeping its own transcript and keys consistent with what it actually
// sent; the observable is whether the endpoint completed the handshake.

import (
	"encoding/json"
	"fmt"
	"math/rand/v2"
	"os"
	"strings"

	"gitee.com/Trisia/gotlcp/dtlcp"
	"gitee.com/Trisia/gotlcp/tlcp"
	"verifharness/internal/emit"
	"verifharness/internal/puppet"
	"verifharness/internal/tk"
)

type c08Ev struct {
	K   string `json:"k"`             // SH CERT SKX CR SHD CH CKX CV FIN | FRAG CCS WARN APP END
	OK  bool   `json:"ok,omitempty"`  // handshake messages: contents valid
	Aux bool   `json:"aux,omitempty"` // SH: echo offered session; CH: offer resumable session; CERT (to a server): non-empty
	Ck  bool   `json:"ck,omitempty"`  // dtlcp CH: carries a valid cookie
	Pk  bool   `json:"pk,omitempty"`  // tlcp handshake message: packed into one record with the handshake message before it
}

type c08Input struct {
	Stack   string  `json:"stack"`
	Target  string  `json:"target"` // "client" | "server": the real endpoint's role
	Suite   uint16  `json:"suite"`
	Offered bool    `json:"offered"`            // client target: a cached session is offered; server target: n/a
	CertReq bool    `json:"certreq"`            // server target: policy requests a certificate
	Coop    bool    `json:"coop,omitempty"`     // dtlcp: the puppet follows the sequence as if it were legal (its ChangeCipherSpec always switches keys); only a completion is judged
	DefAuth bool    `json:"def_auth,omitempty"` // server target, ECDHE suite: Config.ClientAuth is left at its default (the library requires the certificate anyway)
	Evs     []c08Ev `json:"evs"`
}

var c08Kinds = map[string]string{"SH": "ServerHello", "CERT": "Certificate", "SKX": "ServerKeyExchange", "CR": "CertificateRequest",
	"SHD": "ServerHelloDone", "CH": "ClientHello", "CKX": "ClientKeyExchange", "CV": "CertificateVerify", "FIN": "Finished"}

func c08CoqDev(e c08Ev) string {
	switch e.K {
	case "FRAG":
		return "DFrag"
	case "CCS":
		return "DCcs"
	case "WARN":
		return "DWarn"
	case "APP":
		return "DApp"
	case "END":
		return "DEnd"
	case "OLD":
		return "DOld"
	case "HVR":
		return "DVerify"
	case "CH":
		return fmt.Sprintf("DHello %s %s %s", emit.Bool(e.OK), emit.Bool(e.Aux), emit.Bool(e.Ck))
	}
	return fmt.Sprintf("DHs %s %s %s", c08Kinds[e.K], emit.Bool(e.OK), emit.Bool(e.Aux))
}

func c08CoqEv(e c08Ev) string {
	switch e.K {
	case "FRAG":
		return "EFrag"
	case "CCS":
		return "ECcs"
	case "WARN":
		return "EWarn"
	case "APP":
		return "EApp"
	case "END":
		return "EEnd"
	}
	return fmt.Sprintf("EHs %s %s %s", c08Kinds[e.K], emit.Bool(e.OK), emit.Bool(e.Aux))
}

type c08Sess struct {
	sid    []byte
	master []byte
}

// send one event from a server-role puppet to a client target
func c08ToClient(p *puppet.Peer, e c08Ev, suite uint16, prev *c08Sess) {
	pk := tk.GetPKI()
	switch e.K {
	case "SH":
		o := puppet.SHOpt{Suite: suite}
		if !e.OK {
			o.Suite = 0xe019 // a suite the client did not offer
		}
		if e.Aux && prev != nil {
			o.SID = prev.sid
			p.ForceMaster = prev.master
		} else {
			p.ForceMaster = nil
		}
		p.SendServerHello(o)
	case "CERT":
		if e.OK {
			p.SendCertificate(p.OwnChain())
		} else {
			p.SendCertificate([][]byte{pk.UntrustedSig.DER, pk.UntrustedEnc.DER})
		}
	case "SKX":
		if e.OK {
			p.SendServerKeyExchange(puppet.SKXOpt{Mode: "ok"})
		} else {
			p.SendServerKeyExchange(puppet.SKXOpt{Mode: "corrupt"})
		}
	case "CR":
		p.SendCertRequest(nil)
	case "SHD":
		p.SendServerHelloDone()
	case "FIN":
		if e.OK {
			p.SendFinished("ok")
		} else {
			p.SendFinished("wrong")
		}
	case "CH":
		p.SendHS(puppet.HSClientHello, append([]byte{1, 1}, make([]byte, 32+1+2+2+2)...), true)
	case "CKX":
		p.SendHS(puppet.HSClientKeyX, []byte{0, 3, 0x30, 1, 0}, true)
	case "CV":
		p.SendHS(puppet.HSCertVerify, []byte{0, 2, 0x30, 0}, true)
	case "HVR":
		p.SendHelloVerify([]byte("cookie-cookie-cookie-cookie-0123"))
		p.Absorb(30000) // the client answers (today only after its retransmission timer: K1)
	default:
		c08Common(p, e)
	}
}

func c08ToServer(p *puppet.Peer, e c08Ev, suite uint16, prev *c08Sess) {
	pk := tk.GetPKI()
	switch e.K {
	case "CH":
		if p.DTLS && p.PeerHello != nil && c08LastCH[p] != nil { // the server already answered: retransmission
			o := *c08LastCH[p]
			o.KeepTranscript = true
			p.SendClientHello(o)
			return
		}
		o := puppet.CHOpt{Suites: []uint16{suite}}
		if !e.OK {
			o.Suites = []uint16{0x1301}
		}
		if e.Aux && prev != nil {
			o.SID = prev.sid
			p.ForceMaster = prev.master
		} else {
			p.ForceMaster = nil
		}
		if p.DTLS {
			if p.CR == nil {
				p.CR = c08Random()
			}
			o.Random = p.CR
			if e.Ck {
				_, params, _ := dtlcp.VerifClientHello(puppet.VersionTLCP, o.Random, o.SID, nil, o.Suites, []byte{0}, 0)
				o.Cookie = dtlcp.VerifGenerateCookie(c08Secret, "10.0.0.1:4000", params)
			}
			if e.Ck {
				oc := o
				c08LastCH[p] = &oc
			}
		}
		p.SendClientHello(o)
	case "CERT":
		switch {
		case !e.OK:
			p.SendCertificate([][]byte{{0x30, 0x03, 1, 2, 3}, pk.CliEnc.DER})
		case !e.Aux:
			p.SendCertificate(nil)
		default:
			p.SendCertificate(p.OwnChain())
		}
	case "CKX":
		if e.OK {
			p.SendClientKeyExchange("ok")
		} else {
			p.SendClientKeyExchange("garbage")
		}
	case "CV":
		if e.OK {
			p.SendCertVerify("ok")
		} else {
			p.SendCertVerify("corrupt")
		}
	case "FIN":
		if e.OK {
			p.SendFinished("ok")
		} else {
			p.SendFinished("wrong")
		}
	case "SH":
		p.SendHS(puppet.HSServerHello, append([]byte{1, 1}, make([]byte, 32+1+3)...), true)
	case "SKX":
		p.SendHS(puppet.HSServerKeyX, []byte{0, 2, 0x30, 0}, true)
	case "CR":
		p.SendHS(puppet.HSCertRequest, []byte{1, 64, 0, 0}, true)
	case "SHD":
		p.SendHS(puppet.HSServerDone, nil, true)
	default:
		c08Common(p, e)
	}
}

func c08Common(p *puppet.Peer, e c08Ev) {
	switch e.K {
	case "CCS":
		p.SendCCS()
	case "WARN":
		p.SendAlert(1, 90)
	case "APP":
		if e.Aux { // an empty application_data record (under the keys the puppet writes with at that point)
			p.SendApp(nil)
		} else {
			p.SendApp([]byte("early data"))
		}
	case "NOCCS":
		p.SkipCCS()
	case "END":
		p.SendAlert(2, 40)
	case "FRAG":
		if p.DTLS {
			p.SendRecord(puppet.RecHS, append([]byte{puppet.HSFinished, 0x00, 0xEA, 0x60, 0, 9, 0, 0, 0, 0x00, 0xEA, 0x60}, make([]byte, 10)...))
		} else {
			p.SendRecord(puppet.RecHS, append([]byte{puppet.HSFinished, 0x00, 0xEA, 0x60}, make([]byte, 10)...))
		}
	case "OLD":
		p.ReplayLast()
	case "HVR":
		p.SendHelloVerify([]byte("cookie-cookie-cookie-cookie-0123"))
	}
}

var c08LastCH = map[*puppet.Peer]*puppet.CHOpt{}

var c08Secret = []byte("c08-cookie-secret-c08-cookie-sec")

func c08Random() []byte {
	b := make([]byte, 32)
	for i := range b {
		b[i] = byte(i*11 + 3)
	}
	return b
}

// c08AwaitsCCS: do the events sent so far (dropped ones aside) form a prefix of a legal flow whose
// next item is the ChangeCipherSpec?  Then a datagram endpoint drops further handshake records
// as retransmissions, and the puppet must not enter them in its transcript.
func c08AwaitsCCS(in c08Input, sent []c08Ev) bool {
	var core []c08Ev
	seenHello := false
	for _, e := range sent {
		switch e.K {
		case "WARN", "OLD":
			continue
		case "HVR":
			if in.Target == "client" {
				continue
			}
		case "CH":
			if in.Target == "server" && (!e.Ck || seenHello) {
				continue // answered by a HelloVerifyRequest, or a retransmission
			}
			seenHello = true
		}
		core = append(core, e)
	}
	base := in
	base.Stack = "tlcp"
	for _, fl := range c08Legal(base) {
		if len(core) >= len(fl) || fl[len(core)].K != "CCS" {
			continue
		}
		ok := true
		for i, e := range core {
			if e.K != fl[i].K || !e.OK || (e.K == "SH" || e.K == "CH" || (e.K == "CERT" && in.Target == "server")) && e.Aux != fl[i].Aux {
				ok = false
			}
		}
		if ok {
			return true
		}
	}
	return false
}

// c08Exec runs one event sequence against a fresh real endpoint of the configured stack / role.
func c08Exec(in c08Input, reg *tk.Registry, evs []c08Ev, prev *c08Sess, post bool) (puppet.TargetOutcome, *puppet.Peer) {
	pk := tk.GetPKI()
	ecdhe := puppet.IsECDHE(in.Suite)
	var ep tk.EPConfig
	if in.Target == "client" {
		ep = tk.EPConfig{Suites: []uint16{in.Suite}, Ident: "cli", ServerName: "server.test"}
		if in.Offered {
			ep.Cache = "c"
		}
	} else {
		ep = tk.EPConfig{Ident: "srv", Cache: "s"}
		if in.CertReq && !in.DefAuth {
			ep.Auth = int(tlcp.RequestClientCert)
		}
		if ecdhe && !in.DefAuth {
			ep.Auth = int(tlcp.RequireAndVerifyClientCert)
		}
	}
	setup := func(p *puppet.Peer) func(e c08Ev) {
		if in.Target == "client" {
			p.Sig, p.Enc = pk.SrvSig, pk.SrvEnc
			return func(e c08Ev) { c08ToClient(p, e, in.Suite, prev) }
		}
		p.Sig, p.Enc = pk.CliSig, pk.CliEnc
		return func(e c08Ev) { c08ToServer(p, e, in.Suite, prev) }
	}
	loop := func(p *puppet.Peer, send func(e c08Ev)) {
		var sent []c08Ev
		for idx, e := range evs {
			p.HoldHS = idx+1 < len(evs) && evs[idx+1].Pk // kept back: the next message shares its record
			p.Absorb(5)
			if p.L.TargetDone() {
				return
			}
			if in.Coop {
				send(e)
				sent = append(sent, e)
				continue
			}
			if in.Stack == "dtlcp" && e.K != "CCS" && e.K != "WARN" && e.K != "APP" && e.K != "END" && e.K != "OLD" && c08AwaitsCCS(in, sent) {
				// dropped by the target as a retransmission whatever it contains: send a message of
				// that kind that leaves the puppet's own state and transcript alone
				typ := map[string]byte{"SH": puppet.HSServerHello, "CERT": puppet.HSCertificate, "SKX": puppet.HSServerKeyX, "CR": puppet.HSCertRequest,
					"SHD": puppet.HSServerDone, "CH": puppet.HSClientHello, "CKX": puppet.HSClientKeyX, "CV": puppet.HSCertVerify, "FIN": puppet.HSFinished,
					"HVR": puppet.HSHelloVerify, "FRAG": puppet.HSFinished}[e.K]
				p.SendHS(typ, []byte{0, 1, 2, 3}, false)
				continue
			}
			if in.Stack == "dtlcp" && e.K == "CCS" && !c08AwaitsCCS(in, sent) {
				// a ChangeCipherSpec record the target cannot use (it drops it): the event is "a CCS of
				// the current epoch arrives"; the puppet keeps writing in the epoch the target reads
				p.SendRecord(puppet.RecCCS, []byte{1})
				continue
			}
			send(e)
			sent = append(sent, e)
		}
		p.Absorb(5)
		if post && !p.L.TargetDone() { // after completion application data must be delivered
			p.SendApp([]byte("post"))
			p.Absorb(5)
		}
	}
	if in.Stack == "dtlcp" {
		ep.PMTU, ep.RetransMs, ep.MaxRetransMs, ep.CookieSecret = 16000, 10000, 60000, c08Secret
		var peer *puppet.Peer
		_, o := puppet.RunDTLCP(tk.BuildDTLCP(ep, reg), in.Target == "client", func(p *puppet.Peer) {
			peer = p
			loop(p, setup(p))
		})
		return o, peer
	}
	s := puppet.NewTLCPSession(tk.BuildTLCP(ep, reg), in.Target == "client")
	loop(s.P, setup(s.P))
	return s.Finish(), s.P
}

// c08Run executes one sequence; returns whether the target completed and the first fatal alert it sent.
func c08Run(in c08Input) (accepted bool, alert int, direct string, delivered string) {
	reg := tk.NewRegistry()
	ecdhe := puppet.IsECDHE(in.Suite)
	var prev *c08Sess
	needPrev := in.Offered
	for _, e := range in.Evs {
		if e.K == "CH" && e.Aux {
			needPrev = true
		}
	}
	if needPrev { // an honest first connection so that a resumable session exists
		var flow []c08Ev
		if in.Target == "client" {
			flow = []c08Ev{{K: "SH", OK: true}, {K: "CERT", OK: true}, {K: "SKX", OK: true}, {K: "CR", OK: true}, {K: "SHD", OK: true}, {K: "CCS"}, {K: "FIN", OK: true}}
			if in.Stack == "dtlcp" {
				flow = append([]c08Ev{{K: "HVR"}}, flow...)
			}
		} else {
			flow = []c08Ev{{K: "CH", OK: true, Ck: true}}
			if in.CertReq || ecdhe {
				flow = append(flow, c08Ev{K: "CERT", OK: true, Aux: true}, c08Ev{K: "CKX", OK: true}, c08Ev{K: "CV", OK: true})
			} else {
				flow = append(flow, c08Ev{K: "CKX", OK: true})
			}
			flow = append(flow, c08Ev{K: "CCS"}, c08Ev{K: "FIN", OK: true})
		}
		o, p := c08Exec(in, reg, flow, nil, false)
		if !o.Res.Complete {
			return false, 0, "setup handshake for resumption failed: " + o.Res.Err + " " + o.Res.ErrText, ""
		}
		prev = &c08Sess{sid: p.SID, master: p.Master}
	}
	o, p := c08Exec(in, reg, in.Evs, prev, true)
	for _, a := range p.Alerts {
		if a.Level == 2 && alert == 0 {
			alert = int(a.Code)
		}
	}
	if os.Getenv("HX_DEBUG") != "" {
		fmt.Fprintf(os.Stderr, "c08 %+v: complete=%v err=%q %q alerts=%v read=%q readerr=%q hung=%v\n", in, o.Res.Complete, o.Res.Err, o.Res.ErrText, p.Alerts, o.Read, o.ReadErr, o.Hung)
	}
	if o.Panic != "" {
		direct = "panic: " + o.Panic
	} else if o.Hung {
		direct = "hang"
	}
	return o.Res.Complete && o.Res.Err == "", alert, direct, string(o.Read)
}

func c08AddCase(out *emit.Out, scenario string, in c08Input) {
	acc, alert, direct, delivered := c08Run(in)
	var evs []string
	ctor := "SeqCase"
	for _, e := range in.Evs {
		if e.K == "NOCCS" { // nothing arrives: the peer only changes the keys it writes with
			continue
		}
		if in.Stack == "dtlcp" {
			evs = append(evs, c08CoqDev(e))
		} else {
			evs = append(evs, c08CoqEv(e))
		}
	}
	if in.Stack == "dtlcp" {
		ctor = "DSeqCase"
		if in.Coop {
			ctor = "DSeqCoop"
		}
	}
	role := "RClient"
	if in.Target == "server" {
		role = "RServer"
	}
	out.Add(emit.Case{Scenario: scenario + "/" + in.Stack + "-" + in.Target, Trivial: len(in.Evs) < 2, Input: in, Direct: direct,
		Observed: map[string]interface{}{"accepted": acc, "alert": alert, "delivered": delivered},
		Coq: fmt.Sprintf("%s %s %s %s %s [%s] %s", ctor, role, emit.Bool(puppet.IsECDHE(in.Suite)), emit.Bool(in.Offered), emit.Bool(in.CertReq || puppet.IsECDHE(in.Suite)),
			strings.Join(evs, "; "), emit.Bool(acc))})
}

func c08Legal(in c08Input) [][]c08Ev {
	h := func(k string) c08Ev { return c08Ev{K: k, OK: true} }
	ecdhe := puppet.IsECDHE(in.Suite)
	var fl [][]c08Ev
	if in.Target == "client" {
		if !ecdhe {
			fl = append(fl, []c08Ev{h("SH"), h("CERT"), h("SKX"), h("SHD"), {K: "CCS"}, h("FIN")})
		}
		fl = append(fl, []c08Ev{h("SH"), h("CERT"), h("SKX"), h("CR"), h("SHD"), {K: "CCS"}, h("FIN")})
		if in.Offered {
			fl = append(fl, []c08Ev{{K: "SH", OK: true, Aux: true}, {K: "CCS"}, h("FIN")})
		}
	} else {
		if in.CertReq || ecdhe {
			fl = append(fl, []c08Ev{h("CH"), {K: "CERT", OK: true, Aux: true}, h("CKX"), h("CV"), {K: "CCS"}, h("FIN")})
			if !ecdhe {
				fl = append(fl, []c08Ev{h("CH"), {K: "CERT", OK: true, Aux: false}, h("CKX"), {K: "CCS"}, h("FIN")})
			}
		} else {
			fl = append(fl, []c08Ev{h("CH"), h("CKX"), {K: "CCS"}, h("FIN")})
		}
		fl = append(fl, []c08Ev{{K: "CH", OK: true, Aux: true}, {K: "CCS"}, h("FIN")})
	}
	if in.Stack == "dtlcp" {
		var out [][]c08Ev
		for _, f := range fl {
			g := append([]c08Ev{}, f...)
			if in.Target == "server" {
				g[0].Ck = true
				out = append(out, g)
				// with a cookie round first, and with a retransmitted hello while the flight is awaited
				out = append(out, append([]c08Ev{{K: "CH", OK: true}}, g...))
				if len(g) > 3 { // a retransmitted hello while the client's flight is awaited
					r := append([]c08Ev{}, g[:1]...)
					r = append(r, c08Ev{K: "CH", OK: true, Ck: true})
					r = append(r, g[1:]...)
					out = append(out, r)
				}
			} else {
				out = append(out, g)
				out = append(out, append([]c08Ev{{K: "HVR"}}, g...))
			}
		}
		return out
	}
	return fl
}

func c08AlphabetD(target string) []c08Ev {
	a := c08Alphabet(target)
	a = append(a, c08Ev{K: "HVR"}, c08Ev{K: "OLD"})
	if target == "server" {
		a = append(a, c08Ev{K: "CH", OK: true, Ck: true}, c08Ev{K: "CH", OK: true, Aux: true, Ck: true})
	}
	return a
}

func c08Alphabet(target string) []c08Ev {
	ks := []string{"SH", "CERT", "SKX", "CR", "SHD", "CH", "CKX", "CV", "FIN"}
	var a []c08Ev
	for _, k := range ks {
		a = append(a, c08Ev{K: k, OK: true})
	}
	if target == "client" {
		a = append(a, c08Ev{K: "SH", OK: true, Aux: true})
	} else {
		a = append(a, c08Ev{K: "CH", OK: true, Aux: true}, c08Ev{K: "CERT", OK: true, Aux: true})
	}
	a = append(a, c08Ev{K: "CCS"}, c08Ev{K: "WARN"}, c08Ev{K: "APP"}, c08Ev{K: "APP", Aux: true}, c08Ev{K: "FRAG"})
	return a
}

func runC08(p params) error {
	out := emit.New(p.out, "C08", "V.Corr.Run_C08", "case",
		"sequences of record events (handshake message kinds with valid/invalid contents, CCS, warning alert, application data, incomplete fragment) sent by a puppet peer to a real endpoint; roles x ECC/ECDHE x full/resumed; non-trivial = at least two events; distinct by Coq term")
	out.Scope = "nat_scope"
	if p.replay != "" {
		b, err := os.ReadFile(p.replay)
		if err != nil {
			return err
		}
		var rp struct {
			Cases []struct {
				Scenario string   `json:"scenario"`
				Input    c08Input `json:"input"`
			} `json:"cases"`
		}
		if err := json.Unmarshal(b, &rp); err != nil {
			return err
		}
		for _, c := range rp.Cases {
			c08AddCase(out, strings.SplitN(c.Scenario, "/", 2)[0], c.Input)
		}
		return out.Finish()
	}
	r := rand.New(rand.NewPCG(p.seed, 0xC08))
	var cfgs []c08Input
	for _, st := range []string{"tlcp", "dtlcp"} {
		for _, su := range []uint16{0xe053, 0xe013, 0xe051, 0xe011} {
			for _, off := range []bool{false, true} {
				cfgs = append(cfgs, c08Input{Stack: st, Target: "client", Suite: su, Offered: off})
			}
			for _, cr := range []bool{false, true} {
				if puppet.IsECDHE(su) && !cr {
					// the configuration leaves ClientAuth at its default: an ECDHE server asks for the certificate all the same
					cfgs = append(cfgs, c08Input{Stack: st, Target: "server", Suite: su, CertReq: true, DefAuth: true})
					continue
				}
				cfgs = append(cfgs, c08Input{Stack: st, Target: "server", Suite: su, CertReq: cr})
			}
		}
	}
	for ci, cfg := range cfgs {
		alpha := c08Alphabet(cfg.Target)
		if cfg.Stack == "dtlcp" {
			alpha = c08AlphabetD(cfg.Target)
		}
		for _, fl := range c08Legal(cfg) {
			in := cfg
			in.Evs = fl
			c08AddCase(out, "legal", in)
			if cfg.Stack == "tlcp" {
				// several handshake messages in one record: every message that follows a handshake message shares its
				// record (legal); the message due after the ChangeCipherSpec packed in front of it (not legal)
				isHS := func(e c08Ev) bool {
					return e.K != "CCS" && e.K != "WARN" && e.K != "APP" && e.K != "FRAG" && e.K != "END"
				}
				pk := append([]c08Ev{}, fl...)
				for i := 1; i < len(pk); i++ {
					pk[i].Pk = isHS(pk[i]) && isHS(pk[i-1])
				}
				in.Evs = pk
				c08AddCase(out, "packed-legal", in)
				for i := 1; i+1 < len(fl); i++ {
					if fl[i].K == "CCS" && isHS(fl[i-1]) && isHS(fl[i+1]) {
						mv := append([]c08Ev{}, fl[:i]...)
						nx := fl[i+1]
						nx.Pk = true
						mv = append(mv, nx, fl[i])
						mv = append(mv, fl[i+2:]...)
						in.Evs = mv
						c08AddCase(out, "packed-across-ccs", in)
					}
				}
			}
			// omissions, duplications, transpositions
			if cfg.Stack == "dtlcp" {
				// a peer that itself follows the deviant order: one message left out, sent twice, or a message of another
				// kind put in (each with its own message number), ChangeCipherSpec and Finished as a real peer sends them
				isHS := func(e c08Ev) bool {
					return e.K != "CCS" && e.K != "WARN" && e.K != "APP" && e.K != "FRAG" && e.K != "END" && e.K != "OLD" && e.K != "HVR"
				}
				co := cfg
				co.Coop = true
				for i := range fl {
					if fl[i].K == "CCS" {
						// the ChangeCipherSpec message left out by a peer that carries on in its new epoch
						co.Evs = append(append(append([]c08Ev{}, fl[:i]...), c08Ev{K: "NOCCS"}), fl[i+1:]...)
						c08AddCase(out, "peer-omits-ccs", co)
					}
					if !isHS(fl[i]) || (fl[i].K == "CH" && i == 0) {
						continue
					}
					co.Evs = append(append([]c08Ev{}, fl[:i]...), fl[i+1:]...)
					c08AddCase(out, "peer-omits", co)
					co.Evs = append(append(append([]c08Ev{}, fl[:i+1]...), fl[i]), fl[i+1:]...)
					c08AddCase(out, "peer-repeats", co)
					for _, f := range alpha {
						if isHS(f) && f.K != "CH" && f.K != "SH" && (p.tier == "thorough" || f.K != fl[i].K) && f.K != "FIN" {
							co.Evs = append(append(append([]c08Ev{}, fl[:i]...), f), fl[i:]...)
							c08AddCase(out, "peer-inserts", co)
						}
					}
				}
			}
			for i := range fl {
				in.Evs = append(append([]c08Ev{}, fl[:i]...), fl[i+1:]...)
				c08AddCase(out, "omit", in)
				if p.tier == "thorough" || (i+ci)%2 == 0 {
					in.Evs = append(append(append([]c08Ev{}, fl[:i+1]...), fl[i]), fl[i+1:]...)
					c08AddCase(out, "duplicate", in)
				}
				if i+1 < len(fl) && (p.tier == "thorough" || (i+ci)%2 == 1) {
					sw := append([]c08Ev{}, fl...)
					sw[i], sw[i+1] = sw[i+1], sw[i]
					in.Evs = sw
					c08AddCase(out, "transpose", in)
				}
				// invalid contents at position i
				if fl[i].K != "CCS" && fl[i].K != "CR" && fl[i].K != "SHD" && (p.tier == "thorough" || (i+ci)%3 == 0) {
					bad := append([]c08Ev{}, fl...)
					bad[i].OK = false
					in.Evs = bad
					c08AddCase(out, "bad-contents", in)
				}
				// every event of the alphabet inserted before position i (position 0 is covered by the
				// enumeration from the initial state)
				_ = r
				for _, f := range alpha {
					if i == 0 && p.tier != "thorough" {
						break
					}
					in.Evs = append(append(append([]c08Ev{}, fl[:i]...), f), fl[i:]...)
					c08AddCase(out, "insert", in)
				}
			}
			// warning-alert tolerance: 16 tolerated, 17 not; the count spans the CCS
			for _, n := range []int{16, 17} {
				pos := r.IntN(len(fl))
				var evs []c08Ev
				evs = append(evs, fl[:pos]...)
				for k := 0; k < n; k++ {
					evs = append(evs, c08Ev{K: "WARN"})
				}
				evs = append(evs, fl[pos:]...)
				in.Evs = evs
				c08AddCase(out, "warn-tolerance", in)
			}
		}
		// pruned enumeration from the initial state
		depth := 2
		if p.tier == "thorough" {
			depth = 3
		}
		var rec func(cur []c08Ev)
		rec = func(cur []c08Ev) {
			if len(cur) == depth {
				in := cfg
				in.Evs = append([]c08Ev{}, cur...)
				c08AddCase(out, "enumerate", in)
				return
			}
			for _, e := range alpha {
				rec(append(cur, e))
			}
		}
		if p.tier == "thorough" || ci%7 == int(p.seed%7) {
			rec(nil)
		}
	}
	return out.Finish()
}

func init() { register("C08", runC08) }
