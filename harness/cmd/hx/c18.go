package main

// C18: a DTLCP server commits and amplifies nothing before a valid cookie returns.
//  cookie : generateCookie bytes vs HMAC-SM3(secret, enc(addr, params)) recomputed in Coq
//  params : marshalForCookie vs the model
//  verify : cookies presented under changed address / parameters / secret / cookie bytes
//  loop   : a real server fed scripted ClientHello datagrams; what it sends, key operations

import (
	"encoding/json"
	"fmt"
	"math/rand/v2"
	"net"
	"os"
	"strings"
	"time"

	"gitee.com/Trisia/gotlcp/dtlcp"
	"verifharness/internal/emit"
	"verifharness/internal/tk"
)

type c18Hello struct {
	Vers   uint16   `json:"vers"`
	Random []byte   `json:"random"`
	SID    []byte   `json:"sid"`
	Suites []uint16 `json:"suites"`
	Comp   []byte   `json:"comp"`
	Cookie string   `json:"cookie"` // loop: "none" | "valid" | "prev" (cookie issued for the previous hello) | "flip:<i>" | "foreign" (other address) | "short"
}

type c18Input struct {
	Kind    string     `json:"kind"`
	Secret  []byte     `json:"secret,omitempty"`
	Addr    string     `json:"addr,omitempty"`
	Params  []byte     `json:"params,omitempty"`
	Hello   *c18Hello  `json:"hello,omitempty"`
	Secret2 []byte     `json:"secret2,omitempty"`
	Addr2   string     `json:"addr2,omitempty"`
	Params2 []byte     `json:"params2,omitempty"`
	Flip    int        `json:"flip,omitempty"` // verify: index of the cookie byte to change (-1 none)
	Hellos  []c18Hello `json:"hellos,omitempty"`
	Suite   uint16     `json:"suite,omitempty"`
	Kind2   string     `json:"kind2,omitempty"` // otherconn: "server" (dtlcp.Server twice on one Config) | "listener" (two Accepts on one dtlcp.NewListener)
	// loop: SecretEmpty configures a non-nil empty CookieSecret (what []byte("") yields); RandSeed makes
	// Config.Rand a known stream, so that the secret an unconfigured connection draws is known
	// loop: Cached: the server holds a session cache, and every hello names the identifier of a session in it
	Cached bool `json:"cached,omitempty"`
	// foreign: the server is bound to the UDP address Addr; the hello that carries the cookie issued to Addr arrives from Addr2
	SecretEmpty bool   `json:"secret_empty,omitempty"`
	RandSeed    uint64 `json:"rand_seed,omitempty"`
}

func coqHello(h c18Hello, cookie []byte) string {
	var ss []uint64
	for _, s := range h.Suites {
		ss = append(ss, uint64(s))
	}
	return fmt.Sprintf("mkHello %d %s %s %s %s %s", h.Vers, emit.Bytes(h.Random), emit.Bytes(h.SID), emit.ListN(ss), emit.Bytes(h.Comp), emit.Bytes(cookie))
}

func helloDatagram(h c18Hello, cookie []byte, msgSeq uint16, recSeq uint64) ([]byte, []byte) {
	msg, params, err := dtlcp.VerifClientHello(h.Vers, h.Random, h.SID, cookie, h.Suites, h.Comp, msgSeq)
	if err != nil {
		panic(err)
	}
	rec := []byte{22, 1, 1, 0, 0, byte(recSeq >> 40), byte(recSeq >> 32), byte(recSeq >> 24), byte(recSeq >> 16), byte(recSeq >> 8), byte(recSeq),
		byte(len(msg) >> 8), byte(len(msg))}
	return append(rec, msg...), params
}

func c18AddCase(out *emit.Out, scenario string, in c18Input) {
	switch in.Kind {
	case "cookie":
		c := dtlcp.VerifGenerateCookie(in.Secret, in.Addr, in.Params)
		out.Add(emit.Case{Scenario: scenario, Trivial: false, Input: in, Observed: map[string]interface{}{"cookie": c},
			Coq: fmt.Sprintf("CookieCase %s %s %s %s", emit.Bytes(in.Secret), emit.Bytes([]byte(in.Addr)), emit.Bytes(in.Params), emit.Bytes(c))})
	case "params":
		h := *in.Hello
		_, params, err := dtlcp.VerifClientHello(h.Vers, h.Random, h.SID, nil, h.Suites, h.Comp, 0)
		if err != nil {
			params = nil
		}
		out.Add(emit.Case{Scenario: scenario, Trivial: false, Input: in, Observed: map[string]interface{}{"params_len": len(params)},
			Coq: fmt.Sprintf("ParamsCase (%s) %s", coqHello(h, nil), emit.Bytes(params))})
	case "verify":
		c := dtlcp.VerifGenerateCookie(in.Secret, in.Addr, in.Params)
		pres := append([]byte(nil), c...)
		if in.Flip >= 0 && in.Flip < len(pres) {
			pres[in.Flip] ^= 1 << (in.Flip % 8)
		} else if in.Flip >= len(pres) {
			pres = pres[:len(pres)-1]
		}
		ok := dtlcp.VerifVerifyCookie(in.Secret2, in.Addr2, in.Params2, pres)
		same := string(in.Secret) == string(in.Secret2) && in.Addr == in.Addr2 && string(in.Params) == string(in.Params2) && string(pres) == string(c)
		out.Add(emit.Case{Scenario: scenario, Trivial: same, Input: in, Observed: map[string]interface{}{"accepted": ok},
			Coq: fmt.Sprintf("VerifyCase %s %s %s %s %s %s %s %s %s", emit.Bytes(in.Secret), emit.Bytes([]byte(in.Addr)), emit.Bytes(in.Params),
				emit.Bytes(in.Secret2), emit.Bytes([]byte(in.Addr2)), emit.Bytes(in.Params2), emit.Bytes(pres), emit.Bool(same), emit.Bool(ok))})
	case "foreign":
		c18Foreign(out, scenario, in)
	case "otherconn":
		c18OtherConn(out, scenario, in)
	case "loop":
		c18Loop(out, scenario, in)
	}
}

// c18Loop: endpoint 0 is a scripted raw client, endpoint 1 the real server.
// c18UDP builds a *net.UDPAddr from "ip%zone|port" without resolving the zone.
func c18UDP(s string) *net.UDPAddr {
	host, port, _ := strings.Cut(s, "|")
	ip, zone, _ := strings.Cut(host, "%")
	var pn int
	fmt.Sscanf(port, "%d", &pn)
	return &net.UDPAddr{IP: net.ParseIP(ip), Port: pn, Zone: zone}
}

// c18Foreign: a server connection bound to the UDP address Addr issues a cookie to a hello from Addr; a second
// connection with the same secret, bound to Addr as well, then receives that hello with the cookie from Addr2.
func c18Foreign(out *emit.Out, scenario string, in c18Input) {
	p := tk.GetPKI()
	a1, a2 := c18UDP(in.Addr), c18UDP(in.Addr2)
	h := *in.Hello
	run := func(cookie []byte, from net.Addr) (resp [][]byte, ops int64) {
		sigK := &tk.CountKey{Inner: p.SrvSig.Key}
		encK := &tk.CountKey{Inner: p.SrvEnc.Key}
		scfg := tk.BuildDTLCP(tk.EPConfig{Ident: "srv", CookieSecret: in.Secret, Suites: []uint16{0xe013}, RetransMs: 20, MaxRetransMs: 40}, nil)
		scfg.Certificates[0].PrivateKey = sigK
		scfg.Certificates[1].PrivateKey = encK
		pc := tk.NewSinkPC()
		pc.Local, pc.Remote = &net.UDPAddr{IP: net.ParseIP("fe80::2"), Port: 5000, Zone: "eth0"}, a1
		d, _ := helloDatagram(h, cookie, 0, 0)
		pc.Inbox, pc.From = [][]byte{d}, []net.Addr{from}
		srv := dtlcp.Server(pc, a1, scfg)
		done := make(chan struct{})
		go func() { defer close(done); defer func() { recover() }(); srv.Handshake() }()
		select {
		case <-done:
		case <-time.After(5 * time.Second):
		}
		return pc.Out, sigK.Ops() + encK.Ops()
	}
	first, _ := run(nil, a1)
	var cookie []byte
	if len(first) == 1 && len(first[0]) >= 13+12+3 && first[0][13] == 3 {
		cl := int(first[0][13+12+2])
		if 13+12+3+cl <= len(first[0]) {
			cookie = first[0][13+12+3 : 13+12+3+cl]
		}
	}
	resp, ops := run(cookie, a2)
	firstT := 0
	if len(resp) > 0 && len(resp[0]) >= 14 {
		firstT = int(resp[0][0])*256 + int(resp[0][13])
	}
	same := a1.String() == a2.String()
	out.Add(emit.Case{Scenario: scenario, Trivial: false, Input: in,
		Observed: map[string]interface{}{"cookie_len": len(cookie), "responses": len(resp), "first": firstT, "key_ops": ops, "bound": a1.String(), "from": a2.String()},
		Coq:      fmt.Sprintf("ForeignCase %s %s %d%%nat %d %d%%nat", emit.Bool(len(cookie) > 0), emit.Bool(same), len(resp), firstT, ops)})
}

// c18LConn is what a datagram listener's inner net.Listener hands out: a net.Conn that is also a net.PacketConn.
type c18LConn struct {
	*tk.SinkPC
	remote net.Addr
}

func (c *c18LConn) Read(b []byte) (int, error)  { n, _, err := c.ReadFrom(b); return n, err }
func (c *c18LConn) Write(b []byte) (int, error) { return c.WriteTo(b, c.remote) }
func (c *c18LConn) RemoteAddr() net.Addr        { return c.remote }

type c18Inner struct{ ch chan net.Conn }

func (l *c18Inner) Accept() (net.Conn, error) {
	c, ok := <-l.ch
	if !ok {
		return nil, net.ErrClosed
	}
	return c, nil
}
func (l *c18Inner) Close() error   { return nil }
func (l *c18Inner) Addr() net.Addr { return c18UDP("10.0.0.2:5000") }

// c18OtherConn: no cookie secret is configured.  Two server connections over the same configuration and client address,
// created one after the other either by dtlcp.Server on the same Config object or by Accept on one dtlcp.NewListener;
// the second receives, as its first datagram, the same hello carrying the cookie the first connection issued.
func c18OtherConn(out *emit.Out, scenario string, in c18Input) {
	p := tk.GetPKI()
	a1 := c18UDP(in.Addr)
	h := *in.Hello
	sigK := &tk.CountKey{Inner: p.SrvSig.Key}
	encK := &tk.CountKey{Inner: p.SrvEnc.Key}
	scfg := tk.BuildDTLCP(tk.EPConfig{Ident: "srv", Suites: []uint16{0xe013}, RetransMs: 20, MaxRetransMs: 40}, nil)
	if in.SecretEmpty {
		scfg.CookieSecret = []byte{}
	}
	scfg.Certificates[0].PrivateKey = sigK
	scfg.Certificates[1].PrivateKey = encK
	inner := &c18Inner{ch: make(chan net.Conn, 2)}
	var ln net.Listener
	if in.Kind2 == "listener" {
		ln = dtlcp.NewListener(inner, scfg)
	}
	run := func(cookie []byte) (resp [][]byte) {
		pc := tk.NewSinkPC()
		pc.Local, pc.Remote = c18UDP("10.0.0.2:5000"), a1
		d, _ := helloDatagram(h, cookie, 0, 0)
		pc.Inbox = [][]byte{d}
		var srv *dtlcp.Conn
		if ln != nil {
			inner.ch <- &c18LConn{SinkPC: pc, remote: a1}
			c, err := ln.Accept()
			if err != nil {
				return nil
			}
			srv = c.(*dtlcp.Conn)
		} else {
			srv = dtlcp.Server(pc, a1, scfg)
		}
		done := make(chan struct{})
		go func() { defer close(done); defer func() { recover() }(); srv.Handshake() }()
		select {
		case <-done:
		case <-time.After(5 * time.Second):
		}
		return pc.Out
	}
	cookieOf := func(resp [][]byte) []byte {
		if len(resp) >= 1 && len(resp[0]) >= 13+12+3 && resp[0][13] == 3 {
			cl := int(resp[0][13+12+2])
			if 13+12+3+cl <= len(resp[0]) {
				return resp[0][13+12+3 : 13+12+3+cl]
			}
		}
		return nil
	}
	first := run(nil)
	c1 := cookieOf(first)
	ops0 := sigK.Ops() + encK.Ops()
	resp := run(c1)
	ops := sigK.Ops() + encK.Ops() - ops0
	firstT := 0
	if len(resp) > 0 && len(resp[0]) >= 14 {
		firstT = int(resp[0][0])*256 + int(resp[0][13])
	}
	c2 := cookieOf(resp)
	out.Add(emit.Case{Scenario: scenario, Trivial: false, Input: in,
		Observed: map[string]interface{}{"cookie_len": len(c1), "responses": len(resp), "first": firstT, "key_ops": ops, "same_cookie": len(c1) > 0 && string(c1) == string(c2)},
		Coq:      fmt.Sprintf("OtherConnCase %s %d%%nat %d %d%%nat %s", emit.Bool(len(c1) > 0), len(resp), firstT, ops, emit.Bool(len(c1) > 0 && string(c1) == string(c2)))})
}

func c18Loop(out *emit.Out, scenario string, in c18Input) {
	p := tk.GetPKI()
	sigK := &tk.CountKey{Inner: p.SrvSig.Key}
	encK := &tk.CountKey{Inner: p.SrvEnc.Key}
	var reg *tk.Registry
	scache := ""
	var cachedSID []byte
	if in.Cached {
		// an honest handshake first, so that the server's cache holds a session whose identifier (it travels in clear) is known
		reg, scache = tk.NewRegistry(), "s"
		dp0 := tk.NewDPair(tk.BuildDTLCP(tk.EPConfig{Suites: []uint16{in.Suite}, Ident: "cli", ServerName: "server.test", Cache: "c"}, reg),
			tk.BuildDTLCP(tk.EPConfig{Ident: "srv", Cache: "s", Suites: []uint16{in.Suite}}, reg))
		dp0.Net.Mangle = func(d *tk.Dgram) [][]byte {
			if b := d.Data; d.From == 1 && cachedSID == nil && len(b) > 13+12+35 && b[0] == 22 && b[13] == 2 {
				if n := int(b[13+12+34]); n > 0 && len(b) >= 13+12+35+n {
					cachedSID = append([]byte(nil), b[13+12+35:13+12+35+n]...)
				}
			}
			return [][]byte{d.Data}
		}
		dp0.Handshake(10 * time.Second)
		for i := range in.Hellos {
			in.Hellos[i].SID = cachedSID
		}
	}
	scfg := tk.BuildDTLCP(tk.EPConfig{Ident: "srv", CookieSecret: in.Secret, Suites: []uint16{in.Suite}, RetransMs: 20, MaxRetransMs: 40, RandSeed: in.RandSeed, Cache: scache}, reg)
	if in.SecretEmpty {
		scfg.CookieSecret = []byte{}
	}
	var drawn []byte
	if in.RandSeed != 0 {
		drawn = make([]byte, 32)
		tk.NewDetRand(in.RandSeed).Read(drawn)
	}
	scfg.Certificates[0].PrivateKey = sigK
	scfg.Certificates[1].PrivateKey = encK
	dp := tk.NewDPair(&dtlcp.Config{}, scfg)
	if in.Addr != "" {
		dp.Net.SetAddr(0, in.Addr)
		dp.Srv = dtlcp.Server(dp.Net.End(1), dp.Net.Addr(0), scfg)
	}
	type resp struct {
		N       int   `json:"n"`
		Types   []int `json:"types"`
		Sizes   []int `json:"sizes"`
		KeyOps  int64 `json:"key_ops"`
		HVRc    []byte
		ReqSize int `json:"req_size"`
	}
	var resps []resp
	var cookies [][]byte
	var hellosCoq []string
	var prevCookie []byte
	cprog := func(_ *dtlcp.Conn) {
		e := dp.Net.End(0)
		buf := make([]byte, 20000)
		for i, h := range in.Hellos {
			var cookie []byte
			switch {
			case h.Cookie == "valid":
				// ask first: send the same hello without cookie to learn the cookie (counts as its own step in the script)
				cookie = prevCookie
			case h.Cookie == "prev":
				cookie = prevCookie
			case strings.HasPrefix(h.Cookie, "flip:"):
				var k int
				fmt.Sscanf(h.Cookie, "flip:%d", &k)
				cookie = append([]byte(nil), prevCookie...)
				if len(cookie) > 0 {
					cookie[k%len(cookie)] ^= 0x40
				}
			case h.Cookie == "foreign":
				_, params, _ := dtlcp.VerifClientHello(h.Vers, h.Random, h.SID, nil, h.Suites, h.Comp, 0)
				cookie = dtlcp.VerifGenerateCookie(in.Secret, "10.9.9.9:4000", params)
			case h.Cookie == "emptykey": // the cookie an attacker computes offline under the empty key
				_, params, _ := dtlcp.VerifClientHello(h.Vers, h.Random, h.SID, nil, h.Suites, h.Comp, 0)
				cookie = dtlcp.VerifGenerateCookie([]byte{}, dp.Net.Addr(0).String(), params)
			case h.Cookie == "short":
				if len(prevCookie) > 1 {
					cookie = prevCookie[:len(prevCookie)-1]
				}
			}
			d, _ := helloDatagram(h, cookie, uint16(i), uint64(i))
			hellosCoq = append(hellosCoq, coqHello(h, cookie))
			e.WriteTo(d, dp.Net.Addr(1))
			r := resp{ReqSize: len(d)}
			// everything the server sends in answer to this hello, including what its timers may add
			// during 200 ms of silence (the server's retransmission timeouts are 20 / 40 ms)
			for r.N < 50 {
				e.SetReadDeadline(time.Now().Add(200 * time.Millisecond))
				n, _, err := e.ReadFrom(buf)
				if err != nil {
					break
				}
				r.N++
				r.Sizes = append(r.Sizes, n)
				typ := -1
				if n >= 14 {
					typ = int(buf[0])*256 + int(buf[13])
				}
				r.Types = append(r.Types, typ)
				if n >= 13+12+3 && buf[0] == 22 && buf[13] == 3 {
					cl := int(buf[13+12+2])
					if 13+12+3+cl <= n {
						r.HVRc = append([]byte(nil), buf[13+12+3:13+12+3+cl]...)
						prevCookie = r.HVRc
					}
				}
			}
			r.KeyOps = sigK.Ops() + encK.Ops()
			resps = append(resps, r)
			cookies = append(cookies, r.HVRc)
		}
		e.Close()
	}
	sprog := func(c *dtlcp.Conn) {
		c.Handshake()
		dp.Net.End(1).Close()
	}
	hung := dp.Run(cprog, sprog, 10*time.Second)
	var rs []string
	for _, r := range resps {
		first := 0
		if len(r.Types) > 0 {
			first = r.Types[0]
		}
		maxSz := 0
		for _, s := range r.Sizes {
			if s > maxSz {
				maxSz = s
			}
		}
		rs = append(rs, fmt.Sprintf("mkResp %d%%nat %d %d%%nat %d%%nat %d%%nat %s", r.N, first, maxSz, r.ReqSize, r.KeyOps, emit.Bytes(r.HVRc)))
	}
	direct := ""
	if hung {
		direct = "hang"
	}
	out.Add(emit.Case{Scenario: scenario, Trivial: len(in.Hellos) < 2, Input: in, Direct: direct,
		Observed: map[string]interface{}{"responses": resps},
		Coq:      fmt.Sprintf("LoopCase %s %s %s [%s] [%s]", emit.Bytes(in.Secret), emit.Bytes(drawn), emit.Bytes([]byte(dp.Net.Addr(0).String())), strings.Join(hellosCoq, ";\n   "), strings.Join(rs, ";\n   "))})
}

func runC18(p params) error {
	out := emit.New(p.out, "C18", "V.Corr.Run_C18", "case",
		"cookie bytes / covered-field encodings / cookies presented under changed address, fields, secret, cookie byte / scripted ClientHello sequences against a real server; non-trivial = the presented tuple differs from the issued one, or a sequence of at least two hellos; distinct by Coq term")
	out.ShardBytes = 6000
	if p.replay != "" {
		b, err := os.ReadFile(p.replay)
		if err != nil {
			return err
		}
		var rp struct {
			Cases []struct {
				Scenario string   `json:"scenario"`
				Input    c18Input `json:"input"`
			} `json:"cases"`
		}
		if err := json.Unmarshal(b, &rp); err != nil {
			return err
		}
		for _, c := range rp.Cases {
			c18AddCase(out, c.Scenario, c.Input)
		}
		return out.Finish()
	}
	r := rand.New(rand.NewPCG(p.seed, 0xC18))
	rb := func(n int) []byte {
		b := make([]byte, n)
		for i := range b {
			b[i] = byte(r.IntN(256))
		}
		return b
	}
	addrs := []string{"10.0.0.1:4000", "1.1.1.1:5", "1.1.1.1:55", "[::1]:443", "a", "", "192.168.100.200:65535"}
	mkHello := func() c18Hello {
		h := c18Hello{Vers: 0x0101, Random: rb(32), SID: rb([]int{0, 0, 32, 5}[r.IntN(4)]), Suites: []uint16{0xe053, 0xe013}, Comp: []byte{0}}
		if r.IntN(3) == 0 {
			h.Suites = []uint16{0xe013, 0xe011, 0xe051, 0x1234}[:1+r.IntN(4)]
		}
		if r.IntN(5) == 0 {
			h.Comp = []byte{1, 0}
		}
		if r.IntN(6) == 0 {
			h.Vers = []uint16{0x0100, 0x3501, 0x0102}[r.IntN(3)]
		}
		return h
	}
	scale := 1
	if p.tier == "thorough" {
		scale = 12
	}
	// corpus: the pre-fix collision
	{
		pp := rb(40)
		c18AddCase(out, "verify-corpus-f10", c18Input{Kind: "verify", Secret: []byte("s3cret"), Addr: "1.1.1.1:5", Params: append([]byte{0x35}, pp...),
			Secret2: []byte("s3cret"), Addr2: "1.1.1.1:55", Params2: pp, Flip: -1})
	}
	for i := 0; i < 25*scale; i++ {
		c18AddCase(out, "cookie", c18Input{Kind: "cookie", Secret: rb([]int{0, 1, 16, 32, 64, 65, 100}[r.IntN(7)]), Addr: addrs[r.IntN(len(addrs))], Params: rb(r.IntN(120))})
		h := mkHello()
		c18AddCase(out, "params", c18Input{Kind: "params", Hello: &h})
	}
	for i := 0; i < 60*scale; i++ {
		secret, addr, params := rb(16), addrs[r.IntN(len(addrs))], rb(40+r.IntN(30))
		in := c18Input{Kind: "verify", Secret: secret, Addr: addr, Params: params, Secret2: secret, Addr2: addr, Params2: params, Flip: -1}
		sc := "verify-same"
		switch r.IntN(7) {
		case 0:
			in.Secret2 = rb(16)
			sc = "verify-other-secret"
		case 1:
			in.Addr2 = addrs[r.IntN(len(addrs))]
			sc = "verify-other-addr"
		case 2:
			q := append([]byte(nil), params...)
			q[r.IntN(len(q))] ^= byte(1 << r.IntN(8))
			in.Params2 = q
			sc = "verify-changed-field"
		case 3:
			in.Flip = r.IntN(33)
			sc = "verify-cookie-byte"
		case 4: // shift bytes between address and parameters
			if len(addr) > 1 {
				k := 1 + r.IntN(len(addr)-1)
				in.Addr2 = addr[:k]
				in.Params2 = append([]byte(addr[k:]), params...)
				sc = "verify-boundary-shift"
			}
		case 5:
			in.Addr2 = addr + string(rune(params[0]))
			in.Params2 = params[1:]
			sc = "verify-boundary-shift"
		}
		c18AddCase(out, sc, in)
	}
	if p.tier == "thorough" {
		// every single-byte change of a valid cookie (x 8 bits is covered by position-dependent bit)
		secret, params := rb(32), rb(50)
		for i := 0; i < 33; i++ {
			c18AddCase(out, "verify-every-cookie-byte", c18Input{Kind: "verify", Secret: secret, Addr: addrs[0], Params: params, Secret2: secret, Addr2: addrs[0], Params2: params, Flip: i})
		}
		out.Extra["exhaustive"] = "every single-byte change (and truncation) of one valid cookie"
	}
	// loop
	kinds := []string{"none", "valid", "prev", "flip:3", "foreign", "short", "none"}
	for i := 0; i < 14*scale; i++ {
		n := 2 + r.IntN(5)
		var hs []c18Hello
		base := mkHello()
		base.Vers = 0x0101
		base.Suites = []uint16{0xe053, 0xe013}
		base.Comp = []byte{0}
		for j := 0; j < n; j++ {
			h := base
			if r.IntN(3) == 0 { // change one covered field
				switch r.IntN(4) {
				case 0:
					h.Random = rb(32)
				case 1:
					h.SID = rb(32)
				case 2:
					h.Suites = []uint16{0xe013}
				case 3:
					h.Comp = []byte{0, 1}
				}
			}
			h.Cookie = kinds[r.IntN(len(kinds))]
			if j == 0 {
				h.Cookie = "none"
			}
			hs = append(hs, h)
			base = h
			base.Cookie = ""
		}
		secret := rb(32)
		if i%5 == 4 {
			secret = nil
		}
		in := c18Input{Kind: "loop", Secret: secret, Hellos: hs, Suite: []uint16{0xe053, 0xe013}[r.IntN(2)], Addr: []string{"", "1.1.1.1:5", "10.1.2.3:40000"}[r.IntN(3)]}
		sc := "loop"
		if secret == nil {
			// no secret configured (nil or empty): the connection draws its own from Config.Rand; cookies
			// computed under the empty key or issued by another connection are worth nothing
			sc = "loop-unconfigured-secret"
			in.SecretEmpty = i%2 == 0
			if i%10 != 9 {
				in.RandSeed = 1 + r.Uint64N(1<<40)
			}
			for j := 1; j < len(in.Hellos); j += 2 {
				in.Hellos[j].Cookie = "emptykey"
			}
		}
		c18AddCase(out, sc, in)
	}
	// the first hello offers a higher version than the one negotiated: its cookie covers the version it said, and is
	// worth nothing for a hello that says another
	for k, v := range []uint16{0x0102, 0x0201, 0x0101} {
		h := mkHello()
		h.Vers, h.Suites, h.Comp = v, []uint16{0xe053, 0xe013}, []byte{0}
		h1, h2, h3 := h, h, h
		h1.Cookie, h2.Cookie, h3.Cookie = "none", "prev", "prev"
		h2.Vers = []uint16{0x0101, 0x0101, 0x0102}[k]
		c18AddCase(out, "loop-version-changed", c18Input{Kind: "loop", Secret: rb(32), Hellos: []c18Hello{h1, h2, h3}, Suite: 0xe013, Addr: "10.1.2.3:40000"})
	}
	// hellos that differ only in a way a decoder might normalise away (a repeated or reordered or unknown suite, a
	// repeated compression method): the cookie covers the bytes that were sent, so the first one's cookie is worth
	// nothing for the second
	for k, v := range [][]uint16{{0xe053, 0xe053, 0xe013}, {0xe013, 0xe053}, {0xe053, 0xe013, 0x00ff}, {0xe053, 0xe013, 0xe013}, {0xe053, 0xe013}} {
		h := mkHello()
		h.Vers, h.Suites, h.Comp = 0x0101, []uint16{0xe053, 0xe013}, []byte{0}
		h1, h2, h3 := h, h, h
		h1.Cookie, h2.Cookie, h3.Cookie = "none", "prev", "prev"
		h2.Suites = v
		if k == 4 {
			h2.Comp = []byte{0, 0}
		}
		c18AddCase(out, "loop-same-meaning-other-bytes", c18Input{Kind: "loop", Secret: rb(32), Hellos: []c18Hello{h1, h2, h3}, Suite: []uint16{0xe053, 0xe013}[k%2], Addr: "10.1.2.3:40000"})
	}
	// no secret configured: the cookie one connection issued is worth nothing on the next connection of the same
	// configuration / listener (each connection draws its own secret)
	for k := 0; k < 4; k++ {
		h := mkHello()
		h.Vers, h.Suites, h.Comp = 0x0101, []uint16{0xe053, 0xe013}, []byte{0}
		c18AddCase(out, "other-connection-"+[]string{"server", "listener"}[k%2], c18Input{Kind: "otherconn", Kind2: []string{"server", "listener"}[k%2], Hello: &h, Addr: "10.1.2.3:40000", SecretEmpty: k >= 2})
	}
	// the hellos name a session the server holds in its cache: a cookie is still required first
	for k := 0; k < 3; k++ {
		h := mkHello()
		h.Vers, h.Suites, h.Comp = 0x0101, []uint16{0xe053, 0xe013}, []byte{0}
		if k == 2 {
			h.Suites = []uint16{0xe011} // resumption will be declined: the full flight would follow
		}
		h1, h2 := h, h
		h1.Cookie, h2.Cookie = "none", "flip:5"
		c18AddCase(out, "loop-cached-session-id", c18Input{Kind: "loop", Secret: rb(32), Cached: true, Hellos: []c18Hello{h1, h2, h1}, Suite: []uint16{0xe053, 0xe013, 0xe013}[k], Addr: "10.1.2.3:40000"})
	}
	// UDP addresses that differ only in the IPv6 zone, the port, or not at all
	for _, a2 := range []string{"fe80::1%eth1|40000", "fe80::1|40000", "fe80::1%eth0|40001", "fe80::3%eth0|40000", "fe80::1%eth0|40000"} {
		h := mkHello()
		h.Vers, h.Suites, h.Comp = 0x0101, []uint16{0xe013}, []byte{0}
		c18AddCase(out, "cookie-from-another-udp-address", c18Input{Kind: "foreign", Secret: rb(32), Addr: "fe80::1%eth0|40000", Addr2: a2, Hello: &h})
	}
	// directed: unconfigured secret in both spellings, the forged empty-key cookie first
	for k := 0; k < 2; k++ {
		h := mkHello()
		h.Vers, h.Suites, h.Comp = 0x0101, []uint16{0xe053, 0xe013}, []byte{0}
		h1, h2, h3 := h, h, h
		h1.Cookie, h2.Cookie, h3.Cookie = "emptykey", "none", "valid"
		c18AddCase(out, "loop-unconfigured-secret", c18Input{Kind: "loop", SecretEmpty: k == 1, RandSeed: 77 + uint64(k), Hellos: []c18Hello{h1, h2, h3}, Suite: 0xe013, Addr: "10.1.2.3:40000"})
	}
	// configurations used through Config.Clone carry the fields this property depends on
	cloneCases(out, []string{"dtlcp"}, map[string][]string{"dtlcp": {"CookieSecret", "Rand", "GetConfigForClient"}})
	return out.Finish()
}

func init() { register("C18", runC18) }
