package main

// C16 (window level): drives dtlcp's replayWindow (as configured through Config.ReplayWindow)
// with delivery sequences and records every accept/reject decision for Model/Replay.v.
// The connection-level part (forgeries, both read paths) is in c16conn.go.

import (
	"encoding/json"
	"fmt"
	"math/rand/v2"
	"os"
	"strings"

	"gitee.com/Trisia/gotlcp/dtlcp"
	"verifharness/internal/emit"
)

type c16Input struct {
	Cfg  int      `json:"cfg"`
	Seqs []uint64 `json:"seqs"`
}

func c16Run(in c16Input) []bool {
	w := dtlcp.VerifNewReplayWindow(in.Cfg)
	res := make([]bool, len(in.Seqs))
	for i, s := range in.Seqs {
		res[i] = w.Check(s)
	}
	return res
}

func c16Add(out *emit.Out, scenario string, in c16Input) {
	res := c16Run(in)
	var bs []string
	for _, b := range res {
		bs = append(bs, emit.Bool(b))
	}
	dup := false
	seen := map[uint64]bool{}
	for _, s := range in.Seqs {
		if seen[s] {
			dup = true
		}
		seen[s] = true
	}
	scen := scenario
	if in.Cfg > 64 {
		scen += "/size>64"
	} else {
		scen += "/size<=64"
	}
	out.Add(emit.Case{Scenario: scen, Trivial: !dup || len(in.Seqs) < 3, Input: in, Observed: res,
		Coq: fmt.Sprintf("mkCase (%d)%%Z %s [%s]", in.Cfg, emit.ListN(in.Seqs), strings.Join(bs, ";"))})
}

func c16Boundary(cfg int, base uint64) []uint64 {
	eff := cfg
	if cfg <= 0 {
		eff = 64
	}
	if eff < 32 {
		eff = 32
	}
	xs := []uint64{base, base + 1, base - 1, base - 31, base - 32, base - 33, base - 63, base - 64, base - 65,
		base - uint64(eff) + 1, base - uint64(eff), base - uint64(eff) - 1, base + uint64(eff), base + 64, base + 63, 0, 1}
	return xs
}

func runC16(p params) error {
	out := emit.New(p.out, "C16", "V.Corr.Run_C16", "case",
		"delivery sequences (with duplicates and replays) of sequence numbers around the window boundaries fed to the replay window configured by Config.ReplayWindow; non-trivial = contains a repeated number and length>=3; distinct by Coq term")
	out.ShardMax = 400
	if p.replay != "" {
		b, err := os.ReadFile(p.replay)
		if err != nil {
			return err
		}
		var rp struct {
			Cases []struct {
				Scenario string          `json:"scenario"`
				Input    json.RawMessage `json:"input"`
			} `json:"cases"`
		}
		if err := json.Unmarshal(b, &rp); err != nil {
			return err
		}
		for _, c := range rp.Cases {
			if strings.HasPrefix(c.Scenario, "conn") {
				if err := c16ConnReplay(out, c.Scenario, c.Input); err != nil {
					return err
				}
				continue
			}
			var in c16Input
			if err := json.Unmarshal(c.Input, &in); err != nil {
				return err
			}
			c16Add(out, strings.SplitN(c.Scenario, "/", 2)[0], in)
		}
		return out.Finish()
	}
	r := rand.New(rand.NewPCG(p.seed, 0xC16))
	// corpus
	c16Add(out, "corpus", c16Input{160, []uint64{100, 0, 0}})
	c16Add(out, "corpus", c16Input{128, []uint64{200, 100, 100, 136, 137, 137, 136}})
	c16Add(out, "corpus", c16Input{0, []uint64{0, 0, 1, 1, 0}})
	c16Add(out, "corpus", c16Input{16, []uint64{100, 69, 68, 69, 68}})
	sizes := []int{-5, 0, 1, 16, 31, 32, 33, 48, 63, 64, 65, 66, 96, 127, 128, 129, 160}
	nPer := 14
	if p.tier == "thorough" {
		sizes = sizes[:4]
		for s := 32; s <= 160; s++ {
			sizes = append(sizes, s)
		}
		nPer = 40
		// exhaustive: all sequences of length 4 over 6 boundary numbers, every size 32..160
		for s := 32; s <= 160; s++ {
			base := uint64(1000)
			eff := uint64(s)
			nums := []uint64{base, base - 63, base - 64, base - eff + 1, base - eff, base + 1}
			var rec func(cur []uint64)
			rec = func(cur []uint64) {
				if len(cur) == 4 {
					c16Add(out, "exhaustive-len4", c16Input{s, append([]uint64{base}, cur...)})
					return
				}
				for _, n := range nums {
					rec(append(cur, n))
				}
			}
			rec(nil)
		}
		out.Extra["exhaustive"] = "all sequences of 4 deliveries over {B, B-63, B-64, B-size+1, B-size, B+1} after B, for every size 32..160"
	}
	for _, cfg := range sizes {
		for i := 0; i < nPer; i++ {
			base := uint64(500 + r.IntN(2000))
			if i%7 == 6 {
				base = (1 << 48) - 1 - uint64(r.IntN(100)) - 200
			}
			pool := c16Boundary(cfg, base)
			n := 4 + r.IntN(14)
			seqs := make([]uint64, n)
			for j := range seqs {
				switch x := r.IntN(10); {
				case x < 6:
					seqs[j] = pool[r.IntN(len(pool))]
				case x < 8 && j > 0:
					seqs[j] = seqs[r.IntN(j)] // replay
				default:
					seqs[j] = base - 170 + uint64(r.IntN(340))
				}
			}
			c16Add(out, "random-boundary", c16Input{cfg, seqs})
		}
	}
	// long random walks
	nLong := 20
	if p.tier == "thorough" {
		nLong = 300
	}
	for i := 0; i < nLong; i++ {
		cfg := sizes[r.IntN(len(sizes))]
		cur := uint64(300)
		var seqs []uint64
		for j := 0; j < 120; j++ {
			switch r.IntN(4) {
			case 0:
				cur += uint64(1 + r.IntN(3))
				seqs = append(seqs, cur)
			case 1:
				seqs = append(seqs, cur-uint64(r.IntN(180)))
			case 2:
				if len(seqs) > 0 {
					seqs = append(seqs, seqs[r.IntN(len(seqs))])
				}
			default:
				cur += uint64(r.IntN(200))
				seqs = append(seqs, cur)
			}
		}
		c16Add(out, "random-walk", c16Input{cfg, seqs})
	}
	if err := c16ConnGen(out, p, r); err != nil {
		return err
	}
	// configurations used through Config.Clone carry the fields this property depends on
	cloneCases(out, []string{"dtlcp"}, map[string][]string{"dtlcp": {"ReplayWindow"}})
	return out.Finish()
}

func init() { register("C16", runC16) }
