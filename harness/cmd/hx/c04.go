package main

// C04: key schedule and record protection match an independent reading of GB/T 38636.
//
// Every case is one captured connection.  The harness only captures and cuts bytes; every
// cryptographic computation of the check (PRF, key block, SM4-CBC / SM4-GCM, HMAC-SM3, Finished)
// is done by the Gallina specification in coq/Spec.  What Coq receives:
//   - the handshake messages of the transcript, in order, taken from the plaintext records
//   - every protected record of each direction as raw wire bytes (Finished, data, alerts)
//   - ECC suites: the pre-master secret (ClientKeyExchange decrypted with the server's
//     encryption key by gmsm) and the hello randoms of the handshake that created the session;
//     ECDHE suites: nothing (the master secret of the session cache is trusted)
//   - the master secret stored by both session caches
//   - the bytes the two applications wrote
//   - CBC: the explicit IVs predicted from the seeded Config.Rand stream
//
// Resumed DTLCP connections are captured over a network that forwards one record per datagram,
// because the abbreviated handshake does not complete otherwise (finding F19, shown by a
// separate case of every such scenario).

import (
	"encoding/hex"
	"encoding/json"
	"fmt"
	"io"
	"math/rand/v2"
	"os"
	"strings"
	"sync"
	"time"

	"gitee.com/Trisia/gotlcp/dtlcp"
	"gitee.com/Trisia/gotlcp/tlcp"
	"github.com/emmansun/gmsm/sm2"
	"verifharness/internal/emit"
	"verifharness/internal/tk"
)

type c04Input struct {
	Stack   string `json:"stack"` // "tlcp" | "dtlcp"
	Suite   uint16 `json:"suite"`
	Auth    bool   `json:"auth"`    // server requires and verifies a client certificate
	Resumed bool   `json:"resumed"` // capture the second (resumed) connection of a session
	SeedC   uint64 `json:"seed_c"`  // Config.Rand seeds
	SeedS   uint64 `json:"seed_s"`
	WritesC []int  `json:"writes_c"` // application writes of the client, then of the server
	WritesS []int  `json:"writes_s"`
	PaySeed uint64 `json:"pay_seed"`
	SeqBase uint64 `json:"seq_base,omitempty"` // dtlcp: both ends continue at this record sequence number after the handshake
}

// c04Capture is what one connection left on the wire and in the endpoints.
type c04Capture struct {
	ok       bool
	why      string
	hs       [][]byte    // transcript messages in order (before the Finished messages)
	prot     [2][][]byte // protected records, [0] client->server, [1] server->client
	wrote    [2][]byte   // application bytes written by client / server
	got      [2][]byte   // application bytes received from client / from server
	randAt   [2]int      // Config.Rand bytes consumed when the handshake had completed
	resumed  [2]bool
	suite    uint16
	ckx      []byte // ClientKeyExchange body
	cr, sr   []byte
	sid      []byte
	finished [2][]byte // verify_data recorded by the client endpoint (client, server)
}

func c04IsECDHE(s uint16) bool { return s == 0xe051 || s == 0xe011 }
func c04IsCBC(s uint16) bool   { return s == 0xe013 || s == 0xe011 }

func c04Payload(seed uint64, who, i, n int) []byte {
	r := rand.New(rand.NewPCG(seed, uint64(who*1000+i)))
	p := make([]byte, n)
	for j := range p {
		p[j] = byte(r.IntN(256))
	}
	return p
}

// ---------------------------------------------------------------- transcript assembly

// c04Assembler turns plaintext handshake records into whole handshake messages in the order they
// were first seen on the wire.
type c04Assembler struct {
	dtls bool
	buf  [2][]byte              // tlcp: handshake byte stream per direction
	frag map[[2]int]*c04FragBuf // dtlcp: (dir, message_seq)
	msgs [][]byte
}

type c04FragBuf struct {
	typ   byte
	total int
	data  []byte
	have  []bool
	done  bool
}

func (a *c04Assembler) feed(dir int, payload []byte) {
	if !a.dtls {
		a.buf[dir] = append(a.buf[dir], payload...)
		for len(a.buf[dir]) >= 4 {
			n := int(a.buf[dir][1])<<16 | int(a.buf[dir][2])<<8 | int(a.buf[dir][3])
			if len(a.buf[dir]) < 4+n {
				break
			}
			a.msgs = append(a.msgs, append([]byte(nil), a.buf[dir][:4+n]...))
			a.buf[dir] = a.buf[dir][4+n:]
		}
		return
	}
	if a.frag == nil {
		a.frag = map[[2]int]*c04FragBuf{}
	}
	for len(payload) >= 12 {
		typ := payload[0]
		total := int(payload[1])<<16 | int(payload[2])<<8 | int(payload[3])
		mseq := int(payload[4])<<8 | int(payload[5])
		off := int(payload[6])<<16 | int(payload[7])<<8 | int(payload[8])
		fl := int(payload[9])<<16 | int(payload[10])<<8 | int(payload[11])
		if len(payload) < 12+fl || off+fl > total {
			return
		}
		key := [2]int{dir, mseq}
		fb := a.frag[key]
		if fb == nil {
			fb = &c04FragBuf{typ: typ, total: total, data: make([]byte, total), have: make([]bool, total)}
			a.frag[key] = fb
		}
		copy(fb.data[off:], payload[12:12+fl])
		for i := off; i < off+fl; i++ {
			fb.have[i] = true
		}
		payload = payload[12+fl:]
		if fb.done {
			continue
		}
		complete := true
		for _, h := range fb.have {
			if !h {
				complete = false
				break
			}
		}
		if complete {
			fb.done = true
			// the unfragmented form: fragment_offset 0, fragment_length = length
			m := []byte{typ, byte(total >> 16), byte(total >> 8), byte(total), byte(mseq >> 8), byte(mseq), 0, 0, 0,
				byte(total >> 16), byte(total >> 8), byte(total)}
			a.msgs = append(a.msgs, append(m, fb.data...))
		}
	}
}

// transcript drops HelloVerifyRequest and every ClientHello but the last (cookie exchange).
func (a *c04Assembler) transcript() [][]byte {
	lastCH := -1
	for i, m := range a.msgs {
		if m[0] == 1 {
			lastCH = i
		}
	}
	var out [][]byte
	for i, m := range a.msgs {
		if m[0] == 3 || (m[0] == 1 && i != lastCH) {
			continue
		}
		out = append(out, m)
	}
	return out
}

func c04Fill(cp *c04Capture, asm *c04Assembler) {
	cp.hs = asm.transcript()
	hl := 4
	if asm.dtls {
		hl = 12
	}
	for _, m := range cp.hs {
		b := m[hl:]
		switch m[0] {
		case 1:
			if len(b) >= 34 {
				cp.cr = b[2:34]
			}
		case 2:
			if len(b) >= 35 && len(b) >= 35+int(b[34]) {
				cp.sr = b[2:34]
				cp.sid = b[35 : 35+int(b[34])]
			}
		case 16:
			cp.ckx = b
		}
	}
}

// ---------------------------------------------------------------- running one connection

type c04Endpoints struct {
	reg    *tk.Registry
	ccT    *tlcp.Config
	scT    *tlcp.Config
	ccD    *dtlcp.Config
	scD    *dtlcp.Config
	rnd    [2]*tk.DetRand
	cliDst string
}

func c04Build(in c04Input) *c04Endpoints {
	e := &c04Endpoints{reg: tk.NewRegistry()}
	cc := tk.EPConfig{Suites: []uint16{in.Suite}, Ident: "none", ServerName: "server.test", Cache: "cli", CacheCap: 8, RandSeed: in.SeedC}
	sc := tk.EPConfig{Ident: "srv", Cache: "srv", CacheCap: 8, RandSeed: in.SeedS}
	if in.Auth {
		cc.Ident = "cli"
		sc.Auth = 4
	}
	if in.Stack == "tlcp" {
		e.ccT, e.scT = tk.BuildTLCP(cc, e.reg), tk.BuildTLCP(sc, e.reg)
		e.rnd[0], e.rnd[1] = e.ccT.Rand.(*tk.DetRand), e.scT.Rand.(*tk.DetRand)
	} else {
		e.ccD, e.scD = tk.BuildDTLCP(cc, e.reg), tk.BuildDTLCP(sc, e.reg)
		e.rnd[0], e.rnd[1] = e.ccD.Rand.(*tk.DetRand), e.scD.Rand.(*tk.DetRand)
	}
	return e
}

func (e *c04Endpoints) runTLCP(in c04Input, wc, ws []int) *c04Capture {
	cp := &c04Capture{}
	tp := tk.NewTPair(e.ccT, e.scT)
	e.cliDst = tp.CliRaw.RemoteAddr().String()
	asm := &c04Assembler{}
	var mu sync.Mutex
	ccs := [2]bool{}
	tap := func(dir int) func(int, []byte) [][]byte {
		return func(_ int, rec []byte) [][]byte {
			mu.Lock()
			defer mu.Unlock()
			cpy := append([]byte(nil), rec...)
			switch {
			case ccs[dir]:
				cp.prot[dir] = append(cp.prot[dir], cpy)
			case rec[0] == 20:
				ccs[dir] = true
			case rec[0] == 22:
				asm.feed(dir, cpy[5:])
			}
			return [][]byte{rec}
		}
	}
	tp.C2S.Edit, tp.S2C.Edit = tap(0), tap(1)
	cr, sr, hung := tp.Handshake(10 * time.Second)
	if hung || cr.Err != "" || sr.Err != "" {
		cp.why = fmt.Sprintf("handshake failed: client %q %s / server %q %s", cr.Err, cr.ErrText, sr.Err, sr.ErrText)
		tp.Close()
		return cp
	}
	cp.resumed = [2]bool{cr.Resumed, sr.Resumed}
	cp.suite = cr.Suite
	cp.finished = [2][]byte{cr.ClientFinished, cr.ServerFinished}
	cp.randAt = [2]int{e.rnd[0].N, e.rnd[1].N}
	total := func(xs []int) (t int) {
		for _, x := range xs {
			t += x
		}
		return
	}
	var wg sync.WaitGroup
	wg.Add(2)
	go func() { // client: write, read the server's bytes, close_notify, wait for the peer's
		defer wg.Done()
		for i, n := range wc {
			p := c04Payload(in.PaySeed, 0, i, n)
			cp.wrote[0] = append(cp.wrote[0], p...)
			if _, err := tp.Cli.Write(p); err != nil {
				return
			}
		}
		buf := make([]byte, total(ws))
		k, _ := io.ReadFull(tp.Cli, buf)
		cp.got[1] = buf[:k]
		tp.Cli.CloseWrite()
		io.ReadFull(tp.Cli, make([]byte, 1))
		tp.Cli.Close()
	}()
	go func() {
		defer wg.Done()
		buf := make([]byte, total(wc))
		k, _ := io.ReadFull(tp.Srv, buf)
		cp.got[0] = buf[:k]
		for i, n := range ws {
			p := c04Payload(in.PaySeed, 1, i, n)
			cp.wrote[1] = append(cp.wrote[1], p...)
			if _, err := tp.Srv.Write(p); err != nil {
				return
			}
		}
		io.ReadFull(tp.Srv, make([]byte, 1)) // EOF after the client's close_notify
		tp.Srv.Close()
	}()
	done := make(chan struct{})
	go func() { wg.Wait(); close(done) }()
	select {
	case <-done:
	case <-time.After(20 * time.Second):
		cp.why = "hang after handshake"
		tp.Close()
		<-done
		return cp
	}
	tp.Close()
	mu.Lock()
	defer mu.Unlock()
	c04Fill(cp, asm)
	cp.ok = true
	return cp
}

func (e *c04Endpoints) runDTLCP(in c04Input, wc, ws []int, split bool) *c04Capture {
	cp := &c04Capture{}
	dp := tk.NewDPair(e.ccD, e.scD)
	e.cliDst = dp.Net.Addr(1).String()
	asm := &c04Assembler{dtls: true}
	dp.Net.Mangle = func(d *tk.Dgram) [][]byte {
		data := d.Data
		var pieces [][]byte
		for len(data) >= 13 {
			n := int(data[11])<<8 | int(data[12])
			if len(data) < 13+n {
				break
			}
			rec := append([]byte(nil), data[:13+n]...)
			pieces = append(pieces, data[:13+n])
			data = data[13+n:]
			epoch := int(rec[3])<<8 | int(rec[4])
			if epoch > 0 {
				cp.prot[d.From] = append(cp.prot[d.From], rec)
			} else if rec[0] == 22 {
				asm.feed(d.From, rec[13:])
			}
		}
		if split && len(data) == 0 {
			return pieces // one datagram per record
		}
		return [][]byte{d.Data}
	}
	var herr [2]error
	var res [2]tk.EPResult
	hsDone := make(chan struct{}, 2)
	prog := func(id int) func(c *dtlcp.Conn) {
		return func(c *dtlcp.Conn) {
			herr[id] = c.Handshake()
			res[id] = tk.StateDTLCP(c, herr[id])
			cp.randAt[id] = e.rnd[id].N
			hsDone <- struct{}{}
			end := dp.Net.End(id)
			if herr[id] != nil {
				end.Close()
				return
			}
			if in.SeqBase != 0 {
				c.VerifSetWriteSeq(in.SeqBase)
			}
			mine, theirs := wc, ws
			if id == 1 {
				mine, theirs = ws, wc
			}
			write := func() bool {
				for i, n := range mine {
					p := c04Payload(in.PaySeed, id, i, n)
					cp.wrote[id] = append(cp.wrote[id], p...)
					if _, err := c.Write(p); err != nil {
						return false
					}
				}
				return true
			}
			read := func() { // a Write above the maximum payload arrives as several records
				want := 0
				for _, n := range theirs {
					want += n
				}
				buf := make([]byte, 20000)
				for len(cp.got[1-id]) < want {
					c.SetReadDeadline(time.Now().Add(3 * time.Second))
					k, err := c.Read(buf)
					if err != nil {
						return
					}
					cp.got[1-id] = append(cp.got[1-id], buf[:k]...)
				}
			}
			if id == 0 {
				if !write() {
					end.Close()
					return
				}
				read()
				c.CloseWrite()
				c.SetReadDeadline(time.Now().Add(500 * time.Millisecond))
				c.Read(make([]byte, 16)) // the server's close_notify
				c.Close()
			} else {
				read()
				if !write() {
					end.Close()
					return
				}
				c.SetReadDeadline(time.Now().Add(3 * time.Second))
				c.Read(make([]byte, 16)) // EOF after the client's close_notify
				c.CloseWrite()
				c.Close()
			}
		}
	}
	hung := dp.Run(prog(0), prog(1), 30*time.Second)
	if hung || herr[0] != nil || herr[1] != nil {
		cp.why = fmt.Sprintf("handshake failed or hang (hung=%v): client %v / server %v", hung, herr[0], herr[1])
		return cp
	}
	cp.resumed = [2]bool{res[0].Resumed, res[1].Resumed}
	cp.suite = res[0].Suite
	cp.finished = [2][]byte{res[0].ClientFinished, res[0].ServerFinished}
	c04Fill(cp, asm)
	cp.ok = true
	return cp
}

func (e *c04Endpoints) masters(cp *c04Capture) (mc, mc2, ms []byte) {
	key := hex.EncodeToString(cp.sid)
	cp2 := func(b []byte) []byte { return append([]byte(nil), b...) }
	if e.ccT != nil {
		if s, ok := e.ccT.SessionCache.Get(key); ok && s != nil {
			mc = cp2(s.VerifMaster())
		}
		if s, ok := e.ccT.SessionCache.Get(e.cliDst); ok && s != nil {
			mc2 = cp2(s.VerifMaster())
		}
		if s, ok := e.scT.SessionCache.Get(key); ok && s != nil {
			ms = cp2(s.VerifMaster())
		}
		return
	}
	if s, ok := e.ccD.SessionCache.Get(key); ok && s != nil {
		mc = cp2(s.VerifMaster())
	}
	if s, ok := e.ccD.SessionCache.Get(e.cliDst); ok && s != nil {
		mc2 = cp2(s.VerifMaster())
	}
	if s, ok := e.scD.SessionCache.Get(key); ok && s != nil {
		ms = cp2(s.VerifMaster())
	}
	return
}

// predictIVs: the explicit IVs of the records written after the handshake, if they are the
// next 16-byte reads of the seeded Config.Rand.
func c04PredictIVs(seed uint64, at int, n int) [][]byte {
	d := tk.NewDetRand(seed)
	d.Read(make([]byte, at))
	var out [][]byte
	for i := 0; i < n; i++ {
		iv := make([]byte, 16)
		d.Read(iv)
		out = append(out, iv)
	}
	return out
}

func c04Recs(rs [][]byte) string {
	var s []string
	for _, r := range rs {
		s = append(s, emit.Bytes(r))
	}
	return "[" + strings.Join(s, ";\n    ") + "]"
}

func c04AddCase(out *emit.Out, in c04Input) {
	scenario := fmt.Sprintf("%s-%04x-%s-%s", in.Stack, in.Suite, map[bool]string{false: "full", true: "resumed"}[in.Resumed],
		map[bool]string{false: "noauth", true: "auth"}[in.Auth])
	fail := func(why string) {
		out.Add(emit.Case{Scenario: scenario, Input: in, Direct: why, Observed: map[string]interface{}{"why": why}})
	}
	e := c04Build(in)
	split := false
	run := func(in c04Input, wc, ws []int) *c04Capture {
		if in.Stack == "dtlcp" {
			return e.runDTLCP(in, wc, ws, split)
		}
		return e.runTLCP(in, wc, ws)
	}
	var first *c04Capture
	cp := (*c04Capture)(nil)
	if in.Resumed && in.Stack == "dtlcp" {
		// finding F19: the server sends ServerHello, ChangeCipherSpec and Finished of an abbreviated
		// handshake in one datagram and the client rejects the ChangeCipherSpec record because the
		// version is not yet fixed.  Show it, then capture with a network that forwards one
		// record per datagram (fresh endpoints, same seeds).
		if f0 := run(in, []int{3}, []int{5}); f0.ok {
			if r0 := run(in, in.WritesC, in.WritesS); !r0.ok {
				out.Add(emit.Case{Scenario: scenario + "-one-datagram-flight", Input: in, Direct: "abbreviated-handshake-fails",
					Observed: map[string]interface{}{"why": r0.why}})
				e = c04Build(in)
				split = true
			} else {
				first, cp = f0, r0
			}
		}
	}
	if in.Resumed && first == nil {
		first = run(in, []int{3}, []int{5})
		if !first.ok {
			fail("session-creating connection: " + first.why)
			return
		}
	}
	if cp == nil {
		cp = run(in, in.WritesC, in.WritesS)
	}
	if !cp.ok {
		fail(cp.why)
		return
	}
	if cp.resumed[0] != in.Resumed || cp.resumed[1] != in.Resumed {
		fail(fmt.Sprintf("resumption expected %v, endpoints report %v", in.Resumed, cp.resumed))
		return
	}
	if first == nil {
		first = cp
	}
	mc, mc2, ms := e.masters(cp)
	msrc := "MTrusted"
	var pre []byte
	if !c04IsECDHE(in.Suite) {
		// ECC: the pre-master secret is what the server's encryption key decrypts from the
		// ClientKeyExchange of the session-creating handshake
		if len(first.ckx) > 2 {
			key, ok := tk.GetPKI().SrvEnc.Key.(*sm2.PrivateKey)
			if ok {
				pre, _ = key.Decrypt(nil, first.ckx[2:], sm2.ASN1DecrypterOpts)
			}
		}
		msrc = fmt.Sprintf("MPre %s %s %s", emit.Bytes(pre), emit.Bytes(first.cr), emit.Bytes(first.sr))
	}
	var ivs [2][][]byte
	if c04IsCBC(in.Suite) {
		for d := 0; d < 2; d++ {
			n := 0
			off := 5
			if in.Stack == "dtlcp" {
				off = 13
			}
			for _, r := range cp.prot[d] {
				if len(r) > off && r[0] != 22 {
					n++
				}
			}
			seed := in.SeedC
			if d == 1 {
				seed = in.SeedS
			}
			ivs[d] = c04PredictIVs(seed, cp.randAt[d], n)
		}
	}
	form := "HT"
	if in.Stack == "dtlcp" {
		form = "HD"
	}
	nbytes := 0
	for _, m := range cp.hs {
		nbytes += len(m)
	}
	var lens [2][]int
	for d := 0; d < 2; d++ {
		for _, r := range cp.prot[d] {
			lens[d] = append(lens[d], len(r))
			nbytes += len(r)
		}
	}
	var types []int
	for _, m := range cp.hs {
		types = append(types, int(m[0]))
	}
	term := fmt.Sprintf("Conn %s %d %s\n  (%s)\n  %s %s %s\n  %s\n  %s\n  %s\n  %s %s\n  %s %s %d",
		form, in.Suite, emit.Bool(in.Resumed), msrc, emit.Bytes(mc), emit.Bytes(mc2), emit.Bytes(ms),
		c04Recs(cp.hs), c04Recs(cp.prot[0]), c04Recs(cp.prot[1]),
		emit.Bytes(cp.wrote[0]), emit.Bytes(cp.wrote[1]), c04Recs(ivs[0]), c04Recs(ivs[1]), in.SeqBase)
	direct := ""
	if string(cp.got[0]) != string(cp.wrote[0]) || string(cp.got[1]) != string(cp.wrote[1]) {
		direct = "application bytes received differ from the bytes written"
	}
	out.Add(emit.Case{Scenario: scenario, Trivial: false, Input: in, Direct: direct,
		Observed: map[string]interface{}{"transcript_types": types, "c2s_record_lens": lens[0], "s2c_record_lens": lens[1], "bytes_to_coq": nbytes,
			"session_id": hex.EncodeToString(cp.sid), "pre_master_len": len(pre), "client_finished": hex.EncodeToString(cp.finished[0]),
			"server_finished": hex.EncodeToString(cp.finished[1]), "master_len": len(mc), "cbc_ivs_predicted": len(ivs[0]) + len(ivs[1])},
		Coq: term})
}

// c04Interop: ECDHE suites against an independent peer.  The puppet computes the SM2 key agreement with its own code
// (harness/internal/own: the MQV point, Z values and KDF written from GB/T 32918.3 / GB/T 38636 6.4.5.4, roles as the standard
// assigns them: the client initiates), derives master secret, keys and Finished values with its own PRF, and checks the real
// endpoint's Finished.  The real endpoint completes and application data flows both ways only if its pre-master secret is the
// one of the independent computation; two library endpoints that deviate in the same way would still agree with each other.
type c04InteropIn struct {
	Stack  string `json:"stack"`
	Target string `json:"target"` // the real endpoint's role
	Suite  uint16 `json:"suite"`
}

func c04Interop(out *emit.Out, in c04InteropIn) {
	ci := c08Input{Stack: in.Stack, Target: in.Target, Suite: in.Suite, CertReq: true}
	flows := c08Legal(ci)
	ci.Evs = flows[0]
	acc, alert, direct, delivered := c08Run(ci)
	if direct == "" && !acc {
		direct = "ECDHE handshake with an independent implementation of the SM2 key agreement fails: the pre-master secret differs from the standard's"
	} else if direct == "" && delivered == "" {
		direct = "ECDHE connection with an independent implementation delivers no application data: keys differ from the standard's"
	}
	out.Add(emit.Case{Scenario: "ecdhe-independent-peer/" + in.Stack + "-" + in.Target, Trivial: false, Input: in, Direct: direct,
		Observed: map[string]interface{}{"completed": acc, "alert": alert, "delivered": delivered}})
}

func runC04(p params) error {
	out := emit.New(p.out, "C04", "V.Corr.Run_C04", "case",
		"captured connections: suites x full/resumed x client authentication x TLCP/DTLCP, random application writes in both directions; every case is non-trivial (a completed handshake with protected records in both directions); distinct by Coq term")
	out.ShardBytes = 8000
	if p.replay != "" {
		b, err := os.ReadFile(p.replay)
		if err != nil {
			return err
		}
		var rp struct {
			Cases []struct {
				Scenario string          `json:"scenario"`
				Input    json.RawMessage `json:"input"`
			} `json:"cases"`
		}
		if err := json.Unmarshal(b, &rp); err != nil {
			return err
		}
		for _, c := range rp.Cases {
			if strings.HasPrefix(c.Scenario, "ecdhe-independent-peer") {
				var in c04InteropIn
				if err := json.Unmarshal(c.Input, &in); err != nil {
					return err
				}
				c04Interop(out, in)
				continue
			}
			var in c04Input
			if err := json.Unmarshal(c.Input, &in); err != nil {
				return err
			}
			c04AddCase(out, in)
		}
		return out.Finish()
	}
	r := rand.New(rand.NewPCG(p.seed, 0xC04))
	sizes := func(big bool) []int {
		k := 1 + r.IntN(3)
		var xs []int
		for i := 0; i < k; i++ {
			xs = append(xs, 1+r.IntN(200))
		}
		if big {
			xs = append(xs, 600+r.IntN(600))
		}
		return xs
	}
	rounds := 1
	if p.tier == "thorough" {
		rounds = 10
	}
	for round := 0; round < rounds; round++ {
		for _, stack := range []string{"tlcp", "dtlcp"} {
			for _, suite := range []uint16{0xe053, 0xe013, 0xe051, 0xe011} {
				for _, resumed := range []bool{false, true} {
					for _, auth := range []bool{false, true} {
						if c04IsECDHE(suite) && !auth {
							continue // GB/T 38636 6.4.5.8: ECDHE requires the client certificate
						}
						in := c04Input{Stack: stack, Suite: suite, Auth: auth, Resumed: resumed,
							SeedC: 1 + r.Uint64N(1<<40), SeedS: 1 + r.Uint64N(1<<40), PaySeed: r.Uint64(),
							WritesC: sizes(r.IntN(6) == 0), WritesS: sizes(r.IntN(6) == 0)}
						if p.tier == "thorough" && r.IntN(4) == 0 {
							in.WritesC = append(in.WritesC, 1200+r.IntN(3000))
						}
						if stack == "dtlcp" && (resumed || round%2 == 1) {
							// application records at sequence numbers above 2^32 (all six bytes of the number in use)
							in.SeqBase = []uint64{1<<32 + 5, 1<<40 + 3, 1 << 47, 0xa1b2c3d4e5, 0xfffffffff0}[r.IntN(5)]
						}
						c04AddCase(out, in)
					}
				}
			}
		}
	}
	// ECDHE against an independent implementation of the key agreement (both roles, both stacks, both modes)
	for _, st := range []string{"tlcp", "dtlcp"} {
		for _, su := range []uint16{0xe051, 0xe011} {
			for _, tg := range []string{"server", "client"} {
				c04Interop(out, c04InteropIn{Stack: st, Target: tg, Suite: su})
			}
		}
	}
	return out.Finish()
}

func init() { register("C04", runC04) }
