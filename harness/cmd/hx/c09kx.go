package main

// C09, key-exchange parsers: the real processClientKeyExchange / processServerKeyExchange /
// getECDHEPublicKey / generateClientKeyExchange of both packages are called through the add-only
// hooks on honest and malformed bodies; instrumented keys record what reached the cryptographic
// library.

import (
	"crypto"
	"crypto/ecdsa"
	"crypto/rand"
	"errors"
	"fmt"
	"io"

	"gitee.com/Trisia/gotlcp/dtlcp"
	"gitee.com/Trisia/gotlcp/tlcp"
	"github.com/emmansun/gmsm/ecdh"
	"github.com/emmansun/gmsm/sm2"
	x509 "github.com/emmansun/gmsm/smx509"
	"verifharness/internal/emit"
	"verifharness/internal/tk"
)

type c09Kx struct {
	Stack  string `json:"stack"`
	Parser string `json:"parser"` // ecc-ckx | pub | ecdhe-ckx | ecc-skx | ecdhe-skx | gen-ecc | gen-ecdhe
	Body   string `json:"body"`   // hex
	Certs  string `json:"certs,omitempty"`
	Own    string `json:"own,omitempty"` // gen-ecdhe: the client's own encryption key pair: none | sm2 | rsa
	Vector bool   `json:"vector,omitempty"`
}

// recDecrypter records what is handed to Decrypt.
type recDecrypter struct {
	inner  crypto.Decrypter
	in     [][]byte
	outLen []int
}

func (r *recDecrypter) Public() crypto.PublicKey { return r.inner.Public() }
func (r *recDecrypter) Decrypt(rd io.Reader, msg []byte, opts crypto.DecrypterOpts) ([]byte, error) {
	r.in = append(r.in, append([]byte{}, msg...))
	out, err := r.inner.Decrypt(rd, msg, opts)
	if err != nil {
		r.outLen = append(r.outLen, -1)
	} else {
		r.outLen = append(r.outLen, len(out))
	}
	return out, err
}

// fakeKE is an SM2KeyAgreement (both packages) that records the temporary key it is given.
type fakeKE struct {
	tmp []byte
}

func (f *fakeKE) GenerateAgreementData(sponsorId []byte, keyLen int) (*ecdh.PublicKey, *ecdh.PublicKey, error) {
	return nil, nil, errors.New("not used")
}
func (f *fakeKE) GenerateKey(responseId []byte, responsePubKey, responseTmpPubKey *ecdh.PublicKey) ([]byte, error) {
	f.tmp = responseTmpPubKey.Bytes()
	return make([]byte, 48), nil
}
func (f *fakeKE) GenerateAgreementDataAndKey(responseId, sponsorId []byte, sponsorPubKey, sponsorTmpPubKey *ecdh.PublicKey, keyLen int) (*ecdh.PublicKey, []byte, error) {
	return nil, nil, errors.New("not used")
}

func c09Cls(err error, sentinel bool) int {
	switch {
	case err == nil:
		return 0
	case sentinel:
		return 1
	}
	return 2
}

func c09Guard(f func() int) (cls int, pan string) {
	defer func() {
		if r := recover(); r != nil {
			cls, pan = 9, fmt.Sprint(r)
		}
	}()
	return f(), ""
}

// certificate lists by name: elements sm2 | rsa | p256 | ed
func c09Leaves(spec string, client bool) []*tk.Leaf {
	pk := tk.GetPKI()
	var out []*tk.Leaf
	if spec == "" {
		return nil
	}
	for i, k := range splitComma(spec) {
		enc := i == 1
		var l *tk.Leaf
		switch k {
		case "sm2":
			switch {
			case client && enc:
				l = pk.CliEnc
			case client:
				l = pk.CliSig
			case enc:
				l = pk.SrvEnc
			default:
				l = pk.SrvSig
			}
		case "rsa":
			l = pk.RSASig
			if enc {
				l = pk.RSAEnc
			}
		case "p256":
			l = pk.P256Sig
			if enc {
				l = pk.P256Enc
			}
		case "ed":
			l = pk.EdSig
			if enc {
				l = pk.EdEnc
			}
		default:
			panic("c09: unknown key kind " + k)
		}
		out = append(out, l)
	}
	return out
}

func splitComma(s string) []string {
	var out []string
	cur := ""
	for _, ch := range s {
		if ch == ',' {
			out = append(out, cur)
			cur = ""
		} else {
			cur += string(ch)
		}
	}
	return append(out, cur)
}

func c09Kinds(spec string) string {
	if spec == "" {
		return "[]"
	}
	var ks []string
	for _, k := range splitComma(spec) {
		ks = append(ks, map[string]string{"sm2": "KSm2", "rsa": "KRsa", "p256": "KEcOther", "ed": "KOtherKey"}[k])
	}
	s := "["
	for i, k := range ks {
		if i > 0 {
			s += ";"
		}
		s += k
	}
	return s + "]"
}

func certsOf(ls []*tk.Leaf) []*x509.Certificate {
	var out []*x509.Certificate
	for _, l := range ls {
		out = append(out, l.Cert)
	}
	return out
}

func optBytes(ok bool, b []byte) string {
	if !ok {
		return "None"
	}
	return "(Some " + emit.Bytes(b) + ")"
}

var c09CR, c09SR = func() ([]byte, []byte) {
	a, b := make([]byte, 32), make([]byte, 32)
	for i := range a {
		a[i], b[i] = byte(i*7+1), byte(i*13+5)
	}
	return a, b
}()

// honest bodies
func c09HonestECCCKX() []byte {
	pk := tk.GetPKI()
	pre := append([]byte{1, 1}, make([]byte, 46)...)
	rand.Read(pre[2:])
	ct, err := sm2.Encrypt(rand.Reader, pk.SrvEnc.Cert.PublicKey.(*ecdsa.PublicKey), pre, sm2.ASN1EncrypterOpts)
	if err != nil {
		panic(err)
	}
	return append([]byte{byte(len(ct) >> 8), byte(len(ct))}, ct...)
}

func c09HonestPub(vector bool) []byte {
	e, err := ecdh.P256().GenerateKey(rand.Reader)
	if err != nil {
		panic(err)
	}
	b := append([]byte{3, 0, 41, 65}, e.PublicKey().Bytes()...)
	if vector {
		b = append([]byte{0, 69}, b...)
	}
	return b
}

func c09SignSM2(key crypto.PrivateKey, tbs []byte) []byte {
	s, ok := key.(crypto.Signer)
	if !ok {
		return []byte{0x30, 0}
	}
	sig, err := s.Sign(rand.Reader, tbs, sm2.NewSM2SignerOption(true, nil))
	if err != nil {
		return []byte{0x30, 0}
	}
	return sig
}

func c09HonestECCSKX(sig, enc *tk.Leaf) []byte {
	tbs := append(append(append([]byte{}, c09CR...), c09SR...), byte(len(enc.DER)>>16), byte(len(enc.DER)>>8), byte(len(enc.DER)))
	tbs = append(tbs, enc.DER...)
	s := c09SignSM2(sig.Key, tbs)
	return append([]byte{byte(len(s) >> 8), byte(len(s))}, s...)
}

func c09HonestECDHESKX(sig *tk.Leaf) []byte {
	params := c09HonestPub(false)
	tbs := append(append(append([]byte{}, c09CR...), c09SR...), params...)
	s := c09SignSM2(sig.Key, tbs)
	return append(append(append([]byte{}, params...), byte(len(s)>>8), byte(len(s))), s...)
}

// independent oracle answers
func c09VerifySM2(leaf *tk.Leaf, tbs, sig []byte) bool {
	pub, ok := leaf.Cert.PublicKey.(*ecdsa.PublicKey)
	if !ok {
		return false
	}
	ok2 := false
	func() {
		defer func() { recover() }()
		ok2 = sm2.VerifyASN1WithSM2(pub, nil, tbs, sig)
	}()
	return ok2
}

func c09PointOK(b []byte) bool {
	_, err := ecdh.P256().NewPublicKey(b)
	return err == nil
}

// c09RunKx runs one parser case and returns the Coq term, the observation and a direct violation.
func c09RunKx(in c09Kx) (coq string, obs map[string]interface{}, direct string) {
	pk := tk.GetPKI()
	body := unhex(in.Body)
	d := in.Stack == "dtlcp"
	obs = map[string]interface{}{}
	var pan string
	switch in.Parser {
	case "ecc-ckx":
		rd := &recDecrypter{inner: pk.SrvEnc.Key.(crypto.Decrypter)}
		var cls int
		cls, pan = c09Guard(func() int {
			if d {
				_, err, s := dtlcp.VerifECCProcessCKX09(&dtlcp.Config{}, &dtlcp.Certificate{Certificate: [][]byte{pk.SrvSig.DER}, PrivateKey: pk.SrvSig.Key},
					&dtlcp.Certificate{Certificate: [][]byte{pk.SrvEnc.DER}, PrivateKey: rd}, body)
				return c09Cls(err, s)
			}
			_, err, s := tlcp.VerifECCProcessCKX09(&tlcp.Config{}, &tlcp.Certificate{Certificate: [][]byte{pk.SrvSig.DER}, PrivateKey: pk.SrvSig.Key},
				&tlcp.Certificate{Certificate: [][]byte{pk.SrvEnc.DER}, PrivateKey: rd}, body)
			return c09Cls(err, s)
		})
		var decIn []byte
		decLen := "None"
		if len(rd.in) > 0 {
			decIn = rd.in[0]
			if rd.outLen[0] >= 0 {
				decLen = fmt.Sprintf("(Some %d%%nat)", rd.outLen[0])
			}
		}
		obs["cls"], obs["decrypt_calls"], obs["dec_len"] = cls, len(rd.in), decLen
		coq = fmt.Sprintf("KxCkxEcc %s %d %s %s", emit.Bytes(body), cls, optBytes(len(rd.in) > 0, decIn), decLen)
	case "pub":
		var cls int
		var point []byte
		cls, pan = c09Guard(func() int {
			if d {
				p, err, s := dtlcp.VerifGetECDHEPublicKey09(body)
				point = p
				return c09Cls(err, s)
			}
			p, err, s := tlcp.VerifGetECDHEPublicKey09(body)
			point = p
			return c09Cls(err, s)
		})
		obs["cls"] = cls
		coq = fmt.Sprintf("KxPub %s %d %s", emit.Bytes(body), cls, optBytes(point != nil, point))
	case "ecdhe-ckx":
		ke := &fakeKE{}
		peer := certsOf(c09Leaves(in.Certs, true))
		var cls int
		cls, pan = c09Guard(func() int {
			if d {
				_, err, s := dtlcp.VerifECDHEProcessCKX09(ke, peer, body)
				return c09Cls(err, s)
			}
			_, err, s := tlcp.VerifECDHEProcessCKX09(ke, peer, body)
			return c09Cls(err, s)
		})
		obs["cls"] = cls
		coq = fmt.Sprintf("KxCkxEcdhe %s %s %d %s", c09Kinds(in.Certs), emit.Bytes(body), cls, optBytes(ke.tmp != nil, ke.tmp))
	case "ecc-skx":
		ls := c09Leaves(in.Certs, false)
		peer := certsOf(ls)
		var cls int
		cls, pan = c09Guard(func() int {
			if d {
				err, s := dtlcp.VerifECCProcessSKX09(peer, c09CR, c09SR, body)
				return c09Cls(err, s)
			}
			err, s := tlcp.VerifECCProcessSKX09(peer, c09CR, c09SR, body)
			return c09Cls(err, s)
		})
		vok := false
		if len(ls) >= 2 && len(body) > 2 {
			enc := ls[1].DER
			tbs := append(append(append([]byte{}, c09CR...), c09SR...), byte(len(enc)>>16), byte(len(enc)>>8), byte(len(enc)))
			tbs = append(tbs, enc...)
			vok = c09VerifySM2(ls[0], tbs, body[2:])
		}
		obs["cls"], obs["verify_ok"] = cls, vok
		coq = fmt.Sprintf("KxSkxEcc %s %s %s %d", c09Kinds(in.Certs), emit.Bytes(body), emit.Bool(vok), cls)
	case "ecdhe-skx":
		ls := c09Leaves(in.Certs, false)
		peer := certsOf(ls)
		var cls int
		var tmp []byte
		cls, pan = c09Guard(func() int {
			if d {
				t, err, s := dtlcp.VerifECDHEProcessSKX09(peer, c09CR, c09SR, body)
				tmp = t
				return c09Cls(err, s)
			}
			t, err, s := tlcp.VerifECDHEProcessSKX09(peer, c09CR, c09SR, body)
			tmp = t
			return c09Cls(err, s)
		})
		pok, vok := c09SkxOracles(ls, body)
		obs["cls"], obs["point_ok"], obs["verify_ok"] = cls, pok, vok
		coq = fmt.Sprintf("KxSkxEcdhe %s %s %s %s %d %s", c09Kinds(in.Certs), emit.Bytes(body), emit.Bool(pok), emit.Bool(vok), cls, optBytes(tmp != nil, tmp))
	case "gen-ecc":
		peer := certsOf(c09Leaves(in.Certs, false))
		var cls int
		var out []byte
		cls, pan = c09Guard(func() int {
			if d {
				b, err := dtlcp.VerifECCGenerateCKX09(&dtlcp.Config{}, peer)
				out = b
				return c09Cls(err, false)
			}
			b, err := tlcp.VerifECCGenerateCKX09(&tlcp.Config{}, peer)
			out = b
			return c09Cls(err, false)
		})
		obs["cls"], obs["len"] = cls, len(out)
		coq = fmt.Sprintf("KxGenEcc %s %d %s", c09Kinds(in.Certs), cls, emit.Bytes(out))
	case "gen-ecdhe":
		ls := c09Leaves(in.Certs, false)
		peer := certsOf(ls)
		var own *tk.Leaf
		ownCoq := "None"
		switch in.Own {
		case "sm2":
			own, ownCoq = pk.CliEnc, "(Some true)"
		case "rsa":
			own, ownCoq = pk.RSAEnc, "(Some false)"
		}
		cls1, cls2 := 0, 0
		var out []byte
		_, pan = c09Guard(func() int {
			if d {
				var enc *dtlcp.Certificate
				if own != nil {
					enc = &dtlcp.Certificate{Certificate: [][]byte{own.DER}, PrivateKey: own.Key}
				}
				b, e1, s1, e2 := dtlcp.VerifECDHEClientKX09(&dtlcp.Config{ClientECDHEParamsAsVector: in.Vector}, peer, c09CR, c09SR, body, enc)
				out, cls1, cls2 = b, c09Cls(e1, s1), c09Cls(e2, false)
				return 0
			}
			var enc *tlcp.Certificate
			if own != nil {
				enc = &tlcp.Certificate{Certificate: [][]byte{own.DER}, PrivateKey: own.Key}
			}
			b, e1, s1, e2 := tlcp.VerifECDHEClientKX09(&tlcp.Config{ClientECDHEParamsAsVector: in.Vector}, peer, c09CR, c09SR, body, enc)
			out, cls1, cls2 = b, c09Cls(e1, s1), c09Cls(e2, false)
			return 0
		})
		if pan != "" {
			cls1, cls2 = 9, 9
		}
		pok, vok := c09SkxOracles(ls, body)
		obs["cls_skx"], obs["cls_ckx"], obs["len"] = cls1, cls2, len(out)
		coq = fmt.Sprintf("KxGenEcdhe %s %s %s %s %s %s %d %d %s", c09Kinds(in.Certs), emit.Bytes(body), emit.Bool(pok), emit.Bool(vok), ownCoq,
			emit.Bool(in.Vector), cls1, cls2, emit.Bytes(out))
	default:
		panic("c09: unknown parser " + in.Parser)
	}
	if pan != "" {
		direct = "panic: " + pan
		obs["panic"] = pan
	}
	return coq, obs, direct
}

// c09SkxOracles: is the announced point valid, does the signature over randoms || params verify
func c09SkxOracles(ls []*tk.Leaf, body []byte) (pok, vok bool) {
	if len(body) >= 4 && 4+int(body[3]) <= len(body) {
		pl := int(body[3])
		pok = c09PointOK(body[4 : 4+pl])
		if len(ls) >= 1 && len(body) >= 4+pl+2 {
			tbs := append(append(append([]byte{}, c09CR...), c09SR...), body[:4+pl]...)
			vok = c09VerifySM2(ls[0], tbs, body[4+pl+2:])
		}
	}
	return
}
