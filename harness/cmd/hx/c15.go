package main

// C15: datagram connections keep message boundaries and respect the path MTU.

import (
	"bytes"
	"encoding/json"
	"fmt"
	"math/rand/v2"
	"os"
	"strings"
	"time"

	"gitee.com/Trisia/gotlcp/dtlcp"
	"verifharness/internal/emit"
	"verifharness/internal/tk"
)

type c15Input struct {
	PMTU  int    `json:"pmtu"`
	Suite uint16 `json:"suite"`
	Sizes []int  `json:"sizes"` // payload sizes written one after the other
	API   string `json:"api"`   // "writeto" (ReadFrom on the peer) | "write" (Read on the peer)
	Dir   string `json:"dir"`   // "c2s" | "s2c"
	// Clone: both configurations are used through Config.Clone; Lose: the client's first transmission of its
	// key-exchange flight is lost, so the server's timer fires first and it sends its flight again;
	// ReadBuf: (api write) the peer reads with buffers of this size, smaller than a record
	PeerPMTU int  `json:"peer_pmtu,omitempty"` // the receiving side's own path MTU when it differs from the sender's (0: the same)
	Clone    bool `json:"clone,omitempty"`
	Lose     bool `json:"lose,omitempty"`
	ReadBuf  int  `json:"read_buf,omitempty"`
	// Mixed (api write): the peer takes the first part of the first record with a short Read, then a whole record
	// with ReadFrom, then the rest with Read: each call returns its own bytes
	Mixed bool `json:"mixed,omitempty"`
	// SeqBase: the sender's record sequence number is moved to this value before its first application write
	// (hook VerifSetWriteSeq): long-lived connections, every byte of the 48-bit field in use
	SeqBase uint64 `json:"seq_base,omitempty"`
}

func c15Mode(suite uint16) string {
	if suite == 0xe053 || suite == 0xe051 {
		return "MGcm"
	}
	return "MCbc"
}

func zl(xs []int) string {
	var s []string
	for _, x := range xs {
		s = append(s, fmt.Sprintf("%d", x))
	}
	return "[" + strings.Join(s, ";") + "]"
}

func c15AddCase(out *emit.Out, scenario string, in c15Input) {
	reg := tk.NewRegistry()
	cc := tk.EPConfig{Suites: []uint16{in.Suite}, Ident: "cli", ServerName: "server.test", PMTU: in.PMTU}
	sc := tk.EPConfig{Ident: "srv", PMTU: in.PMTU, Auth: 0}
	if in.Suite == 0xe051 || in.Suite == 0xe011 {
		sc.Auth = 4
	}
	if in.PeerPMTU != 0 { // the endpoint that does not send application data has another path MTU configured
		if in.Dir == "s2c" {
			cc.PMTU = in.PeerPMTU
		} else {
			sc.PMTU = in.PeerPMTU
		}
	}
	cc.Clone, sc.Clone = in.Clone, in.Clone
	if in.Lose {
		cc.RetransMs, cc.MaxRetransMs, sc.RetransMs, sc.MaxRetransMs = 400, 1600, 50, 400
	}
	dp := tk.NewDPair(tk.BuildDTLCP(cc, reg), tk.BuildDTLCP(sc, reg))
	if in.Lose {
		// drop what the client sends after its hellos until the server has sent something again
		dropping, dropped := true, 0
		dp.Net.Mangle = func(d *tk.Dgram) [][]byte {
			hello := len(d.Data) > 13 && d.Data[0] == 22 && d.Data[3] == 0 && d.Data[4] == 0 && d.Data[13] == 1
			if d.From == 0 && !hello && dropping {
				dropped++
				return nil
			}
			if d.From == 1 && dropped > 0 {
				dropping = false
			}
			return [][]byte{d.Data}
		}
	}
	sender, senderEnd := 0, dp.Net.End(0)
	if in.Dir == "s2c" {
		sender, senderEnd = 1, dp.Net.End(1)
	}
	var hsSizes [2][]int
	var perWrite [][]int // datagram sizes of each write
	var wrote []int
	var werrs []string
	var payloads [][]byte
	var recvd [][]byte
	hsOK := [2]bool{}
	prog := func(id int) func(c *dtlcp.Conn) {
		return func(c *dtlcp.Conn) {
			err, _ := func() (error, string) { return c.Handshake(), "" }()
			hsOK[id] = err == nil
			e := dp.Net.End(id)
			if err != nil {
				e.Close()
				return
			}
			if id == sender {
				hsSizes[id] = append([]int(nil), e.Sizes...)
				if in.SeqBase != 0 {
					c.VerifSetWriteSeq(in.SeqBase)
				}
				for i, n := range in.Sizes {
					p := bytes.Repeat([]byte{byte(i + 1)}, n)
					for j := range p {
						p[j] ^= byte(j * 7)
					}
					payloads = append(payloads, p)
					before := len(senderEnd.Sizes)
					var k int
					var werr error
					if in.API == "writeto" {
						k, werr = c.WriteTo(p, dp.Net.Addr(1-id))
					} else {
						k, werr = c.Write(p)
					}
					wrote = append(wrote, k)
					werrs = append(werrs, tk.ErrClass(werr))
					perWrite = append(perWrite, append([]int(nil), senderEnd.Sizes[before:]...))
				}
				return
			}
			hsSizes[id] = append([]int(nil), e.Sizes...)
			buf := make([]byte, 70000)
			if in.ReadBuf > 0 && in.API == "write" {
				buf = buf[:in.ReadBuf]
			}
			if in.Mixed {
				// wait until both records have arrived, so that ReadFrom does not block with the rest of the first one pending
				c.SetReadDeadline(time.Now().Add(200 * time.Millisecond))
				k, err := c.Read(buf[:in.ReadBuf])
				if err == nil {
					recvd = append(recvd, append([]byte(nil), buf[:k]...))
					c.SetReadDeadline(time.Now().Add(200 * time.Millisecond))
					big := make([]byte, 70000)
					if k2, _, err := c.ReadFrom(big); err == nil {
						recvd = append(recvd, append([]byte(nil), big[:k2]...))
					}
				}
			}
			misses := 0
			for misses < 2 {
				c.SetReadDeadline(time.Now().Add(50 * time.Millisecond))
				var n int
				var rerr error
				if in.API == "writeto" {
					n, _, rerr = c.ReadFrom(buf)
				} else {
					n, rerr = c.Read(buf)
				}
				if rerr != nil {
					misses++
					if tk.ErrClass(rerr) != "timeout" {
						break
					}
					continue
				}
				recvd = append(recvd, append([]byte(nil), buf[:n]...))
			}
		}
	}
	hung := dp.Run(prog(0), prog(1), 20*time.Second)
	direct := ""
	if hung {
		direct = "hang"
	}
	// handshake datagram sizes
	mode := c15Mode(in.Suite)
	if in.PeerPMTU != 0 {
		// each side's datagrams against that side's own path MTU
		for side := 0; side < 2; side++ {
			pm := cc.PMTU
			lists := [2]string{zl(hsSizes[0]), "[]"}
			if side == 1 {
				pm = sc.PMTU
				lists = [2]string{"[]", zl(hsSizes[1])}
			}
			out.Add(emit.Case{Scenario: scenario + "-handshake", Trivial: false, Input: in, Direct: direct,
				Observed: map[string]interface{}{"side": side, "pmtu": pm, "datagrams": hsSizes[side], "ok": hsOK},
				Coq:      fmt.Sprintf("HsCase (%d) %s %s %s %s", pm, mode, lists[0], lists[1], emit.Bool(hsOK[0] && hsOK[1]))})
		}
	} else {
		out.Add(emit.Case{Scenario: scenario + "-handshake", Trivial: false, Input: in, Direct: direct,
			Observed: map[string]interface{}{"client_datagrams": hsSizes[0], "server_datagrams": hsSizes[1], "ok": hsOK},
			Coq:      fmt.Sprintf("HsCase (%d) %s %s %s %s", in.PMTU, mode, zl(hsSizes[0]), zl(hsSizes[1]), emit.Bool(hsOK[0] && hsOK[1]))})
	}
	if !(hsOK[0] && hsOK[1]) {
		return
	}
	if in.ReadBuf > 0 && in.API == "write" {
		// short reads: only the byte stream is judged (complete and in order)
		var all, got []byte
		for _, p := range payloads {
			all = append(all, p...)
		}
		if in.Mixed && len(payloads) >= 2 && len(payloads[0]) > in.ReadBuf {
			// expected order of delivery: first part of record 1, record 2 whole, rest of record 1, then the others
			all = append(append(append([]byte(nil), payloads[0][:in.ReadBuf]...), payloads[1]...), payloads[0][in.ReadBuf:]...)
			for _, p := range payloads[2:] {
				all = append(all, p...)
			}
		}
		for _, q := range recvd {
			got = append(got, q...)
		}
		out.Add(emit.Case{Scenario: scenario + "-short-reads", Trivial: false, Input: in,
			Observed: map[string]interface{}{"written": len(all), "read": len(got), "intact": bytes.Equal(all, got), "reads": len(recvd)},
			Coq:      fmt.Sprintf("ShortReadCase (%d) %d %d %s", in.PMTU, in.ReadBuf, len(all), emit.Bool(bytes.Equal(all, got)))})
		return
	}
	// map received pieces back to writes: pieces arrive in order
	pos := 0
	for i, p := range payloads {
		want := len(perWrite[i])
		if len(p) == 0 && in.API == "write" {
			want = 0 // Read skips the empty record
		}
		var pieces [][]byte
		for k := 0; k < want && pos < len(recvd); k++ {
			pieces = append(pieces, recvd[pos])
			pos++
		}
		var lens []int
		var cat []byte
		for _, q := range pieces {
			lens = append(lens, len(q))
			cat = append(cat, q...)
		}
		intact := bytes.Equal(cat, p)
		ctor := "WriteToCase"
		if in.API == "write" {
			ctor = "WriteCase"
		}
		sc := scenario
		if len(p) == 0 {
			sc += "-empty"
		}
		out.Add(emit.Case{Scenario: sc, Trivial: false, Input: c15Input{PMTU: in.PMTU, Suite: in.Suite, Sizes: []int{len(p)}, API: in.API, Dir: in.Dir, Clone: in.Clone, Lose: in.Lose, PeerPMTU: in.PeerPMTU},
			Observed: map[string]interface{}{"datagrams": perWrite[i], "received": lens, "intact": intact, "returned": wrote[i], "err": werrs[i]},
			Coq:      fmt.Sprintf("%s (%d) %s %d %s %s %s %d", ctor, in.PMTU, mode, len(p), zl(perWrite[i]), zl(lens), emit.Bool(intact), wrote[i])})
	}
	extra := len(recvd) - pos
	if extra != 0 {
		out.Add(emit.Case{Scenario: scenario + "-extra", Input: in, Observed: map[string]interface{}{"extra_pieces": extra},
			Coq: fmt.Sprintf("ExtraCase %d", extra)})
	}
}

func c15Max(pmtu int, suite uint16) int {
	if pmtu <= 0 {
		pmtu = 1400
	}
	var m int
	if c15Mode(suite) == "MGcm" {
		m = pmtu - 13 - 8 - 16
	} else {
		m = ((pmtu-13-16)&^15 - 1) - 32
	}
	if m > 16384 {
		m = 16384
	}
	if m < 1 {
		m = 1
	}
	return m
}

func runC15(p params) error {
	out := emit.New(p.out, "C15", "V.Corr.Run_C15", "case",
		"payload sizes around the maximum payload x suites x path-MTU values, WriteTo/ReadFrom and Write/Read, both directions, plus the datagram sizes of every handshake; distinct by Coq term")
	out.Scope = "Z_scope"
	if p.replay != "" {
		b, err := os.ReadFile(p.replay)
		if err != nil {
			return err
		}
		var rp struct {
			Cases []struct {
				Scenario string   `json:"scenario"`
				Input    c15Input `json:"input"`
			} `json:"cases"`
		}
		if err := json.Unmarshal(b, &rp); err != nil {
			return err
		}
		for _, c := range rp.Cases {
			sc := strings.TrimSuffix(strings.TrimSuffix(strings.TrimSuffix(strings.TrimSuffix(c.Scenario, "-handshake"), "-empty"), "-extra"), "-short-reads")
			c15AddCase(out, sc, c.Input)
		}
		return out.Finish()
	}
	r := rand.New(rand.NewPCG(p.seed, 0xC15))
	suites := []uint16{0xe053, 0xe013, 0xe051, 0xe011}
	pmtus := []int{0, 100, 137, 256, 577, 1400, 1401, 1415, 1500, 9000, 16500, 20000}
	nper := 1
	if p.tier == "thorough" {
		pmtus = nil
		for v := 90; v < 1700; v += 13 {
			pmtus = append(pmtus, v)
		}
		pmtus = append(pmtus, 0, 4000, 9000, 16384, 16413, 16440, 16500, 20000, 40000)
		nper = 2
	}
	for _, pm := range pmtus {
		for si, su := range suites {
			if p.tier != "thorough" && (si+pm)%2 == 1 && pm != 1400 {
				continue
			}
			for k := 0; k < nper; k++ {
				mx := c15Max(pm, su)
				sizes := []int{1, mx - 1, mx, mx + 1, 0, 2*mx + 3, mx - 16, mx - 15}
				for j := 0; j < 4; j++ {
					sizes = append(sizes, 1+r.IntN(3*mx))
				}
				if mx >= 16384 {
					sizes = append(sizes, 16384, 16385, 40000)
				}
				var ss []int
				for _, s := range sizes {
					if s >= 0 && s <= 70000 {
						ss = append(ss, s)
					}
				}
				api := []string{"writeto", "write"}[(si+k+pm)%2]
				dir := []string{"c2s", "s2c"}[(si+pm/7+k)%2]
				c15AddCase(out, api, c15Input{PMTU: pm, Suite: su, Sizes: ss, API: api, Dir: dir})
				if mx >= 16384 { // records of exactly 16384 bytes are possible: exercise the other API (the stream-like Read path) too
					other := map[string]string{"writeto": "write", "write": "writeto"}[api]
					c15AddCase(out, other, c15Input{PMTU: pm, Suite: su, Sizes: []int{16383, 16384, 16385, 40000, 1}, API: other, Dir: dir})
				}
			}
		}
	}
	// the two ends configured with different path MTUs: what the sender may send must arrive whatever the receiver's own setting
	for i, pr := range [][2]int{{1400, 600}, {0, 600}, {1000, 0}, {3000, 0}, {600, 1400}, {9000, 300}} {
		su := []uint16{0xe053, 0xe013}[i%2]
		mx := c15Max(pr[0], su)
		pp := pr[1]
		if pp == 0 {
			pp = 1400
		}
		for _, api := range []string{"writeto", "write"} {
			c15AddCase(out, api, c15Input{PMTU: pr[0], PeerPMTU: pp, Suite: su, Sizes: []int{1, mx / 2, mx - 1, mx, 2*mx + 5}, API: api, Dir: []string{"c2s", "s2c"}[i%2]})
		}
	}
	// configurations used through Clone; the server's flight sent a second time (its timer fires while the client's
	// flight is lost); records read with buffers smaller than a record
	for i, pm := range []int{300, 577, 1000, 1400, 3000} {
		su := suites[i%4]
		mx := c15Max(pm, su)
		c15AddCase(out, "cloned-config", c15Input{PMTU: pm, Suite: su, Sizes: []int{mx, 1, 2*mx + 1}, API: []string{"writeto", "write"}[i%2], Dir: []string{"c2s", "s2c"}[i%2], Clone: true})
		if pm <= 1000 {
			c15AddCase(out, "server-flight-again", c15Input{PMTU: pm, Suite: su, Sizes: []int{5}, API: "write", Dir: "s2c", Lose: true})
			c15AddCase(out, "server-flight-again", c15Input{PMTU: pm, Suite: suites[(i+2)%4], Sizes: []int{5}, API: "writeto", Dir: "c2s", Lose: true, Clone: true})
		}
		if mx > 300 {
			c15AddCase(out, "write", c15Input{PMTU: pm, Suite: su, Sizes: []int{mx, mx / 2, 77}, API: "write", Dir: []string{"c2s", "s2c"}[i%2], ReadBuf: 100, Mixed: true})
		}
		for _, rb := range []int{1, 100, 500} {
			c15AddCase(out, "write", c15Input{PMTU: pm, Suite: su, Sizes: []int{mx, 3*mx + 7, 1, 0, 200}, API: "write", Dir: []string{"c2s", "s2c"}[(i+rb)%2], ReadBuf: rb})
		}
	}
	// long-lived connections: the sender's sequence number crosses every byte boundary of the 48-bit field
	for i, base := range []uint64{253, 65533, 1<<24 - 3, 1<<32 - 3, 1<<40 - 3, 1<<48 - 10} {
		for k, api := range []string{"writeto", "write"} {
			su := suites[(i+2*k)%4]
			c15AddCase(out, "high-sequence-numbers", c15Input{PMTU: 1400, Suite: su, Sizes: []int{5, 6, 700, 8, 9, 10}, API: api, Dir: []string{"c2s", "s2c"}[(i+k)%2], SeqBase: base})
		}
	}
	// configurations used through Config.Clone carry the fields this property depends on
	cloneCases(out, []string{"dtlcp"}, map[string][]string{"dtlcp": {"PMTU"}})
	return out.Finish()
}

func init() { register("C15", runC15) }
