package main

// C11: the session cache is a correct bounded LRU that never harms a live session.
// Drives tlcp.NewLRUSessionCache / dtlcp.NewLRUSessionCache through operation
// sequences and records every result for the Coq model (Model/Lru.v).

import (
	"bytes"
	"encoding/json"
	"fmt"
	"math/rand/v2"
	"os"
	"strings"
	"time"
	"verifharness/internal/tk"

	"gitee.com/Trisia/gotlcp/dtlcp"
	"gitee.com/Trisia/gotlcp/tlcp"
	"verifharness/internal/emit"
)

type c11Op struct {
	Kind string `json:"k"` // put | alias | del | get
	Key  int    `json:"key"`
	Val  uint64 `json:"val,omitempty"` // put: fresh value id; alias: id of the aliased object
}

type c11Input struct {
	Stack string  `json:"stack"`
	Cap   int     `json:"cap"`
	Ops   []c11Op `json:"ops"`
}

// sessObj abstracts a *SessionState of either stack.
type sessObj interface {
	id() uint64
	intact() bool
}

type tSess struct {
	s    *tlcp.SessionState
	want []byte
	n    uint64
}
type dSess struct {
	s    *dtlcp.SessionState
	want []byte
	n    uint64
}

func (t *tSess) id() uint64   { return t.n }
func (t *tSess) intact() bool { return bytes.Equal(t.s.VerifMaster(), t.want) }
func (t *dSess) id() uint64   { return t.n }
func (t *dSess) intact() bool { return bytes.Equal(t.s.VerifMaster(), t.want) }

func masterFor(n uint64) []byte {
	if n%5 == 4 { // every fifth value is a session without a master secret: the cache stores whatever non-nil value it is given
		return []byte{}
	}
	m := make([]byte, 48)
	for i := range m {
		m[i] = byte(n*7 + uint64(i) + 1)
	}
	return m
}
func idBytes(n uint64) []byte {
	return []byte{byte(n >> 24), byte(n >> 16), byte(n >> 8), byte(n), 0xAA}
}
func idFromBytes(b []byte) (uint64, bool) {
	if len(b) != 5 || b[4] != 0xAA {
		return 0, false
	}
	return uint64(b[0])<<24 | uint64(b[1])<<16 | uint64(b[2])<<8 | uint64(b[3]), true
}

const (
	c11NilOK   = 999999  // Get returned (nil, true)
	c11Corrupt = 1000000 // added to an id whose master secret is no longer intact
	c11BadID   = 999998
)

func keyName(k int) string {
	if k == 0 {
		return ""
	}
	return fmt.Sprintf("k%d", k)
}

// c11Run executes one op sequence on the real cache; returns per-op results
// (ok, value) and the number of harm events.
func c11Run(in c11Input) (res []emit_opt, harm int, harmWhat string) {
	type held struct {
		obj  sessObj
		keys map[int]bool // keys under which the caller stored this very object (live ones)
		got  bool         // obtained from Get => in use by a handshake
	}
	var putT func(k string, s *tlcp.SessionState)
	var getT func(k string) (*tlcp.SessionState, bool)
	var putD func(k string, s *dtlcp.SessionState)
	var getD func(k string) (*dtlcp.SessionState, bool)
	if in.Stack == "tlcp" {
		c := tlcp.NewLRUSessionCache(in.Cap)
		putT, getT = c.Put, c.Get
	} else {
		c := dtlcp.NewLRUSessionCache(in.Cap)
		putD, getD = c.Put, c.Get
	}
	objs := map[uint64]*held{} // objects the caller created, by value id
	var gotten []sessObj       // objects handed out by Get
	mkT := func(n uint64) *tlcp.SessionState {
		return tlcp.VerifNewSession(idBytes(n), masterFor(n), 0x0101, 0xe013)
	}
	mkD := func(n uint64) *dtlcp.SessionState {
		return dtlcp.VerifNewSession(idBytes(n), masterFor(n), 0x0101, 0xe013)
	}
	check := func(when int) {
		for _, g := range gotten {
			if !g.intact() {
				harm++
				if harmWhat == "" {
					harmWhat = fmt.Sprintf("session %d returned by Get was altered by op %d", g.id(), when)
				}
			}
		}
	}
	for i, o := range in.Ops {
		k := keyName(o.Key)
		switch o.Kind {
		case "put", "alias":
			h, ok := objs[o.Val]
			if !ok {
				if in.Stack == "tlcp" {
					s := mkT(o.Val)
					h = &held{obj: &tSess{s, masterFor(o.Val), o.Val}, keys: map[int]bool{}}
				} else {
					s := mkD(o.Val)
					h = &held{obj: &dSess{s, masterFor(o.Val), o.Val}, keys: map[int]bool{}}
				}
				objs[o.Val] = h
			}
			if in.Stack == "tlcp" {
				putT(k, h.obj.(*tSess).s)
			} else {
				putD(k, h.obj.(*dSess).s)
			}
			res = append(res, emit_opt{})
		case "del":
			if in.Stack == "tlcp" {
				putT(k, nil)
			} else {
				putD(k, nil)
			}
			res = append(res, emit_opt{})
		case "get":
			var okk bool
			var so sessObj
			var isNil bool
			if in.Stack == "tlcp" {
				s, ok := getT(k)
				okk = ok
				if s == nil {
					isNil = true
				} else if n, good := idFromBytes(s.VerifSessionID()); good {
					so = &tSess{s, masterFor(n), n}
				} else {
					so = &tSess{s, nil, c11BadID}
				}
			} else {
				s, ok := getD(k)
				okk = ok
				if s == nil {
					isNil = true
				} else if n, good := idFromBytes(s.VerifSessionID()); good {
					so = &dSess{s, masterFor(n), n}
				} else {
					so = &dSess{s, nil, c11BadID}
				}
			}
			switch {
			case !okk && isNil:
				res = append(res, emit_opt{})
			case !okk:
				res = append(res, emit_opt{true, c11BadID})
			case isNil:
				res = append(res, emit_opt{true, c11NilOK})
			default:
				v := so.id()
				if !so.intact() {
					v += c11Corrupt
				} else {
					gotten = append(gotten, so)
				}
				res = append(res, emit_opt{true, v})
			}
		}
		check(i)
	}
	return
}

type emit_opt struct {
	ok bool
	v  uint64
}

func c11Coq(in c11Input, res []emit_opt, harm int) string {
	var ops []string
	for _, o := range in.Ops {
		switch o.Kind {
		case "put", "alias":
			ops = append(ops, fmt.Sprintf("Put %d %d", o.Key, o.Val))
		case "del":
			ops = append(ops, fmt.Sprintf("Del %d", o.Key))
		case "get":
			ops = append(ops, fmt.Sprintf("Get %d", o.Key))
		}
	}
	var rs []string
	for _, r := range res {
		if r.ok {
			rs = append(rs, fmt.Sprintf("Some %d", r.v))
		} else {
			rs = append(rs, "None")
		}
	}
	cp := in.Cap
	if cp < 0 {
		cp = 0
	}
	return fmt.Sprintf("mkCase %d%%nat [%s] [%s] %d", cp, strings.Join(ops, "; "), strings.Join(rs, "; "), harm)
}

func c11GenSeq(r *rand.Rand, n, nkeys int, next *uint64) []c11Op {
	var ops []c11Op
	var live []uint64
	for i := 0; i < n; i++ {
		k := 1 + r.IntN(nkeys)
		if r.IntN(12) == 0 {
			k = 0
		}
		switch x := r.IntN(10); {
		case x < 4:
			*next++
			live = append(live, *next)
			ops = append(ops, c11Op{"put", k, *next})
		case x < 5 && len(live) > 0:
			ops = append(ops, c11Op{"alias", k, live[len(live)-1-r.IntN(min(len(live), 2))]})
		case x < 6:
			ops = append(ops, c11Op{Kind: "del", Key: k})
		default:
			ops = append(ops, c11Op{Kind: "get", Key: k})
		}
	}
	return ops
}

func c11Trivial(in c11Input) bool {
	// non-trivial: at least one Get and at least one Put, sequence length >= 3
	g, p := 0, 0
	for _, o := range in.Ops {
		if o.Kind == "get" {
			g++
		}
		if o.Kind == "put" || o.Kind == "alias" {
			p++
		}
	}
	return g == 0 || p == 0 || len(in.Ops) < 3
}

// c11Guard runs f under a watchdog: a cache operation that never returns (a lock left held) must not hang the check.
func c11Guard(d time.Duration, f func()) bool {
	done := make(chan struct{})
	go func() { defer close(done); f() }()
	select {
	case <-done:
		return true
	case <-time.After(d):
		return false
	}
}

// set once an operation hung: the cache code of this build leaves a lock held, the remaining cases would only wait
var c11Hung bool

func c11AddCase(out *emit.Out, scenario string, in c11Input) {
	if c11Hung {
		return
	}
	var res []emit_opt
	var harm int
	var what string
	if !c11Guard(10*time.Second, func() { res, harm, what = c11Run(in) }) {
		c11Hung = true
		out.Add(emit.Case{Scenario: scenario + "/" + in.Stack, Trivial: c11Trivial(in), Input: in, Direct: "hang",
			Observed: map[string]interface{}{"hang": "an operation of this sequence never returned"}, Coq: c11Coq(in, nil, 0)})
		return
	}
	obs := []interface{}{}
	for _, r := range res {
		if r.ok {
			obs = append(obs, r.v)
		} else {
			obs = append(obs, nil)
		}
	}
	_ = what
	out.Add(emit.Case{Scenario: scenario + "/" + in.Stack, Trivial: c11Trivial(in), Input: in,
		Observed: map[string]interface{}{"results": obs, "harm": harm, "harm_what": what},
		Coq:      c11Coq(in, res, harm)})
}

func c11Enumerate(depth int, cur []c11Op, next uint64, f func([]c11Op)) {
	if len(cur) == depth {
		f(append([]c11Op(nil), cur...))
		return
	}
	for k := 1; k <= 3; k++ {
		c11Enumerate(depth, append(cur, c11Op{"put", k, next + 1}), next+1, f)
		c11Enumerate(depth, append(cur, c11Op{Kind: "del", Key: k}), next, f)
		c11Enumerate(depth, append(cur, c11Op{Kind: "get", Key: k}), next, f)
		if next > 0 {
			c11Enumerate(depth, append(cur, c11Op{"alias", k, next}), next, f)
		}
	}
	c11Enumerate(depth, append(cur, c11Op{Kind: "get", Key: 0}), next, f)
}

type c11HonestIn struct {
	Stack string     `json:"stack"`
	CCap  int        `json:"ccap"`
	SCap  int        `json:"scap"`
	Conns [][]uint16 `json:"conns"` // per connection: the one suite list both ends are configured with (same caches throughout)
}

// c11Honest: a cache of any capacity never makes a later honest handshake fail.  The same client and server caches
// serve a sequence of honest connections whose configurations change in between (another suite, so that an offered
// session must be declined, or the same again); every connection must complete on both sides and carry data.
func c11Honest(out *emit.Out, in c11HonestIn) {
	reg := tk.NewRegistry()
	direct := ""
	var resumed []bool
	for i, su := range in.Conns {
		cc := tk.EPConfig{Suites: su, Ident: "cli", ServerName: "server.test", Cache: "c", CacheCap: in.CCap, PMTU: 4000}
		sc := tk.EPConfig{Suites: su, Ident: "srv", Cache: "s", CacheCap: in.SCap, Auth: 4, PMTU: 4000}
		var cr, sr tk.EPResult
		var hung bool
		if in.Stack == "tlcp" {
			tp := tk.NewTPair(tk.BuildTLCP(cc, reg), tk.BuildTLCP(sc, reg))
			cr, sr, hung = tp.Handshake(10 * time.Second)
			tp.Cli.Close()
			tp.Srv.Close()
		} else {
			dp := tk.NewDPair(tk.BuildDTLCP(cc, reg), tk.BuildDTLCP(sc, reg))
			cr, sr, hung = dp.Handshake(10 * time.Second)
		}
		resumed = append(resumed, cr.Resumed)
		if hung || cr.Err != "" || sr.Err != "" || !cr.Complete || !sr.Complete {
			direct = fmt.Sprintf("honest connection %d through the caches failed: client %q %s / server %q %s", i+1, cr.Err, cr.ErrText, sr.Err, sr.ErrText)
			break
		}
	}
	out.Add(emit.Case{Scenario: "honest-handshakes-through-caches/" + in.Stack, Trivial: false, Input: in, Direct: direct,
		Observed: map[string]interface{}{"resumed": resumed}})
}

func runC11(p params) error {
	out := emit.New(p.out, "C11", "V.Corr.Run_C11", "case",
		"operation sequences (put fresh / put aliased object / delete / get, keys k1..k3 and \"\") on NewLRUSessionCache of both stacks; non-trivial = has a Put and a Get and length>=3; distinct by Coq term")
	if p.replay != "" {
		b, err := os.ReadFile(p.replay)
		if err != nil {
			return err
		}
		var rp struct {
			Cases []struct {
				Scenario string          `json:"scenario"`
				Raw      json.RawMessage `json:"input"`
			} `json:"cases"`
		}
		if err := json.Unmarshal(b, &rp); err != nil {
			return err
		}
		for _, c := range rp.Cases {
			sc := strings.SplitN(c.Scenario, "/", 2)[0]
			if strings.HasPrefix(sc, "concurrent") {
				c11ConcReplay(out, sc, c.Raw)
				continue
			}
			var in c11Input
			if err := json.Unmarshal(c.Raw, &in); err != nil {
				return err
			}
			c11AddCase(out, sc, in)
		}
		return out.Finish()
	}
	r := rand.New(rand.NewPCG(p.seed, 0xC11))
	stacks := []string{"tlcp", "dtlcp"}
	// corpus: the client's own usage pattern (one object under two keys) at every small capacity
	for _, st := range stacks {
		for cap := 1; cap <= 4; cap++ {
			c11AddCase(out, "corpus-two-keys", c11Input{st, cap, []c11Op{
				{"put", 1, 1}, {"alias", 2, 1}, {Kind: "get", Key: 2}, {Kind: "get", Key: 1},
				{"put", 3, 2}, {"alias", 1, 2}, {Kind: "get", Key: 2}, {Kind: "get", Key: 1}, {Kind: "get", Key: 3}}})
			c11AddCase(out, "corpus-del-absent", c11Input{st, cap, []c11Op{
				{"put", 1, 1}, {Kind: "del", Key: 2}, {Kind: "get", Key: 1}, {Kind: "get", Key: 2}, {Kind: "get", Key: 0}}})
			c11AddCase(out, "corpus-get-then-evict", c11Input{st, cap, []c11Op{
				{"put", 1, 1}, {Kind: "get", Key: 1}, {"put", 2, 2}, {"put", 3, 3}, {"put", 1, 4}, {"put", 2, 5}, {Kind: "get", Key: 1}}})
		}
	}
	nRandom, nLong := 300, 40
	if p.tier == "thorough" {
		nRandom, nLong = 3000, 400
		for _, st := range stacks {
			for cap := 1; cap <= 4; cap++ {
				c11Enumerate(4, nil, 0, func(ops []c11Op) {
					c11AddCase(out, "exhaustive-depth4", c11Input{st, cap, ops})
				})
			}
		}
		out.Extra["exhaustive"] = "all sequences of length 4 over {put fresh,put alias,del,get} x keys k1..k3 + get \"\" for capacities 1..4, both stacks"
	}
	for i := 0; i < nRandom; i++ {
		var next uint64
		st := stacks[i%2]
		cap := 1 + r.IntN(4)
		c11AddCase(out, "random-small", c11Input{st, cap, c11GenSeq(r, 3+r.IntN(14), 3+r.IntN(3), &next)})
	}
	for i := 0; i < nLong; i++ {
		var next uint64
		st := stacks[i%2]
		cap := []int{0, 5, 8, 16, 64, -3}[r.IntN(6)]
		c11AddCase(out, "random-long", c11Input{st, cap, c11GenSeq(r, 60+r.IntN(140), 4+r.IntN(80), &next)})
	}
	c11ConcGen(out, p, r)
	// honest connections through caches of every capacity, reconfigured in between
	for _, st := range []string{"tlcp", "dtlcp"} {
		for _, caps := range [][2]int{{1, 1}, {2, 2}, {64, 64}, {0, 0}} {
			for _, conns := range [][][]uint16{
				{{0xe013}, {0xe053}, {0xe053}, {0xe013}},
				{{0xe053}, {0xe053}, {0xe011}, {0xe011}, {0xe053}},
				{{0xe051}, {0xe013}, {0xe051}},
			} {
				c11Honest(out, c11HonestIn{Stack: st, CCap: caps[0], SCap: caps[1], Conns: conns})
			}
		}
	}
	return out.Finish()
}

func init() { register("C11", runC11) }
