package main

// C14: handshake message encoding and decoding are inverse, strict and total.
//  enc  : marshal well-formed random field values, unmarshal the result (round trip)
//  dec  : unmarshal a byte string (truncations, single-byte mutations, re-framed insertions /
//         deletions, appended bytes, arbitrary bytes, hand-made non-canonical hellos, messages
//         captured from real handshakes) and marshal the decoded fields again with raw cleared
// Both stacks, all message types, through the verif_hooks_c14.go hooks.  Panics are recovered here.

import (
	"encoding/json"
	"fmt"
	"math/rand/v2"
	"os"
	"sort"
	"strings"
	"time"

	"gitee.com/Trisia/gotlcp/dtlcp"
	"gitee.com/Trisia/gotlcp/tlcp"
	"verifharness/internal/emit"
	"verifharness/internal/tk"
)

type c14TA struct {
	Type uint8  `json:"type"`
	ID   []byte `json:"id"`
}

// c14F mirrors tlcp.VerifHS / dtlcp.VerifHS.
type c14F struct {
	Vers       uint16   `json:"vers,omitempty"`
	Random     []byte   `json:"random,omitempty"`
	SessionID  []byte   `json:"sid,omitempty"`
	Cookie     []byte   `json:"cookie,omitempty"`
	Suites     []uint16 `json:"suites,omitempty"`
	Comp       []byte   `json:"comp,omitempty"`
	ServerName []byte   `json:"sni,omitempty"`
	TAs        []c14TA  `json:"tas,omitempty"`
	OCSP       bool     `json:"ocsp,omitempty"`
	Curves     []uint16 `json:"curves,omitempty"`
	SigAlgs    []uint16 `json:"sigalgs,omitempty"`
	ALPNs      [][]byte `json:"alpns,omitempty"`
	ClientID   []byte   `json:"cid,omitempty"`
	Suite      uint16   `json:"suite,omitempty"`
	CompMethod uint8    `json:"comp_method,omitempty"`
	OCSPResp   []byte   `json:"ocsp_resp,omitempty"`
	ALPN       []byte   `json:"alpn,omitempty"`
	SNIAck     bool     `json:"sni_ack,omitempty"`
	Certs      [][]byte `json:"certs,omitempty"`
	Blob       []byte   `json:"blob,omitempty"`
	CertTypes  []byte   `json:"cert_types,omitempty"`
	CAs        [][]byte `json:"cas,omitempty"`
	Seq        uint16   `json:"seq,omitempty"`
	Off        uint32   `json:"off,omitempty"`
	FLen       uint32   `json:"flen,omitempty"`
}

func (f c14F) toT() tlcp.VerifHS {
	o := tlcp.VerifHS{Vers: f.Vers, Random: f.Random, SessionID: f.SessionID, Cookie: f.Cookie, Suites: f.Suites, Comp: f.Comp,
		ServerName: f.ServerName, OCSP: f.OCSP, Curves: f.Curves, SigAlgs: f.SigAlgs, ALPNs: f.ALPNs, ClientID: f.ClientID,
		Suite: f.Suite, CompMethod: f.CompMethod, OCSPResp: f.OCSPResp, ALPN: f.ALPN, SNIAck: f.SNIAck, Certs: f.Certs,
		Blob: f.Blob, CertTypes: f.CertTypes, CAs: f.CAs, Seq: f.Seq, Off: f.Off, FLen: f.FLen}
	for _, t := range f.TAs {
		o.TAs = append(o.TAs, tlcp.VerifTA{Type: t.Type, ID: t.ID})
	}
	return o
}
func (f c14F) toD() dtlcp.VerifHS {
	o := dtlcp.VerifHS{Vers: f.Vers, Random: f.Random, SessionID: f.SessionID, Cookie: f.Cookie, Suites: f.Suites, Comp: f.Comp,
		ServerName: f.ServerName, OCSP: f.OCSP, Curves: f.Curves, SigAlgs: f.SigAlgs, ALPNs: f.ALPNs, ClientID: f.ClientID,
		Suite: f.Suite, CompMethod: f.CompMethod, OCSPResp: f.OCSPResp, ALPN: f.ALPN, SNIAck: f.SNIAck, Certs: f.Certs,
		Blob: f.Blob, CertTypes: f.CertTypes, CAs: f.CAs, Seq: f.Seq, Off: f.Off, FLen: f.FLen}
	for _, t := range f.TAs {
		o.TAs = append(o.TAs, dtlcp.VerifTA{Type: t.Type, ID: t.ID})
	}
	return o
}
func c14FromT(o tlcp.VerifHS) c14F {
	f := c14F{Vers: o.Vers, Random: o.Random, SessionID: o.SessionID, Cookie: o.Cookie, Suites: o.Suites, Comp: o.Comp,
		ServerName: o.ServerName, OCSP: o.OCSP, Curves: o.Curves, SigAlgs: o.SigAlgs, ALPNs: o.ALPNs, ClientID: o.ClientID,
		Suite: o.Suite, CompMethod: o.CompMethod, OCSPResp: o.OCSPResp, ALPN: o.ALPN, SNIAck: o.SNIAck, Certs: o.Certs,
		Blob: o.Blob, CertTypes: o.CertTypes, CAs: o.CAs, Seq: o.Seq, Off: o.Off, FLen: o.FLen}
	for _, t := range o.TAs {
		f.TAs = append(f.TAs, c14TA{t.Type, t.ID})
	}
	return f
}
func c14FromD(o dtlcp.VerifHS) c14F {
	f := c14F{Vers: o.Vers, Random: o.Random, SessionID: o.SessionID, Cookie: o.Cookie, Suites: o.Suites, Comp: o.Comp,
		ServerName: o.ServerName, OCSP: o.OCSP, Curves: o.Curves, SigAlgs: o.SigAlgs, ALPNs: o.ALPNs, ClientID: o.ClientID,
		Suite: o.Suite, CompMethod: o.CompMethod, OCSPResp: o.OCSPResp, ALPN: o.ALPN, SNIAck: o.SNIAck, Certs: o.Certs,
		Blob: o.Blob, CertTypes: o.CertTypes, CAs: o.CAs, Seq: o.Seq, Off: o.Off, FLen: o.FLen}
	for _, t := range o.TAs {
		f.TAs = append(f.TAs, c14TA{t.Type, t.ID})
	}
	return f
}

type c14Msg struct {
	Name string
	Coq  string
	Type byte
	UT   func([]byte) (bool, tlcp.VerifHS, []byte, error)
	MT   func(tlcp.VerifHS) ([]byte, error)
	UD   func([]byte) (bool, dtlcp.VerifHS, []byte, error)
	MD   func(dtlcp.VerifHS) ([]byte, error)
}

var c14Msgs = []c14Msg{
	{"finished", "mFIN", 20, tlcp.VerifUnmarshalFinished, tlcp.VerifMarshalFinished, dtlcp.VerifUnmarshalFinished, dtlcp.VerifMarshalFinished},
	{"serverHelloDone", "mSHD", 14, tlcp.VerifUnmarshalServerHelloDone, tlcp.VerifMarshalServerHelloDone, dtlcp.VerifUnmarshalServerHelloDone, dtlcp.VerifMarshalServerHelloDone},
	{"clientKeyExchange", "mCKX", 16, tlcp.VerifUnmarshalClientKeyExchange, tlcp.VerifMarshalClientKeyExchange, dtlcp.VerifUnmarshalClientKeyExchange, dtlcp.VerifMarshalClientKeyExchange},
	{"serverKeyExchange", "mSKX", 12, tlcp.VerifUnmarshalServerKeyExchange, tlcp.VerifMarshalServerKeyExchange, dtlcp.VerifUnmarshalServerKeyExchange, dtlcp.VerifMarshalServerKeyExchange},
	{"certificateVerify", "mCV", 15, tlcp.VerifUnmarshalCertificateVerify, tlcp.VerifMarshalCertificateVerify, dtlcp.VerifUnmarshalCertificateVerify, dtlcp.VerifMarshalCertificateVerify},
	{"certificate", "mCERT", 11, tlcp.VerifUnmarshalCertificate, tlcp.VerifMarshalCertificate, dtlcp.VerifUnmarshalCertificate, dtlcp.VerifMarshalCertificate},
	{"certificateRequest", "mCREQ", 13, tlcp.VerifUnmarshalCertificateRequest, tlcp.VerifMarshalCertificateRequest, dtlcp.VerifUnmarshalCertificateRequest, dtlcp.VerifMarshalCertificateRequest},
	{"helloVerifyRequest", "mHVR", 3, nil, nil, dtlcp.VerifUnmarshalHelloVerifyRequest, dtlcp.VerifMarshalHelloVerifyRequest},
	{"serverHello", "mSH", 2, tlcp.VerifUnmarshalServerHello, tlcp.VerifMarshalServerHello, dtlcp.VerifUnmarshalServerHello, dtlcp.VerifMarshalServerHello},
	{"clientHello", "mCH", 1, tlcp.VerifUnmarshalClientHello, tlcp.VerifMarshalClientHello, dtlcp.VerifUnmarshalClientHello, dtlcp.VerifMarshalClientHello},
}

func c14ByName(n string) *c14Msg {
	for i := range c14Msgs {
		if c14Msgs[i].Name == n {
			return &c14Msgs[i]
		}
	}
	return nil
}
func c14ByType(t byte) *c14Msg {
	for i := range c14Msgs {
		if c14Msgs[i].Type == t {
			return &c14Msgs[i]
		}
	}
	return nil
}

type c14Input struct {
	Kind     string `json:"kind"`  // "dec" | "enc"
	Stack    string `json:"stack"` // "T" | "D"
	Msg      string `json:"msg"`
	Captured bool   `json:"captured,omitempty"`
	Data     []byte `json:"data,omitempty"`   // dec
	Fields   *c14F  `json:"fields,omitempty"` // enc
}

type c14Res struct {
	OK     bool   `json:"ok"`
	Fields c14F   `json:"fields"`
	Re     []byte `json:"re,omitempty"`
	ReErr  string `json:"re_err,omitempty"`
	Panic  string `json:"panic,omitempty"`
}

func c14Unmarshal(stack string, m *c14Msg, data []byte) (r c14Res) {
	defer func() {
		if x := recover(); x != nil {
			r = c14Res{Panic: fmt.Sprint(x)}
		}
	}()
	// the decoders keep sub-slices of their input: hand them a private copy
	data = append([]byte(nil), data...)
	if stack == "T" {
		ok, f, re, err := m.UT(data)
		r = c14Res{OK: ok, Fields: c14FromT(f), Re: re}
		if err != nil {
			r.ReErr = err.Error()
		}
	} else {
		ok, f, re, err := m.UD(data)
		r = c14Res{OK: ok, Fields: c14FromD(f), Re: re}
		if err != nil {
			r.ReErr = err.Error()
		}
	}
	return
}

func c14Marshal(stack string, m *c14Msg, f c14F) (b []byte, errs string, pan string) {
	defer func() {
		if x := recover(); x != nil {
			pan = fmt.Sprint(x)
		}
	}()
	var err error
	if stack == "T" {
		b, err = m.MT(f.toT())
	} else {
		b, err = m.MD(f.toD())
	}
	if err != nil {
		errs = err.Error()
	}
	return
}

// ---- Coq printing

// c14Bytes renders a byte string; runs of at least 24 equal bytes become (rep b n).
func c14Bytes(bs []byte) string {
	var parts []string
	var lit []byte
	flush := func() {
		if len(lit) > 0 {
			parts = append(parts, emit.Bytes(lit))
			lit = nil
		}
	}
	for i := 0; i < len(bs); {
		j := i
		for j < len(bs) && bs[j] == bs[i] {
			j++
		}
		if j-i >= 24 {
			flush()
			parts = append(parts, fmt.Sprintf("rep %d %d", bs[i], j-i))
		} else {
			lit = append(lit, bs[i:j]...)
		}
		i = j
	}
	flush()
	if len(parts) == 0 {
		return "[]"
	}
	if len(parts) == 1 && strings.HasPrefix(parts[0], "[") {
		return parts[0]
	}
	return "(" + strings.Join(parts, " ++ ") + ")"
}

func c14LBytes(l [][]byte) string {
	var s []string
	for _, b := range l {
		s = append(s, c14Bytes(b))
	}
	return "[" + strings.Join(s, ";") + "]"
}
func c14U16s(l []uint16) string {
	var s []string
	for _, v := range l {
		s = append(s, fmt.Sprint(v))
	}
	return "[" + strings.Join(s, ";") + "]"
}
func c14OptBytes(ok bool, b []byte) string {
	if !ok {
		return "None"
	}
	return "(Some " + c14Bytes(b) + ")"
}

func c14Fields(m *c14Msg, f c14F, decoded bool) string {
	if !decoded {
		return "FNone"
	}
	switch m.Name {
	case "finished", "serverKeyExchange", "clientKeyExchange", "certificateVerify":
		return "(FBlob " + c14Bytes(f.Blob) + ")"
	case "serverHelloDone":
		return "FNone"
	case "certificate":
		return "(FCert " + c14LBytes(f.Certs) + ")"
	case "certificateRequest":
		return "(FCReq " + c14Bytes(f.CertTypes) + " " + c14LBytes(f.CAs) + ")"
	case "helloVerifyRequest":
		return fmt.Sprintf("(FHVR %d %s)", f.Vers, c14Bytes(f.Cookie))
	case "serverHello":
		return fmt.Sprintf("(FSH (mkSH %d %s %s %d %d %s %s %s %s))", f.Vers, c14Bytes(f.Random), c14Bytes(f.SessionID), f.Suite,
			f.CompMethod, emit.Bool(f.OCSP), c14Bytes(f.OCSPResp), c14Bytes(f.ALPN), emit.Bool(f.SNIAck))
	case "clientHello":
		var tas []string
		for _, t := range f.TAs {
			tas = append(tas, fmt.Sprintf("mkTA %d %s", t.Type, c14Bytes(t.ID)))
		}
		return fmt.Sprintf("(FCH (mkCH %d %s %s %s %s %s %s [%s] %s %s %s %s %s))", f.Vers, c14Bytes(f.Random), c14Bytes(f.SessionID),
			c14Bytes(f.Cookie), c14U16s(f.Suites), c14Bytes(f.Comp), c14Bytes(f.ServerName), strings.Join(tas, ";"), emit.Bool(f.OCSP),
			c14U16s(f.Curves), c14U16s(f.SigAlgs), c14LBytes(f.ALPNs), c14Bytes(f.ClientID))
	}
	return "FNone"
}

func c14DH(f c14F) string { return fmt.Sprintf("(mkDH %d %d %d)", f.Seq, f.Off, f.FLen) }

func c14St(stack string) string {
	if stack == "T" {
		return "ST"
	}
	return "SD"
}

// is the header consistent with the size (what readHandshake guarantees)?
func c14Framed(stack string, typ byte, d []byte) bool {
	h := 4
	if stack == "D" {
		h = 12
	}
	if len(d) < h || d[0] != typ {
		return false
	}
	l := int(d[1])<<16 | int(d[2])<<8 | int(d[3])
	if l != len(d)-h {
		return false
	}
	if stack == "D" {
		off := int(d[6])<<16 | int(d[7])<<8 | int(d[8])
		fl := int(d[9])<<16 | int(d[10])<<8 | int(d[11])
		return off == 0 && fl == l
	}
	return true
}

func c14Reframe(stack string, d []byte) []byte {
	h := 4
	if stack == "D" {
		h = 12
	}
	if len(d) < h {
		return d
	}
	o := append([]byte(nil), d...)
	l := len(d) - h
	o[1], o[2], o[3] = byte(l>>16), byte(l>>8), byte(l)
	if stack == "D" {
		o[6], o[7], o[8] = 0, 0, 0
		o[9], o[10], o[11] = byte(l>>16), byte(l>>8), byte(l)
	}
	return o
}

type c14Run struct {
	out     *emit.Out
	seen    map[string]bool
	skipped int
}

func (c *c14Run) add(family string, in c14Input) {
	m := c14ByName(in.Msg)
	if m == nil || (in.Stack == "T" && m.UT == nil) {
		return
	}
	switch in.Kind {
	case "dec":
		key := in.Stack + m.Name + fmt.Sprint(in.Captured) + string(in.Data)
		if c.seen[key] {
			c.skipped++
			return
		}
		c.seen[key] = true
		r := c14Unmarshal(in.Stack, m, in.Data)
		fr := "unframed"
		if c14Framed(in.Stack, m.Type, in.Data) {
			fr = "framed"
		}
		scen := fmt.Sprintf("%s-%s-%s-%s", in.Stack, m.Name, family, fr)
		if in.Captured {
			scen = fmt.Sprintf("%s-%s-captured", in.Stack, m.Name)
		}
		o, direct := "ORej", ""
		if r.Panic != "" {
			o, direct = "OPanic", "panic: "+r.Panic
		} else if r.OK {
			o = "OOk"
		}
		coq := fmt.Sprintf("Dec %s %s %s %s %s %s %s %s", c14St(in.Stack), m.Coq, emit.Bool(in.Captured), c14Bytes(in.Data), o,
			c14DH(r.Fields), c14Fields(m, r.Fields, r.OK), c14OptBytes(r.OK && r.ReErr == "", r.Re))
		c.out.Add(emit.Case{Scenario: scen, Trivial: len(in.Data) == 0, Input: in, Observed: r, Coq: coq, Direct: direct})
	case "enc":
		f := *in.Fields
		enc, errs, pan := c14Marshal(in.Stack, m, f)
		var r c14Res
		direct := ""
		o := "ORej"
		if pan != "" {
			direct = "panic: " + pan
		} else if errs == "" {
			r = c14Unmarshal(in.Stack, m, enc)
			if r.Panic != "" {
				o, direct = "OPanic", "panic: "+r.Panic
			} else if r.OK {
				o = "OOk"
			}
		}
		multi := ""
		if in.Stack == "D" && m.Name == "clientHello" && (len(f.Curves) > 1 || len(f.SigAlgs) > 1) {
			multi = "-multi16"
		}
		scen := fmt.Sprintf("%s-%s-%s%s", in.Stack, m.Name, family, multi)
		coq := fmt.Sprintf("Enc %s %s %s %s %s %s %s %s", c14St(in.Stack), m.Coq, c14DH(f), c14Fields(m, f, true),
			c14OptBytes(errs == "" && pan == "", enc), o, c14DH(r.Fields), c14Fields(m, r.Fields, r.OK))
		c.out.Add(emit.Case{Scenario: scen, Trivial: false, Input: in,
			Observed: map[string]interface{}{"enc": enc, "marshal_err": errs, "marshal_panic": pan, "unmarshal": r}, Coq: coq, Direct: direct})
		if in.Stack == "D" && errs == "" && pan == "" && r.OK && len(enc) >= 12 && len(enc) < 3000 {
			c.reseq(m, family, in, enc)
		}
	}
}

// reseq: the message (decoded from enc) is renumbered while it holds an encoding; both encodings it then
// produces must be enc with the new message_seq (the raw-bytes cache must not survive setMessageSeq)
func (c *c14Run) reseq(m *c14Msg, family string, in c14Input, enc []byte) {
	old := int(enc[4])<<8 | int(enc[5])
	seq := (old + 1 + len(enc)%7) & 0xffff
	var ok bool
	var a1, a2 []byte
	var err error
	pan := ""
	func() {
		defer func() {
			if r := recover(); r != nil {
				pan = fmt.Sprint(r)
			}
		}()
		ok, a1, a2, err = dtlcp.VerifResequence(m.Type, enc, uint16(seq))
	}()
	direct := ""
	if pan != "" {
		direct = "panic: " + pan
	}
	c.out.Add(emit.Case{Scenario: fmt.Sprintf("D-%s-%s-renumbered", m.Name, family), Trivial: false, Input: in, Direct: direct,
		Observed: map[string]interface{}{"ok": ok, "old_seq": old, "new_seq": seq, "after_decode": a1, "after_encode": a2, "err": fmt.Sprint(err)},
		Coq:      fmt.Sprintf("Reseq %s %s %d %s %s %s", m.Coq, c14Bytes(enc), seq, emit.Bool(ok), c14OptBytes(ok && err == nil, a1), c14OptBytes(ok && err == nil, a2))})
}

func c14Unused() {
	_ = 0
}

// ---- generators

type c14Gen struct {
	r    *rand.Rand
	tier string
}

func (g *c14Gen) bytes(n int) []byte {
	b := make([]byte, n)
	for i := range b {
		b[i] = byte(g.r.IntN(256))
	}
	return b
}
func (g *c14Gen) fill(n int) []byte { // large vectors: one repeated byte (printed run-length encoded)
	b := make([]byte, n)
	v := byte(1 + g.r.IntN(255))
	for i := range b {
		b[i] = v
	}
	return b
}

// vector length: empty, one, maximal, or random small
func (g *c14Gen) vlen(min, max, typical int) int {
	switch g.r.IntN(8) {
	case 0:
		return min
	case 1:
		if max <= 300 {
			return max
		}
		return min + 1
	case 2:
		return min + 1
	}
	if typical > max {
		typical = max
	}
	if typical <= min {
		return min
	}
	return min + g.r.IntN(typical-min+1)
}
func (g *c14Gen) u16s(n int) []uint16 {
	var l []uint16
	for i := 0; i < n; i++ {
		v := uint16(g.r.IntN(65536))
		switch g.r.IntN(4) {
		case 0:
			v = []uint16{0xe013, 0xe053, 0xe011, 0xe051, 41, 0x0704, 0, 0xffff}[g.r.IntN(8)]
		}
		l = append(l, v)
	}
	return l
}

func (g *c14Gen) wf(stack string, m *c14Msg, variant int) c14F {
	// variant 0: everything empty / absent; 1: everything present and (8-bit vectors) maximal; else random
	var f c14F
	if stack == "D" {
		f.Seq = uint16(g.r.IntN(65536))
		if variant == 0 {
			f.Seq = 0
		}
	}
	pick := func(min, max, typ int) int {
		switch variant {
		case 0:
			return min
		case 1:
			if max > 300 {
				return typ
			}
			return max
		}
		return g.vlen(min, max, typ)
	}
	present := func() bool {
		switch variant {
		case 0:
			return false
		case 1:
			return true
		}
		return g.r.IntN(2) == 0
	}
	switch m.Name {
	case "finished":
		f.Blob = g.bytes(pick(0, 65536, 12))
		if variant > 1 && g.r.IntN(3) > 0 {
			f.Blob = g.bytes(12)
		}
	case "serverKeyExchange", "clientKeyExchange":
		f.Blob = g.bytes(pick(0, 70000, 80))
	case "certificateVerify":
		f.Blob = g.bytes(pick(0, 65535, 72))
	case "serverHelloDone":
	case "certificate":
		n := pick(0, 1000, 3)
		if variant == 1 {
			n = 4
		}
		for i := 0; i < n; i++ {
			f.Certs = append(f.Certs, g.bytes(pick(1, 70000, 40)))
		}
	case "certificateRequest":
		f.CertTypes = g.bytes(pick(1, 255, 3))
		n := pick(0, 1000, 3)
		if variant == 1 {
			n = 3
		}
		for i := 0; i < n; i++ {
			f.CAs = append(f.CAs, g.bytes(pick(0, 65535, 30)))
		}
	case "helloVerifyRequest":
		f.Vers = uint16(g.r.IntN(65536))
		f.Cookie = g.bytes(pick(0, 255, 32))
	case "serverHello":
		f.Vers = []uint16{0x0101, 0x0101, uint16(g.r.IntN(65536))}[g.r.IntN(3)]
		f.Random = g.bytes(32)
		f.SessionID = g.bytes(pick(0, 255, 32))
		f.Suite = uint16(g.r.IntN(65536))
		f.CompMethod = uint8(g.r.IntN(256))
		if present() {
			f.OCSP = true
			f.OCSPResp = g.bytes(pick(1, 65531, 30))
		}
		if present() {
			f.ALPN = g.bytes(pick(1, 255, 8))
		}
		f.SNIAck = present()
	case "clientHello":
		f.Vers = []uint16{0x0101, 0x0101, uint16(g.r.IntN(65536))}[g.r.IntN(3)]
		f.Random = g.bytes(32)
		f.SessionID = g.bytes(pick(0, 255, 32))
		if stack == "D" {
			f.Cookie = g.bytes(pick(0, 255, 32))
		}
		f.Suites = g.u16s(pick(0, 32767, 6))
		f.Comp = g.bytes(pick(0, 255, 2))
		if present() {
			n := pick(1, 65530, 20)
			f.ServerName = g.bytes(n)
			for i := range f.ServerName {
				f.ServerName[i] = "abcdefghijklmnopqrstuvwxyz0123456789-.ABCXYZ_"[g.r.IntN(45)]
			}
			if f.ServerName[n-1] == '.' {
				f.ServerName[n-1] = 'x'
			}
		}
		if present() {
			n := pick(1, 6, 3)
			for i := 0; i < n; i++ {
				switch g.r.IntN(4) {
				case 0:
					f.TAs = append(f.TAs, c14TA{0, []byte{}})
				case 1:
					f.TAs = append(f.TAs, c14TA{4, g.bytes(32)})
				case 2:
					f.TAs = append(f.TAs, c14TA{5, g.bytes(32)})
				case 3:
					f.TAs = append(f.TAs, c14TA{2, g.bytes(pick(0, 65535, 24))})
				}
			}
		}
		f.OCSP = present()
		if present() {
			f.Curves = g.u16s(pick(1, 32766, 3))
		}
		if present() {
			f.SigAlgs = g.u16s(pick(1, 32766, 3))
		}
		if present() {
			n := pick(1, 6, 3)
			for i := 0; i < n; i++ {
				f.ALPNs = append(f.ALPNs, g.bytes(pick(1, 255, 8)))
			}
		}
		if present() {
			f.ClientID = g.bytes(pick(1, 65533, 16))
		}
	}
	return f
}

// large: vectors beyond 2^16 (24-bit length fields) and the largest 16-bit vectors, filled with one byte
func (g *c14Gen) large(stack string, m *c14Msg) (c14F, bool) {
	var f c14F
	if stack == "D" {
		f.Seq = uint16(g.r.IntN(65536))
	}
	switch m.Name {
	case "finished":
		if stack == "D" { // the dtlcp decoder refuses a Finished body above maxHandshake
			f.Blob = g.fill(65536)
		} else {
			f.Blob = g.fill(66000 + g.r.IntN(5000))
		}
	case "serverKeyExchange", "clientKeyExchange":
		f.Blob = g.fill(66000 + g.r.IntN(5000))
	case "certificateVerify":
		f.Blob = g.fill(65535)
	case "certificate":
		f.Certs = [][]byte{g.fill(66000 + g.r.IntN(3000)), g.fill(1), g.fill(300)}
	case "certificateRequest":
		f.CertTypes = g.fill(255)
		f.CAs = [][]byte{g.fill(65533)}
	case "helloVerifyRequest":
		f.Vers, f.Cookie = 0x0101, g.fill(255)
	case "serverHello":
		f.Vers, f.Random, f.SessionID, f.OCSP, f.OCSPResp = 0x0101, g.bytes(32), g.fill(255), true, g.fill(65527)
	case "clientHello":
		f.Vers, f.Random, f.SessionID, f.Suites, f.Comp = 0x0101, g.bytes(32), g.fill(255), []uint16{0xe013}, g.fill(255)
		if stack == "D" {
			f.Cookie = g.fill(255)
		}
		f.ClientID = g.fill(65529)
	default:
		return f, false
	}
	return f, true
}

func c14Concat(parts ...[]byte) []byte {
	var o []byte
	for _, p := range parts {
		o = append(o, p...)
	}
	return o
}
func c14V8(b []byte) []byte  { return append([]byte{byte(len(b))}, b...) }
func c14V16(b []byte) []byte { return append([]byte{byte(len(b) >> 8), byte(len(b))}, b...) }
func c14V24(b []byte) []byte {
	return append([]byte{byte(len(b) >> 16), byte(len(b) >> 8), byte(len(b))}, b...)
}
func c14Ext(t int, d []byte) []byte {
	return append([]byte{byte(t >> 8), byte(t)}, c14V16(d)...)
}
func c14Hdr(stack string, typ byte, body []byte) []byte {
	l := len(body)
	if stack == "T" {
		return c14Concat([]byte{typ, byte(l >> 16), byte(l >> 8), byte(l)}, body)
	}
	return c14Concat([]byte{typ, byte(l >> 16), byte(l >> 8), byte(l), 0, 7, 0, 0, 0, byte(l >> 16), byte(l >> 8), byte(l)}, body)
}

// hand-made hello messages: ignored parts, and accepted forms the library never emits (K4)
func (g *c14Gen) craftedHellos(c *c14Run) {
	for _, stack := range []string{"T", "D"} {
		chFixed := func() []byte {
			b := c14Concat([]byte{1, 1}, g.bytes(32), c14V8(g.bytes(g.r.IntN(4))))
			if stack == "D" {
				b = append(b, c14V8(g.bytes(g.r.IntN(4)))...)
			}
			return c14Concat(b, c14V16([]byte{0xe0, 0x13, 0xe0, 0x53}), c14V8([]byte{0}))
		}
		shFixed := func() []byte {
			return c14Concat([]byte{1, 1}, g.bytes(32), c14V8(g.bytes(g.r.IntN(4))), []byte{0xe0, 0x13, 0})
		}
		sni := func(names ...[]byte) []byte { return c14Ext(0, c14V16(c14Concat(names...))) }
		name := func(t byte, n string) []byte { return c14Concat([]byte{t}, c14V16([]byte(n))) }
		curves := func(v ...byte) []byte { return c14Ext(10, c14V16(v)) }
		sigs := func(v ...byte) []byte { return c14Ext(13, c14V16(v)) }
		alpn := func(ps ...string) []byte {
			var l []byte
			for _, p := range ps {
				l = append(l, c14V8([]byte(p))...)
			}
			return c14Ext(16, c14V16(l))
		}
		status := func(t byte, resp, ext []byte) []byte {
			return c14Ext(5, c14Concat([]byte{t}, c14V16(resp), c14V16(ext)))
		}
		tca := func(entries ...[]byte) []byte { return c14Ext(3, c14V16(c14Concat(entries...))) }
		h32 := g.bytes(32)
		chCases := map[string][]byte{
			"canonical-all":           c14Concat(sni(name(0, "a.example")), tca([]byte{0}, c14Concat([]byte{4}, h32), c14Concat([]byte{2}, c14V16([]byte("dn")))), status(1, nil, nil), curves(0, 41), sigs(7, 4), alpn("h2", "x"), c14Ext(66, c14V16([]byte("id")))),
			"canonical-two-curves":    c14Concat(curves(0, 41, 0, 23), sigs(7, 4, 4, 3)),
			"canonical-mixed-case":    sni(name(0, "GW-01.Example.COM")),
			"canonical-upper-case":    c14Concat(sni(name(0, "A.EXAMPLE")), curves(0, 41)),
			"ignored-unknown-ext":     c14Concat(c14Ext(0xff01, []byte{0}), curves(0, 41)),
			"ignored-unknown-ext2":    c14Concat(curves(0, 41), c14Ext(21, g.bytes(5))),
			"ignored-name-type":       sni(name(1, "other"), name(0, "a.example")),
			"ignored-name-type-only":  sni(name(7, "other")),
			"ignored-ta-type":         tca([]byte{9}, []byte{0}),
			"ignored-ta-type-eats":    tca([]byte{1, 0, 0}),
			"ignored-status-type":     status(2, nil, nil),
			"k4-empty-ext-block":      {},
			"k4-dup-curves":           c14Concat(curves(0, 41), curves(0, 23)),
			"k4-dup-sigalgs":          c14Concat(sigs(7, 4), sigs(4, 3)),
			"k4-dup-curves-multi":     c14Concat(curves(0, 41, 0, 23), curves(0, 24, 0, 25, 0, 41)),
			"k4-dup-sigalgs-multi":    c14Concat(sigs(7, 4, 7, 5, 7, 6), sigs(4, 3, 7, 4)),
			"k4-dup-alpn":             c14Concat(alpn("h2"), alpn("x")),
			"k4-dup-sni":              c14Concat(sni(name(0, "a.example")), sni(name(0, "b.example"))),
			"k4-dup-tca":              c14Concat(tca([]byte{0}), tca([]byte{0})),
			"k4-dup-cid":              c14Concat(c14Ext(66, c14V16([]byte("a"))), c14Ext(66, c14V16([]byte("b")))),
			"k4-order":                c14Concat(curves(0, 41), sni(name(0, "a.example"))),
			"k4-two-host-names":       sni(name(0, "a.example"), name(0, "b.example")),
			"k4-ocsp-responders":      status(1, c14V16([]byte("resp")), nil),
			"k4-ocsp-extensions":      status(1, nil, []byte{1, 2, 3}),
			"k4-empty-cid":            c14Ext(66, c14V16(nil)),
			"k4-zero-length-dn":       tca(c14Concat([]byte{2}, c14V16(nil))),
			"reject-sni-trailing-dot": sni(name(0, "a.example.")),
			"reject-empty-name":       sni(name(0, "")),
			"reject-empty-alpn-name":  alpn("h2", ""),
			"reject-odd-curves":       curves(0, 41, 0),
			"reject-ext-trailing":     c14Ext(10, c14Concat(c14V16([]byte{0, 41}), []byte{0})),
			"reject-short-hash":       tca(c14Concat([]byte{4}, h32[:31])),
			// status_request whose two vectors are missing, cut short, overlong or followed by a byte
			"reject-status-no-vectors":      c14Ext(5, []byte{1}),
			"reject-status-one-vector":      c14Ext(5, []byte{1, 0, 0}),
			"reject-status-cut-vector":      c14Ext(5, []byte{1, 0, 0, 0}),
			"reject-status-trailing":        c14Ext(5, []byte{1, 0, 0, 0, 0, 0xff}),
			"reject-status-long-responders": c14Ext(5, []byte{1, 0, 5, 1, 2, 0, 0}),
			"reject-status-long-extensions": c14Ext(5, []byte{1, 0, 0, 0, 3, 1, 2}),
			"reject-status-empty":           c14Ext(5, nil),
			"reject-status-other-type-bare": c14Ext(5, []byte{2}),
		}
		keys := make([]string, 0, len(chCases))
		for k := range chCases {
			keys = append(keys, k)
		}
		sort.Strings(keys)
		for _, k := range keys {
			body := c14Concat(chFixed(), c14V16(chCases[k]))
			c.add("crafted-"+k, c14Input{Kind: "dec", Stack: stack, Msg: "clientHello", Data: c14Hdr(stack, 1, body)})
		}
		// malformed vectors of the fixed part (no extensions involved)
		fixed := func(suites, comp []byte, sid []byte) []byte {
			b := c14Concat([]byte{1, 1}, g.bytes(32), c14V8(sid))
			if stack == "D" {
				b = append(b, c14V8(g.bytes(g.r.IntN(4)))...)
			}
			return c14Concat(b, c14V16(suites), c14V8(comp))
		}
		for k, body := range map[string][]byte{
			"reject-odd-suites":      fixed([]byte{0xe0, 0x13, 0xe0, 0x53, 0xe0}, []byte{0}, nil),
			"reject-one-byte-suites": fixed([]byte{0xe0}, []byte{0}, nil),
			"reject-empty-suites":    fixed(nil, []byte{0}, nil),
			"reject-empty-comp":      fixed([]byte{0xe0, 0x13}, nil, nil),
			"reject-long-sid":        fixed([]byte{0xe0, 0x13}, []byte{0}, g.bytes(33)),
			"fixed-two-comp":         fixed([]byte{0xe0, 0x13}, []byte{1, 0}, nil),
			"fixed-max-sid":          fixed([]byte{0xe0, 0x13}, []byte{0}, g.bytes(32)),
		} {
			c.add("crafted-"+k, c14Input{Kind: "dec", Stack: stack, Msg: "clientHello", Data: c14Hdr(stack, 1, body)})
			c.add("crafted-"+k+"-exts", c14Input{Kind: "dec", Stack: stack, Msg: "clientHello", Data: c14Hdr(stack, 1, c14Concat(body, c14V16(curves(0, 41))))})
		}
		// a byte after the extension block, header consistent
		c.add("crafted-trailing-after-exts", c14Input{Kind: "dec", Stack: stack, Msg: "clientHello",
			Data: c14Hdr(stack, 1, c14Concat(chFixed(), c14V16(curves(0, 41)), []byte{0}))})
		c.add("crafted-trailing-after-comp", c14Input{Kind: "dec", Stack: stack, Msg: "clientHello",
			Data: c14Hdr(stack, 1, c14Concat(chFixed(), []byte{0}))})
		shCases := map[string][]byte{
			"canonical-all":        c14Concat(c14Ext(5, c14Concat([]byte{1}, c14V24([]byte("ocsp")))), alpn("h2"), c14Ext(0, nil)),
			"ignored-unknown-ext":  c14Concat(c14Ext(0xff01, []byte{0}), alpn("h2")),
			"k4-empty-ext-block":   {},
			"k4-empty-ocsp":        c14Ext(5, c14Concat([]byte{1}, c14V24(nil))),
			"k4-order":             c14Concat(c14Ext(0, nil), alpn("h2")),
			"k4-dup-alpn":          c14Concat(alpn("h2"), alpn("h3")),
			"k4-dup-sni-ack":       c14Concat(c14Ext(0, nil), c14Ext(0, nil)),
			"reject-status-type":   c14Ext(5, c14Concat([]byte{2}, c14V24([]byte("ocsp")))),
			"reject-two-alpn":      alpn("h2", "h3"),
			"reject-sni-ack-data":  c14Ext(0, []byte{0}),
			"reject-ocsp-trailing": c14Ext(5, c14Concat([]byte{1}, c14V24([]byte("ocsp")), []byte{0})),
		}
		keys = keys[:0]
		for k := range shCases {
			keys = append(keys, k)
		}
		sort.Strings(keys)
		for _, k := range keys {
			body := c14Concat(shFixed(), c14V16(shCases[k]))
			c.add("crafted-"+k, c14Input{Kind: "dec", Stack: stack, Msg: "serverHello", Data: c14Hdr(stack, 2, body)})
		}
		c.add("crafted-trailing-after-exts", c14Input{Kind: "dec", Stack: stack, Msg: "serverHello",
			Data: c14Hdr(stack, 2, c14Concat(shFixed(), c14V16(alpn("h2")), []byte{0}))})
		c.add("crafted-trailing-after-comp", c14Input{Kind: "dec", Stack: stack, Msg: "serverHello",
			Data: c14Hdr(stack, 2, c14Concat(shFixed(), []byte{0}))})
		// hand-indexed decoders: inner lengths pointing just past / just short of the end, outer lengths consistent
		for _, body := range [][]byte{
			{0, 0, 1, 9}, {0, 0, 2, 9, 9}, {0, 0, 3, 0, 0, 0}, {0, 0, 3, 0, 0, 1}, {0, 0, 4, 0, 0, 1, 9}, {0, 0, 4, 0, 0, 2, 9},
			{0, 0, 7, 0, 0, 1, 9, 0, 0, 0}, {0, 0, 8, 0, 0, 1, 9, 0, 0, 1, 9}, {0, 0, 6, 0, 0, 0, 0, 0, 0}, {0, 0, 5, 0, 0, 1, 9, 9},
			{0, 0, 0}, {0, 0, 0, 9}, {0, 0, 1}, {255, 255, 255},
		} {
			c.add("crafted-inner", c14Input{Kind: "dec", Stack: stack, Msg: "certificate", Data: c14Hdr(stack, 11, body)})
		}
		for _, body := range [][]byte{
			{0}, {1}, {1, 1}, {1, 1, 0}, {1, 1, 0, 0}, {1, 1, 0, 0, 9}, {1, 1, 0, 1}, {1, 1, 0, 1, 9}, {1, 1, 0, 2, 0, 0}, {1, 1, 0, 2, 0, 1},
			{1, 1, 0, 3, 0, 1, 9}, {1, 1, 0, 3, 0, 2, 9}, {1, 1, 0, 3, 0, 0, 9}, {2, 1, 2, 0, 5, 0, 1, 9, 0, 0}, {2, 1, 0, 0}, {0, 0, 0}, {255, 1, 0, 0},
			{1, 1, 255, 255}, {1, 1, 0, 4, 0, 1, 9, 0},
		} {
			c.add("crafted-inner", c14Input{Kind: "dec", Stack: stack, Msg: "certificateRequest", Data: c14Hdr(stack, 13, body)})
		}
	}
}

// mutations of one valid encoding
func (g *c14Gen) derive(c *c14Run, stack string, m *c14Msg, enc []byte, full, short bool) {
	h := 4
	if stack == "D" {
		h = 12
	}
	dec := func(family string, d []byte) {
		c.add(family, c14Input{Kind: "dec", Stack: stack, Msg: m.Name, Data: d})
	}
	n := len(enc)
	dec("valid", enc)
	// truncations: all short ones, then all (thorough) or a sample
	for l := 0; l < n; l++ {
		if (short && l <= h+3) || full || l == n-1 || g.r.IntN(n) < 3 {
			dec("trunc", enc[:l])
			if l >= h && (full || g.r.IntN(2) == 0) {
				dec("trunc-reframed", c14Reframe(stack, enc[:l]))
			}
		}
	}
	// single-byte mutations: every header byte, then all body bytes (thorough) or a sample
	for i := 0; i < n; i++ {
		if i < h || full || g.r.IntN(n) < 6 {
			d := append([]byte(nil), enc...)
			switch g.r.IntN(4) {
			case 0:
				d[i] ^= 1
			case 1:
				d[i]++
			case 2:
				d[i]--
			default:
				d[i] ^= byte(1 + g.r.IntN(255))
			}
			dec("mut", d)
		}
	}
	// appended bytes, raw and re-framed
	dec("append", append(append([]byte(nil), enc...), byte(g.r.IntN(256))))
	dec("append-reframed", c14Reframe(stack, append(append([]byte(nil), enc...), g.bytes(1+g.r.IntN(2))...)))
	// insertion / deletion inside the body, re-framed
	if n > h {
		k := 2
		if full {
			k = 8
		}
		for j := 0; j < k; j++ {
			p := h + g.r.IntN(n-h+1)
			d := c14Concat(enc[:p], []byte{byte(g.r.IntN(256))}, enc[p:])
			dec("insert-reframed", c14Reframe(stack, d))
			p = h + g.r.IntN(n-h)
			d = c14Concat(enc[:p], enc[p+1:])
			dec("delete-reframed", c14Reframe(stack, d))
		}
	}
	if stack == "D" && n >= 12 {
		// fragment fields that do not describe a whole message
		d := append([]byte(nil), enc...)
		d[8] = 1
		dec("fragment-offset", d)
		if n > 12 {
			d = append([]byte(nil), enc...)
			l := n - 12 - 1
			d[9], d[10], d[11] = byte(l>>16), byte(l>>8), byte(l)
			dec("fragment-length-short", d)
		}
		d = append([]byte(nil), enc...)
		l := n - 12 + 1
		d[9], d[10], d[11] = byte(l>>16), byte(l>>8), byte(l)
		dec("fragment-length-long", d)
	}
}

// ---- handshake capture

func c14SplitT(recs [][]byte) [][]byte {
	var hs []byte
	for _, r := range recs {
		if len(r) < 5 {
			continue
		}
		if r[0] == 20 { // ChangeCipherSpec: what follows is encrypted
			break
		}
		if r[0] == 22 {
			hs = append(hs, r[5:]...)
		}
	}
	var msgs [][]byte
	for len(hs) >= 4 {
		l := int(hs[1])<<16 | int(hs[2])<<8 | int(hs[3])
		if len(hs) < 4+l {
			break
		}
		msgs = append(msgs, hs[:4+l])
		hs = hs[4+l:]
	}
	return msgs
}

func c14SplitD(dgrams [][]byte) (msgs [][]byte, fragments int) {
	for _, d := range dgrams {
		for len(d) >= 13 {
			l := int(d[11])<<8 | int(d[12])
			if len(d) < 13+l {
				break
			}
			rec := d[:13+l]
			d = d[13+l:]
			epoch := int(rec[3])<<8 | int(rec[4])
			if rec[0] != 22 || epoch != 0 {
				continue
			}
			p := rec[13:]
			for len(p) >= 12 {
				bl := int(p[1])<<16 | int(p[2])<<8 | int(p[3])
				off := int(p[6])<<16 | int(p[7])<<8 | int(p[8])
				fl := int(p[9])<<16 | int(p[10])<<8 | int(p[11])
				if len(p) < 12+fl {
					break
				}
				if off == 0 && fl == bl {
					msgs = append(msgs, p[:12+fl])
				} else {
					fragments++
				}
				p = p[12+fl:]
			}
		}
	}
	return
}

type c14Capture struct {
	Stack string
	Msgs  [][]byte
	Info  string
}

func c14Handshakes(tier string) (caps []c14Capture, notes []string) {
	type cfg struct {
		suite uint16
		auth  int
		alpn  []string
		sni   string
	}
	cfgs := []cfg{{0xe013, 0, nil, "server.test"}, {0xe053, 4, []string{"h2", "http/1.1"}, "server.test"}, {0xe011, 4, nil, ""}, {0xe051, 0, []string{"x"}, "server.test"}}
	if tier == "thorough" {
		cfgs = append(cfgs, cfg{0xe013, 4, []string{"a", "b"}, "server.test"}, cfg{0xe053, 0, nil, ""}, cfg{0xe011, 0, nil, "server.test"}, cfg{0xe051, 4, nil, "server.test"})
	}
	for _, cf := range cfgs {
		for _, stack := range []string{"T", "D"} {
			reg := tk.NewRegistry()
			cc := tk.EPConfig{Suites: []uint16{cf.suite}, Ident: "cli", ServerName: cf.sni, ALPN: cf.alpn, Insecure: cf.sni == "", Cache: "c", CacheCap: 8}
			sc := tk.EPConfig{Ident: "srv", Auth: cf.auth, ALPN: cf.alpn, Cache: "s", CacheCap: 8}
			for round := 0; round < 2; round++ { // second round: resumption (abbreviated handshake) if the stack offers it
				info := fmt.Sprintf("%s suite=%04x auth=%d alpn=%v sni=%q round=%d", stack, cf.suite, cf.auth, cf.alpn, cf.sni, round)
				if stack == "T" {
					tp := tk.NewTPair(tk.BuildTLCP(cc, reg), tk.BuildTLCP(sc, reg))
					cr, sr, hung := tp.Handshake(10 * time.Second)
					msgs := append(c14SplitT(tp.C2S.SentRecords()), c14SplitT(tp.S2C.SentRecords())...)
					tp.Close()
					caps = append(caps, c14Capture{"T", msgs, info})
					if cr.Err != "" || sr.Err != "" || hung {
						notes = append(notes, fmt.Sprintf("%s: client=%q server=%q hung=%v", info, cr.ErrText, sr.ErrText, hung))
					}
				} else {
					dp := tk.NewDPair(tk.BuildDTLCP(cc, reg), tk.BuildDTLCP(sc, reg))
					var dg [][]byte
					dp.Net.Decide = func(d *tk.Dgram) tk.Action {
						dg = append(dg, append([]byte(nil), d.Data...))
						return tk.Action{}
					}
					cr, sr, hung := dp.Handshake(10 * time.Second)
					msgs, frags := c14SplitD(dg)
					caps = append(caps, c14Capture{"D", msgs, info})
					if cr.Err != "" || sr.Err != "" || hung || frags > 0 {
						notes = append(notes, fmt.Sprintf("%s: client=%q server=%q hung=%v fragments-skipped=%d", info, cr.ErrText, sr.ErrText, hung, frags))
					}
				}
			}
		}
	}
	return
}

func runC14(p params) error {
	out := emit.New(p.out, "C14", "V.Corr.Run_C14", "case",
		"marshal/unmarshal round trips of random well-formed fields; unmarshal + re-marshal of truncations, single-byte mutations, re-framed insertions/deletions, appended bytes, arbitrary bytes, hand-made hellos and captured handshake messages; non-trivial = non-empty input; distinct by Coq term")
	c := &c14Run{out: out, seen: map[string]bool{}}
	if p.replay != "" {
		b, err := os.ReadFile(p.replay)
		if err != nil {
			return err
		}
		var rp struct {
			Cases []struct {
				Scenario string   `json:"scenario"`
				Input    c14Input `json:"input"`
			} `json:"cases"`
		}
		if err := json.Unmarshal(b, &rp); err != nil {
			return err
		}
		for _, cs := range rp.Cases {
			// scenario = <stack>-<msg>-<family>[-framed|-unframed|-multi16]: recover the family
			fam := cs.Scenario
			pre := cs.Input.Stack + "-" + cs.Input.Msg + "-"
			fam = strings.TrimPrefix(fam, pre)
			for _, suf := range []string{"-framed", "-unframed", "-multi16"} {
				fam = strings.TrimSuffix(fam, suf)
			}
			c.add(fam, cs.Input)
		}
		return out.Finish()
	}
	g := &c14Gen{r: rand.New(rand.NewPCG(p.seed, 0xC14)), tier: p.tier}
	full := p.tier == "thorough"
	nWF, nArb := 4, 3
	if full {
		nWF, nArb = 40, 60
	}
	for _, stack := range []string{"T", "D"} {
		for i := range c14Msgs {
			m := &c14Msgs[i]
			if stack == "T" && m.UT == nil {
				continue
			}
			// ---- round trips of well-formed values (variant 0 = all empty, 1 = all present / maximal 8-bit vectors)
			for v := 0; v < nWF; v++ {
				f := g.wf(stack, m, v)
				c.add("wf", c14Input{Kind: "enc", Stack: stack, Msg: m.Name, Fields: &f})
				if v == 0 || v == 2 || (full && v < 10) {
					// instances to derive the mutation families from (small ones keep the byte volume modest);
					// thorough: ALL truncations and ALL single-byte mutations of the encodings up to 160 bytes,
					// a sample of the positions of the longer ones
					if enc, errs, pan := c14Marshal(stack, m, f); errs == "" && pan == "" && (len(enc) <= 400 || full && len(enc) <= 1500) {
						g.derive(c, stack, m, enc, full && len(enc) <= 160, v == 0 || full)
					}
				}
			}
			if lf, ok := g.large(stack, m); ok && (full || i%2 == 0) {
				c.add("wf-large", c14Input{Kind: "enc", Stack: stack, Msg: m.Name, Fields: &lf})
			}
			// ---- arbitrary bytes: raw, with the right type byte, and with a consistent header
			for k := 0; k < nArb; k++ {
				d := g.bytes(g.r.IntN(40))
				c.add("arbitrary", c14Input{Kind: "dec", Stack: stack, Msg: m.Name, Data: d})
				d = g.bytes(1 + g.r.IntN(60))
				d[0] = m.Type
				c.add("arbitrary-typed", c14Input{Kind: "dec", Stack: stack, Msg: m.Name, Data: d})
				hl := 4
				if stack == "D" {
					hl = 12
				}
				d = g.bytes(hl + g.r.IntN(50))
				d[0] = m.Type
				if stack == "D" {
					d[4], d[5] = 0, byte(k)
				}
				c.add("arbitrary-body", c14Input{Kind: "dec", Stack: stack, Msg: m.Name, Data: c14Reframe(stack, d)})
			}
		}
	}
	g.craftedHellos(c)
	// ---- messages captured from real handshakes must decode
	caps, notes := c14Handshakes(p.tier)
	ncap := 0
	for _, cp := range caps {
		for _, msg := range cp.Msgs {
			m := c14ByType(msg[0])
			if m == nil {
				notes = append(notes, fmt.Sprintf("%s: unknown handshake type %d", cp.Info, msg[0]))
				continue
			}
			c.add("captured", c14Input{Kind: "dec", Stack: cp.Stack, Msg: m.Name, Captured: true, Data: msg})
			ncap++
		}
	}
	out.Extra["captured_messages"] = ncap
	out.Extra["capture_notes"] = notes
	out.Extra["duplicates_skipped"] = c.skipped
	return out.Finish()
}

func init() { register("C14", runC14) }
