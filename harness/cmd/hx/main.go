// hx: correspondence harness for the /verif Coq development.
// usage: hx <property> -seed N -tier quick|thorough -out DIR [-replay FILE] [-focus FILE]
package main

import (
	"flag"
	"fmt"
	"os"
)

type params struct {
	seed   uint64
	tier   string
	out    string
	replay string // replay file: re-run exactly the cases stored there
	focus  string // search mode: a cases.jsonl line file to search around
}

type runner func(p params) error

var registry = map[string]runner{}

func register(name string, r runner) { registry[name] = r }

func main() {
	if len(os.Args) < 2 {
		fmt.Fprintln(os.Stderr, "usage: hx <property> [flags]")
		os.Exit(2)
	}
	prop := os.Args[1]
	fs := flag.NewFlagSet("hx", flag.ExitOnError)
	var p params
	fs.Uint64Var(&p.seed, "seed", 1, "PRNG seed")
	fs.StringVar(&p.tier, "tier", "quick", "quick|thorough")
	fs.StringVar(&p.out, "out", "", "output directory")
	fs.StringVar(&p.replay, "replay", "", "replay file")
	fs.StringVar(&p.focus, "focus", "", "focus file (search around a disagreeing case)")
	fs.Parse(os.Args[2:])
	r, ok := registry[prop]
	if !ok {
		fmt.Fprintf(os.Stderr, "hx: unknown property %s\n", prop)
		os.Exit(2)
	}
	if p.out == "" {
		fmt.Fprintln(os.Stderr, "hx: -out required")
		os.Exit(2)
	}
	err := r(p)
	profStop()
	if err != nil {
		fmt.Fprintf(os.Stderr, "hx: %v\n", err)
		os.Exit(3)
	}
}
