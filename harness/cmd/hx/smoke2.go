package main

import (
	"fmt"

	"verifharness/internal/puppet"
	"verifharness/internal/tk"
)

// honest puppet flows against the real endpoints
func puppetServerFlow(p *puppet.Peer, suite uint16, certReq bool) {
	pk := tk.GetPKI()
	p.Sig, p.Enc = pk.SrvSig, pk.SrvEnc
	p.Absorb(200) // ClientHello
	if p.DTLS && p.PeerHello != nil && len(p.PeerHello.Cookie) == 0 {
		p.SendHelloVerify([]byte("0123456789abcdef0123456789abcdef"))
		p.Absorb(20000)
	}
	p.SendServerHello(puppet.SHOpt{Suite: suite})
	p.SendCertificate(p.OwnChain())
	p.SendServerKeyExchange(puppet.SKXOpt{Mode: "ok"})
	if certReq {
		p.SendCertRequest(nil)
	}
	p.SendServerHelloDone()
	p.Absorb(200)
	p.SendCCS()
	p.SendFinished("ok")
	p.Absorb(200)
	p.SendApp([]byte("hello from puppet"))
	p.Absorb(50)
}

func puppetClientFlow(p *puppet.Peer, suite uint16, withCert bool) {
	pk := tk.GetPKI()
	if withCert {
		p.Sig, p.Enc = pk.CliSig, pk.CliEnc
	}
	p.SendClientHello(puppet.CHOpt{Suites: []uint16{suite}})
	p.Absorb(200)
	if p.DTLS && p.Cookie != nil && p.PeerHello == nil {
		p.SendClientHello(puppet.CHOpt{Suites: []uint16{suite}, Cookie: p.Cookie})
		p.Absorb(200)
	}
	if p.CertRequested {
		p.SendCertificate(p.OwnChain())
	}
	p.SendClientKeyExchange("ok")
	if p.CertRequested && p.Sig != nil {
		p.SendCertVerify("ok")
	}
	p.SendCCS()
	p.SendFinished("ok")
	p.Absorb(200)
	p.SendApp([]byte("hello from puppet client"))
	p.Absorb(50)
}

func runSmoke2(_ params) error {
	for _, suite := range []uint16{0xe053, 0xe013, 0xe051, 0xe011} {
		ecdhe := puppet.IsECDHE(suite)
		// real client vs puppet server
		cc := tk.EPConfig{Suites: []uint16{suite}, Ident: "cli", ServerName: "server.test"}
		s := puppet.NewTLCPSession(tk.BuildTLCP(cc, nil), true)
		puppetServerFlow(s.P, suite, ecdhe)
		o := s.Finish()
		fmt.Printf("tlcp client-target %04x: err=%q complete=%v read=%q peerFinOK=%v alerts=%v kinds=%v\n", suite, o.Res.Err+" "+o.Res.ErrText, o.Res.Complete, o.Read, s.P.PeerFinishedOK, s.P.Alerts, s.P.Kinds)
		// real server vs puppet client
		sc := tk.EPConfig{Ident: "srv", Auth: 0}
		if ecdhe {
			sc.Auth = 4
		}
		s = puppet.NewTLCPSession(tk.BuildTLCP(sc, nil), false)
		puppetClientFlow(s.P, suite, ecdhe)
		o = s.Finish()
		fmt.Printf("tlcp server-target %04x: err=%q complete=%v read=%q peerFinOK=%v alerts=%v kinds=%v\n", suite, o.Res.Err+" "+o.Res.ErrText, o.Res.Complete, o.Read, s.P.PeerFinishedOK, s.P.Alerts, s.P.Kinds)
		// DTLCP
		dcc := tk.BuildDTLCP(tk.EPConfig{Suites: []uint16{suite}, Ident: "cli", ServerName: "server.test", PMTU: 16000, RetransMs: 10000, MaxRetransMs: 60000}, nil)
		ds, do := puppet.RunDTLCP(dcc, true, func(p *puppet.Peer) { puppetServerFlow(p, suite, ecdhe) })
		fmt.Printf("dtlcp client-target %04x: err=%q complete=%v read=%q peerFinOK=%v alerts=%v hung=%v kinds=%v\n", suite, do.Res.Err+" "+do.Res.ErrText, do.Res.Complete, do.Read, ds.P.PeerFinishedOK, ds.P.Alerts, do.Hung, ds.P.Kinds)
		dsc := tk.EPConfig{Ident: "srv", Auth: 0, PMTU: 16000, RetransMs: 10000, MaxRetransMs: 60000}
		if ecdhe {
			dsc.Auth = 4
		}
		ds, do = puppet.RunDTLCP(tk.BuildDTLCP(dsc, nil), false, func(p *puppet.Peer) { puppetClientFlow(p, suite, ecdhe) })
		fmt.Printf("dtlcp server-target %04x: err=%q complete=%v read=%q peerFinOK=%v alerts=%v hung=%v kinds=%v\n", suite, do.Res.Err+" "+do.Res.ErrText, do.Res.Complete, do.Read, ds.P.PeerFinishedOK, ds.P.Alerts, do.Hung, ds.P.Kinds)
	}
	return nil
}

func init() { register("smoke2", runSmoke2) }
