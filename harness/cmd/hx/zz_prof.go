package main

import (
	"os"
	"runtime/pprof"
)

func init() {
	if f := os.Getenv("HX_PROF"); f != "" {
		fh, _ := os.Create(f)
		pprof.StartCPUProfile(fh)
		profStop = func() { pprof.StopCPUProfile(); fh.Close() }
	}
}

var profStop = func() {}
