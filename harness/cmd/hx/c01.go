package main

// C01: honest handshakes end in agreement on every negotiated parameter.
// Real client against real server of both stacks over reliable in-memory transports, for
// generated pairs of configurations (used directly or through Clone), then data both ways.

import (
	"bytes"
	"encoding/json"
	"fmt"
	"io"
	"math/rand/v2"
	"os"
	"strings"
	"time"

	"gitee.com/Trisia/gotlcp/dtlcp"
	x509 "github.com/emmansun/gmsm/smx509"
	"verifharness/internal/emit"
	"verifharness/internal/tk"
)

type c01Input struct {
	Stack string      `json:"stack"`
	C     tk.EPConfig `json:"c"`
	S     tk.EPConfig `json:"s"`
	// the second connection of a pair with session caches may use reconfigured endpoints (same caches unless the
	// new configuration drops its cache): it is judged as a pair of these configurations
	C2 *tk.EPConfig `json:"c2,omitempty"`
	S2 *tk.EPConfig `json:"s2,omitempty"`
}

// set while the second connection of a pair is emitted: its peer certificates differ from the first connection's although it was resumed
var c01PeerMismatch bool

var c01Alpn = map[string]int{"h2": 1, "http/1.1": 2, "proto-a": 3, "proto-b": 4, "x": 5}

func c01L(xs []string) string {
	var s []string
	for _, x := range xs {
		s = append(s, fmt.Sprint(c01Alpn[x]))
	}
	return "[" + strings.Join(s, ";") + "]"
}

func c01Suites(xs []uint16) string {
	if xs == nil {
		return "None"
	}
	var s []string
	for _, x := range xs {
		s = append(s, fmt.Sprint(x))
	}
	return "(Some [" + strings.Join(s, ";") + "])"
}

func c01Verify(der []byte, roots string, name string, ku []x509.ExtKeyUsage) bool {
	pk := tk.GetPKI()
	c, err := x509.ParseCertificate(der)
	if err != nil {
		return false
	}
	o := x509.VerifyOptions{CurrentTime: tk.Now(), DNSName: name, Intermediates: x509.NewCertPool(), KeyUsages: ku}
	switch roots {
	case "", "ca":
		o.Roots = pk.CA.Pool
	case "other":
		o.Roots = pk.OtherCA.Pool
	default:
		o.Roots = x509.NewCertPool()
	}
	_, err = c.Verify(o)
	return err == nil
}

func c01AddCase(out *emit.Out, scenario string, in c01Input) {
	reg := tk.NewRegistry()
	cr, sr, hung, echo := c01Connect(scenario, in, reg)
	c01Emit(out, scenario, in, cr, sr, hung, echo)
	// with a session cache on both sides the same pair connects again: an abbreviated handshake
	// when the library offers one, held to the same agreement clauses
	if in.C.Cache != "" && in.S.Cache != "" && cr.Err == "" && sr.Err == "" && !hung {
		in2 := in
		sc2 := scenario + "-second-connection"
		if in.C2 != nil {
			in2.C = *in.C2
			sc2 = scenario + "-second-connection-reconfigured"
		}
		if in.S2 != nil {
			in2.S = *in.S2
			sc2 = scenario + "-second-connection-reconfigured"
		}
		cr2, sr2, hung2, echo2 := c01Connect(scenario, in2, reg)
		if cr2.Err == "" && sr2.Err == "" && cr2.Resumed && sr2.Resumed &&
			(strings.Join(cr2.PeerCerts, ",") != strings.Join(cr.PeerCerts, ",") || strings.Join(sr2.PeerCerts, ",") != strings.Join(sr.PeerCerts, ",")) {
			// a resumed connection reports the peer certificates of the connection that created the session
			c01PeerMismatch = true
		}
		c01EmitSecond(out, sc2, in2, cr2, sr2, hung2, echo2, cr.Suite)
		c01PeerMismatch = false
	}
}

func c01Connect(scenario string, in c01Input, reg *tk.Registry) (cr, sr tk.EPResult, hung, echo bool) {
	echo = true
	payloadC, payloadS := []byte("from client: "+scenario), bytes.Repeat([]byte("S"), 3000)
	if in.Stack == "tlcp" {
		tp := tk.NewTPair(tk.BuildTLCP(in.C, reg), tk.BuildTLCP(in.S, reg))
		cr, sr, hung = tp.Handshake(10 * time.Second)
		if cr.Err == "" && sr.Err == "" && !hung {
			done := make(chan bool, 2)
			go func() {
				tp.Cli.Write(payloadC)
				buf := make([]byte, len(payloadS))
				_, err := io.ReadFull(tp.Cli, buf)
				done <- err == nil && bytes.Equal(buf, payloadS)
			}()
			go func() {
				buf := make([]byte, len(payloadC))
				_, err := io.ReadFull(tp.Srv, buf)
				tp.Srv.Write(payloadS)
				done <- err == nil && bytes.Equal(buf, payloadC)
			}()
			for i := 0; i < 2; i++ {
				select {
				case ok := <-done:
					echo = echo && ok
				case <-time.After(5 * time.Second):
					echo = false
				}
			}
		}
		tp.Close()
	} else {
		dp := tk.NewDPair(tk.BuildDTLCP(in.C, reg), tk.BuildDTLCP(in.S, reg))
		var cerr, serr error
		var gotC, gotS []byte
		hung = dp.Run(func(c *dtlcp.Conn) {
			cerr = c.Handshake()
			cr = tk.StateDTLCP(c, cerr)
			if cerr != nil {
				dp.Net.End(0).Close()
				return
			}
			c.Write(payloadC)
			buf := make([]byte, 20000)
			for len(gotC) < len(payloadS) {
				c.SetReadDeadline(time.Now().Add(200 * time.Millisecond))
				n, err := c.Read(buf)
				if err != nil {
					break
				}
				gotC = append(gotC, buf[:n]...)
			}
		}, func(c *dtlcp.Conn) {
			serr = c.Handshake()
			sr = tk.StateDTLCP(c, serr)
			if serr != nil {
				dp.Net.End(1).Close()
				return
			}
			buf := make([]byte, 20000)
			for len(gotS) < len(payloadC) {
				c.SetReadDeadline(time.Now().Add(200 * time.Millisecond))
				n, err := c.Read(buf)
				if err != nil {
					break
				}
				gotS = append(gotS, buf[:n]...)
			}
			c.Write(payloadS)
		}, 20*time.Second)
		if cr.Err == "" && sr.Err == "" {
			echo = bytes.Equal(gotC, payloadS) && bytes.Equal(gotS, payloadC)
		}
	}
	return
}

func c01Emit(out *emit.Out, scenario string, in c01Input, cr, sr tk.EPResult, hung, echo bool) {
	c01EmitSecond(out, scenario, in, cr, sr, hung, echo, 0)
}

// prev != 0: a later connection of the pair; prev is the suite of the first one (the session's)
func c01EmitSecond(out *emit.Out, scenario string, in c01Input, cr, sr tk.EPResult, hung, echo bool, prev uint16) {
	pk := tk.GetPKI()
	direct := ""
	if cr.Panic != "" || sr.Panic != "" {
		direct = "panic: " + cr.Panic + sr.Panic
	} else if hung {
		direct = "hang"
	}
	// ---- oracle verdicts
	srvCerts := tk.CertsTLCP(in.S.Ident)
	srvChainOK := len(srvCerts) >= 2 && c01Verify(srvCerts[0].Certificate[0], in.C.Roots, in.C.ServerName, nil) &&
		c01Verify(srvCerts[1].Certificate[0], in.C.Roots, in.C.ServerName, nil)
	cliCerts := tk.CertsTLCP(in.C.Ident)
	acceptable := len(cliCerts) > 0 && bytes.Equal(cliCerts[0].Leaf.RawIssuer, pk.CA.Cert.RawSubject)
	ku := []x509.ExtKeyUsage{x509.ExtKeyUsageClientAuth, x509.ExtKeyUsageServerAuth}
	if in.S.Auth == 5 {
		ku = []x509.ExtKeyUsage{x509.ExtKeyUsageAny}
	}
	cliChainOK := len(cliCerts) > 0 && c01Verify(cliCerts[0].Certificate[0], "ca", "", ku)
	cliEncOK := len(cliCerts) > 1 && c01Verify(cliCerts[1].Certificate[0], "ca", "", ku)
	srvHasKeys := in.S.Ident == "srv" || in.S.Ident == "srv2"
	// ---- what each side presented vs what the other reports
	var cliPresented []string
	if sr.Err == "" {
		// the client presents its configured pair when asked and acceptable; the model predicts the count
	}
	certsMatch := !c01PeerMismatch
	if cr.Err == "" {
		want := []string{}
		for _, c := range srvCerts {
			want = append(want, c.Leaf.Subject.CommonName)
		}
		certsMatch = certsMatch && strings.Join(cr.PeerCerts, ",") == strings.Join(want, ",")
	}
	if sr.Err == "" && len(sr.PeerCerts) > 0 {
		for i, cn := range sr.PeerCerts {
			if i >= len(cliCerts) || cliCerts[i].Leaf.Subject.CommonName != cn {
				certsMatch = false
			}
		}
	}
	_ = cliPresented
	b := emit.Bool
	coqC := fmt.Sprintf("(mkC %s %s %s %s %s %d %d %s %s)", c01Suites(in.C.Suites), b(len(cliCerts) > 0), b(len(cliCerts) > 1), c01L(in.C.ALPN), b(in.C.Insecure),
		in.C.MinVersion, in.C.MaxVersion, b(srvChainOK), b(acceptable))
	coqS := fmt.Sprintf("(mkS %s %s %s %s %d %d %s %s)", c01Suites(in.S.Suites), b(srvHasKeys), c07Policies[in.S.Auth], c01L(in.S.ALPN), in.S.MinVersion, in.S.MaxVersion, b(cliChainOK), b(cliEncOK))
	agree := cr.Version == sr.Version && cr.Suite == sr.Suite && cr.ALPN == sr.ALPN && cr.Resumed == sr.Resumed
	ctor, tail := "PairCase", ""
	if prev != 0 {
		ctor, tail = "SecondCase", fmt.Sprintf(" %s %d", b(cr.Resumed && sr.Resumed), prev)
	}
	out.Add(emit.Case{Scenario: scenario + "/" + in.Stack, Trivial: false, Input: in, Direct: direct,
		Observed: map[string]interface{}{"client": cr, "server": sr, "echo": echo, "certs_match": certsMatch},
		Coq: fmt.Sprintf(ctor+" %s %s %s %s %d %d %d%%nat %s %s %s %s"+tail, coqC, coqS, b(cr.Err == "" && cr.Complete), b(sr.Err == "" && sr.Complete),
			cr.Suite, c01Alpn[cr.ALPN], len(sr.PeerCerts), b(sr.VerifiedChains > 0), b(agree), b(certsMatch), b(echo))})
}

func runC01(p params) error {
	out := emit.New(p.out, "C01", "V.Corr.Run_C01", "case",
		"pairs of client/server configurations (suite subsets and orders incl. foreign ids and empty lists, client key pairs, six policies, ALPN lists, SNI, roots, versions, session cache, direct or cloned) x both stacks: real handshake then data both ways; every case non-trivial; distinct by input")
	if p.replay != "" {
		b, err := os.ReadFile(p.replay)
		if err != nil {
			return err
		}
		var rp struct {
			Cases []struct {
				Scenario string   `json:"scenario"`
				Input    c01Input `json:"input"`
			} `json:"cases"`
		}
		if err := json.Unmarshal(b, &rp); err != nil {
			return err
		}
		for _, c := range rp.Cases {
			c01AddCase(out, strings.SplitN(c.Scenario, "/", 2)[0], c.Input)
		}
		return out.Finish()
	}
	r := rand.New(rand.NewPCG(p.seed, 0xC01))
	all := []uint16{0xe053, 0xe013, 0xe051, 0xe011}
	suiteSets := func() []uint16 {
		switch r.IntN(7) {
		case 0:
			return nil
		case 1:
			return []uint16{}
		case 2:
			return []uint16{all[r.IntN(4)]}
		case 3:
			return []uint16{0x1234, all[r.IntN(4)], 0xe019}
		default:
			s := append([]uint16{}, all...)
			r.Shuffle(4, func(i, j int) { s[i], s[j] = s[j], s[i] })
			return s[:1+r.IntN(4)]
		}
	}
	alpns := [][]string{nil, {"h2"}, {"http/1.1"}, {"h2", "http/1.1"}, {"proto-a"}, {"proto-b", "proto-a"}, {"x", "h2"}, {"proto-a", "h2", "x"}}
	n := 220
	if p.tier == "thorough" {
		n = 6000
	}
	gen := func(i int) c01Input {
		var second [2]*tk.EPConfig
		valid := r.IntN(10) < 7 // mostly-valid stream; the rest exercises the failure paths
		pick := func(good []string, bad []string) string {
			if valid || r.IntN(2) == 0 {
				return good[r.IntN(len(good))]
			}
			return bad[r.IntN(len(bad))]
		}
		c := tk.EPConfig{Suites: suiteSets(), Ident: []string{"none", "cli", "cli", "cli-sig", "cli-untrusted", "cli-wrongeku"}[r.IntN(6)],
			ServerName: pick([]string{"server.test", "server.test", ""}, []string{"wrong.test"}),
			Roots:      pick([]string{"ca"}, []string{"other"}), Insecure: r.IntN(6) == 0, Clone: r.IntN(2) == 0, PMTU: 4000}
		s := tk.EPConfig{Suites: suiteSets(), Ident: pick([]string{"srv"}, []string{"rsa", "none"}), Auth: r.IntN(6), Clone: r.IntN(2) == 0, PMTU: 4000}
		if valid { // overlapping suites and protocols
			if c.Suites != nil && len(c.Suites) == 0 {
				c.Suites = nil
			}
			if r.IntN(2) == 0 {
				s.Suites = nil
			} else if c.Suites != nil {
				s.Suites = append([]uint16{c.Suites[r.IntN(len(c.Suites))]}, all[r.IntN(4)])
			}
			a := alpns[r.IntN(len(alpns))]
			c.ALPN = a
			switch r.IntN(4) {
			case 0:
				s.ALPN = nil
			case 1:
				s.ALPN = a
			case 2:
				if len(a) > 0 {
					s.ALPN = []string{"proto-b", a[len(a)-1]}
				}
			case 3:
				s.ALPN = []string{"h2", "http/1.1"}
			}
		} else {
			c.ALPN, s.ALPN = alpns[r.IntN(len(alpns))], alpns[r.IntN(len(alpns))]
		}
		if r.IntN(3) == 0 {
			c.Cache, s.Cache = "c", "s"
		}
		if c.Cache != "" && r.IntN(2) == 0 {
			// the second connection finds one end reconfigured: other suites, or the cache gone
			c2, s2 := c, s
			switch r.IntN(4) {
			case 0:
				s2.Suites = suiteSets()
			case 1:
				s2.Cache = ""
			case 2:
				c2.Suites = suiteSets()
			case 3:
				s2.Suites = []uint16{all[r.IntN(4)], all[r.IntN(4)]}
				s2.ALPN = alpns[r.IntN(len(alpns))]
			}
			second = [2]*tk.EPConfig{&c2, &s2}
		}
		// where the key pairs come from: the Certificates list, the Get* callbacks, or one of each
		c.CertVia = []string{"", "", "cb", "mixed"}[r.IntN(4)]
		s.CertVia = []string{"", "", "cb", "mixed"}[r.IntN(4)]
		if r.IntN(14) == 0 {
			c.MaxVersion = []uint16{0x0100, 0x0101, 0x0303}[r.IntN(3)]
		}
		if r.IntN(14) == 0 {
			s.MinVersion = []uint16{0x0101, 0x0102}[r.IntN(2)]
		}
		in := c01Input{Stack: []string{"tlcp", "dtlcp"}[i%2], C: c, S: s}
		if second[0] != nil {
			// the reconfigured ends get their key pairs the same way as before
			second[0].CertVia, second[1].CertVia = c.CertVia, s.CertVia
			in.C2, in.S2 = second[0], second[1]
		}
		return in
	}
	// baseline: every suite alone and the defaults, both stacks
	for _, st := range []string{"tlcp", "dtlcp"} {
		for _, su := range all {
			c01AddCase(out, "baseline", c01Input{Stack: st, C: tk.EPConfig{Suites: []uint16{su}, Ident: "cli", ServerName: "server.test", PMTU: 4000}, S: tk.EPConfig{Ident: "srv", PMTU: 4000}})
		}
		c01AddCase(out, "baseline", c01Input{Stack: st, C: tk.EPConfig{ServerName: "server.test", PMTU: 4000}, S: tk.EPConfig{Ident: "srv", PMTU: 4000}})
	}
	// the client's list in every order of two suites (and the four in reverse priority order) against a server that
	// enables exactly one of them: enabled subsets AND orders decide nothing but membership
	for _, st := range []string{"tlcp", "dtlcp"} {
		var lists [][]uint16
		for _, a := range all {
			for _, b := range all {
				if a != b {
					lists = append(lists, []uint16{a, b})
				}
			}
		}
		lists = append(lists, []uint16{0xe011, 0xe051, 0xe013, 0xe053}, []uint16{0xe013, 0xe011, 0xe053, 0xe051})
		for _, l := range lists {
			for _, su := range l {
				c01AddCase(out, "client-list-order", c01Input{Stack: st,
					C: tk.EPConfig{Suites: l, Ident: "cli", ServerName: "server.test", PMTU: 4000},
					S: tk.EPConfig{Suites: []uint16{su}, Ident: "srv", Auth: 4, PMTU: 4000}})
			}
		}
	}
	// key pairs by list, by callbacks and mixed, where having both client pairs decides the offer (ECDHE only),
	// with a session cache so that the pair also connects a second time
	for _, st := range []string{"tlcp", "dtlcp"} {
		for _, via := range []string{"", "cb", "mixed"} {
			for _, su := range []uint16{0xe051, 0xe011} {
				for _, id := range []string{"cli", "cli-sig"} {
					c01AddCase(out, "key-pair-sources", c01Input{Stack: st,
						C: tk.EPConfig{Suites: []uint16{su}, Ident: id, CertVia: via, ServerName: "server.test", PMTU: 4000, Cache: "c", ALPN: []string{"http/1.1", "h2"}},
						S: tk.EPConfig{Ident: "srv", CertVia: via, Auth: 4, PMTU: 4000, Cache: "s", ALPN: []string{"h2", "http/1.1"}}})
				}
			}
		}
	}
	// the second connection of a pair finds the server restricted to a suite other than the session's, without its
	// cache, or the client restricted to another suite
	for _, st := range []string{"tlcp", "dtlcp"} {
		c := tk.EPConfig{Ident: "cli", ServerName: "server.test", PMTU: 4000, Cache: "c", ALPN: []string{"h2"}}
		s := tk.EPConfig{Ident: "srv", PMTU: 4000, Cache: "s", ALPN: []string{"h2", "http/1.1"}}
		for k := 0; k < 4; k++ {
			c2, s2 := c, s
			switch k {
			case 0:
				s2.Suites = []uint16{0xe013}
			case 1:
				s2.Cache = ""
			case 2:
				c2.Suites = []uint16{0xe013, 0xe011}
			case 3:
				s2.Suites = []uint16{0xe051, 0xe011}
			}
			c01AddCase(out, "reconfigured-between-connections", c01Input{Stack: st, C: c, S: s, C2: &c2, S2: &s2})
		}
	}
	for i := 0; i < n; i++ {
		c01AddCase(out, "random-pair", gen(i))
	}
	// configurations used through Config.Clone carry the fields this property depends on
	cloneCases(out, []string{"tlcp", "dtlcp"}, map[string][]string{}) // every exported field (nil list per stack)
	return out.Finish()
}

func init() { register("C01", runC01) }
