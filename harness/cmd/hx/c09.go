package main

// C09: no peer input makes an endpoint panic, spin, or buffer without bound.
// Generator and driver.  Case kinds: kx (key-exchange parsers through the hooks), tt / td
// (record-machine traces, stream / datagram), ep (puppet-driven endpoint scenarios).

import (
	"encoding/hex"
	"encoding/json"
	"fmt"
	"math/rand/v2"
	"os"
	"strings"

	"verifharness/internal/emit"
	"verifharness/internal/puppet"
)

type c09Input struct {
	Kind string     `json:"kind"` // kx | tt | td | ep
	Kx   *c09Kx     `json:"kx,omitempty"`
	TT   *c09TraceT `json:"tt,omitempty"`
	TD   *c09TraceD `json:"td,omitempty"`
	Ep   *c09Ep     `json:"ep,omitempty"`
}

func hx(b []byte) string { return hex.EncodeToString(b) }

func c09Add(out *emit.Out, scenario string, in c09Input) {
	switch in.Kind {
	case "kx":
		coq, obs, direct := c09RunKx(*in.Kx)
		out.Add(emit.Case{Scenario: "kx/" + in.Kx.Parser + "/" + scenario, Input: in, Observed: obs, Coq: coq, Direct: direct})
	case "tt":
		obs, o, m := c09RunTraceT(*in.TT)
		direct := ""
		if o.Panic != "" {
			direct = "panic"
		} else if o.Hung {
			direct = "hang"
		}
		out.Add(emit.Case{Scenario: "tt/" + in.TT.Target + "-" + in.TT.Phase + "/" + scenario, Input: in, Trivial: len(in.TT.Evs) < 2, Direct: direct,
			Observed: map[string]interface{}{"obs": obs, "max": m, "err": o.Res.Err, "panic": o.Panic}, Coq: c09TraceTCoq(*in.TT, obs)})
	case "td":
		obs, o, m := c09RunTraceD(*in.TD)
		direct := ""
		if o.Panic != "" {
			direct = "panic"
		} else if o.Hung {
			direct = "hang"
		}
		out.Add(emit.Case{Scenario: "td/" + in.TD.Target + "-" + in.TD.Phase + "/" + scenario, Input: in, Trivial: len(in.TD.Evs) < 2, Direct: direct,
			Observed: map[string]interface{}{"obs": obs, "max": m, "err": o.Res.Err, "panic": o.Panic}, Coq: c09TraceDCoq(*in.TD, obs, m.Depth, m.Frames)})
	case "ep":
		o := c09RunEp(*in.Ep)
		m := o.Max
		var coq string
		if in.Ep.Stack == "dtlcp" {
			coq = fmt.Sprintf("EpD %s %s %d %d %d %d %d %d %d %d", emit.Bool(o.Panic != ""), emit.Bool(o.Hung), m.HandLen, m.RawLen, m.Pending, m.PendingB, m.PostHand, m.Retry, m.Depth, m.Frames)
		} else {
			coq = fmt.Sprintf("EpT %s %s %d %d %d %d %d %d", emit.Bool(o.Panic != ""), emit.Bool(o.Hung), m.HandLen, m.RawLen, m.RawCap, m.PostHand, m.Retry, m.Depth)
		}
		out.Add(emit.Case{Scenario: "ep/" + c09EpName(*in.Ep) + "/" + scenario, Input: in, Observed: o, Coq: coq})
		if o.Complete {
			out.Count("ep-completed")
		}
	}
}

func kxIn(stack, parser string, body []byte, certs, own string, vector bool) c09Input {
	return c09Input{Kind: "kx", Kx: &c09Kx{Stack: stack, Parser: parser, Body: hx(body), Certs: certs, Own: own, Vector: vector}}
}

func setAt(b []byte, off int, v byte) []byte {
	c := append([]byte{}, b...)
	if off < len(c) {
		c[off] = v
	}
	return c
}

// ---------------------------------------------------------------- key-exchange parser cases
func c09GenKx(out *emit.Out, r *rand.Rand, thorough bool) {
	for si, st := range []string{"tlcp", "dtlcp"} {
		every := func(n int) []int { // every length on one stack, a sample on the other (quick)
			var ls []int
			for l := 0; l <= n; l++ {
				if thorough || si == 0 || r.IntN(4) == 0 {
					ls = append(ls, l)
				}
			}
			return ls
		}
		// ECC ClientKeyExchange
		h := c09HonestECCCKX()
		c09Add(out, "honest", kxIn(st, "ecc-ckx", h, "", "", false))
		for _, l := range every(len(h)) {
			c09Add(out, "truncated", kxIn(st, "ecc-ckx", h[:l], "", "", false))
		}
		for _, l := range every(12) { // truncated with the size field kept consistent
			if l >= 2 {
				b := append([]byte{byte((l - 2) >> 8), byte(l - 2)}, h[2:l]...)
				c09Add(out, "truncated-consistent", kxIn(st, "ecc-ckx", b, "", "", false))
			}
		}
		for _, d := range []int{-3, -2, -1, 1, 2, 300} {
			n := len(h) - 2 + d
			c09Add(out, "size-field", kxIn(st, "ecc-ckx", append([]byte{byte(n >> 8), byte(n)}, h[2:]...), "", "", false))
		}
		for _, v := range []byte{0, 1, 2, 3, h[4] - 1, h[4] + 1, 0x7f, 0x80, 0xff} {
			c09Add(out, "asn1-length", kxIn(st, "ecc-ckx", setAt(h, 4, v), "", "", false))
		}
		for _, v := range []byte{0, 0x31, 0xff} {
			c09Add(out, "asn1-tag", kxIn(st, "ecc-ckx", setAt(h, 2, v), "", "", false))
		}
		for _, b := range [][]byte{{0}, {0, 0}, {0, 1, 0x30}, {0, 2, 0x30, 0}, {0, 3, 0x30, 0, 0}, {0, 3, 0x30, 1, 5}, {0, 4, 0x30, 0x81, 1, 0}} {
			c09Add(out, "short", kxIn(st, "ecc-ckx", b, "", "", false))
		}
		for i := 0; i < 12; i++ {
			b := make([]byte, r.IntN(10))
			for k := range b {
				b[k] = byte(r.IntN(256))
			}
			c09Add(out, "random", kxIn(st, "ecc-ckx", b, "", "", false))
			c09Add(out, "flipped", kxIn(st, "ecc-ckx", setAt(h, r.IntN(len(h)), byte(r.IntN(256))), "", "", false))
		}
		pad := append(append([]byte{}, h...), 0, 0, 0)
		pad[0], pad[1] = byte((len(pad)-2)>>8), byte(len(pad)-2)
		c09Add(out, "padded", kxIn(st, "ecc-ckx", pad, "", "", false))

		// getECDHEPublicKey / ECDHE ClientKeyExchange
		p69, p71 := c09HonestPub(false), c09HonestPub(true)
		c09Add(out, "honest", kxIn(st, "pub", p69, "", "", false))
		c09Add(out, "honest", kxIn(st, "pub", p71, "", "", false))
		for _, l := range every(75) {
			b := make([]byte, l)
			copy(b, p71)
			c09Add(out, "length", kxIn(st, "pub", b, "", "", false))
			b2 := make([]byte, l)
			copy(b2, p69)
			c09Add(out, "length", kxIn(st, "pub", b2, "", "", false))
		}
		for _, v := range []byte{0, 1, 64, 66, 67, 255} {
			c09Add(out, "point-length", kxIn(st, "pub", setAt(p69, 3, v), "", "", false))
			c09Add(out, "point-length", kxIn(st, "pub", setAt(p71, 5, v), "", "", false))
			c09Add(out, "size-field", kxIn(st, "pub", setAt(p71, 1, v), "", "", false))
		}
		c09Add(out, "invalid-point", kxIn(st, "pub", setAt(p69, 10, p69[10]^1), "", "", false))
		c09Add(out, "invalid-point", kxIn(st, "pub", setAt(p71, 6, 5), "", "", false))
		for _, certs := range []string{"sm2,sm2", "sm2,rsa", "sm2,p256", "sm2,ed", "rsa,sm2", "sm2", ""} {
			for _, b := range [][]byte{p69, p71, setAt(p69, 3, 64), p69[:30], setAt(p71, 8, 0xEE)} {
				c09Add(out, "certs-"+certs, kxIn(st, "ecdhe-ckx", b, certs, "", false))
			}
		}

		// ECC ServerKeyExchange
		pk := c09Leaves("sm2,sm2", false)
		s := c09HonestECCSKX(pk[0], pk[1])
		c09Add(out, "honest", kxIn(st, "ecc-skx", s, "sm2,sm2", "", false))
		for _, l := range every(len(s)) {
			c09Add(out, "truncated", kxIn(st, "ecc-skx", s[:l], "sm2,sm2", "", false))
		}
		for _, d := range []int{-2, -1, 1, 2} {
			n := len(s) - 2 + d
			c09Add(out, "size-field", kxIn(st, "ecc-skx", append([]byte{byte(n >> 8), byte(n)}, s[2:]...), "sm2,sm2", "", false))
		}
		for i := 0; i < 5; i++ {
			c09Add(out, "flipped", kxIn(st, "ecc-skx", setAt(s, 2+r.IntN(len(s)-2), byte(r.IntN(256))), "sm2,sm2", "", false))
		}
		for _, certs := range []string{"rsa,sm2", "p256,sm2", "ed,sm2", "sm2,rsa", "sm2", ""} {
			ls := c09Leaves(certs, false)
			b := s
			if len(ls) >= 2 {
				b = c09HonestECCSKX(ls[0], ls[1])
			}
			c09Add(out, "certs-"+certs, kxIn(st, "ecc-skx", b, certs, "", false))
		}

		// ECDHE ServerKeyExchange
		e := c09HonestECDHESKX(pk[0])
		c09Add(out, "honest", kxIn(st, "ecdhe-skx", e, "sm2,sm2", "", false))
		for _, l := range every(len(e)) {
			c09Add(out, "truncated", kxIn(st, "ecdhe-skx", e[:l], "sm2,sm2", "", false))
		}
		for _, v := range []byte{0, 1, 64, 66, 67, 200, 255} {
			c09Add(out, "point-length", kxIn(st, "ecdhe-skx", setAt(e, 3, v), "sm2,sm2", "", false))
		}
		for _, v := range []byte{0, 1, e[70] - 1, e[70] + 1, 255} {
			c09Add(out, "size-field", kxIn(st, "ecdhe-skx", setAt(e, 70, v), "sm2,sm2", "", false))
			c09Add(out, "size-field", kxIn(st, "ecdhe-skx", setAt(e, 69, v), "sm2,sm2", "", false))
		}
		for i := 0; i < 6; i++ {
			c09Add(out, "flipped", kxIn(st, "ecdhe-skx", setAt(e, r.IntN(len(e)), byte(r.IntN(256))), "sm2,sm2", "", false))
		}
		for _, certs := range []string{"rsa,sm2", "p256,sm2", "ed,sm2", "sm2", ""} {
			ls := c09Leaves(certs, false)
			b := e
			if len(ls) >= 1 {
				b = c09HonestECDHESKX(ls[0])
			}
			c09Add(out, "certs-"+certs, kxIn(st, "ecdhe-skx", b, certs, "", false))
		}

		if thorough { // random mutations of the honest bodies and random byte strings
			mutate := func(b []byte) []byte {
				c := append([]byte{}, b...)
				for k, n := 0, 1+r.IntN(3); k < n && len(c) > 0; k++ {
					switch r.IntN(4) {
					case 0:
						c[r.IntN(len(c))] = byte(r.IntN(256))
					case 1:
						c = c[:r.IntN(len(c)+1)]
					case 2:
						c = append(c, byte(r.IntN(256)))
					default:
						i := r.IntN(len(c))
						c = append(c[:i], c[i+1:]...)
					}
				}
				return c
			}
			for k := 0; k < 400; k++ {
				c09Add(out, "mutated", kxIn(st, "ecc-ckx", mutate(h), "", "", false))
				c09Add(out, "mutated", kxIn(st, "pub", mutate([][]byte{p69, p71}[k%2]), "", "", false))
				c09Add(out, "mutated", kxIn(st, "ecdhe-ckx", mutate([][]byte{p69, p71}[k%2]), "sm2,sm2", "", false))
				c09Add(out, "mutated", kxIn(st, "ecc-skx", mutate(s), "sm2,sm2", "", false))
				c09Add(out, "mutated", kxIn(st, "ecdhe-skx", mutate(e), "sm2,sm2", "", false))
				c09Add(out, "mutated", kxIn(st, "gen-ecdhe", mutate(e), "sm2,sm2", []string{"none", "sm2", "rsa"}[k%3], k%2 == 0))
				rb := make([]byte, r.IntN(160))
				for i := range rb {
					rb[i] = byte(r.IntN(256))
				}
				c09Add(out, "random", kxIn(st, []string{"ecc-ckx", "pub", "ecc-skx", "ecdhe-skx"}[k%4], rb, "sm2,sm2", "", false))
			}
		}

		// generateClientKeyExchange
		for _, certs := range []string{"sm2,sm2", "sm2,rsa", "sm2,p256", "sm2,ed", "rsa,rsa", "sm2", ""} {
			c09Add(out, "certs-"+certs, kxIn(st, "gen-ecc", nil, certs, "", false))
		}
		for _, own := range []string{"none", "sm2", "rsa"} {
			for _, certs := range []string{"sm2,sm2", "sm2,rsa", "sm2,p256", "sm2,ed"} {
				for _, vec := range []bool{false, true} {
					c09Add(out, "own-"+own+"-certs-"+certs, kxIn(st, "gen-ecdhe", e, certs, own, vec))
				}
			}
			c09Add(out, "own-"+own+"-no-signature", kxIn(st, "gen-ecdhe", e[:69], "sm2,sm2", own, false))
			c09Add(out, "own-"+own+"-bad-signature", kxIn(st, "gen-ecdhe", setAt(e, len(e)-3, e[len(e)-3]^0x20), "sm2,sm2", own, false))
		}
	}
}

// ---------------------------------------------------------------- stream traces
func zeros(n int) []c09Chunk   { return []c09Chunk{{Zeros: n}} }
func lit(b ...byte) []c09Chunk { return []c09Chunk{{Lit: hx(b)}} }
func hdrT(total int) []byte    { return []byte{0xEE, byte(total >> 16), byte(total >> 8), byte(total)} }

func c09GenTraceT(out *emit.Out, r *rand.Rand, thorough bool) {
	warn := c09TEv{K: "alert", P: lit(1, 90)}
	add := func(name, target, phase string, evs []c09TEv) {
		c09Add(out, name, c09Input{Kind: "tt", TT: &c09TraceT{Target: target, Phase: phase, Evs: evs}})
	}
	rep := func(e c09TEv, n int) []c09TEv {
		var l []c09TEv
		for i := 0; i < n; i++ {
			l = append(l, e)
		}
		return l
	}
	type ph struct{ target, phase string }
	phases := []ph{{"server", "p0"}, {"client", "p0"}, {"server", "p1"}, {"server", "p2"}, {"server", "p4"}, {"client", "p4"}}
	for _, p := range phases {
		pre := p.phase != "p4" && p.phase != "p2"
		// non-advancing records: 16 tolerated, the 17th ends the connection
		for _, n := range []int{15, 16, 17, 18} {
			add(fmt.Sprintf("warnings-%d", n), p.target, p.phase, rep(warn, n))
		}
		if p.phase == "p4" {
			for _, n := range []int{16, 17} {
				add(fmt.Sprintf("empty-app-%d", n), p.target, p.phase, rep(c09TEv{K: "app"}, n))
			}
			add("warnings-reset-by-data", p.target, p.phase, append(append(rep(warn, 10), c09TEv{K: "app", N: 5}), rep(warn, 16)...))
			// handshake records after completion (F8)
			add("post-handshake-hs", p.target, p.phase, []c09TEv{{K: "hs", P: zeros(16000)}, {K: "hs", P: zeros(16000)}})
			add("post-handshake-hs-small", p.target, p.phase, []c09TEv{{K: "app", N: 3}, {K: "hs", P: lit(0)}, {K: "app", N: 3}})
			// the read-ahead call of Conn.Read: application data, then (in the same write) a warning alert and a handshake record
			add("read-ahead", p.target, p.phase, []c09TEv{{K: "app", N: 7}, {K: "alert", P: lit(1, 90), Glued: true}, {K: "hs", P: zeros(100), Glued: true}, {K: "app", N: 1}})
			add("read-ahead-2", p.target, p.phase, []c09TEv{{K: "app", N: 7}, {K: "alert", P: lit(1, 90), Glued: true}, {K: "app", N: 9, Glued: true}, {K: "alert", P: lit(1, 90), Glued: true}, {K: "hs", P: zeros(50), Glued: true}, {K: "hs", P: zeros(50)}})
			add("ccs-after-completion", p.target, p.phase, []c09TEv{{K: "ccs", P: lit(1)}})
			add("bad-mac", p.target, p.phase, []c09TEv{{K: "app", N: 4}, {K: "badmac"}})
		}
		if p.phase == "p2" {
			add("hs-while-ccs-awaited", p.target, p.phase, []c09TEv{{K: "hs", P: zeros(10)}})
			add("warnings-then-ccs", p.target, p.phase, append(rep(warn, 16), c09TEv{K: "ccs", P: lit(1)}, c09TEv{K: "hs", P: append(lit(hdrT(70000)...), zeros(20)...)}))
			add("ccs-then-flood", p.target, p.phase, []c09TEv{{K: "ccs", P: lit(1)}, {K: "hs", P: append(lit(hdrT(65536)...), zeros(16380)...)}, {K: "hs", P: zeros(16384)}, {K: "hs", P: zeros(16384)}, {K: "hs", P: zeros(16384)}, {K: "hs", P: zeros(4)}})
			add("bad-ccs", p.target, p.phase, []c09TEv{{K: "ccs", P: lit(2)}})
			add("long-ccs", p.target, p.phase, []c09TEv{{K: "ccs", P: lit(1, 1)}})
			add("app-while-ccs-awaited", p.target, p.phase, []c09TEv{{K: "app", N: 3}})
		}
		if pre {
			// a message announced at the limit arrives in maximal records
			for _, total := range []int{65536, 65537, 40000, 0xffffff} {
				evs := []c09TEv{{K: "hs", P: append(lit(hdrT(total)...), zeros(16380)...)}}
				for i := 0; i < 5; i++ {
					evs = append(evs, c09TEv{K: "hs", P: zeros(16384)})
				}
				add(fmt.Sprintf("announced-%d", total), p.target, p.phase, evs)
			}
			// header split over records, warnings in between
			add("split-header", p.target, p.phase, []c09TEv{{K: "hs", P: lit(0xEE)}, warn, {K: "hs", P: lit(0, 0)}, warn, {K: "hs", P: lit(9)}, {K: "hs", P: zeros(8)}, {K: "hs", P: zeros(1)}})
			add("empty-handshake-record", p.target, p.phase, []c09TEv{{K: "hs", P: lit(0xEE)}, {K: "hs"}})
			add("ccs-in-message", p.target, p.phase, []c09TEv{{K: "hs", P: lit(0xEE, 0, 0, 9)}, {K: "ccs", P: lit(1)}})
			add("early-ccs", p.target, p.phase, []c09TEv{{K: "ccs", P: lit(1)}})
			add("early-app", p.target, p.phase, []c09TEv{{K: "app", N: 3}})
			add("close-notify", p.target, p.phase, []c09TEv{warn, {K: "alert", P: lit(1, 0)}})
			add("fatal-alert", p.target, p.phase, []c09TEv{{K: "alert", P: lit(2, 40)}})
			add("odd-alert", p.target, p.phase, []c09TEv{{K: "alert", P: lit(3, 40)}})
			add("short-alert", p.target, p.phase, []c09TEv{{K: "alert", P: lit(1)}})
			add("unknown-type", p.target, p.phase, []c09TEv{{K: "other", Typ: 24, N: 4}})
			add("sslv2", p.target, p.phase, []c09TEv{{K: "other", Typ: 128, N: 4}})
			add("oversize", p.target, p.phase, []c09TEv{{K: "vers", Typ: 22, Vers: 0x0101, N: 18433}})
			add("max-size", p.target, p.phase, []c09TEv{{K: "vers", Typ: 22, Vers: 0x0101, N: 18432}})
			for _, v := range []int{0x0300, 0x0303, 0x0fff, 0x1000, 0xfeff} {
				add(fmt.Sprintf("version-%04x", v), p.target, p.phase, []c09TEv{{K: "vers", Typ: 22, Vers: v, N: 1}, {K: "hs", P: lit(0)}})
			}
		}
		// random traces
		nr := 6
		if thorough {
			nr = 250
		}
		for k := 0; k < nr; k++ {
			var evs []c09TEv
			if pre && r.IntN(3) > 0 {
				evs = append(evs, c09TEv{K: "hs", P: append(lit(hdrT([]int{10, 300, 20000, 65536, 65600}[r.IntN(5)])...), zeros(r.IntN(50))...)})
			}
			n := 1 + r.IntN(14)
			for i := 0; i < n; i++ {
				switch x := r.IntN(12); {
				case x < 4:
					evs = append(evs, warn)
				case x < 7:
					evs = append(evs, c09TEv{K: "hs", P: zeros([]int{1, 1, 3, 100, 16384, 16384}[r.IntN(6)])})
				case x < 9:
					evs = append(evs, c09TEv{K: "app", N: []int{0, 0, 1, 50, 16384}[r.IntN(5)]})
				case x == 9:
					evs = append(evs, c09TEv{K: "ccs", P: lit(1)})
				case x == 10:
					evs = append(evs, c09TEv{K: "alert", P: lit(byte(r.IntN(3)), byte(r.IntN(3)*45))})
				default:
					evs = append(evs, c09TEv{K: "other", Typ: 20 + r.IntN(6), N: r.IntN(3)})
				}
			}
			if p.phase == "p2" { // a usable ChangeCipherSpec only as the last event of a random trace
				var f []c09TEv
				for _, e := range evs {
					if e.K != "ccs" {
						f = append(f, e)
					}
				}
				evs = f
			}
			if len(evs) > 0 {
				add("random", p.target, p.phase, evs)
			}
		}
	}
}

// ---------------------------------------------------------------- datagram traces
func hdrD(typ byte, total, seq, off, l int) []byte {
	return []byte{typ, byte(total >> 16), byte(total >> 8), byte(total), byte(seq >> 8), byte(seq), byte(off >> 16), byte(off >> 8), byte(off), byte(l >> 16), byte(l >> 8), byte(l)}
}

// a cookie-less ClientHello as one handshake message (message_seq seq)
func c09HelloD(seq int) []byte {
	body := []byte{1, 1}
	for i := 0; i < 32; i++ {
		body = append(body, byte(i+1))
	}
	body = append(body, 0, 0, 0, 2, 0xe0, 0x13, 1, 0)
	return append(hdrD(1, len(body), seq, 0, len(body)), body...)
}

func c09GenTraceD(out *emit.Out, r *rand.Rand, thorough bool) {
	add := func(name, target, phase string, evs []c09DEv) {
		c09Add(out, name, c09Input{Kind: "td", TD: &c09TraceD{Target: target, Phase: phase, Evs: evs}})
	}
	one := func(recs ...c09DRec) c09DEv { return c09DEv{K: "dgram", Recs: recs} }
	hs := func(p []c09Chunk) c09DRec { return c09DRec{Typ: 22, P: p} }
	frag := func(total, seq, off, l int) c09DRec {
		return hs(append(lit(hdrD(0xEE, total, seq, off, l)...), zeros(l)...))
	}
	warn := c09DRec{Typ: 21, P: lit(1, 90)}
	repD := func(e c09DEv, n int) []c09DEv {
		var l []c09DEv
		for i := 0; i < n; i++ {
			l = append(l, e)
		}
		return l
	}
	// ---- before the first ClientHello (server) / ServerHello (client)
	for _, target := range []string{"server", "client"} {
		for _, n := range []int{16, 17, 18} {
			add(fmt.Sprintf("warnings-%d", n), target, "p0", repD(one(warn), n))
		}
		add("warnings-in-one-datagram", target, "p0", []c09DEv{one(warn, warn, warn), one(warn)})
		add("fragments-in-order", target, "p0", []c09DEv{one(frag(30, 5, 0, 10)), one(frag(30, 5, 10, 10)), one(frag(30, 5, 20, 10))})
		add("fragments-reversed", target, "p0", []c09DEv{one(frag(30, 5, 20, 10)), one(frag(30, 5, 0, 10)), one(frag(30, 5, 10, 10))})
		add("fragments-two-messages", target, "p0", []c09DEv{one(frag(30, 5, 20, 10), frag(40, 6, 0, 10)), one(frag(40, 6, 30, 10)), one(frag(30, 5, 0, 10))})
		add("fragment-out-of-range", target, "p0", []c09DEv{one(frag(30, 5, 25, 10))})
		add("message-too-long", target, "p0", []c09DEv{one(frag(65537, 5, 0, 10))})
		add("message-at-limit", target, "p0", []c09DEv{one(frag(65536, 5, 0, 10)), one(frag(65536, 5, 65526, 10))})
		add("whole-unknown-message", target, "p0", []c09DEv{one(frag(10, 0, 0, 10))})
		add("header-split", target, "p0", []c09DEv{one(hs(lit(0xEE, 0, 0, 30, 0))), one(hs(lit(7, 0, 0, 0, 0, 0, 5))), one(hs(zeros(5))), one(hs(zeros(1)))})
		add("other-epoch", target, "p0", []c09DEv{one(c09DRec{Typ: 22, Other: true, P: zeros(5)}, frag(30, 5, 0, 10)), one(c09DRec{Typ: 23, Other: true, P: zeros(5)})})
		add("replayed-fragment", target, "p0", []c09DEv{one(frag(30, 5, 0, 10)), one(c09DRec{Typ: 22, Replay: 1, P: append(lit(hdrD(0xEE, 30, 5, 0, 10)...), zeros(10)...)}), one(frag(30, 5, 10, 10))})
		add("stray-ccs", target, "p0", []c09DEv{one(c09DRec{Typ: 20, P: lit(1)}), one(frag(30, 5, 0, 10)), one(c09DRec{Typ: 20, P: lit(1)})})
		add("early-app", target, "p0", []c09DEv{one(c09DRec{Typ: 23, P: zeros(4)})})
		add("empty-handshake-record", target, "p0", []c09DEv{one(hs(nil))})
		add("short-datagram", target, "p0", []c09DEv{one(frag(30, 5, 0, 10)), {K: "short", N: 5}})
		add("close-notify", target, "p0", []c09DEv{one(c09DRec{Typ: 21, P: lit(1, 0)})})
		add("unknown-type", target, "p0", []c09DEv{one(c09DRec{Typ: 21, P: lit(1, 90)}, c09DRec{Typ: 25, P: zeros(2)})})
		add("fragment-reads-limit", target, "p0", func() []c09DEv {
			var l []c09DEv
			for i := 0; i < 6; i++ {
				var recs []c09DRec
				for k := 0; k < 50; k++ {
					recs = append(recs, frag(2, 7, 0, 1)) // the same fragment again and again: no new buffer
				}
				l = append(l, one(recs...))
			}
			return l
		}())
		// K13 (fixed 593205a): datagrams from other addresses
		add("k10-foreign-3", target, "p0", []c09DEv{{K: "foreign"}, {K: "foreign"}, {K: "foreign"}, one(warn), {K: "foreign"}})
		add("k10-foreign-40", target, "p0", repD(c09DEv{K: "foreign"}, 40))
		// K14 (fixed 6b259b8): handBuf grew inside one readRecordOrCCS call
		k11 := one(hs(zeros(16000)), c09DRec{Typ: 22, Other: true})
		add("k11-chain-2", target, "p0", []c09DEv{one(hs(append(lit(hdrD(0xEE, 60000, 0, 0, 60000)...), zeros(15000)...)), c09DRec{Typ: 22, Other: true}), k11})
		add("k11-chain-8", target, "p0", append([]c09DEv{one(hs(append(lit(hdrD(0xEE, 60000, 0, 0, 60000)...), zeros(15000)...)), c09DRec{Typ: 22, Other: true})}, repD(k11, 7)...))
		// K15 (fixed bfc7028): the same with a warning alert at the end of every datagram: retryReadRecord
		// re-entered readRecordOrCCS, whose new frame took the grown handBuf as its handLenAtEntry
		k15 := one(hs(zeros(16000)), c09DRec{Typ: 22, Other: true}, warn)
		add("k15-chain-8", target, "p0", append([]c09DEv{one(hs(append(lit(hdrD(0xEE, 60000, 0, 0, 60000)...), zeros(15000)...)), c09DRec{Typ: 22, Other: true}, warn)}, repD(k15, 7)...))
		add("k15-retry-3", target, "p0", repD(one(hs(zeros(1)), c09DRec{Typ: 22, Other: true}, warn), 3))
		add("k15-retry-40", target, "p0", repD(one(hs(zeros(1)), c09DRec{Typ: 22, Other: true}, warn), 40))
	}
	// K12 (fixed 1e7de38): reassembly buffers across readHandshake calls (server: every cookie-less ClientHello is answered and another one read)
	k9 := func(rounds, per int) []c09DEv {
		var l []c09DEv
		seq := 100
		for rd := 0; rd < rounds; rd++ {
			for i := 0; i < per; i += 25 {
				var recs []c09DRec
				for k := 0; k < 25 && i+k < per; k++ {
					recs = append(recs, frag(2, seq, 0, 1))
					seq++
				}
				l = append(l, one(recs...))
			}
			l = append(l, one(hs(lit(c09HelloD(rd)...))))
		}
		return l
	}
	add("hello-loop", "server", "p0", []c09DEv{one(hs(lit(c09HelloD(0)...))), one(hs(lit(c09HelloD(1)...))), one(frag(30, 9, 0, 10))})
	add("k9-fragments-200", "server", "p0", k9(1, 200))
	add("k9-fragments-2x200", "server", "p0", k9(2, 200))
	add("fragments-256-one-call", "server", "p0", k9(1, 256))
	// ---- after completion
	for _, target := range []string{"server", "client"} {
		for _, n := range []int{16, 17} {
			add(fmt.Sprintf("warnings-%d", n), target, "p4", repD(one(warn), n))
		}
		add("post-handshake-hs", target, "p4", []c09DEv{one(hs(zeros(16000))), one(hs(zeros(16000)), hs(zeros(100))), one(c09DRec{Typ: 23, P: zeros(5)})})
		add("post-handshake-fragments", target, "p4", []c09DEv{one(frag(30, 5, 0, 10), frag(30, 6, 0, 10)), one(c09DRec{Typ: 23, P: zeros(5)})})
		add("empty-app-40", target, "p4", repD(one(c09DRec{Typ: 23}), 40))
		add("ccs-after-completion", target, "p4", []c09DEv{one(c09DRec{Typ: 20, P: lit(1)}), one(c09DRec{Typ: 23, P: zeros(5)}), one(c09DRec{Typ: 20, P: lit(1)})})
		add("old-epoch", target, "p4", []c09DEv{one(c09DRec{Typ: 22, Other: true, P: zeros(50)}, c09DRec{Typ: 20, Other: true, P: lit(1)}), one(c09DRec{Typ: 23, P: zeros(5)})})
		add("replayed-app", target, "p4", []c09DEv{one(c09DRec{Typ: 23, P: zeros(5)}), one(c09DRec{Typ: 23, Replay: 1, P: zeros(5)}), one(c09DRec{Typ: 23, P: zeros(6)})})
		add("bad-mac", target, "p4", []c09DEv{one(c09DRec{Typ: 23, P: zeros(5)}), one(c09DRec{Typ: 23, Bad: true})})
		add("k10-foreign-5", target, "p4", append(repD(c09DEv{K: "foreign"}, 5), one(c09DRec{Typ: 23, P: zeros(5)})))
		// K15 (fixed bfc7028) after completion: a handshake record (dropped, but it resets retryCount) and a warning alert per datagram
		add("k15-retry-40", target, "p4", repD(one(hs(zeros(1)), warn), 40))
		add("warnings-after-hs-record", target, "p4", append(repD(one(hs(zeros(1)), warn), 2), one(c09DRec{Typ: 23, P: zeros(5)})))
	}
	// random traces before the handshake
	nr := 10
	if thorough {
		nr = 800
	}
	for k := 0; k < nr; k++ {
		target := []string{"server", "client"}[r.IntN(2)]
		var evs []c09DEv
		nrec := 0
		for i, n := 0, 1+r.IntN(10); i < n; i++ {
			if r.IntN(12) == 0 {
				evs = append(evs, c09DEv{K: "foreign"})
				continue
			}
			var recs []c09DRec
			for j, m := 0, 1+r.IntN(3); j < m; j++ {
				var rec c09DRec
				switch x := r.IntN(10); {
				case x < 5:
					total := []int{1, 2, 20, 300}[r.IntN(4)]
					off := r.IntN(total)
					rec = frag(total, r.IntN(3), off, 1+r.IntN(total-off))
				case x < 7:
					rec = warn
				case x == 7:
					rec = c09DRec{Typ: 22, Other: true, P: zeros(r.IntN(4))}
				case x == 8:
					rec = c09DRec{Typ: 20, P: lit(1)}
				default:
					if nrec > 0 {
						rec = c09DRec{Typ: 22, Replay: 1 + r.IntN(nrec)}
					} else {
						rec = warn
					}
				}
				recs = append(recs, rec)
				nrec++
			}
			evs = append(evs, one(recs...))
		}
		// a replay repeats the record it names.  Only a record that certainly went through the
		// endpoint's replay check can be replayed: current epoch, not a ChangeCipherSpec (a stray one
		// is dropped before the check), no warning alert before it in its datagram (a warning alert
		// discards the rest of its datagram); otherwise the copy is an ordinary fresh record
		var flat []c09DRec
		var checked []bool
		for ei := range evs {
			discarded := false
			for ri := range evs[ei].Recs {
				rc := &evs[ei].Recs[ri]
				if rc.Replay > 0 {
					src := flat[rc.Replay-1]
					rc.Typ, rc.Other, rc.Bad, rc.P = src.Typ, src.Other, src.Bad, src.P
					if !checked[rc.Replay-1] {
						rc.Replay = 0
					}
				}
				flat = append(flat, *rc)
				checked = append(checked, !discarded && !rc.Other && rc.Typ != 20)
				if rc.Typ == 21 && !rc.Other {
					discarded = true
				}
			}
		}
		add("random", target, "p0", evs)
	}
}

// ---------------------------------------------------------------- endpoint scenarios
func c09Configs(thorough bool) []c09Ep {
	var cfgs []c09Ep
	for _, st := range []string{"tlcp", "dtlcp"} {
		for _, tg := range []string{"client", "server"} {
			for _, su := range []uint16{0xe013, 0xe011, 0xe053, 0xe051} {
				for _, cr := range []bool{false, true} {
					if puppet.IsECDHE(su) && !cr {
						continue
					}
					if !thorough && puppet.IsGCM(su) && cr != puppet.IsECDHE(su) {
						continue
					}
					cfgs = append(cfgs, c09Ep{Stack: st, Target: tg, Suite: su, CertReq: cr, Ident: "sm2"})
				}
			}
		}
	}
	return cfgs
}

func c09GenEp(out *emit.Out, r *rand.Rand, thorough bool) {
	add := func(name string, e c09Ep) { c09Add(out, name, c09Input{Kind: "ep", Ep: &e}) }
	with := func(base c09Ep, script []c09Step) c09Ep { e := base; e.Script = script; return e }
	app := c09Step{Op: "rec", Typ: 23, Data: hx([]byte("hello"))}
	for _, cfg := range c09Configs(thorough) {
		flow := c09Flow(cfg)
		add("honest", with(cfg, append(append([]c09Step{}, flow...), app)))
		// the honest body lengths, learned by a dry run of the puppet against a fresh endpoint
		lens := c09BodyLens(cfg)
		for i, st := range flow {
			if st.Op != "hs" {
				continue
			}
			name := st.Msg
			mut := func(m c09Mut) []c09Step {
				s := append([]c09Step{}, flow...)
				x := s[i]
				x.Mut = &m
				s[i] = x
				return append(s, app)
			}
			n := lens[i]
			// every truncation length (thorough; quick: all for short bodies, a sample otherwise)
			var ls []int
			for l := 0; l < n; l++ {
				if thorough || n <= 80 && (cfg.Stack == "tlcp" || l%3 == int(cfg.Suite)%3) || l < 5 || l == n-1 || r.IntN(n) < 6 {
					ls = append(ls, l)
				}
			}
			for _, l := range ls {
				add("truncated-"+name, with(cfg, mut(c09Mut{Kind: "trunc", Off: l})))
			}
			np := 4
			if thorough {
				np = 30
			}
			for k := 0; k < np && n > 0; k++ {
				off := r.IntN(n)
				if k%2 == 0 && n > 12 {
					off = r.IntN(12)
				}
				add("length-field-"+name, with(cfg, mut(c09Mut{Kind: "setbyte", Off: off, Val: []int{0, 1, 0x7f, 0x80, 0xff, r.IntN(256)}[r.IntN(6)]})))
				add("flipped-"+name, with(cfg, mut(c09Mut{Kind: "xor", Off: r.IntN(n), Val: 1 << r.IntN(8)})))
			}
			for _, b := range [][]byte{{}, {0}, {0, 0}, {0, 1, 0x30}, {0, 2, 0x30, 0}, {0xff, 0xff, 0xff, 0xff}} {
				add("substituted-"+name, with(cfg, mut(c09Mut{Kind: "body", Data: hx(b)})))
			}
			// well-framed bodies whose INNER vectors end with a stray byte or announce more than they hold
			for _, b := range map[string][][]byte{
				"CR":   {{2, 1, 0x40, 0, 1, 0}, {2, 1, 0x40, 0, 3, 0, 1, 0x41}, {1, 1, 0, 1, 0}, {2, 1, 0x40, 0, 2, 0, 5}, {2, 1, 0x40, 0, 4, 0, 1, 0x41, 0}},
				"CERT": {{0, 0, 5, 0, 0, 2, 0, 0}, {0, 0, 2, 0, 0}, {0, 0, 1, 0}, {0, 0, 4, 0, 0, 5, 1}, {0, 0, 6, 0, 0, 1, 0x30, 0, 0}},
				"SKX":  {{0, 1}, {0, 5, 0x30}, {3, 0, 0x29, 65}, {3, 0, 0x29, 1, 4, 0, 1}},
				"CKX":  {{0, 1}, {0, 5, 0x30}, {3, 0, 0x29, 65}, {3, 0, 0x29, 1, 4}},
				"CV":   {{0, 1}, {0, 9, 0x30}, {0}},
			}[name] {
				add("inner-length-"+name, with(cfg, mut(c09Mut{Kind: "body", Data: hx(b)})))
			}
			rb := make([]byte, n)
			for k := range rb {
				rb[k] = byte(r.IntN(256))
			}
			add("substituted-"+name, with(cfg, mut(c09Mut{Kind: "body", Data: hx(rb)})))
			add("substituted-"+name, with(cfg, mut(c09Mut{Kind: "append", Val: 1 + r.IntN(40)})))
			// the message left out altogether: the next one arrives in its place
			add("omitted-"+name, with(cfg, append(append(append([]c09Step{}, flow[:i]...), flow[i+1:]...), app)))
			add("retyped-"+name, with(cfg, mut(c09Mut{Kind: "type", Val: []int{0, 1, 2, 11, 12, 13, 14, 15, 16, 20, 0xEE}[r.IntN(11)]})))
			for _, v := range []int{0, n - 1, n + 1, 65536, 65537, 0xffffff} {
				if v >= 0 {
					add("header-length-"+name, with(cfg, mut(c09Mut{Kind: "hdrlen", Val: v})))
				}
			}
			if cfg.Stack == "dtlcp" {
				for _, v := range []int{0, n - 1, n + 1, 65537} {
					if v >= 0 {
						add("fragment-length-"+name, with(cfg, mut(c09Mut{Kind: "fraglen", Val: v})))
					}
				}
				add("fragment-offset-"+name, with(cfg, mut(c09Mut{Kind: "fragoff", Val: 1 + r.IntN(n+2)})))
			}
			// floods and garbage at this state
			at := func(extra ...c09Step) []c09Step {
				s := append([]c09Step{}, flow[:i]...)
				s = append(s, extra...)
				return append(s, flow[i:]...)
			}
			if thorough || i%2 == int(cfg.Suite)%2 {
				add("warning-flood-before-"+name, with(cfg, at(c09Step{Op: "rec", Typ: 21, Data: "015a", N: 40, Batch: 8})))
				add("warnings-16-before-"+name, with(cfg, append(at(c09Step{Op: "rec", Typ: 21, Data: "015a", N: 16, Batch: 8}), app)))
				add("empty-records-before-"+name, with(cfg, at(c09Step{Op: "rec", Typ: 23, N: 40, Batch: 8})))
				add("big-message-before-"+name, with(cfg, at(c09BigMsg(cfg, 65536), c09Step{Op: "rec", Typ: 22, Fill: 16384, N: 8, Batch: 2})))
				add("too-big-message-before-"+name, with(cfg, at(c09BigMsg(cfg, 70000))))
				g := make([]byte, 1+r.IntN(60))
				for k := range g {
					g[k] = byte(r.IntN(256))
				}
				add("garbage-before-"+name, with(cfg, at(c09Step{Op: "raw", Data: hx(g)})))
				add("garbage-record-before-"+name, with(cfg, at(c09Step{Op: "raw", Data: hx(c09GarbageRecord(cfg, r))})))
				add("early-app-before-"+name, with(cfg, at(app)))
				add("early-ccs-before-"+name, with(cfg, at(c09Step{Op: "rec", Typ: 20, Data: "01"})))
			}
		}
		// after completion
		done := func(extra ...c09Step) []c09Step { return append(append([]c09Step{}, flow...), extra...) }
		add("post-handshake-hs-flood", with(cfg, done(app, c09Step{Op: "rec", Typ: 22, Fill: 16000, N: 200, Batch: 20}, app)))
		add("post-handshake-hs-small", with(cfg, done(c09Step{Op: "rec", Typ: 22, Data: "00", N: 40, Batch: 8}, app)))
		add("post-handshake-warning-flood", with(cfg, done(c09Step{Op: "rec", Typ: 21, Data: "015a", N: 40, Batch: 8}, app)))
		add("post-handshake-empty-flood", with(cfg, done(c09Step{Op: "rec", Typ: 23, N: 60, Batch: 8}, app)))
		add("post-handshake-ccs", with(cfg, done(c09Step{Op: "rec", Typ: 20, Data: "01", N: 3}, app)))
		add("post-handshake-garbage", with(cfg, done(c09Step{Op: "raw", Data: hx(c09GarbageRecord(cfg, r))}, app)))
		if !puppet.IsGCM(cfg.Suite) {
			// CBC records under the connection key whose content is nothing but valid padding: the padding covers the
			// place of the MAC or the whole plaintext (L plaintext bytes, padding byte P)
			for _, lp := range [][2]int{{16, 15}, {32, 31}, {48, 47}, {48, 32}, {48, 16}, {48, 15}, {64, 63}, {64, 32}, {64, 31}, {80, 79}, {80, 48}, {80, 47}, {272, 255}} {
				add(fmt.Sprintf("post-handshake-cbc-all-padding-%d-%d", lp[0], lp[1]), with(cfg, done(c09Step{Op: "rawcbc", Typ: 23, Len: lp[0], Off: lp[1]}, app)))
			}
		}
		if cfg.Stack == "tlcp" {
			big := []c09Step{{Op: "raw", Data: hx([]byte{23, 1, 1, 0xea, 0x60}), Fill: 16000}, {Op: "raw", Fill: 16000, N: 3, Batch: 1}}
			add("oversize-record-in-pieces", with(cfg, done(big...)))
			pre := []c09Step{}
			if cfg.Target == "client" {
				pre = flow[:1]
			}
			big0 := []c09Step{{Op: "raw", Data: hx([]byte{22, 1, 1, 0xea, 0x60}), Fill: 16000}, {Op: "raw", Fill: 16000, N: 3, Batch: 1}}
			add("oversize-record-in-pieces-first", with(cfg, append(append([]c09Step{}, pre...), big0...)))
		}
		add("post-handshake-hello", with(cfg, done(c09Step{Op: "hs", Msg: map[string]string{"client": "SH", "server": "CH"}[cfg.Target]}, app)))
		if cfg.Stack == "dtlcp" {
			rf := cfg
			rf.ReadFrom = true
			add("readfrom-hs-flood", with(rf, done(app, c09Step{Op: "rec", Typ: 22, Fill: 16000, N: 40, Batch: 20}, app)))
			add("readfrom-mixed", with(rf, done(c09Step{Op: "rec", Typ: 21, Data: "015a", N: 40, Batch: 8}, c09Step{Op: "rec", Typ: 20, Data: "01", N: 3},
				c09Step{Op: "rec", Typ: 23, N: 20}, c09Step{Op: "raw", Data: hx(c09GarbageRecord(cfg, r)), N: 5}, c09Step{Op: "frag", Typ: 11, Total: 65536, Len: 1, N: 100, SeqInc: true, Batch: 50}, app)))
			add("post-handshake-packed-alerts", with(cfg, done(c09Step{Op: "rec", Typ: 21, Data: "015a", N: 40, Pack: 20}, app)))
			add("post-handshake-fragment-flood", with(cfg, done(c09Step{Op: "frag", Typ: 11, Total: 65536, Len: 1, N: 300, SeqInc: true, Batch: 50}, app)))
		}
	}
	// servers under every policy that asks for a certificate: every message of the client's flight left out, an
	// empty certificate list, a single certificate
	for _, cfg := range c09Configs(true) {
		if cfg.Target != "server" || !cfg.CertReq || puppet.IsECDHE(cfg.Suite) || (!thorough && puppet.IsGCM(cfg.Suite)) {
			continue
		}
		for _, pol := range []int{1, 2, 3, 5} {
			e := cfg
			e.Policy = pol
			flow := c09Flow(e)
			add("policy-honest", with(e, append(append([]c09Step{}, flow...), app)))
			for i, st := range flow {
				if st.Op == "hs" && st.Msg != "CH" {
					add("policy-omitted-"+st.Msg, with(e, append(append(append([]c09Step{}, flow[:i]...), flow[i+1:]...), app)))
				}
			}
			for _, id := range []string{"none", "one"} {
				x := with(e, append(append([]c09Step{}, flow...), app))
				x.Ident = id
				add("policy-chain-"+id, x)
			}
		}
	}
	// certificates of foreign key types, one / no certificate
	for _, cfg := range c09Configs(true) {
		for _, id := range []string{"rsa", "rsa-sig", "rsa-enc", "p256", "p256-sig", "p256-enc", "ed", "ed-sig", "ed-enc", "one", "none"} {
			e := cfg
			e.Ident = id
			e.Script = append(c09Flow(cfg), app)
			add("foreign-key-"+id, e)
		}
	}
	// datagram stack: reassembly, foreign addresses, chained handshake records
	for _, tg := range []string{"server", "client"} {
		base := c09Ep{Stack: "dtlcp", Target: tg, Suite: 0xe013, Ident: "sm2"}
		pre := []c09Step{}
		if tg == "client" {
			pre = []c09Step{{Op: "absorb"}}
		}
		// fragments of one message_seq that disagree about the total length, at and around the end of the first buffer
		for _, v := range [][4]int{{100, 104, 98, 6}, {100, 101, 95, 6}, {100, 107, 100, 7}, {100, 200, 150, 50}, {100, 50, 40, 10}, {100, 100, 96, 8}, {97, 104, 96, 8}, {1, 8, 1, 7}, {65535, 65536, 65530, 6}} {
			add("fragments-disagree-on-total", with(base, append(pre, c09Step{Op: "frag", Typ: 11, Total: v[0], Seq: 7, Off: 0, Len: 1},
				c09Step{Op: "frag", Typ: 11, Total: v[1], Seq: 7, Off: v[2], Len: v[3]}, c09Step{Op: "rec", Typ: 21, Data: "015a"})))
		}
		add("fragment-flood-255", with(base, append(pre, c09Step{Op: "frag", Typ: 1, Total: 65536, Len: 1, N: 255, SeqInc: true, Batch: 50})))
		add("fragment-flood-same-seq", with(base, append(pre, c09Step{Op: "frag", Typ: 1, Total: 65536, Len: 1, N: 400, Batch: 50})))
		add("fragment-flood-400", with(base, append(pre, c09Step{Op: "frag", Typ: 1, Total: 65536, Len: 1, N: 400, SeqInc: true, Batch: 50})))
		e := with(base, append(pre, c09Step{Op: "foreign", N: 2}, c09Step{Op: "rec", Typ: 21, Data: "015a"}))
		e.Foreign = true
		add("foreign-address-2", e)
		e = with(base, append(pre, c09Step{Op: "foreign", N: 300, Batch: 50}))
		e.Foreign = true
		add("k10-foreign-address-300", e)
		add("packed-empty-records", with(base, append(pre, c09Step{Op: "rec", Typ: 22, Data: hx(hdrD(0xEE, 65536, 0, 0, 65536)), N: 1}, c09Step{Op: "rec", Typ: 21, Data: "015a", N: 16, Pack: 16})))
		add("k11-chained-handshake-records", with(base, append(pre, c09Step{Op: "chain", Fill: 16000, N: 30, Batch: 10})))
		add("k15-alert-chained-handshake-records", with(base, append(pre, c09Step{Op: "chain", Fill: 16000, N: 30, Batch: 10, Typ: 21})))
	}
	// server: reassembly buffers across the cookie exchange (K12)
	base := c09Ep{Stack: "dtlcp", Target: "server", Suite: 0xe013, Ident: "sm2"}
	var k9 []c09Step
	for rd := 0; rd < 3; rd++ {
		k9 = append(k9, c09Step{Op: "frag", Typ: 1, Total: 65536, Seq: 1000 + 300*rd, Len: 1, N: 250, SeqInc: true, Batch: 50},
			c09Step{Op: "rec", Typ: 22, Data: hx(c09HelloD(rd))})
	}
	add("k9-fragments-across-cookie-rounds", with(base, k9))
}

func c09BigMsg(cfg c09Ep, total int) c09Step {
	if cfg.Stack == "dtlcp" {
		return c09Step{Op: "rec", Typ: 22, Data: hx(hdrD(0xEE, total, 77, 0, total)), Fill: 4000}
	}
	return c09Step{Op: "rec", Typ: 22, Data: hx(hdrT(total)), Fill: 16380}
}

func c09GarbageRecord(cfg c09Ep, r *rand.Rand) []byte {
	n := r.IntN(40)
	typ := byte([]int{20, 21, 22, 23, 24, 0x80, r.IntN(256)}[r.IntN(7)])
	vers := []int{0x0101, 0x0101, 0x0303, 0xfeff}[r.IntN(4)]
	ln := []int{n, n, n + 5, 0, 18433, 65535}[r.IntN(6)]
	var h []byte
	if cfg.Stack == "dtlcp" {
		h = []byte{typ, byte(vers >> 8), byte(vers), 0, byte(r.IntN(2)), 0, 0, 0, 0, 0, byte(r.IntN(256)), byte(ln >> 8), byte(ln)}
	} else {
		h = []byte{typ, byte(vers >> 8), byte(vers), byte(ln >> 8), byte(ln)}
	}
	b := make([]byte, n)
	for k := range b {
		b[k] = byte(r.IntN(256))
	}
	return append(h, b...)
}

// c09BodyLens: the body length of every honest handshake message of the flow (0 for other steps),
// learned from a run against a real endpoint with a recording mutation hook.
var c09LensCache = map[string][]int{}

func c09BodyLens(cfg c09Ep) []int {
	key := fmt.Sprintf("%s-%s-%x-%v", cfg.Stack, cfg.Target, cfg.Suite, cfg.CertReq)
	if l, ok := c09LensCache[key]; ok {
		return l
	}
	flow := c09Flow(cfg)
	lens := make([]int, len(flow))
	e := cfg
	e.Script = flow
	c09RunRaw(e, func(p *puppet.Peer) {
		for i, st := range flow {
			if p.L.TargetDone() {
				break
			}
			idx := i
			if st.Op == "hs" {
				p.MutBody = func(typ byte, body []byte) (byte, []byte) { lens[idx] = len(body); return typ, body }
			}
			one := e
			one.Script = []c09Step{st}
			c09Exec(p, one)
			p.MutBody = nil
		}
	})
	c09LensCache[key] = lens
	return lens
}

func runC09(p params) error {
	out := emit.New(p.out, "C09", "V.Corr.Run_C09", "case",
		"kx: bodies handed to the key-exchange parsers of both packages (honest, every truncation length, perturbed length fields, flipped bytes, "+
			"substituted bodies, certificate lists of foreign key types); tt / td: scripted record / datagram sequences against a real endpoint at a given "+
			"handshake state with the buffer sizes after every step; ep: puppet-driven scenarios against real endpoints of both roles and stacks "+
			"(malformed message at every state, floods, garbage) with maxima of the buffer sizes; non-trivial = everything except one-event traces; distinct by Coq term")
	out.ShardMax = 120
	if p.replay != "" {
		b, err := os.ReadFile(p.replay)
		if err != nil {
			return err
		}
		var rp struct {
			Cases []struct {
				Scenario string   `json:"scenario"`
				Input    c09Input `json:"input"`
			} `json:"cases"`
		}
		if err := json.Unmarshal(b, &rp); err != nil {
			return err
		}
		for _, c := range rp.Cases {
			parts := strings.Split(c.Scenario, "/")
			c09Add(out, parts[len(parts)-1], c.Input)
		}
		return out.Finish()
	}
	thorough := p.tier == "thorough"
	r := rand.New(rand.NewPCG(p.seed, 0xC09))
	c09GenKx(out, r, thorough)
	c09GenTraceT(out, r, thorough)
	c09GenTraceD(out, r, thorough)
	c09GenEp(out, r, thorough)
	return out.Finish()
}

func init() { register("C09", runC09) }
