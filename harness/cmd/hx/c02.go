package main

// C02: a verifying client completes only with an authenticated server.
// A puppet server plays every impostor of the catalogue against the real client; the harness
// computes the oracle verdicts (chain / validity / name with smx509, signature with sm2) on the
// bytes actually exchanged, independently of the library.

import (
	"crypto/ecdsa"
	"crypto/rsa"
	"encoding/json"
	"fmt"
	"os"
	"strings"

	"github.com/emmansun/gmsm/sm2"
	x509 "github.com/emmansun/gmsm/smx509"
	"verifharness/internal/emit"
	"verifharness/internal/puppet"
	"verifharness/internal/tk"
)

type c02Input struct {
	Stack     string `json:"stack"`
	Suite     uint16 `json:"suite"`
	Insecure  bool   `json:"insecure"`
	Chain     string `json:"chain"` // srv | untrusted | expired | future | wrong-name | single | swapped | mixed-ca | mixed-ca-sig | mixed-expired-sig | mixed-expired-enc | mixed-name-sig | rsa | ed
	SKX       string `json:"skx"`   // ok | other-key | other-randoms | other-cert | other-params | corrupt | empty-sig | no-sig | omit
	Fin       string `json:"fin"`   // ok | wrong
	NoEncKey  bool   `json:"no_enc_key"`
	Resume    string `json:"resume,omitempty"`     // "" | "cross-config": session created by an insecure config, offered by this one
	Name      string `json:"name,omitempty"`       // the client's ServerName ("" = server.test): another DNS name or an IP literal
	TimeShift int    `json:"time_shift,omitempty"` // resume: the verifying configuration's clock is this many years later
	// full handshake: the client's configured clock = the fixed clock + ClockYears years + ClockMin minutes
	// resume: FirstVerifies: the session is created by a verifying configuration (default name, roots, clock);
	// the second, verifying, configuration has the name Name, the roots Roots2 ("" the CA, "other") and the clock TimeShift
	// GuessPMS (with NoEncKey): the peer, which cannot decrypt the ClientKeyExchange, bets that the pre-master secret is
	// the version followed by 46 zero bytes (what a client with a broken random source would send)
	GuessPMS      bool   `json:"guess_pms,omitempty"`
	FirstVerifies bool   `json:"first_verifies,omitempty"`
	Roots2        string `json:"roots2,omitempty"`
	ClockYears    int    `json:"clock_years,omitempty"`
	ClockMin      int    `json:"clock_min,omitempty"`
	// resume: PtrCache: the client's session cache is a user-supplied one that keeps the object it is handed;
	// ZeroMaster: the peer that tries to resume does not know the master secret and bets on 48 zero bytes
	// (Fin "wrong" in the model's terms: its Finished is not computed from the session's master secret)
	PtrCache   bool `json:"ptr_cache,omitempty"`
	ZeroMaster bool `json:"zero_master,omitempty"`
}

type c02View struct {
	NCerts, ParseOK, ChainSig, ChainEnc, KeyType, EncSM2, SKXPresent, SKXWell, SigOK, FinOK interface{}
}

func c02Chain(name string) (chain [][]byte, sig, enc *tk.Leaf) {
	pk := tk.GetPKI()
	switch name {
	case "srv":
		return [][]byte{pk.SrvSig.DER, pk.SrvEnc.DER}, pk.SrvSig, pk.SrvEnc
	case "untrusted":
		return [][]byte{pk.UntrustedSig.DER, pk.UntrustedEnc.DER}, pk.UntrustedSig, pk.UntrustedEnc
	case "expired":
		return [][]byte{pk.ExpiredSig.DER, pk.ExpiredEnc.DER}, pk.ExpiredSig, pk.ExpiredEnc
	case "future":
		return [][]byte{pk.FutureSig.DER, pk.FutureEnc.DER}, pk.FutureSig, pk.FutureEnc
	case "wrong-name":
		return [][]byte{pk.Srv2Sig.DER, pk.Srv2Enc.DER}, pk.Srv2Sig, pk.Srv2Enc
	case "single":
		return [][]byte{pk.SrvSig.DER}, pk.SrvSig, pk.SrvEnc
	case "swapped":
		return [][]byte{pk.SrvEnc.DER, pk.SrvSig.DER}, pk.SrvSig, pk.SrvEnc
	case "mixed-ca":
		return [][]byte{pk.SrvSig.DER, pk.UntrustedEnc.DER}, pk.SrvSig, pk.UntrustedEnc
	case "mixed-ca-sig": // the impostor's own signing certificate beside the genuine encryption certificate
		return [][]byte{pk.UntrustedSig.DER, pk.SrvEnc.DER}, pk.UntrustedSig, pk.SrvEnc
	case "mixed-expired-sig":
		return [][]byte{pk.ExpiredSig.DER, pk.SrvEnc.DER}, pk.ExpiredSig, pk.SrvEnc
	case "mixed-expired-enc":
		return [][]byte{pk.SrvSig.DER, pk.ExpiredEnc.DER}, pk.SrvSig, pk.ExpiredEnc
	case "extra-ee": // the genuine pair followed by another end-entity encryption certificate
		return [][]byte{pk.SrvSig.DER, pk.SrvEnc.DER, pk.Srv2Enc.DER}, pk.SrvSig, pk.SrvEnc
	case "extra-ca": // the genuine pair followed by the CA certificate
		return [][]byte{pk.SrvSig.DER, pk.SrvEnc.DER, pk.CA.Cert.Raw}, pk.SrvSig, pk.SrvEnc
	case "mixed-future-sig":
		return [][]byte{pk.FutureSig.DER, pk.SrvEnc.DER}, pk.FutureSig, pk.SrvEnc
	case "mixed-future-enc":
		return [][]byte{pk.SrvSig.DER, pk.FutureEnc.DER}, pk.SrvSig, pk.FutureEnc
	case "mixed-name-sig":
		return [][]byte{pk.Srv2Sig.DER, pk.SrvEnc.DER}, pk.Srv2Sig, pk.SrvEnc
	case "rsa":
		return [][]byte{pk.RSASig.DER, pk.RSAEnc.DER}, pk.RSASig, pk.RSAEnc
	case "ed":
		return [][]byte{pk.EdSig.DER, pk.SrvEnc.DER}, pk.EdSig, pk.SrvEnc
	}
	panic("chain " + name)
}

func c02Verify(der []byte) bool { return c02VerifyAt(der, 0) }

func c02VerifyAt(der []byte, shiftYears int) bool {
	return c02VerifyName(der, shiftYears, "server.test")
}

func c02VerifyName(der []byte, shiftYears int, name string) bool {
	return c02VerifyClock(der, shiftYears, 0, name)
}

func c02VerifyClock(der []byte, shiftYears, shiftMin int, name string) bool {
	return c02VerifyRoots(der, shiftYears, shiftMin, name, "")
}

func c02VerifyRoots(der []byte, shiftYears, shiftMin int, name, roots string) bool {
	if name == "" {
		name = "server.test"
	}
	pk := tk.GetPKI()
	c, err := x509.ParseCertificate(der)
	if err != nil {
		return false
	}
	pool := pk.CA.Pool
	if roots == "other" {
		pool = pk.OtherCA.Pool
	}
	_, err = c.Verify(x509.VerifyOptions{Roots: pool, CurrentTime: tk.EPConfig{TimeShiftYears: shiftYears, TimeShiftMin: shiftMin}.Clock(), DNSName: name, Intermediates: x509.NewCertPool()})
	return err == nil
}

func c02Run(in c02Input) (view [10]int, accepted bool, complete bool, delivered bool, direct string) {
	b2i := func(b bool) int {
		if b {
			return 1
		}
		return 0
	}
	reg := tk.NewRegistry()
	cc := tk.EPConfig{Suites: []uint16{in.Suite}, Ident: "cli", ServerName: "server.test", Insecure: in.Insecure, TimeShiftYears: in.ClockYears, TimeShiftMin: in.ClockMin}
	if in.Name != "" {
		cc.ServerName = in.Name
	}
	chain, sig, enc := c02Chain(in.Chain)
	if in.NoEncKey { // presents the certificate but holds another key
		enc = &tk.Leaf{DER: enc.DER, Cert: enc.Cert, Key: tk.GetPKI().Srv2Enc.Key}
	}
	var skxBody []byte
	var cr, sr []byte
	var finSentOK bool
	script := func(p *puppet.Peer) {
		p.Sig, p.Enc = sig, enc
		if in.GuessPMS && !puppet.IsECDHE(in.Suite) {
			p.GuessPre = append([]byte{1, 1}, make([]byte, 46)...)
		}
		p.Absorb(5)
		if p.DTLS && p.PeerHello != nil && len(p.PeerHello.Cookie) == 0 {
			p.SendHelloVerify([]byte("cookie-cookie-cookie-cookie-0123"))
			p.Absorb(30000)
		}
		p.SendServerHello(puppet.SHOpt{Suite: in.Suite})
		p.SendCertificate(chain)
		if in.SKX != "omit" {
			o := puppet.SKXOpt{Mode: in.SKX}
			if len(chain) >= 2 {
				o.EncCertDER = chain[1]
			}
			before := len(p.Transcript)
			p.SendServerKeyExchange(o)
			hl := 4
			if p.DTLS {
				hl = 12
			}
			skxBody = append([]byte{}, p.Transcript[before+hl:]...)
		}
		if puppet.IsECDHE(in.Suite) {
			p.SendCertRequest(nil)
		}
		p.SendServerHelloDone()
		p.Absorb(5)
		if p.L.TargetDone() {
			cr, sr = p.CR, p.SR
			return
		}
		p.SendCCS()
		finSentOK = p.Master != nil && in.Fin == "ok" && !in.NoEncKey
		p.SendFinished(in.Fin)
		p.Absorb(5)
		if !p.L.TargetDone() {
			p.SendApp([]byte("secret application data"))
			p.Absorb(5)
		}
		cr, sr = p.CR, p.SR
	}
	var o puppet.TargetOutcome
	if in.Stack == "dtlcp" {
		cc.PMTU, cc.RetransMs, cc.MaxRetransMs = 16000, 10000, 60000
		_, o = puppet.RunDTLCP(tk.BuildDTLCP(cc, reg), true, script)
	} else {
		s := puppet.NewTLCPSession(tk.BuildTLCP(cc, reg), true)
		script(s.P)
		o = s.Finish()
	}
	if o.Panic != "" {
		direct = "panic: " + o.Panic
	} else if o.Hung {
		direct = "hang"
	}
	// ---- oracle verdicts, computed here
	parseOK := true
	var certs []*x509.Certificate
	for _, d := range chain {
		c, err := x509.ParseCertificate(d)
		if err != nil {
			parseOK = false
		}
		certs = append(certs, c)
	}
	view[0] = len(chain)
	view[1] = b2i(parseOK)
	if len(chain) > 0 {
		view[2] = b2i(c02VerifyClock(chain[0], in.ClockYears, in.ClockMin, in.Name))
	}
	if len(chain) > 1 {
		view[3] = b2i(c02VerifyClock(chain[1], in.ClockYears, in.ClockMin, in.Name))
	}
	var sigPub *ecdsa.PublicKey
	if len(certs) > 0 && certs[0] != nil {
		switch k := certs[0].PublicKey.(type) {
		case *ecdsa.PublicKey:
			view[4], sigPub = 1, k
		case *rsa.PublicKey:
			view[4] = 1
		}
	}
	if len(certs) > 1 && certs[1] != nil {
		if _, ok := certs[1].PublicKey.(*ecdsa.PublicKey); ok {
			view[5] = 1
		}
	}
	view[6] = b2i(in.SKX != "omit")
	if in.SKX != "omit" && sigPub != nil && len(chain) > 1 {
		var sigBytes, tbs []byte
		well := false
		if puppet.IsECDHE(in.Suite) {
			if len(skxBody) >= 4 && len(skxBody) >= 4+int(skxBody[3])+2 {
				params := skxBody[:4+int(skxBody[3])]
				rest := skxBody[len(params):]
				n := int(rest[0])<<8 | int(rest[1])
				if n+2 <= len(rest) {
					well = true
					sigBytes = rest[2:]
					tbs = append(append(append([]byte{}, cr...), sr...), params...)
				}
			}
		} else if len(skxBody) > 2 {
			n := int(skxBody[0])<<8 | int(skxBody[1])
			if n+2 == len(skxBody) {
				well = true
				sigBytes = skxBody[2:]
				tbs = append(append(append([]byte{}, cr...), sr...), byte(len(chain[1])>>16), byte(len(chain[1])>>8), byte(len(chain[1])))
				tbs = append(tbs, chain[1]...)
			}
		}
		view[7] = b2i(well)
		if well {
			view[8] = b2i(sm2.VerifyASN1WithSM2(sigPub, nil, tbs, sigBytes))
		}
	}
	view[9] = b2i(finSentOK)
	return view, o.Res.Complete && o.Res.Err == "", o.Res.Complete, len(o.Read) > 0, direct
}

func c02AddCase(out *emit.Out, scenario string, in c02Input) {
	v, acc, complete, delivered, direct := c02Run(in)
	b := func(i int) string { return emit.Bool(v[i] == 1) }
	out.Add(emit.Case{Scenario: scenario + "/" + in.Stack, Trivial: false, Input: in, Direct: direct,
		Observed: map[string]interface{}{"view": v, "accepted": acc, "complete_reported": complete, "data_delivered": delivered},
		Coq: fmt.Sprintf("FullCase %s (mkSV %d%%nat %s %s %s %s %s %s %s %s %s) %s %s %s", emit.Bool(in.Insecure), v[0], b(1), b(2), b(3), b(4), b(5), b(6), b(7), b(8), b(9),
			emit.Bool(acc), emit.Bool(complete), emit.Bool(delivered))})
}

func runC02(p params) error {
	out := emit.New(p.out, "C02", "V.Corr.Run_C02", "case",
		"impostor catalogue (certificate chains x key-exchange signature forgeries x Finished / key possession) x suites x verification on/off x stacks, played by a puppet server against the real client; every case is non-trivial; distinct by Coq term")
	out.Scope = "nat_scope"
	if p.replay != "" {
		b, err := os.ReadFile(p.replay)
		if err != nil {
			return err
		}
		var rp struct {
			Cases []struct {
				Scenario string   `json:"scenario"`
				Input    c02Input `json:"input"`
			} `json:"cases"`
		}
		if err := json.Unmarshal(b, &rp); err != nil {
			return err
		}
		for _, c := range rp.Cases {
			if strings.HasPrefix(c.Scenario, "resume") {
				c02Resume(out, c.Input)
				continue
			}
			c02AddCase(out, strings.SplitN(c.Scenario, "/", 2)[0], c.Input)
		}
		return out.Finish()
	}
	chains := []string{"srv", "untrusted", "expired", "future", "wrong-name", "single", "swapped", "mixed-ca", "mixed-ca-sig", "mixed-expired-sig", "mixed-expired-enc", "mixed-name-sig", "rsa", "ed"}
	skxs := []string{"other-key", "other-randoms", "other-cert", "corrupt", "empty-sig", "no-sig", "omit"}
	for _, st := range []string{"tlcp", "dtlcp"} {
		for _, su := range []uint16{0xe053, 0xe013, 0xe051, 0xe011} {
			for _, ins := range []bool{false, true} {
				base := c02Input{Stack: st, Suite: su, Insecure: ins, Chain: "srv", SKX: "ok", Fin: "ok"}
				c02AddCase(out, "honest", base)
				for _, ch := range chains[1:] {
					in := base
					in.Chain = ch
					c02AddCase(out, "chain-"+ch, in)
				}
				for _, sk := range skxs {
					in := base
					in.SKX = sk
					if sk == "other-cert" && puppet.IsECDHE(su) {
						in.SKX = "other-params"
					}
					c02AddCase(out, "skx-"+in.SKX, in)
				}
				// the configured server name is another DNS name or an IP literal: the honest chain is not valid for it
				for _, nm := range []string{"other.test", "192.0.2.10", "2001:db8::1", "[2001:db8::1]", "10.0.0.2."} {
					in := base
					in.Name = nm
					c02AddCase(out, "name-"+map[bool]string{true: "ip", false: "dns"}[strings.ContainsAny(nm, ":") || nm[0] >= '0' && nm[0] <= '9'], in)
				}
				// the configured clock two minutes before / after the start and the end of a chain's validity
				// (the "future" chain is valid from the fixed clock + 1 year to + 2 years)
				for _, ck := range [][2]int{{1, -2}, {1, 2}, {2, -2}, {2, 2}} {
					for _, ch := range []string{"future", "mixed-future-sig", "mixed-future-enc"} {
						in := base
						in.Chain, in.ClockYears, in.ClockMin = ch, ck[0], ck[1]
						c02AddCase(out, "clock-at-validity-boundary", in)
					}
				}
				in := base
				in.Fin = "wrong"
				c02AddCase(out, "finished-wrong", in)
				in = base
				in.NoEncKey = true
				c02AddCase(out, "no-enc-private-key", in)
				if !puppet.IsECDHE(su) {
					in.GuessPMS = true
					c02AddCase(out, "no-enc-private-key-guessing-a-zero-secret", in)
				}
				// more than two certificates: the key exchange runs against the second one, whatever follows it.
				// The peer holds the signing key and the key of the THIRD certificate (not of the second) ...
				in = base
				in.Chain, in.NoEncKey = "extra-ee", true
				c02AddCase(out, "third-certificate-key-only", in)
				// ... or is honest (controls)
				for _, ch := range []string{"extra-ee", "extra-ca"} {
					in = base
					in.Chain = ch
					c02AddCase(out, "chain-"+ch, in)
				}
			}
			c02Resume(out, c02Input{Stack: st, Suite: su, Chain: "untrusted", SKX: "ok", Fin: "ok", Resume: "cross-config"})
			c02Resume(out, c02Input{Stack: st, Suite: su, Chain: "wrong-name", SKX: "ok", Fin: "ok", Resume: "cross-config"})
			c02Resume(out, c02Input{Stack: st, Suite: su, Chain: "srv", SKX: "ok", Fin: "ok", Resume: "cross-config"})
			c02Resume(out, c02Input{Stack: st, Suite: su, Chain: "srv", SKX: "ok", Fin: "ok", Resume: "cross-config", TimeShift: 50})
			c02Resume(out, c02Input{Stack: st, Suite: su, Chain: "expired", SKX: "ok", Fin: "ok", Resume: "cross-config"})
			c02Resume(out, c02Input{Stack: st, Suite: su, Chain: "mixed-ca-sig", SKX: "ok", Fin: "ok", Resume: "cross-config"})
			c02Resume(out, c02Input{Stack: st, Suite: su, Chain: "mixed-ca", SKX: "ok", Fin: "ok", Resume: "cross-config"})
			// a peer that echoes the session identifier (it travels in clear) without knowing the master secret, against
			// clients whose cache is the library's own and a user-supplied one that keeps the object it is handed
			for _, pc := range []bool{false, true} {
				c02Resume(out, c02Input{Stack: st, Suite: su, Chain: "srv", SKX: "ok", Fin: "wrong", Resume: "cross-config", FirstVerifies: true, PtrCache: pc, ZeroMaster: true})
				c02Resume(out, c02Input{Stack: st, Suite: su, Chain: "srv", SKX: "ok", Fin: "ok", Resume: "cross-config", FirstVerifies: true, PtrCache: pc})
			}
			// the session is created by a VERIFYING configuration; the configuration that offers it verifies too, but
			// under another name, other roots or a later clock (and, as a control, under the same settings)
			for _, v := range []c02Input{{Name: "other.test"}, {Roots2: "other"}, {TimeShift: 50}, {}} {
				v.Stack, v.Suite, v.Chain, v.SKX, v.Fin, v.Resume, v.FirstVerifies = st, su, "srv", "ok", "ok", "cross-config", true
				c02Resume(out, v)
			}
		}
	}
	// configurations used through Config.Clone carry the fields this property depends on
	cloneCases(out, []string{"tlcp", "dtlcp"}, map[string][]string{"tlcp": c02CloneFields, "dtlcp": c02CloneFields})
	return out.Finish()
}

func init() { register("C02", runC02) }

// the fields of a client configuration that decide how a server is authenticated
var c02CloneFields = []string{"ServerName", "RootCAs", "InsecureSkipVerify", "Time", "VerifyPeerCertificate", "VerifyConnection", "CipherSuites", "SessionCache"}
