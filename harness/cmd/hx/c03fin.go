package main

// C03, third family: a key-holding peer (harness/internal/puppet) runs an otherwise honest
// handshake with a real endpoint and sends a Finished whose verify_data is the expected one, or the
// expected one with one byte altered, shortened, extended, or empty.  The model's acceptance
// condition is "the received verify_data equals PRF(master, label, SM3(transcript))" over the whole
// length; an in-transit attacker cannot exercise it (the Finished travels protected), a peer can.

import (
	"bytes"
	"fmt"

	"verifharness/internal/emit"
	"verifharness/internal/puppet"
	"verifharness/internal/tk"
)

type c03FinInput struct {
	Stack  string `json:"stack"`
	Suite  uint16 `json:"suite"`
	Target string `json:"target"` // the real endpoint: client | server
	Resume bool   `json:"resume"`
	Mut    string `json:"mut"` // ok | flip | short | long | empty
	Pos    int    `json:"pos,omitempty"`
	Mask   int    `json:"mask,omitempty"`
}

func c03Mutate(in c03FinInput, vd []byte) []byte {
	v := append([]byte(nil), vd...)
	switch in.Mut {
	case "flip":
		v[in.Pos%len(v)] ^= byte(in.Mask)
	case "short":
		v = v[:len(v)-1]
	case "long":
		v = append(v, 0)
	case "empty":
		v = nil
	}
	return v
}

// c03SendFinished sends the puppet's Finished with the mutation applied; it returns what a correct
// receiver expects and what was sent.
func c03SendFinished(p *puppet.Peer, in c03FinInput) (want, sent []byte) {
	label := "server finished"
	if p.Client {
		label = "client finished"
	}
	if p.Master == nil {
		return nil, nil
	}
	want = puppet.PRF(p.Master, label, puppet.SM3(p.Transcript), 12)
	sent = c03Mutate(in, want)
	p.SendHS(puppet.HSFinished, sent, true)
	return
}

func c03FinRun(in c03FinInput) (accepted bool, want, sent []byte, direct string, errText string) {
	reg := tk.NewRegistry()
	pk := tk.GetPKI()
	targetIsClient := in.Target == "client"
	ecdhe := puppet.IsECDHE(in.Suite)
	var sid, master []byte
	conn := func(resume bool, mutate bool) puppet.TargetOutcome {
		fin := func(p *puppet.Peer) {
			if mutate {
				want, sent = c03SendFinished(p, in)
			} else {
				p.SendFinished("ok")
			}
		}
		var script func(p *puppet.Peer)
		var cfg tk.EPConfig
		if targetIsClient {
			cfg = tk.EPConfig{Suites: []uint16{in.Suite}, Ident: "cli", ServerName: "server.test", Cache: "shared"}
			script = func(p *puppet.Peer) {
				p.Sig, p.Enc = pk.SrvSig, pk.SrvEnc
				p.Absorb(5)
				if p.DTLS && p.PeerHello != nil && len(p.PeerHello.Cookie) == 0 {
					p.SendHelloVerify([]byte("cookie-cookie-cookie-cookie-0123"))
					p.Absorb(30000)
				}
				if resume && p.PeerHello != nil && len(sid) > 0 && bytes.Equal(p.PeerHello.SID, sid) {
					p.ForceMaster = master
					p.SendServerHello(puppet.SHOpt{Suite: in.Suite, SID: sid})
					p.SendCCS()
					fin(p)
					p.Absorb(5)
					return
				}
				p.SendServerHello(puppet.SHOpt{Suite: in.Suite})
				p.SendCertificate(p.OwnChain())
				p.SendServerKeyExchange(puppet.SKXOpt{Mode: "ok"})
				if ecdhe {
					p.SendCertRequest(nil)
				}
				p.SendServerHelloDone()
				p.Absorb(5)
				if p.L.TargetDone() {
					return
				}
				p.SendCCS()
				fin(p)
				p.Absorb(5)
				sid, master = p.SID, p.Master
			}
		} else {
			cfg = tk.EPConfig{Ident: "srv", Cache: "shared"}
			if ecdhe {
				cfg.Auth = 4
			}
			script = func(p *puppet.Peer) {
				p.Sig, p.Enc = pk.CliSig, pk.CliEnc
				o := puppet.CHOpt{Suites: []uint16{in.Suite}}
				if resume {
					o.SID = sid
					p.ForceMaster = master
				}
				p.SendClientHello(o)
				p.Absorb(5)
				if p.DTLS && p.Cookie != nil && p.PeerHello == nil {
					o.Cookie = p.Cookie
					p.SendClientHello(o)
					p.Absorb(5)
				}
				if p.L.TargetDone() || p.PeerHello == nil {
					return
				}
				if resume && bytes.Equal(p.SID, sid) {
					p.Absorb(5)
					p.SendCCS()
					fin(p)
					p.Absorb(5)
					return
				}
				p.ForceMaster, p.Master = nil, nil
				if p.CertRequested {
					p.SendCertificate(p.OwnChain())
				}
				p.SendClientKeyExchange("ok")
				if p.CertRequested {
					p.SendCertVerify("ok")
				}
				p.SendCCS()
				fin(p)
				p.Absorb(5)
				sid, master = p.SID, p.Master
			}
		}
		if in.Stack == "dtlcp" {
			cfg.PMTU, cfg.RetransMs, cfg.MaxRetransMs = 16000, 10000, 60000
			_, o := puppet.RunDTLCP(tk.BuildDTLCP(cfg, reg), targetIsClient, script)
			return o
		}
		s := puppet.NewTLCPSession(tk.BuildTLCP(cfg, reg), targetIsClient)
		script(s.P)
		return s.Finish()
	}
	if in.Resume {
		first := conn(false, false)
		if !first.Res.Complete || first.Res.Err != "" || len(sid) == 0 {
			return false, nil, nil, "setup handshake failed: " + first.Res.ErrText, ""
		}
	}
	o := conn(in.Resume, true)
	if o.Panic != "" {
		direct = "panic: " + o.Panic
	} else if o.Hung {
		direct = "hang"
	} else if in.Resume && !o.Res.Resumed && o.Res.Complete {
		direct = "the second connection was not a resumption"
	} else if want == nil {
		direct = "the puppet never reached its Finished: " + o.Res.ErrText
	}
	return o.Res.Complete && o.Res.Err == "", want, sent, direct, o.Res.ErrText
}

func c03FinAdd(out *emit.Out, in c03FinInput) {
	acc, want, sent, direct, text := c03FinRun(in)
	sc := "finished-" + in.Mut + "/" + in.Stack + "-" + in.Target
	if in.Resume {
		sc += "-resumed"
	}
	out.Add(emit.Case{Scenario: sc, Trivial: in.Mut == "ok", Input: in, Direct: direct,
		Observed: map[string]interface{}{"accepted": acc, "err": text, "expected": want, "sent": sent},
		Coq:      fmt.Sprintf("FinCase %s %s %s", emit.Bytes(want), emit.Bytes(sent), emit.Bool(acc))})
}

func c03FinGen(out *emit.Out, p params) {
	suites := []uint16{0xe013, 0xe053, 0xe011, 0xe051}
	k := 0
	for _, stack := range []string{"tlcp", "dtlcp"} {
		for _, target := range []string{"client", "server"} {
			for _, resume := range []bool{false, true} {
				pick := func() uint16 { k++; return suites[k%4] }
				base := c03FinInput{Stack: stack, Target: target, Resume: resume}
				add := func(mut string, pos, mask int) {
					in := base
					in.Suite, in.Mut, in.Pos, in.Mask = pick(), mut, pos, mask
					c03FinAdd(out, in)
				}
				add("ok", 0, 0)
				for pos := 0; pos < 12; pos++ {
					add("flip", pos, []int{0x01, 0x80, 0xff}[pos%3])
					if p.tier == "thorough" {
						add("flip", pos, []int{0x80, 0xff, 0x01}[pos%3])
						add("flip", pos, 0x10)
					}
				}
				add("short", 0, 0)
				add("long", 0, 0)
				add("empty", 0, 0)
			}
		}
	}
}
