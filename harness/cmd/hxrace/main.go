// hxrace: the stress half of the C13 harness.  It is built with `go build -race` and run as a
// child of `hx C13`; one invocation = one (scenario, stack, GOMAXPROCS, seed) and several runs.
// Every run prints one JSON line on stdout; race reports of the Go race detector go to stderr
// (GORACE="halt_on_error=0 exitcode=66" is set by the parent) and are parsed by the parent.
//
// Interleavings are varied by GOMAXPROCS, by the seed, and by yields injected through the public
// API at the places where the library holds its mutexes: the transport's Read / Write /
// ReadFrom / WriteTo (called with Conn.in resp. Conn.out held), Config.Rand (read under
// Conn.out when a record is sealed) and Config.Time.  The injectors keep no shared state (no
// mutex, no atomic): shared synchronisation inside the harness would add happens-before edges
// and hide races from the detector.
package main

import (
	"bytes"
	"encoding/json"
	"errors"
	"flag"
	"fmt"
	"io"
	"math/rand/v2"
	"net"
	"os"
	"runtime"
	"sync"
	"sync/atomic"
	"time"

	"gitee.com/Trisia/gotlcp/dtlcp"
	"gitee.com/Trisia/gotlcp/pa"
	"gitee.com/Trisia/gotlcp/tlcp"
	"verifharness/internal/tk"
)

// RunOut is what one run observed.
type RunOut struct {
	Scenario string   `json:"scenario"`
	Stack    string   `json:"stack"`
	Seed     uint64   `json:"seed"`
	Procs    int      `json:"procs"`
	Run      int      `json:"run"`
	Tags     [][2]int `json:"tags"`   // (tag, body length) of every payload handed to Write
	Stream   []byte   `json:"stream"` // plaintext received by the peer, in order (per reader, readers concatenated)
	Tail     bool     `json:"tail"`   // Close raced with the writers: one trailing partial payload is legitimate
	Sub      bool     `json:"sub"`    // Close raced with the writers: not every payload has to arrive
	HsCli    []string `json:"hs_cli"` // result class of every Handshake call on the client connection
	HsSrv    []string `json:"hs_srv"`
	Stuck    int      `json:"stuck"`  // goroutines that had not returned 5 s after Close
	Active   int      `json:"active"` // dtlcp: interlock word right after Close returned (1 expected); -1 n/a
	BadWrite int      `json:"bad_write"`
	Panic    string   `json:"panic,omitempty"`
	Note     string   `json:"note,omitempty"`
	// Skip: the run could not start: the SEQUENTIAL handshake that precedes the concurrent part
	// (one caller per end, nothing concurrent on the connection) failed or hung.  Datagram
	// handshakes under CPU load hit the retransmission findings of C19 (F11, F12, K2); such a
	// run says nothing about C13 and is counted as inconclusive, not judged.
	Skip bool `json:"skip,omitempty"`
	// Stalled: on a fault-free network a call made no progress for the whole watchdog period and
	// returned only because the harness closed the connection
	Stalled bool `json:"stalled,omitempty"`
}

// ---------------------------------------------------------------- payloads

const hdrLen = 5

func payload(tag, n int) []byte {
	p := make([]byte, hdrLen+n)
	p[0], p[1], p[2], p[3], p[4] = 0xA5, byte(tag>>8), byte(tag), byte(n>>8), byte(n)
	for i := 0; i < n; i++ {
		p[hdrLen+i] = byte((tag*131 + i*7 + 3) % 251)
	}
	return p
}

// ---------------------------------------------------------------- yield injection (stateless)

type yielder struct{ level int }

func (y yielder) yield(salt int) {
	if y.level == 0 {
		return
	}
	x := uint64(time.Now().UnixNano()) * 0x9E3779B97F4A7C15
	x ^= uint64(salt) * 0xC2B2AE3D27D4EB4F
	x ^= x >> 29
	switch x % uint64(8/y.level+1) {
	case 0:
		runtime.Gosched()
	case 1:
		runtime.Gosched()
		runtime.Gosched()
		runtime.Gosched()
	case 2:
		if y.level >= 2 {
			time.Sleep(time.Duration(x>>40%50) * time.Microsecond)
		}
	}
}

type yConn struct {
	net.Conn
	y yielder
}

func (c *yConn) Read(p []byte) (int, error) {
	c.y.yield(1)
	n, err := c.Conn.Read(p)
	c.y.yield(2)
	return n, err
}
func (c *yConn) Write(p []byte) (int, error) {
	c.y.yield(3)
	n, err := c.Conn.Write(p)
	c.y.yield(4)
	return n, err
}

// blocker: once armed, Write / WriteTo on the wrapped transport blocks until the transport is closed
// (a peer that has stopped reading with the send buffer full)
type blocker struct {
	armed  atomic.Bool
	closed chan struct{}
	once   sync.Once
}

func newBlocker() *blocker  { return &blocker{closed: make(chan struct{})} }
func (b *blocker) release() { b.once.Do(func() { close(b.closed) }) }

type blockConn struct {
	net.Conn
	b *blocker
}

func (c *blockConn) Write(p []byte) (int, error) {
	if c.b.armed.Load() {
		<-c.b.closed
		return 0, net.ErrClosed
	}
	return c.Conn.Write(p)
}
func (c *blockConn) Close() error { c.b.release(); return c.Conn.Close() }

type blockPC struct {
	net.PacketConn
	b *blocker
}

func (c *blockPC) WriteTo(p []byte, a net.Addr) (int, error) {
	if c.b.armed.Load() {
		<-c.b.closed
		return 0, net.ErrClosed
	}
	return c.PacketConn.WriteTo(p, a)
}
func (c *blockPC) Close() error { c.b.release(); return c.PacketConn.Close() }

type yPC struct {
	net.PacketConn
	y yielder
}

func (c *yPC) ReadFrom(p []byte) (int, net.Addr, error) {
	c.y.yield(5)
	n, a, err := c.PacketConn.ReadFrom(p)
	c.y.yield(6)
	return n, a, err
}
func (c *yPC) WriteTo(p []byte, a net.Addr) (int, error) {
	c.y.yield(7)
	n, err := c.PacketConn.WriteTo(p, a)
	c.y.yield(8)
	return n, err
}

type yRand struct {
	r io.Reader
	y yielder
}

func (r yRand) Read(p []byte) (int, error) {
	r.y.yield(9)
	return r.r.Read(p)
}

// gateConn delays (by sleeping, never by synchronising) the first transport Read that follows
// the k-th transport Write: the handshake is then parked between "keys established" and
// "handshake status published".
type gateConn struct {
	net.Conn
	after  int
	sleep  time.Duration
	writes int // touched only by the goroutine running the handshake
	fired  bool
}

func (c *gateConn) Write(p []byte) (int, error) { c.writes++; return c.Conn.Write(p) }
func (c *gateConn) Read(p []byte) (int, error) {
	if !c.fired && c.writes >= c.after {
		c.fired = true
		time.Sleep(c.sleep)
	}
	return c.Conn.Read(p)
}

type gatePC struct {
	net.PacketConn
	after  int
	sleep  time.Duration
	writes int
	fired  bool
}

func (c *gatePC) WriteTo(p []byte, a net.Addr) (int, error) {
	c.writes++
	return c.PacketConn.WriteTo(p, a)
}
func (c *gatePC) ReadFrom(p []byte) (int, net.Addr, error) {
	if !c.fired && c.writes >= c.after {
		c.fired = true
		time.Sleep(c.sleep)
	}
	return c.PacketConn.ReadFrom(p)
}

// ---------------------------------------------------------------- endpoints

type conn interface {
	Read([]byte) (int, error)
	Write([]byte) (int, error)
	Close() error
	Handshake() error
	SetDeadline(time.Time) error
	SetReadDeadline(time.Time) error
	SetWriteDeadline(time.Time) error
}

type endpoint struct {
	conn
	state  func() bool // ConnectionState().HandshakeComplete
	certs  func() int  // len(PeerCertificates())
	active func() int32
	// datagram API (nil on the stream stack)
	readFrom func([]byte) (int, error)
	writeTo  func([]byte) (int, error)
	rawClose func()
}

type pair struct {
	srvIn    *tk.Wire // tlcp: the wire the server reads from
	cliIn    *tk.Wire // tlcp: the wire the client reads from
	cli, srv *endpoint
	maxOne   int // largest payload that is certainly one record
}

type opts struct {
	stack   string
	suite   uint16
	yield   int
	gateCli int // >0: gate the client's transport after that many writes
	gateFor time.Duration
	retrans int
	block   *blocker // non-nil: the client's transport blocks in Write once armed
}

func newPair(o opts) (*pair, error) {
	y := yielder{o.yield}
	reg := tk.NewRegistry()
	ccfg := tk.EPConfig{Suites: []uint16{o.suite}, Ident: "cli", ServerName: "server.test", PMTU: 1400, RetransMs: o.retrans, MaxRetransMs: 400}
	scfg := tk.EPConfig{Ident: "srv", PMTU: 1400, RetransMs: o.retrans, MaxRetransMs: 400}
	if o.stack == "tlcp" {
		craw, sraw, c2s, s2c := tk.StreamPair()
		var cnc, snc net.Conn = &yConn{craw, y}, &yConn{sraw, y}
		if o.gateCli > 0 {
			cnc = &gateConn{Conn: craw, after: o.gateCli, sleep: o.gateFor}
		}
		if o.block != nil {
			cnc = &blockConn{Conn: cnc, b: o.block}
		}
		cc, sc := tk.BuildTLCP(ccfg, reg), tk.BuildTLCP(scfg, reg)
		cc.Rand, sc.Rand = yRand{randReader{}, y}, yRand{randReader{}, y}
		c, s := tlcp.Client(cnc, cc), tlcp.Server(snc, sc)
		mk := func(c *tlcp.Conn, raw net.Conn) *endpoint {
			return &endpoint{conn: c,
				state:    func() bool { return c.ConnectionState().HandshakeComplete },
				certs:    func() int { return len(c.PeerCertificates()) },
				active:   c.VerifActiveCall,
				rawClose: func() { raw.Close() }}
		}
		return &pair{cli: mk(c, craw), srv: mk(s, sraw), maxOne: 600, srvIn: c2s, cliIn: s2c}, nil
	}
	cpc, err := net.ListenPacket("udp", "127.0.0.1:0")
	if err != nil {
		return nil, err
	}
	spc, err := net.ListenPacket("udp", "127.0.0.1:0")
	if err != nil {
		return nil, err
	}
	var cp, sp net.PacketConn = &yPC{cpc, y}, &yPC{spc, y}
	if o.gateCli > 0 {
		cp = &gatePC{PacketConn: cpc, after: o.gateCli, sleep: o.gateFor}
	}
	if o.block != nil {
		cp = &blockPC{PacketConn: cp, b: o.block}
	}
	cc, sc := tk.BuildDTLCP(ccfg, reg), tk.BuildDTLCP(scfg, reg)
	cc.Rand, sc.Rand = yRand{randReader{}, y}, yRand{randReader{}, y}
	c, s := dtlcp.Client(cp, spc.LocalAddr(), cc), dtlcp.Server(sp, cpc.LocalAddr(), sc)
	mk := func(c *dtlcp.Conn, raw net.PacketConn, peer net.Addr) *endpoint {
		return &endpoint{conn: c,
			state:    func() bool { return c.ConnectionState().HandshakeComplete },
			certs:    func() int { return len(c.PeerCertificates()) },
			active:   c.VerifActiveCall,
			readFrom: func(p []byte) (int, error) { n, _, err := c.ReadFrom(p); return n, err },
			writeTo:  func(p []byte) (int, error) { return c.WriteTo(p, peer) },
			rawClose: func() { raw.Close() }}
	}
	return &pair{cli: mk(c, cpc, spc.LocalAddr()), srv: mk(s, spc, cpc.LocalAddr()), maxOne: 600}, nil
}

type randReader struct{}

func (randReader) Read(p []byte) (int, error) {
	for i := range p {
		p[i] = byte(rand.Uint32())
	}
	return len(p), nil
}

// ---------------------------------------------------------------- goroutine bookkeeping

type group struct {
	wg      sync.WaitGroup
	running int32
	panics  chan string
}

func newGroup() *group { return &group{panics: make(chan string, 64)} }

func (g *group) goFn(f func()) {
	g.wg.Add(1)
	atomic.AddInt32(&g.running, 1)
	go func() {
		defer g.wg.Done()
		defer atomic.AddInt32(&g.running, -1)
		defer func() {
			if r := recover(); r != nil {
				select {
				case g.panics <- fmt.Sprint(r):
				default:
				}
			}
		}()
		f()
	}()
}

// wait returns the number of goroutines still running after d
func (g *group) wait(d time.Duration) int {
	done := make(chan struct{})
	go func() { g.wg.Wait(); close(done) }()
	select {
	case <-done:
		return 0
	case <-time.After(d):
		return int(atomic.LoadInt32(&g.running))
	}
}

func (g *group) panicText() string {
	select {
	case p := <-g.panics:
		return p
	default:
		return ""
	}
}

func class(err error) string {
	if err == nil {
		return "ok"
	}
	return tk.ErrClass(err)
}

type results struct {
	mu sync.Mutex
	v  []string
}

func (r *results) add(s string) {
	r.mu.Lock()
	if len(r.v) < 48 { // the noise goroutines call Handshake in a loop: keep the Coq term small
		r.v = append(r.v, s)
	} else if r.v[len(r.v)-1] != s && len(r.v) < 64 {
		r.v = append(r.v, s) // but never drop a DIFFERENT result
	}
	r.mu.Unlock()
}

func handshakeBoth(p *pair, g *group, hc, hs *results, ncli, nsrv int) {
	for i := 0; i < ncli; i++ {
		g.goFn(func() { hc.add(class(p.cli.Handshake())) })
	}
	for i := 0; i < nsrv; i++ {
		g.goFn(func() { hs.add(class(p.srv.Handshake())) })
	}
}

// preHandshake runs one Handshake per end, nothing else; false = the run is inconclusive
func preHandshake(p *pair, out *RunOut, hc, hs *results) bool {
	pre := newGroup()
	handshakeBoth(p, pre, hc, hs, 1, 1)
	stuck := pre.wait(20 * time.Second)
	bad := stuck != 0
	for _, v := range append(append([]string{}, hc.v...), hs.v...) {
		if v != "ok" {
			bad = true
		}
	}
	if bad {
		out.Skip = true
		out.Note = fmt.Sprintf("inconclusive: sequential handshake cli=%v srv=%v stuck=%d", hc.v, hs.v, stuck)
		p.cli.rawClose()
		p.srv.rawClose()
		p.cli.Close()
		p.srv.Close()
		return false
	}
	return true
}

// noise: the cheap calls of the contract, repeated until stop is closed
//
// On the datagram stack the deadline setters are called only once the handshake is complete:
// the dtlcp handshake uses the socket's read deadline as its retransmission timer, so a
// concurrent setter cancels the timer (finding F29, exhibited by the scenario "deadlines").
func noise(e *endpoint, g *group, r *rand.Rand, stop chan struct{}, hres *results) {
	k := r.IntN(4)
	datagram := e.readFrom != nil
	g.goFn(func() {
		for i := 0; ; i++ {
			select {
			case <-stop:
				return
			default:
			}
			switch (i + k) % 4 {
			case 0:
				e.state()
			case 1:
				if !datagram || e.state() {
					e.SetDeadline(time.Time{})
					e.SetReadDeadline(time.Time{})
					e.SetWriteDeadline(time.Time{})
				}
			case 2:
				hres.add(class(e.Handshake()))
			case 3:
				runtime.Gosched()
			}
			if i%8 == 7 {
				time.Sleep(200 * time.Microsecond)
			}
		}
	})
}

// reader collects what one goroutine reads until total bytes have been seen by all readers
// together or an error occurs
type sink struct {
	mu     sync.Mutex
	chunks [][][]byte // per reader
	got    int
	want   int
	done   chan struct{}
	once   sync.Once
}

func newSink(readers, want int) *sink {
	return &sink{chunks: make([][][]byte, readers), want: want, done: make(chan struct{})}
}

func (s *sink) put(reader int, b []byte) {
	s.mu.Lock()
	s.chunks[reader] = append(s.chunks[reader], append([]byte(nil), b...))
	s.got += len(b)
	fin := s.got >= s.want
	s.mu.Unlock()
	if fin {
		s.once.Do(func() { close(s.done) })
	}
}

func (s *sink) stream() []byte {
	s.mu.Lock()
	defer s.mu.Unlock()
	var out []byte
	for _, r := range s.chunks {
		for _, c := range r {
			out = append(out, c...)
		}
	}
	return out
}

func readLoop(e *endpoint, s *sink, idx, bufsz int, datagram bool) {
	buf := make([]byte, bufsz)
	for {
		var n int
		var err error
		if datagram && e.readFrom != nil {
			n, err = e.readFrom(buf)
		} else {
			n, err = e.Read(buf)
		}
		if n > 0 {
			s.put(idx, buf[:n])
		}
		if err != nil {
			return
		}
	}
}

// ---------------------------------------------------------------- scenarios

type scenarioFn func(o opts, r *rand.Rand, out *RunOut) error

// writers: several goroutines Write multi-record payloads on the client while the noise calls
// run on both ends; one reader on the server.  firstUse: nobody calls Handshake beforehand, the
// first Writes / Reads race with each other into the handshake.
func scWriters(firstUse bool) scenarioFn {
	return func(o opts, r *rand.Rand, out *RunOut) error {
		p, err := newPair(o)
		if err != nil {
			return err
		}
		g := newGroup()
		var hc, hs results
		if !firstUse {
			if !preHandshake(p, out, &hc, &hs) {
				return nil
			}
		} else {
			handshakeBoth(p, g, &hc, &hs, 1+r.IntN(3), 1+r.IntN(3))
		}
		nw := 2 + r.IntN(3)
		per := 1 + r.IntN(2)
		total := 0
		var payloads [][][]byte
		tag := 1
		for w := 0; w < nw; w++ {
			var mine [][]byte
			for k := 0; k < per; k++ {
				n := 900 + r.IntN(1400)
				if o.stack == "dtlcp" {
					n = 700 + r.IntN(1500) // above one datagram's payload now and then: several records
				}
				if r.IntN(5) == 0 {
					n = r.IntN(40)
				}
				if o.stack == "tlcp" && r.IntN(3) == 0 {
					n = 17000 + r.IntN(40000) // (the frame header has a 16-bit length) more than one record of the stream stack: the Write must still be whole on the wire
				}
				mine = append(mine, payload(tag, n))
				out.Tags = append(out.Tags, [2]int{tag, n})
				total += hdrLen + n
				tag++
			}
			payloads = append(payloads, mine)
		}
		// first use: the writers are on the client or on the server (whose first Write then races with its
		// own handshake, which ends by sending the last flight)
		wr, rd := p.cli, p.srv
		if firstUse && r.IntN(2) == 1 {
			wr, rd = p.srv, p.cli
			out.Note = "writers on the server"
		}
		sk := newSink(1, total)
		g.goFn(func() { readLoop(rd, sk, 0, 4096, false) })
		stop := make(chan struct{})
		noise(p.cli, g, r, stop, &hc)
		noise(p.srv, g, r, stop, &hs)
		var bad int32
		for w := 0; w < nw; w++ {
			mine := payloads[w]
			useTo := o.stack == "dtlcp" && w%2 == 1
			g.goFn(func() {
				for _, pl := range mine {
					var n int
					var err error
					if useTo && len(pl) <= 1100 {
						n, err = wr.writeTo(pl)
					} else {
						n, err = wr.Write(pl)
					}
					if err != nil || n != len(pl) {
						atomic.AddInt32(&bad, 1)
					}
				}
			})
		}
		select {
		case <-sk.done:
		case <-time.After(20 * time.Second):
			out.Note = "timeout waiting for the stream"
		}
		close(stop)
		finish(p, g, out, &hc, &hs, sk)
		out.BadWrite = int(bad)
		return nil
	}
}

// finish closes both ends (Close must unblock the pending Read) and fills the common fields
func finish(p *pair, g *group, out *RunOut, hc, hs *results, sk *sink) {
	p.cli.Close()
	out.Active = -1
	if p.cli.readFrom != nil {
		out.Active = int(p.cli.active())
	}
	p.srv.Close()
	out.Stuck = g.wait(5 * time.Second)
	if out.Stuck != 0 {
		p.cli.rawClose()
		p.srv.rawClose()
	}
	out.Panic = g.panicText()
	hc.mu.Lock()
	out.HsCli = append([]string(nil), hc.v...)
	hc.mu.Unlock()
	hs.mu.Lock()
	out.HsSrv = append([]string(nil), hs.v...)
	hs.mu.Unlock()
	if sk != nil {
		out.Stream = sk.stream()
	}
}

// readers: one-record payloads written one after the other; several readers on the server, each
// Read must deliver exactly one payload to exactly one of them
func scReaders(o opts, r *rand.Rand, out *RunOut) error {
	p, err := newPair(o)
	if err != nil {
		return err
	}
	var hc, hs results
	if !preHandshake(p, out, &hc, &hs) {
		return nil
	}
	g := newGroup()
	np := 6 + r.IntN(10)
	total := 0
	var pls [][]byte
	for i := 1; i <= np; i++ {
		n := 1 + r.IntN(p.maxOne)
		pls = append(pls, payload(i, n))
		out.Tags = append(out.Tags, [2]int{i, n})
		total += hdrLen + n
	}
	nr := 2 + r.IntN(3)
	sk := newSink(nr, total)
	for i := 0; i < nr; i++ {
		i := i
		g.goFn(func() { readLoop(p.srv, sk, i, 2048, o.stack == "dtlcp" && i%2 == 1) })
	}
	stop := make(chan struct{})
	noise(p.srv, g, r, stop, &hs)
	var bad int32
	g.goFn(func() {
		for _, pl := range pls {
			if n, err := p.cli.Write(pl); err != nil || n != len(pl) {
				atomic.AddInt32(&bad, 1)
			}
		}
	})
	select {
	case <-sk.done:
	case <-time.After(20 * time.Second):
		out.Note = "timeout waiting for the stream"
	}
	close(stop)
	finish(p, g, out, &hc, &hs, sk)
	out.BadWrite = int(bad)
	return nil
}

// shortReads (datagram stack): one goroutine reads with a buffer shorter than a record (Read hands the record out in
// pieces), another one reads whole records with ReadFrom: every byte the peer wrote is delivered exactly once.
// Each payload is filled with its own byte value, so the accounting does not depend on which reader got which piece.
func scShortReads(o opts, r *rand.Rand, out *RunOut) error {
	if o.stack != "dtlcp" {
		out.Skip = true
		return nil
	}
	p, err := newPair(o)
	if err != nil {
		return err
	}
	var hc, hs results
	if !preHandshake(p, out, &hc, &hs) {
		return nil
	}
	g := newGroup()
	np := 8 + r.IntN(8)
	want := map[byte]int{}
	total := 0
	var pls [][]byte
	for i := 1; i <= np; i++ {
		n := 150 + r.IntN(500)
		pls = append(pls, bytes.Repeat([]byte{byte(i)}, n))
		out.Tags = append(out.Tags, [2]int{i, n})
		want[byte(i)] = n
		total += n
	}
	var mu sync.Mutex
	got := map[byte]int{}
	seen := 0
	done := make(chan struct{})
	var once sync.Once
	account := func(b []byte) {
		mu.Lock()
		for _, x := range b {
			if x == 255 {
				continue
			}
			got[x]++
			seen++
		}
		if seen >= total {
			once.Do(func() { close(done) })
		}
		mu.Unlock()
	}
	short := 64 + r.IntN(100)
	var gaps []time.Duration
	for range pls {
		gaps = append(gaps, time.Duration(r.IntN(300))*time.Microsecond)
	}
	g.goFn(func() {
		buf := make([]byte, short)
		for {
			n, err := p.srv.Read(buf)
			account(buf[:n])
			if err != nil {
				return
			}
		}
	})
	g.goFn(func() {
		buf := make([]byte, 4096)
		for {
			n, err := p.srv.readFrom(buf)
			account(buf[:n])
			if err != nil {
				return
			}
		}
	})
	g.goFn(func() {
		for i, pl := range pls {
			p.cli.Write(pl)
			time.Sleep(gaps[i])
		}
		// a reader that holds the rest of a record cannot hand it out while the other reader waits for a datagram with
		// the read half locked: keep single bytes (value 255, not counted) trickling in until everything is accounted for
		for k := 0; k < 400; k++ {
			select {
			case <-done:
				return
			default:
			}
			p.cli.Write([]byte{255})
			time.Sleep(2 * time.Millisecond)
		}
	})
	select {
	case <-done:
	case <-time.After(3 * time.Second):
	}
	out.Tail, out.Sub = true, true
	finish(p, g, out, &hc, &hs, nil)
	mu.Lock()
	for v, n := range got {
		if w, ok := want[v]; !ok || (n != w && n != 0) {
			out.BadWrite++
			out.Note = fmt.Sprintf("byte value %d delivered %d times, written %d times", v, n, w)
		}
	}
	mu.Unlock()
	return nil
}

// closeRace: Close on the client while its writers are writing and a reader is blocked in Read
func scCloseRace(o opts, r *rand.Rand, out *RunOut) error {
	p, err := newPair(o)
	if err != nil {
		return err
	}
	var hc, hs results
	if !preHandshake(p, out, &hc, &hs) {
		return nil
	}
	g := newGroup()
	nw := 2 + r.IntN(2)
	tag := 1
	sk := newSink(1, 1<<30)
	g.goFn(func() { readLoop(p.srv, sk, 0, 4096, false) })
	g.goFn(func() { // pending Read on the client: the server never sends
		buf := make([]byte, 64)
		p.cli.Read(buf)
	})
	if p.cli.readFrom != nil {
		g.goFn(func() { buf := make([]byte, 2048); p.cli.readFrom(buf) })
	}
	for w := 0; w < nw; w++ {
		var mine [][]byte
		for k := 0; k < 3; k++ {
			n := 900 + r.IntN(1400)
			mine = append(mine, payload(tag, n))
			out.Tags = append(out.Tags, [2]int{tag, n})
			tag++
		}
		g.goFn(func() {
			for _, pl := range mine {
				if _, err := p.cli.Write(pl); err != nil {
					return
				}
			}
		})
	}
	time.Sleep(time.Duration(200+r.IntN(3000)) * time.Microsecond)
	out.Tail, out.Sub = true, true
	p.cli.Close()
	out.Active = -1
	if p.cli.readFrom != nil {
		out.Active = int(p.cli.active())
	}
	// everything on the client must come back now; the server reader ends on the broken stream
	time.Sleep(2 * time.Millisecond)
	p.srv.Close()
	out.Stuck = g.wait(5 * time.Second)
	if out.Stuck != 0 {
		p.cli.rawClose()
		p.srv.rawClose()
	}
	out.Panic = g.panicText()
	out.HsCli, out.HsSrv = hc.v, hs.v
	out.Stream = sk.stream()
	return nil
}

// closeBlockedWrite: Writes are blocked inside the transport (the peer has stopped reading) when Close is
// called: Close must return and release them
func scCloseBlockedWrite(o opts, r *rand.Rand, out *RunOut) error {
	o.block = newBlocker()
	p, err := newPair(o)
	if err != nil {
		return err
	}
	var hc, hs results
	if !preHandshake(p, out, &hc, &hs) {
		return nil
	}
	g := newGroup()
	o.block.armed.Store(true)
	nw := 1 + r.IntN(3)
	for w := 0; w < nw; w++ {
		pl := payload(w+1, 500+r.IntN(900))
		out.Tags = append(out.Tags, [2]int{w + 1, len(pl) - hdrLen})
		g.goFn(func() { p.cli.Write(pl) })
	}
	if r.IntN(2) == 0 {
		g.goFn(func() { buf := make([]byte, 64); p.cli.Read(buf) })
	}
	time.Sleep(time.Duration(500+r.IntN(3000)) * time.Microsecond)
	out.Tail, out.Sub = true, true
	closed := make(chan struct{})
	go func() { p.cli.Close(); close(closed) }()
	select {
	case <-closed:
	case <-time.After(3 * time.Second):
		out.Note = "Close did not return while a Write was blocked in the transport"
		out.Stalled = true
	}
	out.Active = -1
	if p.cli.readFrom != nil && !out.Stalled {
		out.Active = int(p.cli.active())
	}
	out.Stuck = g.wait(3 * time.Second)
	p.cli.rawClose()
	o.block.release()
	p.srv.Close()
	p.srv.rawClose()
	out.Panic = g.panicText()
	out.HsCli, out.HsSrv = hc.v, hs.v
	return nil
}

// closeHandshake: Close while the first handshake is parked between key establishment and
// completion (finding F16); the parking is done by sleeping inside the transport, the closer
// only sleeps, so that no synchronisation orders the two goroutines
func scCloseHandshake(o opts, r *rand.Rand, out *RunOut) error {
	o.gateCli, o.gateFor, o.yield = 2, 500*time.Millisecond, 0
	p, err := newPair(o)
	if err != nil {
		return err
	}
	g := newGroup()
	var hc, hs results
	// the call that runs the client's handshake: Handshake, or the first Read / Write / ReadFrom / WriteTo (one per run)
	first := out.Run % 3
	if p.cli.readFrom != nil {
		first = out.Run % 5
	}
	g.goFn(func() {
		buf := make([]byte, 64)
		var err error
		switch first {
		case 0:
			err = p.cli.Handshake()
		case 1:
			_, err = p.cli.Read(buf)
		case 2:
			_, err = p.cli.Write(payload(1, 20))
		case 3:
			_, err = p.cli.readFrom(buf)
		case 4:
			_, err = p.cli.writeTo(payload(1, 20))
		}
		hc.add(class(err))
	})
	g.goFn(func() { hs.add(class(p.srv.Handshake())) })
	time.Sleep(250 * time.Millisecond)
	closed := make(chan struct{})
	go func() { p.cli.Close(); close(closed) }()
	select {
	case <-closed:
	case <-time.After(4 * time.Second):
		out.Stalled = true
		out.Note = "Close did not return while the first call was inside the handshake"
		p.cli.rawClose()
	}
	out.Active = -1
	time.Sleep(5 * time.Millisecond)
	p.srv.Close()
	p.srv.rawClose()
	out.Stuck = g.wait(5 * time.Second)
	if out.Stuck != 0 {
		p.cli.rawClose()
	}
	out.Panic = g.panicText()
	// the two Handshake results are whatever the race produced; only agreement per side matters
	// and there is one caller per side
	out.Note = fmt.Sprintf("cli=%v srv=%v", hc.v, hs.v)
	return nil
}

// accessors: PeerCertificates / ConnectionState polled while the handshake runs (finding F28)
func scAccessors(o opts, r *rand.Rand, out *RunOut) error {
	p, err := newPair(o)
	if err != nil {
		return err
	}
	g := newGroup()
	var hc, hs results
	stop := make(chan struct{})
	g.goFn(func() {
		for {
			select {
			case <-stop:
				return
			default:
			}
			p.cli.certs()
			p.cli.state()
			time.Sleep(100 * time.Microsecond)
		}
	})
	time.Sleep(time.Millisecond)
	pre := newGroup()
	handshakeBoth(p, pre, &hc, &hs, 1, 1)
	if pre.wait(20*time.Second) != 0 {
		out.Stuck = 99
	}
	close(stop)
	finish(p, g, out, &hc, &hs, nil)
	return nil
}

// deadlines: deadline setters called while the first handshake runs (no faults on the network)
func scDeadlines(o opts, r *rand.Rand, out *RunOut) error {
	p, err := newPair(o)
	if err != nil {
		return err
	}
	g := newGroup()
	var hc, hs results
	stop := make(chan struct{})
	for _, e := range []*endpoint{p.cli, p.srv} {
		e := e
		g.goFn(func() {
			for {
				select {
				case <-stop:
					return
				default:
				}
				e.SetReadDeadline(time.Time{})
				e.SetDeadline(time.Time{})
				time.Sleep(50 * time.Microsecond)
			}
		})
	}
	pre := newGroup()
	handshakeBoth(p, pre, &hc, &hs, 1, 1)
	if pre.wait(2500*time.Millisecond) != 0 {
		out.Stalled = true
	}
	close(stop)
	finish(p, g, out, &hc, &hs, nil)
	pre.wait(5 * time.Second)
	out.Note = fmt.Sprintf("cli=%v srv=%v", hc.v, hs.v)
	out.HsCli, out.HsSrv = nil, nil // the results after the forced Close are not the observation here
	return nil
}

// deadlineWakes: a reader is blocked with part of a record in hand (the transport holds the rest back); another
// goroutine sets the read deadline to now to wake it, clears the deadline again and the rest arrives: the reader
// reads on and no byte is lost (stream stack)
func scDeadlineWakes(o opts, r *rand.Rand, out *RunOut) error {
	if o.stack != "tlcp" {
		out.Skip = true
		return nil
	}
	p, err := newPair(o)
	if err != nil {
		return err
	}
	var hc, hs results
	if !preHandshake(p, out, &hc, &hs) {
		return nil
	}
	g := newGroup()
	n := 300 + r.IntN(900)
	pl := payload(1, n)
	out.Tags = append(out.Tags, [2]int{1, n})
	p.srvIn.Deadlines = true
	p.srvIn.PauseAt = p.srvIn.DeliveredLen() + []int{2, 5, 9, 40, 200}[r.IntN(5)]
	sk := newSink(1, hdrLen+n)
	g.goFn(func() {
		buf := make([]byte, 4096)
		for {
			k, err := p.srv.Read(buf)
			if k > 0 {
				sk.put(0, buf[:k])
			}
			if err != nil {
				var ne net.Error
				if errors.As(err, &ne) && ne.Timeout() {
					continue
				}
				return
			}
		}
	})
	g.goFn(func() { p.cli.Write(pl) })
	time.Sleep(time.Duration(1+r.IntN(4)) * time.Millisecond)
	p.srv.SetReadDeadline(time.Now())
	time.Sleep(time.Duration(200+r.IntN(2000)) * time.Microsecond)
	p.srv.SetReadDeadline(time.Time{})
	p.srvIn.Resume()
	select {
	case <-sk.done:
	case <-time.After(5 * time.Second):
		out.Note = "the payload did not arrive after the deadline was cleared"
		out.Stalled = true
	}
	finish(p, g, out, &hc, &hs, sk)
	return nil
}

// handshakeTimeout: the peer is silent; two goroutines call Handshake while a third lets the read deadline expire and
// clears it again: every caller, and a later call, gets the same result (stream stack)
func scHandshakeTimeout(o opts, r *rand.Rand, out *RunOut) error {
	if o.stack != "tlcp" {
		out.Skip = true
		return nil
	}
	p, err := newPair(o)
	if err != nil {
		return err
	}
	p.cliIn.Deadlines = true
	g := newGroup()
	var hc, hs results
	ret := make(chan struct{}, 2)
	for i := 0; i < 2; i++ {
		g.goFn(func() { hc.add(class(p.cli.Handshake())); ret <- struct{}{} })
	}
	time.Sleep(time.Duration(2+r.IntN(5)) * time.Millisecond)
	p.cli.SetReadDeadline(time.Now())
	time.Sleep(time.Duration(500+r.IntN(3000)) * time.Microsecond)
	p.cli.SetReadDeadline(time.Time{})
	for i := 0; i < 2; i++ {
		select {
		case <-ret:
		case <-time.After(3 * time.Second):
			out.Stalled = true
			out.Note = "a Handshake caller was still inside after the deadline had expired for the connection"
		}
	}
	if !out.Stalled {
		hc.add(class(p.cli.Handshake()))
	}
	out.Tail, out.Sub = true, true
	finish(p, g, out, &hc, &hs, nil)
	return nil
}

// ---- pa: first Read and first Write of a ProtocolSwitchServerConn at the same time (F17)

type chanListener struct{ ch chan net.Conn }

func (l *chanListener) Accept() (net.Conn, error) {
	c, ok := <-l.ch
	if !ok {
		return nil, errors.New("closed")
	}
	return c, nil
}
func (l *chanListener) Close() error   { return nil }
func (l *chanListener) Addr() net.Addr { return &net.TCPAddr{IP: net.IPv4(127, 0, 0, 1), Port: 1} }

func scPa(o opts, r *rand.Rand, out *RunOut) error {
	y := yielder{o.yield}
	reg := tk.NewRegistry()
	craw, sraw, _, _ := tk.StreamPair()
	cc := tk.BuildTLCP(tk.EPConfig{Suites: []uint16{o.suite}, Ident: "cli", ServerName: "server.test"}, reg)
	sc := tk.BuildTLCP(tk.EPConfig{Ident: "srv"}, reg)
	ch := make(chan net.Conn, 1)
	ln := pa.NewListener(&chanListener{ch}, sc, nil)
	ch <- &yConn{sraw, y}
	sconn, err := ln.Accept()
	if err != nil {
		return err
	}
	cli := tlcp.Client(&yConn{craw, y}, cc)
	g := newGroup()
	pl := payload(1, 300)
	out.Tags = [][2]int{{1, 300}}
	sk := newSink(1, len(pl))
	var bad int32
	g.goFn(func() {
		if n, err := cli.Write(pl); err != nil || n != len(pl) {
			atomic.AddInt32(&bad, 1)
		}
	})
	g.goFn(func() { buf := make([]byte, 64); cli.Read(buf) })
	// server: first Read and first Write race into detect()
	g.goFn(func() {
		buf := make([]byte, 2048)
		for {
			n, err := sconn.Read(buf)
			if n > 0 {
				sk.put(0, buf[:n])
			}
			if err != nil {
				return
			}
		}
	})
	g.goFn(func() { sconn.Write([]byte("pong")) })
	if sw, ok := sconn.(*pa.ProtocolSwitchServerConn); ok {
		g.goFn(func() { sw.ProtectedConn() })
	}
	select {
	case <-sk.done:
	case <-time.After(20 * time.Second):
		out.Note = "timeout waiting for the stream"
	}
	cli.Close()
	sconn.Close()
	sraw.Close()
	craw.Close()
	out.Active = -1
	out.Stuck = g.wait(5 * time.Second)
	out.Panic = g.panicText()
	out.Stream = sk.stream()
	out.BadWrite = int(bad)
	return nil
}

// ---- cache: concurrent Put / Get on one lruSessionCache
func scCache(o opts, r *rand.Rand, out *RunOut) error {
	g := newGroup()
	out.Active = -1
	capn := 1 + r.IntN(6)
	var bad int32
	body := func(put func(k string, n uint64), get func(k string) (uint64, bool, bool)) {
		for w := 0; w < 6; w++ {
			w := w
			seed := r.Uint64()
			g.goFn(func() {
				rr := rand.New(rand.NewPCG(seed, uint64(w)))
				for i := 0; i < 300; i++ {
					k := fmt.Sprintf("k%d", rr.IntN(8))
					if rr.IntN(2) == 0 {
						put(k, uint64(w*1000+i+1))
					} else if n, intact, ok := get(k); ok && (!intact || n == 0) {
						atomic.AddInt32(&bad, 1)
					}
				}
			})
		}
	}
	master := func(n uint64) []byte {
		m := make([]byte, 48)
		for i := range m {
			m[i] = byte(n*7 + uint64(i) + 1)
		}
		return m
	}
	id := func(n uint64) []byte { return []byte{byte(n >> 24), byte(n >> 16), byte(n >> 8), byte(n)} }
	unid := func(b []byte) uint64 {
		if len(b) != 4 {
			return 0
		}
		return uint64(b[0])<<24 | uint64(b[1])<<16 | uint64(b[2])<<8 | uint64(b[3])
	}
	eq := func(a, b []byte) bool {
		if len(a) != len(b) {
			return false
		}
		for i := range a {
			if a[i] != b[i] {
				return false
			}
		}
		return true
	}
	if o.stack == "tlcp" {
		c := tlcp.NewLRUSessionCache(capn)
		body(func(k string, n uint64) { c.Put(k, tlcp.VerifNewSession(id(n), master(n), 0x0101, 0xe013)) },
			func(k string) (uint64, bool, bool) {
				s, ok := c.Get(k)
				if !ok || s == nil {
					return 0, true, false
				}
				n := unid(s.VerifSessionID())
				return n, eq(s.VerifMaster(), master(n)), true
			})
	} else {
		c := dtlcp.NewLRUSessionCache(capn)
		body(func(k string, n uint64) { c.Put(k, dtlcp.VerifNewSession(id(n), master(n), 0x0101, 0xe013)) },
			func(k string) (uint64, bool, bool) {
				s, ok := c.Get(k)
				if !ok || s == nil {
					return 0, true, false
				}
				n := unid(s.VerifSessionID())
				return n, eq(s.VerifMaster(), master(n)), true
			})
	}
	out.Stuck = g.wait(20 * time.Second)
	out.Panic = g.panicText()
	out.BadWrite = int(bad)
	return nil
}

var scenarios = map[string]scenarioFn{
	"writers":         scWriters(false),
	"first-use":       scWriters(true),
	"readers":         scReaders,
	"close-race":      scCloseRace,
	"close-handshake": scCloseHandshake,
	"close-blocked":   scCloseBlockedWrite,
	"deadline-wakes":  scDeadlineWakes,
	"short-reads":     scShortReads,
	"hs-timeout":      scHandshakeTimeout,
	"accessors":       scAccessors,
	"deadlines":       scDeadlines,
	"pa":              scPa,
	"cache":           scCache,
}

func main() {
	var o opts
	var name string
	var seed uint64
	var procs, runs int
	var suite uint
	flag.StringVar(&name, "scenario", "writers", "scenario")
	flag.StringVar(&o.stack, "stack", "tlcp", "tlcp|dtlcp")
	flag.Uint64Var(&seed, "seed", 1, "seed")
	flag.IntVar(&procs, "procs", 4, "GOMAXPROCS")
	flag.IntVar(&runs, "runs", 1, "runs")
	flag.IntVar(&o.yield, "yield", 1, "yield intensity 0..3")
	flag.UintVar(&suite, "suite", 0xe013, "cipher suite")
	flag.IntVar(&o.retrans, "retrans", 100, "dtlcp initial retransmission timeout (ms)")
	flag.Parse()
	o.suite = uint16(suite)
	runtime.GOMAXPROCS(procs)
	f, ok := scenarios[name]
	if !ok {
		fmt.Fprintln(os.Stderr, "hxrace: unknown scenario", name)
		os.Exit(2)
	}
	enc := json.NewEncoder(os.Stdout)
	for i := 0; i < runs; i++ {
		r := rand.New(rand.NewPCG(seed, uint64(i)+0xC13))
		out := RunOut{Scenario: name, Stack: o.stack, Seed: seed, Procs: procs, Run: i, Active: -1}
		if err := f(o, r, &out); err != nil {
			out.Note = "setup: " + err.Error()
			out.Stuck = 98
		}
		enc.Encode(out)
	}
}
