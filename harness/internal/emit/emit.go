// Package emit: helpers to write Coq case files and harness metadata.
package emit

import (
	"crypto/sha256"
	"encoding/hex"
	"encoding/json"
	"fmt"
	"os"
	"path/filepath"
	"sort"
	"strings"
)

// N renders a natural number as a Coq N literal (inside N_scope).
func N(x uint64) string { return fmt.Sprintf("%d", x) }

func Bool(b bool) string {
	if b {
		return "true"
	}
	return "false"
}

// ListN renders a list of numbers.
func ListN(xs []uint64) string {
	var sb strings.Builder
	sb.WriteString("[")
	for i, x := range xs {
		if i > 0 {
			sb.WriteString(";")
		}
		fmt.Fprintf(&sb, "%d", x)
	}
	sb.WriteString("]")
	return sb.String()
}

// Bytes renders a byte string as list N.
func Bytes(bs []byte) string {
	var sb strings.Builder
	sb.WriteString("[")
	for i, x := range bs {
		if i > 0 {
			sb.WriteString(";")
		}
		fmt.Fprintf(&sb, "%d", x)
	}
	sb.WriteString("]")
	return sb.String()
}

func List(items []string) string { return "[" + strings.Join(items, ";\n ") + "]" }

func OptN(ok bool, x uint64) string {
	if ok {
		return fmt.Sprintf("(Some %d)", x)
	}
	return "None"
}

// Case is one correspondence case.
type Case struct {
	Idx      int         `json:"idx"`
	Scenario string      `json:"scenario"`         // generator stream / what the case exercises
	Trivial  bool        `json:"trivial"`          // by the property's stated rule
	Input    interface{} `json:"input"`            // replayable description
	Observed interface{} `json:"observed"`         // what the implementation did
	Coq      string      `json:"-"`                // Coq term for this case (without idx)
	Direct   string      `json:"direct,omitempty"` // non-empty: the harness itself saw a property violation (panic, hang ...)
}

// Out collects cases and writes shards + metadata.
type Out struct {
	Dir        string
	Prop       string
	Runner     string // Coq module, e.g. V.Corr.Run_C11
	CaseType   string // Coq type of a case
	Rule       string
	Cases      []Case
	Hist       map[string]int
	Extra      map[string]interface{}
	ShardMax   int
	ShardBytes int
	Scope      string
}

func New(dir, prop, runner, caseType, rule string) *Out {
	return &Out{Dir: dir, Prop: prop, Runner: runner, CaseType: caseType, Rule: rule,
		Hist: map[string]int{}, Extra: map[string]interface{}{}, ShardMax: 250, ShardBytes: 40000, Scope: "N_scope"}
}

func (o *Out) Add(c Case) int {
	c.Idx = len(o.Cases)
	o.Cases = append(o.Cases, c)
	o.Hist[c.Scenario]++
	return c.Idx
}

func (o *Out) Count(key string) { o.Hist[key]++ }

// Finish writes cases_*.v, cases.jsonl, meta.json.
func (o *Out) Finish() error {
	if err := os.MkdirAll(o.Dir, 0o755); err != nil {
		return err
	}
	// distinct non-trivial
	seen := map[string]bool{}
	distinct := 0
	for _, c := range o.Cases {
		if c.Trivial {
			continue
		}
		ij, _ := json.Marshal(c.Input)
		h := sha256.Sum256(append([]byte(c.Scenario+"|"+c.Coq+"|"), ij...))
		k := hex.EncodeToString(h[:8])
		if !seen[k] {
			seen[k] = true
			distinct++
		}
	}
	jf, err := os.Create(filepath.Join(o.Dir, "cases.jsonl"))
	if err != nil {
		return err
	}
	enc := json.NewEncoder(jf)
	for _, c := range o.Cases {
		if err := enc.Encode(c); err != nil {
			return err
		}
	}
	jf.Close()
	// shards
	nsh := 0
	for i := 0; i < len(o.Cases); {
		// a shard holds at most ShardMax cases and about ShardBytes of Coq text
		j, sz := i, 0
		for j < len(o.Cases) && j-i < o.ShardMax && (j == i || sz+len(o.Cases[j].Coq) <= o.ShardBytes) {
			sz += len(o.Cases[j].Coq)
			j++
		}
		var sb strings.Builder
		fmt.Fprintf(&sb, "From %s Require Import %s.\nFrom Coq Require Import List NArith ZArith String.\nImport ListNotations.\nOpen Scope %s.\n", moduleRoot(o.Runner), moduleLeaf(o.Runner), o.Scope)
		fmt.Fprintf(&sb, "Definition cases : list (N * %s) := [\n", o.CaseType)
		first := true
		for _, c := range o.Cases[i:j] {
			if c.Coq == "" {
				continue
			}
			if !first {
				sb.WriteString(";\n")
			}
			first = false
			fmt.Fprintf(&sb, " (%d%%N, %s)", c.Idx, c.Coq)
		}
		if first { // nothing to evaluate in this range (cases carried by another case's term)
			i = j
			continue
		}
		sb.WriteString("\n].\n")
		sb.WriteString("Definition R_all := Eval vm_compute in evaluate cases.\n")
		sb.WriteString("Definition R_mism := Eval vm_compute in fst R_all.\n")
		sb.WriteString("Definition R_bad := Eval vm_compute in snd R_all.\n")
		sb.WriteString("Print R_mism.\nPrint R_bad.\n")
		if err := os.WriteFile(filepath.Join(o.Dir, fmt.Sprintf("cases_%03d.v", nsh)), []byte(sb.String()), 0o644); err != nil {
			return err
		}
		nsh++
		i = j
	}
	samples := []interface{}{}
	step := len(o.Cases)/4 + 1
	for i := 0; i < len(o.Cases); i += step {
		c := o.Cases[i]
		samples = append(samples, map[string]interface{}{"idx": c.Idx, "scenario": c.Scenario, "input": c.Input, "observed": c.Observed})
	}
	direct := []map[string]interface{}{}
	for _, c := range o.Cases {
		if c.Direct != "" {
			direct = append(direct, map[string]interface{}{"idx": c.Idx, "what": c.Direct})
		}
	}
	keys := make([]string, 0, len(o.Hist))
	for k := range o.Hist {
		keys = append(keys, k)
	}
	sort.Strings(keys)
	hist := map[string]int{}
	for _, k := range keys {
		hist[k] = o.Hist[k]
	}
	meta := map[string]interface{}{
		"property":            o.Prop,
		"evaluations":         len(o.Cases),
		"distinct_nontrivial": distinct,
		"rule":                o.Rule,
		"histogram":           hist,
		"samples":             samples,
		"shards":              nsh,
		"direct_violations":   direct,
		"extra":               o.Extra,
	}
	b, _ := json.MarshalIndent(meta, "", " ")
	return os.WriteFile(filepath.Join(o.Dir, "meta.json"), b, 0o644)
}

func moduleRoot(m string) string {
	i := strings.LastIndex(m, ".")
	return m[:i]
}
func moduleLeaf(m string) string {
	i := strings.LastIndex(m, ".")
	return m[i+1:]
}
