// Package puppet: a scripted TLCP/DTLCP peer written independently of the library (only gmsm
// primitives), able to send any message kind at any point while keeping its own transcript and
// keys consistent with what it actually sent and received.
package puppet

import (
	"crypto/cipher"
	"crypto/hmac"
	"crypto/rand"
	"crypto/subtle"
	"errors"

	"github.com/emmansun/gmsm/sm3"
	"github.com/emmansun/gmsm/sm4"
)

func hmacSM3(key []byte, parts ...[]byte) []byte {
	h := hmac.New(sm3.New, key)
	for _, p := range parts {
		h.Write(p)
	}
	return h.Sum(nil)
}

// PRF = P_SM3(secret, label || seed), n bytes.
func PRF(secret []byte, label string, seed []byte, n int) []byte {
	ls := append([]byte(label), seed...)
	var out []byte
	a := hmacSM3(secret, ls)
	for len(out) < n {
		out = append(out, hmacSM3(secret, a, ls)...)
		a = hmacSM3(secret, a)
	}
	return out[:n]
}

func SM3(b []byte) []byte { h := sm3.Sum(b); return h[:] }

func Master(pre, cr, sr []byte) []byte {
	return PRF(pre, "master secret", append(append([]byte{}, cr...), sr...), 48)
}

type dirKeys struct{ mac, key, iv []byte }

// keyBlock cuts client MAC, server MAC, client key, server key, client IV, server IV.
func keyBlock(master, cr, sr []byte, gcm bool) (c, s dirKeys) {
	macLen, keyLen, ivLen := 32, 16, 16
	if gcm {
		macLen, ivLen = 0, 4
	}
	kb := PRF(master, "key expansion", append(append([]byte{}, sr...), cr...), 2*macLen+2*keyLen+2*ivLen)
	take := func(n int) []byte { x := kb[:n]; kb = kb[n:]; return x }
	c.mac, s.mac = take(macLen), take(macLen)
	c.key, s.key = take(keyLen), take(keyLen)
	c.iv, s.iv = take(ivLen), take(ivLen)
	return
}

func IsGCM(suite uint16) bool   { return suite == 0xe053 || suite == 0xe051 }
func IsECDHE(suite uint16) bool { return suite == 0xe051 || suite == 0xe011 }

// half is one direction of record protection.
type half struct {
	padMut func(pad []byte) // test hook: alters the CBC padding bytes after the MAC was computed
	rawPT  []byte           // test hook: the CBC plaintext (payload, MAC and padding) is replaced by these blocks
	on     bool
	gcm    bool
	k      dirKeys
	aead   cipher.AEAD
	blk    cipher.Block
}

func newHalf(k dirKeys, gcm bool) *half {
	h := &half{on: true, gcm: gcm, k: k}
	blk, err := sm4.NewCipher(k.key)
	if err != nil {
		panic(err)
	}
	h.blk = blk
	if gcm {
		a, err := cipher.NewGCM(blk)
		if err != nil {
			panic(err)
		}
		h.aead = a
	}
	return h
}

// seal protects payload. seq8 is the 8-byte sequence (TLCP: counter; DTLCP: epoch||seq48).
func (h *half) seal(seq8 []byte, typ byte, vers uint16, payload []byte) []byte {
	if h == nil || !h.on {
		return payload
	}
	hdr := []byte{typ, byte(vers >> 8), byte(vers), byte(len(payload) >> 8), byte(len(payload))}
	if h.gcm {
		nonce := append(append([]byte{}, h.k.iv...), seq8...)
		aad := append(append([]byte{}, seq8...), hdr...)
		return append(append([]byte{}, seq8...), h.aead.Seal(nil, nonce, payload, aad)...)
	}
	mac := hmacSM3(h.k.mac, seq8, hdr, payload)
	pt := append(append([]byte{}, payload...), mac...)
	pad := 16 - len(pt)%16
	for i := 0; i < pad; i++ {
		pt = append(pt, byte(pad-1))
	}
	if h.padMut != nil {
		h.padMut(pt[len(pt)-pad:])
	}
	if h.rawPT != nil {
		pt = h.rawPT
	}
	iv := make([]byte, 16)
	rand.Read(iv)
	out := make([]byte, len(pt))
	cipher.NewCBCEncrypter(h.blk, iv).CryptBlocks(out, pt)
	return append(iv, out...)
}

var errBadRecord = errors.New("puppet: record does not authenticate")

func (h *half) open(seq8 []byte, typ byte, vers uint16, body []byte) ([]byte, error) {
	if h == nil || !h.on {
		return body, nil
	}
	if h.gcm {
		if len(body) < 8+16 {
			return nil, errBadRecord
		}
		nonce := append(append([]byte{}, h.k.iv...), body[:8]...)
		n := len(body) - 8 - 16
		aad := append(append([]byte{}, seq8...), typ, byte(vers>>8), byte(vers), byte(n>>8), byte(n))
		pt, err := h.aead.Open(nil, nonce, body[8:], aad)
		if err != nil {
			return nil, errBadRecord
		}
		return pt, nil
	}
	if len(body) < 16+48 || len(body)%16 != 0 {
		return nil, errBadRecord
	}
	pt := make([]byte, len(body)-16)
	cipher.NewCBCDecrypter(h.blk, body[:16]).CryptBlocks(pt, body[16:])
	pad := int(pt[len(pt)-1])
	if pad+1+32 > len(pt) {
		return nil, errBadRecord
	}
	for _, b := range pt[len(pt)-pad-1:] {
		if int(b) != pad {
			return nil, errBadRecord
		}
	}
	n := len(pt) - pad - 1 - 32
	hdr := []byte{typ, byte(vers >> 8), byte(vers), byte(n >> 8), byte(n)}
	mac := hmacSM3(h.k.mac, seq8, hdr, pt[:n])
	if subtle.ConstantTimeCompare(mac, pt[n:n+32]) != 1 {
		return nil, errBadRecord
	}
	return pt[:n], nil
}
