package puppet

import "fmt"

func sprint(v interface{}) string { return fmt.Sprint(v) }
