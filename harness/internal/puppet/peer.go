package puppet

import (
	"crypto"
	"crypto/ecdsa"
	"crypto/rand"
	"encoding/binary"
	"fmt"

	"github.com/emmansun/gmsm/ecdh"
	"github.com/emmansun/gmsm/sm2"
	x509 "github.com/emmansun/gmsm/smx509"
	"verifharness/internal/tk"
)

// record / handshake type numbers
const (
	RecCCS   = 20
	RecAlert = 21
	RecHS    = 22
	RecApp   = 23

	HSClientHello = 1
	HSServerHello = 2
	HSHelloVerify = 3
	HSCertificate = 11
	HSServerKeyX  = 12
	HSCertRequest = 13
	HSServerDone  = 14
	HSCertVerify  = 15
	HSClientKeyX  = 16
	HSFinished    = 20
	VersionTLCP   = 0x0101
	curveSM2      = 41
)

// Link is the transport between the puppet and the endpoint under test.
type Link interface {
	Send(b []byte) error
	// Pump waits until the endpoint under test is idle (blocked reading with nothing pending) or
	// finished — for the datagram link, until `virtualMs` of virtual time passed without
	// traffic — and returns what it sent meanwhile (stream: byte chunks; datagram: datagrams).
	Pump(virtualMs int) [][]byte
	TargetDone() bool
}

type Alert struct{ Level, Code byte }

type Hello struct {
	Vers   uint16
	Random []byte
	SID    []byte
	Cookie []byte
	Suites []uint16
	Comp   []byte
	Raw    []byte
	Ext    []byte
}

// Peer is the scripted endpoint.
type Peer struct {
	L      Link
	DTLS   bool
	Client bool // the puppet's role

	Sig, Enc *tk.Leaf // the puppet's own key pairs (may be nil)

	GuessPre []byte // server role: take this as the pre-master secret instead of decrypting the ClientKeyExchange
	HoldHS   bool   // SendHS keeps the message back (to be packed into one record with the next one)
	heldHS   []byte // handshake messages kept back

	Vers       uint16
	Suite      uint16
	CR, SR     []byte
	SID        []byte
	Master     []byte
	Pre        []byte
	Transcript []byte

	rd, wr         *half
	pendRd, pendWr *half
	rseq, wseq     uint64
	repoch, wepoch uint16
	msgSeq         uint16

	sbuf  []byte // stream reassembly
	hsbuf []byte

	// learned from the endpoint under test
	PeerHello      *Hello
	PeerCerts      [][]byte
	PeerSKX        []byte
	CertRequested  bool
	GotSHD         bool
	GotCKX         bool
	GotCertVerify  bool
	CertVerifyOK   bool
	PeerCCS        bool
	PeerFinished   []byte
	PeerFinishedOK bool
	Cookie         []byte
	Alerts         []Alert
	AppData        [][]byte
	Undecryptable  int
	Kinds          []string // every record / handshake message received, in order

	eph         *ecdh.PrivateKey // own ephemeral key (ECDHE)
	peerTmp     *ecdh.PublicKey
	FixedPre    []byte // force this pre-master secret (client role, ECC)
	ForceMaster []byte // resumption: master secret of the offered / echoed session
	NoAutoKeys  bool
	seenSeq     map[uint16]bool // DTLS: message_seq values already digested (retransmitted flights are ignored)
	lastSent    []byte
	ccsSent     bool

	// MutBody / MutFrame (optional) alter a handshake message just before it is framed / after it
	// was framed (type and body; whole message including its header).  The transcript records what
	// was actually sent.
	MutBody  func(typ byte, body []byte) (byte, []byte)
	MutFrame func(msg []byte) []byte
}

func (p *Peer) logKind(k string) { p.Kinds = append(p.Kinds, k) }

// ---------------------------------------------------------------- records

func (p *Peer) seq8(epoch uint16, seq uint64, dtls bool) []byte {
	b := make([]byte, 8)
	if dtls {
		binary.BigEndian.PutUint64(b, uint64(epoch)<<48|seq&0xFFFFFFFFFFFF)
	} else {
		binary.BigEndian.PutUint64(b, seq)
	}
	return b
}

// record builds one protected record from a plaintext fragment.
func (p *Peer) record(typ byte, frag []byte) []byte {
	vers := uint16(VersionTLCP)
	s8 := p.seq8(p.wepoch, p.wseq, p.DTLS)
	body := p.wr.seal(s8, typ, vers, frag)
	var hdr []byte
	if p.DTLS {
		hdr = []byte{typ, byte(vers >> 8), byte(vers), byte(p.wepoch >> 8), byte(p.wepoch),
			byte(p.wseq >> 40), byte(p.wseq >> 32), byte(p.wseq >> 24), byte(p.wseq >> 16), byte(p.wseq >> 8), byte(p.wseq),
			byte(len(body) >> 8), byte(len(body))}
	} else {
		hdr = []byte{typ, byte(vers >> 8), byte(vers), byte(len(body) >> 8), byte(len(body))}
	}
	p.wseq++
	return append(hdr, body...)
}

// Seal builds the next protected record without sending it.
func (p *Peer) Seal(typ byte, frag []byte) []byte { return p.record(typ, frag) }

// SealBadPadding builds a CBC record for the NEXT sequence number whose MAC is valid but whose padding
// bytes were altered by mut afterwards; the sequence number is not consumed (the record is a forgery by
// someone who holds the key, used to test that the receiver checks every padding byte).
func (p *Peer) SealBadPadding(typ byte, frag []byte, mut func(pad []byte)) []byte {
	if p.wr == nil {
		return p.record(typ, frag)
	}
	p.wr.padMut = mut
	r := p.record(typ, frag)
	p.wr.padMut = nil
	p.wseq--
	return r
}

// SealRawCBC builds a CBC record for the NEXT sequence number whose decrypted content is exactly pt (whole blocks:
// no MAC, no padding added), as someone who holds the write key can; the sequence number is not consumed.  With an
// AEAD or without keys it is an ordinary record carrying pt.
func (p *Peer) SealRawCBC(typ byte, pt []byte) []byte {
	if p.wr == nil || p.wr.gcm || !p.wr.on || len(pt) == 0 || len(pt)%16 != 0 {
		return p.record(typ, pt)
	}
	p.wr.rawPT = pt
	r := p.record(typ, nil)
	p.wr.rawPT = nil
	p.wseq--
	return r
}

// SendRaw sends bytes as they are.
func (p *Peer) SendRaw(b []byte) error { return p.L.Send(b) }

// SendRecord sends one record carrying frag.
func (p *Peer) SendRecord(typ byte, frag []byte) error {
	p.lastSent = p.record(typ, frag)
	return p.L.Send(p.lastSent)
}

// ReplayLast sends the previous record again, byte for byte (same epoch and sequence number).
func (p *Peer) ReplayLast() error {
	if p.lastSent == nil {
		return nil
	}
	return p.L.Send(p.lastSent)
}

// SendRecords sends several records in one write / datagram.
func (p *Peer) SendRecords(recs ...[]byte) error {
	var all []byte
	for _, r := range recs {
		all = append(all, r...)
	}
	return p.L.Send(all)
}

func (p *Peer) SendAlert(level, code byte) error { return p.SendRecord(RecAlert, []byte{level, code}) }
func (p *Peer) SendApp(b []byte) error           { return p.SendRecord(RecApp, b) }

// SkipCCS switches the write keys as SendCCS does without sending the record: a peer that leaves the
// ChangeCipherSpec message out and carries on in its new epoch.
func (p *Peer) SkipCCS() {
	if p.DTLS && (p.ccsSent || p.pendWr == nil) {
		return
	}
	p.ccsSent = true
	p.activateWrite()
}

// SendCCS sends change_cipher_spec and switches the write keys (when keys exist).
func (p *Peer) SendCCS() error {
	err := p.SendRecord(RecCCS, []byte{1})
	if p.DTLS && (p.ccsSent || p.pendWr == nil) {
		return err // a repeated or premature ChangeCipherSpec does not open another epoch
	}
	p.ccsSent = true
	p.activateWrite()
	return err
}

func (p *Peer) activateWrite() {
	if p.pendWr != nil {
		p.wr, p.pendWr = p.pendWr, nil
	}
	p.wseq = 0
	p.wepoch++
}

// ---------------------------------------------------------------- handshake framing

func (p *Peer) hsMsg(typ byte, body []byte) []byte {
	if p.MutBody != nil {
		typ, body = p.MutBody(typ, body)
	}
	m := p.hsFrame(typ, body)
	if p.MutFrame != nil {
		m = p.MutFrame(m)
	}
	return m
}

func (p *Peer) hsFrame(typ byte, body []byte) []byte {
	n := len(body)
	if p.DTLS {
		h := []byte{typ, byte(n >> 16), byte(n >> 8), byte(n), byte(p.msgSeq >> 8), byte(p.msgSeq), 0, 0, 0, byte(n >> 16), byte(n >> 8), byte(n)}
		p.msgSeq++
		return append(h, body...)
	}
	return append([]byte{typ, byte(n >> 16), byte(n >> 8), byte(n)}, body...)
}

// SendHS sends a handshake message; hashed says whether it enters the transcript.
// While HoldHS is set the message is kept back; the next message sent with HoldHS clear goes out in
// one record together with everything kept back (several handshake messages packed in one record).
func (p *Peer) SendHS(typ byte, body []byte, hashed bool) error {
	m := p.hsMsg(typ, body)
	if hashed {
		p.Transcript = append(p.Transcript, m...)
	}
	if p.HoldHS {
		p.heldHS = append(p.heldHS, m...)
		return nil
	}
	if len(p.heldHS) > 0 {
		m = append(p.heldHS, m...)
		p.heldHS = nil
	}
	return p.SendRecord(RecHS, m)
}

// ---------------------------------------------------------------- receiving

// Absorb pumps the link and digests everything the endpoint under test has sent.
func (p *Peer) Absorb(virtualMs int) {
	for _, chunk := range p.L.Pump(virtualMs) {
		if p.DTLS {
			p.digestDatagram(chunk)
		} else {
			p.sbuf = append(p.sbuf, chunk...)
			p.digestStream()
		}
	}
}

func (p *Peer) digestStream() {
	for len(p.sbuf) >= 5 {
		n := int(p.sbuf[3])<<8 | int(p.sbuf[4])
		if len(p.sbuf) < 5+n {
			return
		}
		typ, body := p.sbuf[0], p.sbuf[5:5+n]
		p.sbuf = p.sbuf[5+n:]
		p.digestRecord(typ, p.seq8(0, p.rseq, false), body)
	}
}

func (p *Peer) digestDatagram(d []byte) {
	for len(d) >= 13 {
		n := int(d[11])<<8 | int(d[12])
		if len(d) < 13+n {
			return
		}
		typ, body := d[0], d[13:13+n]
		s8 := append([]byte{}, d[3:11]...)
		d = d[13+n:]
		p.digestRecord(typ, s8, body)
	}
}

func (p *Peer) digestRecord(typ byte, s8, body []byte) {
	pt, err := p.rd.open(s8, typ, VersionTLCP, body)
	if err != nil {
		p.Undecryptable++
		p.logKind(fmt.Sprintf("undecryptable(%d)", typ))
		return
	}
	p.rseq++
	switch typ {
	case RecAlert:
		if len(pt) == 2 {
			p.Alerts = append(p.Alerts, Alert{pt[0], pt[1]})
			p.logKind(fmt.Sprintf("alert(%d,%d)", pt[0], pt[1]))
		}
	case RecCCS:
		p.logKind("ccs")
		p.PeerCCS = true
		if p.pendRd != nil {
			p.rd, p.pendRd = p.pendRd, nil
		}
		p.rseq = 0
		p.repoch++
	case RecApp:
		p.logKind("app")
		p.AppData = append(p.AppData, append([]byte{}, pt...))
	case RecHS:
		p.hsbuf = append(p.hsbuf, pt...)
		p.digestHS()
	}
}

func (p *Peer) digestHS() {
	hl := 4
	if p.DTLS {
		hl = 12
	}
	for len(p.hsbuf) >= hl {
		n := int(p.hsbuf[1])<<16 | int(p.hsbuf[2])<<8 | int(p.hsbuf[3])
		if p.DTLS { // no reassembly: the puppet runs with a PMTU large enough for whole messages
			n = int(p.hsbuf[9])<<16 | int(p.hsbuf[10])<<8 | int(p.hsbuf[11])
		}
		if len(p.hsbuf) < hl+n {
			return
		}
		raw := append([]byte{}, p.hsbuf[:hl+n]...)
		p.hsbuf = p.hsbuf[hl+n:]
		if p.DTLS && raw[0] != HSClientHello {
			if p.seenSeq == nil {
				p.seenSeq = map[uint16]bool{}
			}
			ms := uint16(raw[4])<<8 | uint16(raw[5])
			if p.seenSeq[ms] {
				p.logKind("retransmitted")
				continue
			}
			p.seenSeq[ms] = true
		}
		p.handleHS(raw[0], raw[hl:], raw)
	}
}

func (p *Peer) handleHS(typ byte, body, raw []byte) {
	p.logKind(fmt.Sprintf("hs(%d)", typ))
	switch typ {
	case HSClientHello:
		h := parseHello(body, true, p.DTLS)
		h.Raw = raw
		p.PeerHello = h
		if h != nil {
			p.CR = h.Random
		}
		// DTLCP: only the last ClientHello is hashed; TLCP: there is only one
		p.Transcript = append([]byte{}, raw...)
	case HSHelloVerify:
		if len(body) >= 3 && len(body) >= 3+int(body[2]) {
			p.Cookie = append([]byte{}, body[3:3+int(body[2])]...)
		}
	case HSServerHello:
		h := parseHello(body, false, p.DTLS)
		h.Raw = raw
		p.PeerHello = h
		if h != nil {
			p.SR, p.SID, p.Vers = h.Random, h.SID, h.Vers
			if len(h.Suites) == 1 {
				p.Suite = h.Suites[0]
			}
		}
		p.Transcript = append(p.Transcript, raw...)
		if p.ForceMaster != nil && !p.NoAutoKeys { // resumption offered and (possibly) echoed
			p.Master = p.ForceMaster
			p.deriveKeys()
		}
	case HSCertificate:
		p.PeerCerts = parseCerts(body)
		p.Transcript = append(p.Transcript, raw...)
	case HSServerKeyX:
		p.PeerSKX = append([]byte{}, body...)
		p.Transcript = append(p.Transcript, raw...)
		if IsECDHE(p.Suite) && len(body) >= 4 && len(body) >= 4+int(body[3]) {
			if k, err := ecdh.P256().NewPublicKey(body[4 : 4+int(body[3])]); err == nil {
				p.peerTmp = k
			}
		}
	case HSCertRequest:
		p.CertRequested = true
		p.Transcript = append(p.Transcript, raw...)
	case HSServerDone:
		p.GotSHD = true
		p.Transcript = append(p.Transcript, raw...)
	case HSClientKeyX:
		p.GotCKX = true
		p.Transcript = append(p.Transcript, raw...)
		if !p.NoAutoKeys {
			p.serverProcessCKX(body)
		}
	case HSCertVerify:
		p.GotCertVerify = true
		p.CertVerifyOK = p.checkCertVerify(body)
		p.Transcript = append(p.Transcript, raw...)
	case HSFinished:
		label := "client finished"
		if p.Client {
			label = "server finished"
		}
		want := PRF(p.Master, label, SM3(p.Transcript), 12)
		p.PeerFinished = append([]byte{}, body...)
		p.PeerFinishedOK = p.Master != nil && string(want) == string(body)
		p.Transcript = append(p.Transcript, raw...)
	}
}

func parseHello(b []byte, client, dtls bool) *Hello {
	h := &Hello{}
	if len(b) < 35 {
		return h
	}
	h.Vers = uint16(b[0])<<8 | uint16(b[1])
	h.Random = append([]byte{}, b[2:34]...)
	b = b[34:]
	n := int(b[0])
	if len(b) < 1+n {
		return h
	}
	h.SID = append([]byte{}, b[1:1+n]...)
	b = b[1+n:]
	if client {
		if dtls {
			if len(b) < 1 || len(b) < 1+int(b[0]) {
				return h
			}
			h.Cookie = append([]byte{}, b[1:1+int(b[0])]...)
			b = b[1+int(b[0]):]
		}
		if len(b) < 2 {
			return h
		}
		n = int(b[0])<<8 | int(b[1])
		if len(b) < 2+n {
			return h
		}
		for i := 0; i+1 < n; i += 2 {
			h.Suites = append(h.Suites, uint16(b[2+i])<<8|uint16(b[3+i]))
		}
		b = b[2+n:]
		if len(b) < 1 || len(b) < 1+int(b[0]) {
			return h
		}
		h.Comp = append([]byte{}, b[1:1+int(b[0])]...)
		h.Ext = b[1+int(b[0]):]
	} else {
		if len(b) < 3 {
			return h
		}
		h.Suites = []uint16{uint16(b[0])<<8 | uint16(b[1])}
		h.Comp = []byte{b[2]}
		h.Ext = b[3:]
	}
	return h
}

func parseCerts(b []byte) [][]byte {
	var out [][]byte
	if len(b) < 3 {
		return nil
	}
	b = b[3:]
	for len(b) >= 3 {
		n := int(b[0])<<16 | int(b[1])<<8 | int(b[2])
		if len(b) < 3+n {
			break
		}
		out = append(out, append([]byte{}, b[3:3+n]...))
		b = b[3+n:]
	}
	return out
}

// ---------------------------------------------------------------- key material

func (p *Peer) deriveKeys() {
	if p.Master == nil || p.CR == nil || p.SR == nil {
		return
	}
	c, s := keyBlock(p.Master, p.CR, p.SR, IsGCM(p.Suite))
	if p.Client {
		p.pendWr, p.pendRd = newHalf(c, IsGCM(p.Suite)), newHalf(s, IsGCM(p.Suite))
	} else {
		p.pendWr, p.pendRd = newHalf(s, IsGCM(p.Suite)), newHalf(c, IsGCM(p.Suite))
	}
}

func (p *Peer) setPre(pre []byte) {
	p.Pre = pre
	p.Master = Master(pre, p.CR, p.SR)
	p.deriveKeys()
}

func (p *Peer) serverProcessCKX(body []byte) {
	if p.ForceMaster != nil {
		return
	}
	if p.GuessPre != nil { // a peer without the decryption key that bets on this pre-master secret
		p.setPre(append([]byte(nil), p.GuessPre...))
		return
	}
	if IsECDHE(p.Suite) {
		if p.eph == nil || p.Enc == nil || len(p.PeerCerts) < 2 {
			return
		}
		var pt []byte
		switch len(body) {
		case 69:
			pt = body[4:]
		case 71:
			pt = body[6:]
		default:
			return
		}
		tmp, err := ecdh.P256().NewPublicKey(pt)
		if err != nil {
			return
		}
		cert, err := x509.ParseCertificate(p.PeerCerts[1])
		if err != nil {
			return
		}
		pub, ok := cert.PublicKey.(*ecdsa.PublicKey)
		if !ok {
			return
		}
		peerPub, err := sm2.PublicKeyToECDH(pub)
		if err != nil {
			return
		}
		ownKey, ok := p.Enc.Key.(*sm2.PrivateKey)
		if !ok {
			return
		}
		own, err := ownKey.ECDH()
		if err != nil {
			return
		}
		sec, err := own.SM2MQV(p.eph, peerPub, tmp)
		if err != nil {
			return
		}
		key, err := sec.SM2SharedKey(false, 48, own.PublicKey(), peerPub, nil, nil)
		if err != nil {
			return
		}
		p.setPre(key)
		return
	}
	if p.Enc == nil || len(body) < 2 {
		return
	}
	dec, ok := p.Enc.Key.(crypto.Decrypter)
	if !ok {
		return
	}
	pre, err := dec.Decrypt(rand.Reader, body[2:], sm2.ASN1DecrypterOpts)
	if err != nil || len(pre) != 48 {
		return
	}
	p.setPre(pre)
}

func (p *Peer) checkCertVerify(body []byte) bool {
	if len(p.PeerCerts) == 0 || len(body) < 2 {
		return false
	}
	cert, err := x509.ParseCertificate(p.PeerCerts[0])
	if err != nil {
		return false
	}
	pub, ok := cert.PublicKey.(*ecdsa.PublicKey)
	if !ok {
		return false
	}
	return sm2.VerifyASN1WithSM2(pub, nil, SM3(p.Transcript), body[2:])
}

func sm2Sign(key crypto.PrivateKey, msg []byte) []byte {
	s, ok := key.(crypto.Signer)
	if !ok {
		return []byte{0x30, 0x00}
	}
	sig, err := s.Sign(rand.Reader, msg, sm2.NewSM2SignerOption(true, nil))
	if err != nil {
		return []byte{0x30, 0x00}
	}
	return sig
}

func u16(b []byte) []byte { return append([]byte{byte(len(b) >> 8), byte(len(b))}, b...) }
func u24n(n int) []byte   { return []byte{byte(n >> 16), byte(n >> 8), byte(n)} }

func randBytes(n int) []byte { b := make([]byte, n); rand.Read(b); return b }

// TLCP random: 4-byte time + 28 random (the value of the time is irrelevant to the peers)
func newRandom() []byte {
	r := randBytes(32)
	t := tk.Now().Unix()
	r[0], r[1], r[2], r[3] = byte(t>>24), byte(t>>16), byte(t>>8), byte(t)
	return r
}
