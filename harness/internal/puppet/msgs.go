package puppet

import (
	"crypto/ecdsa"
	"crypto/rand"

	"github.com/emmansun/gmsm/ecdh"
	"github.com/emmansun/gmsm/sm2"
	x509 "github.com/emmansun/gmsm/smx509"
)

// ---------------------------------------------------------------- client role

type CHOpt struct {
	Vers           uint16
	Suites         []uint16
	SID            []byte
	Cookie         []byte
	Comp           []byte
	Ext            []byte // raw extensions block (without its 2-byte length); nil: none
	Random         []byte
	KeepTranscript bool // a retransmission: the transcript keeps the hello sent before
}

// SendClientHello builds and sends a ClientHello; it (re)starts the transcript.
func (p *Peer) SendClientHello(o CHOpt) error {
	if o.Vers == 0 {
		o.Vers = VersionTLCP
	}
	if o.Random == nil {
		if p.CR == nil {
			p.CR = newRandom()
		}
		o.Random = p.CR
	}
	p.CR = o.Random
	if o.Comp == nil {
		o.Comp = []byte{0}
	}
	b := []byte{byte(o.Vers >> 8), byte(o.Vers)}
	b = append(b, o.Random...)
	b = append(b, byte(len(o.SID)))
	b = append(b, o.SID...)
	if p.DTLS {
		b = append(b, byte(len(o.Cookie)))
		b = append(b, o.Cookie...)
	}
	b = append(b, byte(len(o.Suites)*2>>8), byte(len(o.Suites)*2))
	for _, s := range o.Suites {
		b = append(b, byte(s>>8), byte(s))
	}
	b = append(b, byte(len(o.Comp)))
	b = append(b, o.Comp...)
	if o.Ext != nil {
		b = append(b, u16(o.Ext)...)
	}
	m := p.hsMsg(HSClientHello, b)
	if !o.KeepTranscript {
		p.Transcript = append([]byte{}, m...)
	}
	return p.SendRecord(RecHS, m)
}

// SendCertificate sends a Certificate message with the given DER chain.
func (p *Peer) SendCertificate(chain [][]byte) error {
	var list []byte
	for _, c := range chain {
		list = append(list, u24n(len(c))...)
		list = append(list, c...)
	}
	return p.SendHS(HSCertificate, append(u24n(len(list)), list...), true)
}

// OwnChain is the puppet's own [sig, enc] pair.
func (p *Peer) OwnChain() [][]byte {
	var c [][]byte
	if p.Sig != nil {
		c = append(c, p.Sig.DER)
	}
	if p.Enc != nil {
		c = append(c, p.Enc.DER)
	}
	return c
}

// SendClientKeyExchange: mode "ok" | "garbage" | "truncated:<n>".
func (p *Peer) SendClientKeyExchange(mode string) error {
	var body []byte
	switch {
	case IsECDHE(p.Suite):
		body = p.clientECDHE()
	default:
		pre := p.FixedPre
		if pre == nil {
			pre = append([]byte{byte(VersionTLCP >> 8), byte(VersionTLCP & 0xff)}, randBytes(46)...)
		}
		var ct []byte
		if len(p.PeerCerts) >= 2 {
			if cert, err := x509.ParseCertificate(p.PeerCerts[1]); err == nil {
				if pub, ok := cert.PublicKey.(*ecdsa.PublicKey); ok {
					ct, _ = sm2.Encrypt(rand.Reader, pub, pre, sm2.ASN1EncrypterOpts)
				}
			}
		}
		if ct == nil {
			ct = randBytes(100)
		}
		body = u16(ct)
		if p.ForceMaster == nil {
			p.setPre(pre)
		}
	}
	if mode == "garbage" {
		body = u16(append([]byte{0x30, 0x10, 0x02}, randBytes(30)...))
	}
	return p.SendHS(HSClientKeyX, body, true)
}

func (p *Peer) clientECDHE() []byte {
	if p.peerTmp == nil || p.Enc == nil || len(p.PeerCerts) < 2 {
		return append([]byte{3, 0, curveSM2, 65}, randBytes(65)...)
	}
	e, err := ecdh.P256().GenerateKey(rand.Reader)
	if err != nil {
		panic(err)
	}
	body := append([]byte{3, 0, curveSM2, 65}, e.PublicKey().Bytes()...)
	cert, err := x509.ParseCertificate(p.PeerCerts[1])
	if err != nil {
		return body
	}
	pub, ok := cert.PublicKey.(*ecdsa.PublicKey)
	if !ok {
		return body
	}
	srvPub, err := sm2.PublicKeyToECDH(pub)
	if err != nil {
		return body
	}
	ownKey, ok := p.Enc.Key.(*sm2.PrivateKey)
	if !ok {
		return body
	}
	own, err := ownKey.ECDH()
	if err != nil {
		return body
	}
	sec, err := own.SM2MQV(e, srvPub, p.peerTmp)
	if err != nil {
		return body
	}
	key, err := sec.SM2SharedKey(true, 48, own.PublicKey(), srvPub, nil, nil)
	if err != nil {
		return body
	}
	if p.ForceMaster == nil {
		p.setPre(key)
	}
	return body
}

// SendCertVerify: mode "ok" | "wrong-key" (signed with the encryption key) | "other-transcript" | "corrupt".
func (p *Peer) SendCertVerify(mode string) error {
	msg := SM3(p.Transcript)
	key := interface{}(nil)
	if p.Sig != nil {
		key = p.Sig.Key
	}
	switch mode {
	case "wrong-key":
		if p.Enc != nil {
			key = p.Enc.Key
		}
	case "other-transcript":
		msg = SM3(append(append([]byte{}, p.Transcript...), 0))
	}
	sig := sm2Sign(key, msg)
	if mode == "corrupt" && len(sig) > 10 {
		sig[len(sig)-3] ^= 0x20
	}
	return p.SendHS(HSCertVerify, u16(sig), true)
}

// SendFinished: mode "ok" | "wrong" | "short".
func (p *Peer) SendFinished(mode string) error {
	label := "server finished"
	if p.Client {
		label = "client finished"
	}
	var vd []byte
	if p.Master != nil {
		vd = PRF(p.Master, label, SM3(p.Transcript), 12)
	} else {
		vd = randBytes(12)
	}
	switch mode {
	case "wrong":
		vd[3] ^= 1
	case "short":
		vd = vd[:11]
	}
	return p.SendHS(HSFinished, vd, true)
}

// ---------------------------------------------------------------- server role

type SHOpt struct {
	Vers   uint16
	Suite  uint16
	SID    []byte // nil: fresh 32 bytes
	Comp   byte
	Ext    []byte
	Random []byte
}

func (p *Peer) SendServerHello(o SHOpt) error {
	if o.Vers == 0 {
		o.Vers = VersionTLCP
	}
	if o.SID == nil {
		o.SID = randBytes(32)
	}
	if o.Random == nil {
		o.Random = newRandom()
	}
	p.SR, p.SID, p.Suite, p.Vers = o.Random, o.SID, o.Suite, o.Vers
	b := []byte{byte(o.Vers >> 8), byte(o.Vers)}
	b = append(b, o.Random...)
	b = append(b, byte(len(o.SID)))
	b = append(b, o.SID...)
	b = append(b, byte(o.Suite>>8), byte(o.Suite), o.Comp)
	if o.Ext != nil {
		b = append(b, u16(o.Ext)...)
	}
	err := p.SendHS(HSServerHello, b, true)
	if p.ForceMaster != nil && !p.NoAutoKeys {
		p.Master = p.ForceMaster
		p.deriveKeys()
	}
	return err
}

func (p *Peer) SendHelloVerify(cookie []byte) error {
	b := append([]byte{byte(VersionTLCP >> 8), byte(VersionTLCP & 0xff), byte(len(cookie))}, cookie...)
	return p.SendHS(HSHelloVerify, b, false)
}

type SKXOpt struct {
	Mode       string // "ok" | "other-key" | "other-randoms" | "other-cert" | "other-params" | "corrupt" | "empty-sig" | "no-sig"
	EncCertDER []byte // the encryption certificate the signature covers (default: the one presented = p.Enc.DER)
}

// SendServerKeyExchange builds the signed key-exchange message.
func (p *Peer) SendServerKeyExchange(o SKXOpt) error {
	cr, sr := p.CR, p.SR
	if o.Mode == "other-randoms" {
		cr, sr = newRandom(), newRandom()
	}
	key := interface{}(nil)
	if p.Sig != nil {
		key = p.Sig.Key
	}
	if o.Mode == "other-key" && p.Enc != nil {
		key = p.Enc.Key
	}
	var body, tbs []byte
	if IsECDHE(p.Suite) {
		if p.eph == nil {
			e, err := ecdh.P256().GenerateKey(rand.Reader)
			if err != nil {
				panic(err)
			}
			p.eph = e
		}
		params := append([]byte{3, 0, curveSM2, 65}, p.eph.PublicKey().Bytes()...)
		signed := params
		if o.Mode == "other-params" {
			e2, _ := ecdh.P256().GenerateKey(rand.Reader)
			signed = append([]byte{3, 0, curveSM2, 65}, e2.PublicKey().Bytes()...)
		}
		tbs = append(append(append([]byte{}, cr...), sr...), signed...)
		body = params
	} else {
		enc := o.EncCertDER
		if enc == nil && p.Enc != nil {
			enc = p.Enc.DER
		}
		if o.Mode == "other-cert" {
			enc = append(append([]byte{}, enc...), 0)
		}
		tbs = append(append(append([]byte{}, cr...), sr...), u24n(len(enc))...)
		tbs = append(tbs, enc...)
	}
	sig := sm2Sign(key, tbs)
	switch o.Mode {
	case "corrupt":
		if len(sig) > 10 {
			sig[len(sig)-3] ^= 0x20
		}
	case "empty-sig":
		sig = nil
	}
	if o.Mode != "no-sig" {
		body = append(body, u16(sig)...)
	}
	return p.SendHS(HSServerKeyX, body, true)
}

func (p *Peer) SendCertRequest(cas [][]byte) error {
	b := []byte{2, 1, 64}
	var l []byte
	for _, ca := range cas {
		l = append(l, u16(ca)...)
	}
	b = append(b, u16(l)...)
	return p.SendHS(HSCertRequest, b, true)
}

func (p *Peer) SendServerHelloDone() error { return p.SendHS(HSServerDone, nil, true) }
