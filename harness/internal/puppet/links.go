package puppet

import (
	"net"
	"sync"
	"time"

	"gitee.com/Trisia/gotlcp/dtlcp"
	"gitee.com/Trisia/gotlcp/tlcp"
	"verifharness/internal/tk"
)

// ---------------------------------------------------------------- stream link

type StreamLink struct {
	Conn *tk.SConn // the puppet's end
	done chan struct{}
	Hung bool
}

func (l *StreamLink) Send(b []byte) error { _, err := l.Conn.Write(b); return err }

func (l *StreamLink) TargetDone() bool {
	select {
	case <-l.done:
		return true
	default:
		return false
	}
}

func (l *StreamLink) Pump(int) [][]byte {
	deadline := time.Now().Add(5 * time.Second)
	for !l.TargetDone() && !l.Conn.Out.ReaderIdle() {
		if time.Now().After(deadline) {
			l.Hung = true
			break
		}
		time.Sleep(20 * time.Microsecond)
	}
	if b := l.Conn.In.Drain(); len(b) > 0 {
		return [][]byte{b}
	}
	return nil
}

// TargetOutcome is what the endpoint under test did.
type TargetOutcome struct {
	Res      tk.EPResult
	Read     []byte // application data delivered by Read after the handshake
	ReadErr  string
	Panic    string
	Hung     bool
	Requests int64  // private-key operations, when instrumented
	Read2N   int    // bytes returned by one more Read after the first error
	ReadErr2 string // and its error class
	Alerts   []int  // alert codes the target sent (Config.OnAlert)
}

// TLCPSession: a real tlcp endpoint (client or server) against a puppet of the other role.
type TLCPSession struct {
	P      *Peer
	Target *tlcp.Conn
	link   *StreamLink
	out    TargetOutcome
	wg     sync.WaitGroup
	raw    *tk.SConn
}

// NewTLCPSession starts the target's Handshake (followed by Reads until an error) in the
// background. targetIsClient selects the real endpoint's role.
func NewTLCPSession(cfg *tlcp.Config, targetIsClient bool) *TLCPSession {
	return NewTLCPSessionOpt(cfg, targetIsClient, SessOpt{})
}

// SessOpt: optional instrumentation of the transport handed to the endpoint under test.
type SessOpt struct {
	WrapT       func(c net.Conn) net.Conn             // tlcp: wrap the target's transport
	OnTLCP      func(c *tlcp.Conn)                    // called with the target before its goroutine starts
	WrapD       func(c net.PacketConn) net.PacketConn // dtlcp: wrap the target's PacketConn
	OnDTLCP     func(c *dtlcp.Conn)
	OnFinish    func()          // called in the target's goroutine after its last call returned (or panicked)
	OnHandshake func(err error) // called in the target's goroutine when Handshake returned
	ReadFrom    bool            // dtlcp: read application data with Conn.ReadFrom instead of Conn.Read
}

// NewTLCPSessionOpt is NewTLCPSession with an instrumented transport.
func NewTLCPSessionOpt(cfg *tlcp.Config, targetIsClient bool, opt SessOpt) *TLCPSession {
	cli, srv, c2s, s2c := tk.StreamPair()
	c2s.Framed, s2c.Framed = false, false
	s := &TLCPSession{}
	cfg.OnAlert = func(code uint8, _ *tlcp.Conn) { s.out.Alerts = append(s.out.Alerts, int(code)) }
	var pconn *tk.SConn
	wrap := func(c *tk.SConn) net.Conn {
		if opt.WrapT != nil {
			return opt.WrapT(c)
		}
		return c
	}
	if targetIsClient {
		s.Target, s.raw, pconn = tlcp.Client(wrap(cli), cfg), cli, srv
	} else {
		s.Target, s.raw, pconn = tlcp.Server(wrap(srv), cfg), srv, cli
	}
	if opt.OnTLCP != nil {
		opt.OnTLCP(s.Target)
	}
	s.link = &StreamLink{Conn: pconn, done: make(chan struct{})}
	s.P = &Peer{L: s.link, Client: !targetIsClient, Vers: VersionTLCP}
	s.wg.Add(1)
	go func() {
		defer s.wg.Done()
		defer close(s.link.done)
		defer func() {
			if r := recover(); r != nil {
				s.out.Panic = sprint(r)
			}
			if opt.OnFinish != nil {
				opt.OnFinish()
			}
		}()
		err := s.Target.Handshake()
		if opt.OnHandshake != nil {
			opt.OnHandshake(err)
		}
		s.out.Res = tk.StateTLCP(s.Target, err)
		if err != nil {
			return
		}
		buf := make([]byte, 4096)
		for {
			n, rerr := s.Target.Read(buf)
			s.out.Read = append(s.out.Read, buf[:n]...)
			if rerr != nil {
				s.out.ReadErr = tk.ErrClass(rerr)
				k, e2 := s.Target.Read(buf)
				s.out.Read2N, s.out.ReadErr2 = k, tk.ErrClass(e2)
				return
			}
		}
	}()
	return s
}

// Finish closes the puppet's end, waits for the target and returns its outcome.
func (s *TLCPSession) Finish() TargetOutcome {
	s.P.Absorb(0)
	s.link.Conn.Close()
	done := make(chan struct{})
	go func() { s.wg.Wait(); close(done) }()
	select {
	case <-done:
	case <-time.After(5 * time.Second):
		s.out.Hung = true
		s.raw.Close()
		<-done
	}
	s.out.Hung = s.out.Hung || s.link.Hung
	if s.out.Res.Err == "" && !s.out.Res.Complete && s.out.Panic == "" {
		s.out.Res = tk.StateTLCP(s.Target, nil)
	}
	return s.out
}

// ---------------------------------------------------------------- datagram link

type DgramLink struct {
	N    *tk.VNet
	E    *tk.VEnd
	mu   sync.Mutex
	done bool
}

func (l *DgramLink) Send(b []byte) error { _, err := l.E.WriteTo(b, l.N.Addr(1)); return err }
func (l *DgramLink) TargetDone() bool    { l.mu.Lock(); defer l.mu.Unlock(); return l.done }
func (l *DgramLink) Pump(virtualMs int) [][]byte {
	if virtualMs <= 0 {
		virtualMs = 5
	}
	var out [][]byte
	buf := make([]byte, 70000)
	wait := virtualMs // for the first datagram; afterwards only a short silence ends the flight
	for {
		l.E.SetReadDeadline(time.Now().Add(time.Duration(wait) * time.Millisecond))
		n, _, err := l.E.ReadFrom(buf)
		if err != nil {
			return out
		}
		out = append(out, append([]byte{}, buf[:n]...))
		wait = 5
	}
}

// DTLCPSession: a real dtlcp endpoint (endpoint 1 of a virtual network) against a puppet.
type DTLCPSession struct {
	P      *Peer
	Target *dtlcp.Conn
	Net    *tk.VNet
	link   *DgramLink
	out    TargetOutcome
}

// RunDTLCP runs script (the puppet's program) against a real endpoint under virtual time.
// cfg's retransmission timeouts should be large so that the script's short waits never race them.
func RunDTLCP(cfg *dtlcp.Config, targetIsClient bool, script func(p *Peer)) (*DTLCPSession, TargetOutcome) {
	return RunDTLCPOpt(cfg, targetIsClient, SessOpt{}, script)
}

// RunDTLCPOpt is RunDTLCP with an instrumented PacketConn.
func RunDTLCPOpt(cfg *dtlcp.Config, targetIsClient bool, opt SessOpt, script func(p *Peer)) (*DTLCPSession, TargetOutcome) {
	n := tk.NewVNet()
	cfg.NewTimer = func(d time.Duration) *dtlcp.TimerHandle {
		c, stop, reset := n.NewTimerParts(d)
		return &dtlcp.TimerHandle{C: c, Stop: stop, Reset: reset}
	}
	s := &DTLCPSession{Net: n}
	var tpc net.PacketConn = n.End(1)
	if opt.WrapD != nil {
		tpc = opt.WrapD(tpc)
	}
	if targetIsClient {
		s.Target = dtlcp.Client(tpc, n.Addr(0), cfg)
	} else {
		s.Target = dtlcp.Server(tpc, n.Addr(0), cfg)
	}
	if opt.OnDTLCP != nil {
		opt.OnDTLCP(s.Target)
	}
	s.link = &DgramLink{N: n, E: n.End(0)}
	s.P = &Peer{L: s.link, DTLS: true, Client: !targetIsClient, Vers: VersionTLCP}
	var wg sync.WaitGroup
	wg.Add(2)
	go func() {
		defer wg.Done()
		defer n.Done(0)
		script(s.P)
		s.P.Absorb(5)
		n.End(0).Close()
	}()
	go func() {
		defer wg.Done()
		defer n.Done(1)
		defer func() { s.link.mu.Lock(); s.link.done = true; s.link.mu.Unlock() }()
		defer func() {
			if r := recover(); r != nil {
				s.out.Panic = sprint(r)
			}
			if opt.OnFinish != nil {
				opt.OnFinish()
			}
		}()
		err := s.Target.Handshake()
		if opt.OnHandshake != nil {
			opt.OnHandshake(err)
		}
		s.out.Res = tk.StateDTLCP(s.Target, err)
		if err != nil {
			n.End(1).Close()
			return
		}
		buf := make([]byte, 20000)
		for {
			var k int
			var rerr error
			if opt.ReadFrom {
				k, _, rerr = s.Target.ReadFrom(buf)
			} else {
				k, rerr = s.Target.Read(buf)
			}
			s.out.Read = append(s.out.Read, buf[:k]...)
			if rerr != nil {
				s.out.ReadErr = tk.ErrClass(rerr)
				return
			}
		}
	}()
	ctl := make(chan struct{})
	go func() { n.Run(); close(ctl) }()
	done := make(chan struct{})
	go func() { wg.Wait(); <-ctl; close(done) }()
	select {
	case <-done:
	case <-time.After(10 * time.Second):
		s.out.Hung = true
		n.End(0).Close()
		n.End(1).Close()
		select {
		case <-done:
		case <-time.After(2 * time.Second):
		}
	}
	return s, s.out
}
