package tk

import (
	"errors"
	"io"
	"net"
	"os"
	"sync"
	"time"
)

// Wire is one direction of an in-memory byte stream with a scripted middle.
// Bytes written by the sender are cut into records (HdrLen-byte header whose last two
// bytes are the length) when Framed, each complete record passes through Edit, and the
// result becomes readable by the receiver in pieces of at most Seg(k) bytes.
type Wire struct {
	ClosedErr error // what Read returns after the reading end closed the stream (default net.ErrClosed; net.Pipe uses io.ErrClosedPipe)
	mu        sync.Mutex
	cond      *sync.Cond

	Framed bool
	HdrLen int
	Edit   func(idx int, rec []byte) [][]byte // nil: identity
	Seg    func(k int) int                    // max bytes for the k-th Read; nil or <=0: unlimited
	Cut    int                                // >=0: receiver sees EOF after Cut bytes were delivered
	// EOFWithData: the Read that hands over the last bytes of the stream returns them together with
	// io.EOF (allowed by io.Reader; common for tunnels and user-space stacks) instead of a separate (0, EOF)
	EOFWithData bool
	// Deadlines: honour SetReadDeadline (receiver) and SetWriteDeadline (sender) as net.Conn does
	Deadlines bool
	rdl, wdl  time.Time
	// PauseAt > 0: once PauseAt bytes have been delivered the rest stays in flight (reads block, or time out
	// under a deadline) until Resume is called
	PauseAt int
	resumed bool

	raw       []byte
	out       []byte
	Sent      [][]byte // records (or raw writes when !Framed) as the sender produced them
	Delivered []byte   // everything the receiver has read
	nread     int
	recIdx    int
	wclosed   bool
	rclosed   bool
	Writes    []int // size of every Write call
	waiting   bool  // a reader is blocked in read()
}

func NewWire() *Wire {
	w := &Wire{Framed: true, HdrLen: 5, Cut: -1}
	w.cond = sync.NewCond(&w.mu)
	return w
}

func (w *Wire) push(b []byte) error {
	w.mu.Lock()
	defer w.mu.Unlock()
	if w.wclosed {
		return io.ErrClosedPipe
	}
	if w.rclosed {
		return io.ErrClosedPipe
	}
	if w.Deadlines && !w.wdl.IsZero() && !time.Now().Before(w.wdl) {
		return os.ErrDeadlineExceeded
	}
	w.Writes = append(w.Writes, len(b))
	if !w.Framed {
		cp := append([]byte(nil), b...)
		w.Sent = append(w.Sent, cp)
		w.out = append(w.out, cp...)
		w.cond.Broadcast()
		return nil
	}
	w.raw = append(w.raw, b...)
	for len(w.raw) >= w.HdrLen {
		n := int(w.raw[w.HdrLen-2])<<8 | int(w.raw[w.HdrLen-1])
		if len(w.raw) < w.HdrLen+n {
			break
		}
		rec := append([]byte(nil), w.raw[:w.HdrLen+n]...)
		w.raw = w.raw[w.HdrLen+n:]
		w.Sent = append(w.Sent, rec)
		if w.Edit != nil {
			for _, r := range w.Edit(w.recIdx, rec) {
				w.out = append(w.out, r...)
			}
		} else {
			w.out = append(w.out, rec...)
		}
		w.recIdx++
	}
	w.cond.Broadcast()
	return nil
}

// Push is the exported form of a sender-side write.
func (w *Wire) Push(b []byte) error { return w.push(b) }

// Inject makes bytes readable by the receiver without a sender.
func (w *Wire) Inject(b []byte) {
	w.mu.Lock()
	w.out = append(w.out, b...)
	w.cond.Broadcast()
	w.mu.Unlock()
}

func (w *Wire) closeWrite() {
	w.mu.Lock()
	if !w.wclosed {
		w.wclosed = true
		w.out = append(w.out, w.raw...)
		w.raw = nil
	}
	w.cond.Broadcast()
	w.mu.Unlock()
}

func (w *Wire) closeRead() {
	w.mu.Lock()
	w.rclosed = true
	w.cond.Broadcast()
	w.mu.Unlock()
}

func (w *Wire) read(p []byte) (int, error) {
	w.mu.Lock()
	defer w.mu.Unlock()
	for {
		if w.rclosed {
			if w.ClosedErr != nil {
				return 0, w.ClosedErr
			}
			return 0, net.ErrClosed
		}
		if w.Cut >= 0 && len(w.Delivered) >= w.Cut {
			return 0, io.EOF
		}
		if w.Deadlines && !w.rdl.IsZero() && !time.Now().Before(w.rdl) {
			return 0, os.ErrDeadlineExceeded
		}
		paused := w.PauseAt > 0 && !w.resumed && len(w.Delivered) >= w.PauseAt
		if len(w.out) > 0 && !paused {
			break
		}
		if w.wclosed && !paused {
			return 0, io.EOF
		}
		w.waiting = true
		w.cond.Wait()
		w.waiting = false
	}
	n := len(p)
	if n > len(w.out) {
		n = len(w.out)
	}
	if w.Seg != nil {
		if s := w.Seg(w.nread); s > 0 && s < n {
			n = s
		}
	}
	if w.Cut >= 0 && len(w.Delivered)+n > w.Cut {
		n = w.Cut - len(w.Delivered)
	}
	if w.PauseAt > 0 && !w.resumed && len(w.Delivered)+n > w.PauseAt {
		n = w.PauseAt - len(w.Delivered)
	}
	copy(p, w.out[:n])
	w.Delivered = append(w.Delivered, w.out[:n]...)
	w.out = w.out[n:]
	w.nread++
	if w.EOFWithData && ((len(w.out) == 0 && w.wclosed) || (w.Cut >= 0 && len(w.Delivered) >= w.Cut)) {
		return n, io.EOF
	}
	return n, nil
}

// Resume lets the bytes held back by PauseAt through.
func (w *Wire) Resume() {
	w.mu.Lock()
	w.resumed = true
	w.cond.Broadcast()
	w.mu.Unlock()
}

// DeliveredLen is the number of bytes the receiver has read so far.
func (w *Wire) DeliveredLen() int {
	w.mu.Lock()
	defer w.mu.Unlock()
	return len(w.Delivered)
}

func (w *Wire) setDeadline(read bool, t time.Time) {
	w.mu.Lock()
	if read {
		w.rdl = t
	} else {
		w.wdl = t
	}
	on := w.Deadlines
	w.cond.Broadcast()
	w.mu.Unlock()
	if on && read && !t.IsZero() {
		if d := time.Until(t); d > 0 {
			time.AfterFunc(d+time.Millisecond, func() { w.mu.Lock(); w.cond.Broadcast(); w.mu.Unlock() })
		}
	}
}

// ReaderIdle reports that the receiving endpoint is blocked in Read with nothing left to read.
func (w *Wire) ReaderIdle() bool {
	w.mu.Lock()
	defer w.mu.Unlock()
	return w.waiting && len(w.out) == 0
}

// Drain takes everything currently readable without blocking (used by a scripted peer).
func (w *Wire) Drain() []byte {
	w.mu.Lock()
	defer w.mu.Unlock()
	b := w.out
	w.out = nil
	w.Delivered = append(w.Delivered, b...)
	return b
}

// Snapshot returns copies of the sender-side record log.
func (w *Wire) SentRecords() [][]byte {
	w.mu.Lock()
	defer w.mu.Unlock()
	out := make([][]byte, len(w.Sent))
	for i, r := range w.Sent {
		out[i] = append([]byte(nil), r...)
	}
	return out
}

// SConn is a net.Conn over two wires.
type SConn struct {
	In, Out *Wire
	name    string
	Peer    string // remote address string (the client's session cache key)
	once    sync.Once
}

type sAddr string

func (a sAddr) Network() string { return "mem" }
func (a sAddr) String() string  { return string(a) }

func (c *SConn) Read(p []byte) (int, error) { return c.In.read(p) }
func (c *SConn) Write(p []byte) (int, error) {
	if err := c.Out.push(p); err != nil {
		return 0, err
	}
	return len(p), nil
}
func (c *SConn) Close() error {
	c.once.Do(func() {
		c.Out.closeWrite()
		c.In.closeRead()
	})
	return nil
}

// CloseWrite ends only this end's outgoing direction (the peer reads what was written, then
// EOF); the peer's writes keep succeeding, as they do on a network whose other end has gone.
func (c *SConn) CloseWrite() { c.Out.closeWrite() }

func (c *SConn) LocalAddr() net.Addr { return sAddr(c.name) }
func (c *SConn) RemoteAddr() net.Addr {
	if c.Peer != "" {
		return sAddr(c.Peer)
	}
	return sAddr("peer-of-" + c.name)
}
func (c *SConn) SetDeadline(t time.Time) error {
	c.In.setDeadline(true, t)
	c.Out.setDeadline(false, t)
	return nil
}
func (c *SConn) SetReadDeadline(t time.Time) error  { c.In.setDeadline(true, t); return nil }
func (c *SConn) SetWriteDeadline(t time.Time) error { c.Out.setDeadline(false, t); return nil }

// StreamPair returns client and server ends; c2s carries client->server bytes.
func StreamPair() (cli, srv *SConn, c2s, s2c *Wire) {
	c2s, s2c = NewWire(), NewWire()
	cli = &SConn{In: s2c, Out: c2s, name: "client"}
	srv = &SConn{In: c2s, Out: s2c, name: "server"}
	return
}

var ErrStuck = errors.New("tk: stuck")
