package tk

import (
	"errors"
	"io"
	"net"
	"strings"
	"time"
)

// EPConfig is a stack-neutral description of an endpoint configuration.
type EPConfig struct {
	Suites         []uint16 `json:"suites"` // nil: library default
	Ident          string   `json:"ident"`  // which key pairs: "srv","srv2","cli","cli-sig","none","untrusted","expired","future","cli-untrusted","cli-expired","cli-wrongeku","rsa","ed"
	Roots          string   `json:"roots"`  // "ca" (default), "other", "none", "rootcas-only"
	Auth           int      `json:"auth"`   // ClientAuthType (server)
	ALPN           []string `json:"alpn"`
	ServerName     string   `json:"sni"`
	Insecure       bool     `json:"insecure"`
	Cache          string   `json:"cache"` // "" none; otherwise the name of a cache shared through Registry
	CacheCap       int      `json:"cache_cap"`
	PMTU           int      `json:"pmtu"`
	ReplayWindow   int      `json:"replay_window"`
	DynOff         bool     `json:"dyn_off"`
	Clone          bool     `json:"clone"`
	Via            string   `json:"via,omitempty"` // how the configuration reaches the connection: "" as it is; "clone"; "host-clone" (GetConfigForClient hands out a clone per hello); "host-lax" (GetConfigForClient answers lax.example with a NoClientCert configuration, nil otherwise)
	MinVersion     uint16   `json:"min_version"`
	MaxVersion     uint16   `json:"max_version"`
	RetransMs      int      `json:"retrans_ms"`
	MaxRetransMs   int      `json:"max_retrans_ms"`
	CookieSecret   []byte   `json:"cookie_secret"`
	RandSeed       uint64   `json:"rand_seed"`                  // 0: crypto/rand
	CertVia        string   `json:"cert_via,omitempty"`         // "" Certificates list; "cb" Get* callbacks; "mixed" signing pair in the list, encryption pair by callback
	TimeShiftYears int      `json:"time_shift_years,omitempty"` // the configuration's clock = the fixed clock + this many years
	TimeShiftMin   int      `json:"time_shift_min,omitempty"`   // ... + this many minutes
}

// Clock is the configuration's (fixed) current time.
func (e EPConfig) Clock() time.Time {
	return Now().AddDate(e.TimeShiftYears, 0, 0).Add(time.Duration(e.TimeShiftMin) * time.Minute)
}

// EPResult is the stack-neutral projection of what an endpoint observed.
type EPResult struct {
	Err            string   `json:"err"` // error class, "" = success
	ErrText        string   `json:"err_text,omitempty"`
	Complete       bool     `json:"complete"`
	Version        uint16   `json:"version"`
	Suite          uint16   `json:"suite"`
	ALPN           string   `json:"alpn"`
	Resumed        bool     `json:"resumed"`
	ServerName     string   `json:"server_name"`
	PeerCerts      []string `json:"peer_certs"` // CommonNames (identify the leaf unambiguously in this PKI)
	PeerDER        [][]byte `json:"-"`
	VerifiedChains int      `json:"verified_chains"`
	ClientFinished []byte   `json:"client_finished,omitempty"`
	ServerFinished []byte   `json:"server_finished,omitempty"`
	Panic          string   `json:"panic,omitempty"`
}

// ErrClass maps an error to a small stable enum (never compare error strings).
func ErrClass(err error) string {
	if err == nil {
		return ""
	}
	if err == io.EOF {
		return "eof"
	}
	if err == io.ErrUnexpectedEOF {
		return "unexpected-eof"
	}
	if errors.Is(err, net.ErrClosed) {
		return "closed"
	}
	var op *net.OpError
	if errors.As(err, &op) {
		if op.Op == "remote error" || op.Op == "local error" {
			return strings.ReplaceAll(op.Op, " ", "-") + ":" + alertName(op.Err.Error())
		}
	}
	s := err.Error()
	var ne net.Error
	if errors.As(err, &ne) && ne.Timeout() {
		return "timeout"
	}
	switch {
	case strings.Contains(s, "failed to verify certificate"):
		return "cert-verify"
	case strings.Contains(s, "closed pipe"), strings.Contains(s, "use of closed"):
		return "closed"
	case strings.Contains(s, "protocol is shutdown"):
		return "shutdown"
	case strings.Contains(s, "context canceled"):
		return "ctx-canceled"
	case strings.Contains(s, "context deadline"):
		return "ctx-deadline"
	}
	return "error"
}

func alertName(s string) string {
	s = strings.TrimPrefix(s, "tlcp: ")
	s = strings.TrimPrefix(s, "dtlcp: ")
	s = strings.TrimPrefix(s, "tls: ")
	return strings.ReplaceAll(s, " ", "-")
}

// Registry shares session caches between configurations of one scenario.
type Registry struct {
	T map[string]interface{}
	D map[string]interface{}
}

func NewRegistry() *Registry {
	return &Registry{T: map[string]interface{}{}, D: map[string]interface{}{}}
}

// DetRand is a deterministic byte stream (for Config.Rand); safe for concurrent use.
type DetRand struct {
	mu    chan struct{}
	state uint64
	N     int
}

func NewDetRand(seed uint64) *DetRand {
	d := &DetRand{mu: make(chan struct{}, 1), state: seed*0x9E3779B97F4A7C15 + 1}
	return d
}

func (d *DetRand) Read(p []byte) (int, error) {
	d.mu <- struct{}{}
	for i := range p {
		d.state ^= d.state << 13
		d.state ^= d.state >> 7
		d.state ^= d.state << 17
		p[i] = byte(d.state >> 24)
	}
	d.N += len(p)
	<-d.mu
	return len(p), nil
}

// The library gets its own copies of the lists of a configuration: what a case records as its input is what was
// configured, whatever the library does to the slices it was given (nil and empty stay what they are).
func copyU16(l []uint16) []uint16 {
	if l == nil {
		return nil
	}
	return append(make([]uint16, 0, len(l)), l...)
}

func copyStrings(l []string) []string {
	if l == nil {
		return nil
	}
	return append(make([]string, 0, len(l)), l...)
}
