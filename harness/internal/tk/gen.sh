#!/bin/sh
# regenerate the per-stack copies of ep_stack.tpl
cd "$(dirname "$0")"
sed 's/STACK\./tlcp./g; s/"gitee.com\/Trisia\/gotlcp\/STACK"/"gitee.com\/Trisia\/gotlcp\/tlcp"/; s/STACK/TLCP/g' ep_stack.tpl > ep_tlcp_gen.go
sed 's/STACK\./dtlcp./g; s/"gitee.com\/Trisia\/gotlcp\/STACK"/"gitee.com\/Trisia\/gotlcp\/dtlcp"/; s/STACK/DTLCP/g' ep_stack.tpl > ep_dtlcp_gen.go
