package tk

import (
	"crypto"
	"io"
	"sync/atomic"
)

// CountKey wraps a private key and counts private-key operations.
type CountKey struct {
	Inner crypto.PrivateKey
	Signs int64
	Decs  int64
}

func (k *CountKey) Public() crypto.PublicKey { return k.Inner.(crypto.Signer).Public() }
func (k *CountKey) Sign(r io.Reader, digest []byte, opts crypto.SignerOpts) ([]byte, error) {
	atomic.AddInt64(&k.Signs, 1)
	return k.Inner.(crypto.Signer).Sign(r, digest, opts)
}
func (k *CountKey) Decrypt(r io.Reader, msg []byte, opts crypto.DecrypterOpts) ([]byte, error) {
	atomic.AddInt64(&k.Decs, 1)
	return k.Inner.(crypto.Decrypter).Decrypt(r, msg, opts)
}
func (k *CountKey) Ops() int64 { return atomic.LoadInt64(&k.Signs) + atomic.LoadInt64(&k.Decs) }
