package tk

import (
	"errors"
	"net"
	"sort"
	"sync"
	"time"
)

// VNet is a deterministic virtual-time datagram network between two endpoints.
// Endpoint code runs in goroutines; a controller acts only at quiescence (every endpoint
// blocked in ReadFrom with an empty inbox, or finished): it hands over the next datagram
// (subject to the fault script) or advances the virtual clock to the next deadline / timer.
type VNet struct {
	mu   sync.Mutex
	cond *sync.Cond

	now    time.Duration
	eps    [2]*VEnd
	flight []*Dgram
	ready  []*Dgram // delayed datagrams whose time has come: handed over one per controller step
	held   []*Dgram
	timers []*vtimer

	// Decide is consulted for every datagram sent; nil = deliver.
	Decide func(d *Dgram) Action
	// Mangle may rewrite a datagram about to be delivered (MITM); nil = identity.
	Mangle func(d *Dgram) [][]byte
	// Quantum: read deadlines are given as wall-clock instants (time.Now().Add(d)); the part of d
	// lost between the caller's time.Now() and SetReadDeadline is removed by rounding to this unit
	// (default 1 ms; harnesses whose deadlines are multiples of a larger unit set it).
	Quantum time.Duration
	// TieFlip resolves simultaneous expiries in the opposite order.
	TieFlip bool

	Log        []DgramLog
	Events     []VEvent // every send, network action, read-deadline expiry and harness note, in order
	sent       [2]int
	Expiries   int // read deadlines that expired (retransmission timeouts)
	TimerFires int
	Stuck      bool
	MaxVirtual time.Duration // safety cap
	stopped    bool
}

type Dgram struct {
	From    int
	Idx     int // index among datagrams sent by From
	Data    []byte
	release time.Duration
}

type DgramLog struct {
	From int
	Idx  int
	Len  int
	At   time.Duration
	Act  string
}

// VEvent kinds: "send" (Side sent datagram Idx), "deliver" / "dup" / "late" / "drop" / "hold" (network
// action on datagram Idx sent by Side), "expire" (Side's read deadline expired), or a harness note.
type VEvent struct {
	At   time.Duration
	Kind string
	Side int
	Idx  int
	Data []byte // send only
}

// Note records a harness-level event (e.g. "handshake done") in the event log.
func (n *VNet) Note(side int, kind string) {
	n.mu.Lock()
	n.Events = append(n.Events, VEvent{At: n.now, Kind: kind, Side: side})
	n.mu.Unlock()
}

type Action struct {
	Kind  string        // "" / "deliver", "drop", "dup", "delay"
	Delay time.Duration // for delay
}

type vtimer struct {
	at    time.Duration
	ch    chan time.Time
	alive bool
}

type VEnd struct {
	n        *VNet
	id       int
	addr     net.Addr
	inbox    [][]byte
	deadline time.Duration // <0: none
	blocked  bool
	closed   bool
	done     bool
	parked   bool  // waiting for the harness (counts as blocked)
	Sizes    []int // size of every datagram handed to the network
}

type vAddr string

func (a vAddr) Network() string { return "vudp" }
func (a vAddr) String() string  { return string(a) }

func NewVNet() *VNet {
	n := &VNet{MaxVirtual: 3 * time.Minute}
	n.cond = sync.NewCond(&n.mu)
	n.eps[0] = &VEnd{n: n, id: 0, addr: vAddr("10.0.0.1:4000"), deadline: -1}
	n.eps[1] = &VEnd{n: n, id: 1, addr: vAddr("10.0.0.2:5000"), deadline: -1}
	return n
}

func (n *VNet) End(i int) *VEnd         { return n.eps[i] }
func (n *VNet) Addr(i int) net.Addr     { return n.eps[i].addr }
func (n *VNet) SetAddr(i int, a string) { n.eps[i].addr = vAddr(a) }
func (n *VNet) Now() time.Duration      { n.mu.Lock(); defer n.mu.Unlock(); return n.now }

// IsStuck: the controller gave up (nothing could happen before MaxVirtual) and closed the endpoints.
func (n *VNet) IsStuck() bool { n.mu.Lock(); defer n.mu.Unlock(); return n.Stuck }

type timeoutErr struct{}

func (timeoutErr) Error() string   { return "vnet: i/o timeout" }
func (timeoutErr) Timeout() bool   { return true }
func (timeoutErr) Temporary() bool { return true }

func (e *VEnd) ReadFrom(p []byte) (int, net.Addr, error) {
	n := e.n
	n.mu.Lock()
	defer n.mu.Unlock()
	for {
		if e.closed {
			return 0, nil, net.ErrClosed
		}
		if len(e.inbox) > 0 {
			d := e.inbox[0]
			e.inbox = e.inbox[1:]
			c := copy(p, d)
			return c, n.eps[1-e.id].addr, nil
		}
		if e.deadline >= 0 && n.now >= e.deadline {
			n.Expiries++
			n.Events = append(n.Events, VEvent{At: n.now, Kind: "expire", Side: e.id})
			return 0, nil, timeoutErr{}
		}
		e.blocked = true
		n.cond.Broadcast()
		n.cond.Wait()
		e.blocked = false
	}
}

func (e *VEnd) WriteTo(p []byte, addr net.Addr) (int, error) {
	n := e.n
	n.mu.Lock()
	defer n.mu.Unlock()
	if e.closed {
		return 0, net.ErrClosed
	}
	d := &Dgram{From: e.id, Idx: n.sent[e.id], Data: append([]byte(nil), p...)}
	n.sent[e.id]++
	e.Sizes = append(e.Sizes, len(p))
	n.flight = append(n.flight, d)
	n.Events = append(n.Events, VEvent{At: n.now, Kind: "send", Side: e.id, Idx: d.Idx, Data: d.Data})
	n.cond.Broadcast()
	return len(p), nil
}

func (e *VEnd) Close() error {
	n := e.n
	n.mu.Lock()
	e.closed = true
	n.cond.Broadcast()
	n.mu.Unlock()
	return nil
}
func (e *VEnd) LocalAddr() net.Addr { return e.addr }
func (e *VEnd) SetDeadline(t time.Time) error {
	return e.SetReadDeadline(t)
}
func (e *VEnd) SetReadDeadline(t time.Time) error {
	n := e.n
	n.mu.Lock()
	defer n.mu.Unlock()
	if t.IsZero() {
		e.deadline = -1
		return nil
	}
	d := time.Until(t)
	if d < 0 {
		d = 0
	}
	q := n.Quantum
	if q <= 0 {
		q = time.Millisecond
	}
	d = d.Round(q)
	e.deadline = n.now + d
	n.cond.Broadcast()
	return nil
}
func (e *VEnd) SetWriteDeadline(t time.Time) error { return nil }

// Done marks endpoint i's program as finished.
func (n *VNet) Done(i int) {
	n.mu.Lock()
	n.eps[i].done = true
	n.cond.Broadcast()
	n.mu.Unlock()
}

// Park marks endpoint i as waiting for something outside the network (a harness channel) while
// f runs; for the controller a parked endpoint is as good as blocked.
func (n *VNet) Park(i int, f func()) {
	n.mu.Lock()
	n.eps[i].parked = true
	n.cond.Broadcast()
	n.mu.Unlock()
	f()
	n.mu.Lock()
	n.eps[i].parked = false
	n.cond.Broadcast()
	n.mu.Unlock()
}

// Deliver puts a datagram straight into endpoint to's inbox (forgery / scripted delivery).
func (n *VNet) Deliver(to int, data []byte) {
	n.mu.Lock()
	n.eps[to].inbox = append(n.eps[to].inbox, append([]byte(nil), data...))
	n.cond.Broadcast()
	n.mu.Unlock()
}

// NewTimer is a Config.NewTimer factory bound to the virtual clock; wrap builds the
// library's TimerHandle from (C, stop, reset).
func (n *VNet) NewTimerParts(d time.Duration) (c <-chan time.Time, stop func() bool, reset func(time.Duration) bool) {
	n.mu.Lock()
	defer n.mu.Unlock()
	t := &vtimer{at: n.now + d.Round(time.Millisecond), ch: make(chan time.Time, 1), alive: true}
	n.timers = append(n.timers, t)
	stop = func() bool {
		n.mu.Lock()
		defer n.mu.Unlock()
		was := t.alive
		t.alive = false
		return was
	}
	reset = func(d time.Duration) bool {
		n.mu.Lock()
		defer n.mu.Unlock()
		was := t.alive
		select {
		case <-t.ch:
		default:
		}
		t.at = n.now + d.Round(time.Millisecond)
		t.alive = true
		return was
	}
	return t.ch, stop, reset
}

func (n *VNet) quiescent() bool {
	for _, e := range n.eps {
		if e.done || e.closed || e.parked {
			continue
		}
		if !e.blocked || len(e.inbox) > 0 {
			return false
		}
		if e.deadline >= 0 && n.now >= e.deadline {
			return false // about to wake with a timeout
		}
	}
	return true
}

func (n *VNet) allDone() bool {
	for _, e := range n.eps {
		if !e.done {
			return false
		}
	}
	return true
}

func (n *VNet) deliverLocked(d *Dgram, act string) {
	to := 1 - d.From
	outs := [][]byte{d.Data}
	if n.Mangle != nil {
		outs = n.Mangle(d)
	}
	for _, o := range outs {
		n.eps[to].inbox = append(n.eps[to].inbox, o)
	}
	n.Log = append(n.Log, DgramLog{d.From, d.Idx, len(d.Data), n.now, act})
	n.Events = append(n.Events, VEvent{At: n.now, Kind: act, Side: d.From, Idx: d.Idx})
}

// Run drives the network until both programs are done (or nothing can happen any more).
func (n *VNet) Run() {
	n.mu.Lock()
	defer n.mu.Unlock()
	for {
		for !n.quiescent() {
			n.cond.Wait()
		}
		if n.allDone() && len(n.flight) == 0 {
			return
		}
		if len(n.ready) > 0 { // one delayed datagram per step, so that only one endpoint runs at a time
			d := n.ready[0]
			n.ready = n.ready[1:]
			n.deliverLocked(d, "late")
			n.cond.Broadcast()
			continue
		}
		if len(n.flight) > 0 {
			d := n.flight[0]
			n.flight = n.flight[1:]
			act := Action{}
			if n.Decide != nil {
				act = n.Decide(d)
			}
			switch act.Kind {
			case "drop":
				n.Log = append(n.Log, DgramLog{d.From, d.Idx, len(d.Data), n.now, "drop"})
				n.Events = append(n.Events, VEvent{At: n.now, Kind: "drop", Side: d.From, Idx: d.Idx})
			case "dup":
				n.deliverLocked(d, "deliver")
				n.deliverLocked(d, "dup")
			case "delay":
				d.release = n.now + act.Delay
				n.held = append(n.held, d)
				n.Log = append(n.Log, DgramLog{d.From, d.Idx, len(d.Data), n.now, "hold"})
				n.Events = append(n.Events, VEvent{At: n.now, Kind: "hold", Side: d.From, Idx: d.Idx})
			default:
				n.deliverLocked(d, "deliver")
			}
			n.cond.Broadcast()
			continue
		}
		// nothing in flight: advance time to the next event
		next := time.Duration(-1)
		consider := func(t time.Duration) {
			if t >= 0 && (next < 0 || t < next) {
				next = t
			}
		}
		for _, e := range n.eps {
			if !e.done && !e.closed && e.blocked && e.deadline >= 0 {
				consider(e.deadline)
			}
		}
		for _, h := range n.held {
			consider(h.release)
		}
		for _, t := range n.timers {
			if t.alive {
				consider(t.at)
			}
		}
		if next < 0 || next > n.MaxVirtual {
			// nothing will ever happen: unblock whoever is still waiting
			if !n.allDone() {
				n.Stuck = true
			}
			for _, e := range n.eps {
				e.closed = true
			}
			n.cond.Broadcast()
			for !n.allDone() {
				n.cond.Wait()
			}
			return
		}
		if next > n.now {
			n.now = next
		}
		// release held datagrams and fire timers that are due
		var keep []*Dgram
		sort.SliceStable(n.held, func(i, j int) bool { return n.held[i].release < n.held[j].release })
		for _, h := range n.held {
			if h.release <= n.now {
				n.ready = append(n.ready, h)
			} else {
				keep = append(keep, h)
			}
		}
		n.held = keep
		for _, t := range n.timers {
			if t.alive && t.at <= n.now {
				t.alive = false
				n.TimerFires++
				select {
				case t.ch <- time.Time{}:
				default:
				}
			}
		}
		// simultaneous read-deadline expiries: wake one endpoint first (TieFlip chooses which)
		var due []*VEnd
		for _, e := range n.eps {
			if !e.done && !e.closed && e.blocked && e.deadline >= 0 && e.deadline <= n.now {
				due = append(due, e)
			}
		}
		if len(due) == 2 {
			first, second := due[0], due[1]
			if n.TieFlip {
				first, second = second, first
			}
			// postpone the second by letting the first run to quiescence: emulate by nudging its deadline
			second.deadline = n.now + time.Millisecond
			_ = first
		}
		n.cond.Broadcast()
	}
}

var ErrVNetStuck = errors.New("vnet: stuck")
