package tk

import (
	"sync"
	"time"

	"gitee.com/Trisia/gotlcp/dtlcp"
	"gitee.com/Trisia/gotlcp/tlcp"
)

// ---------------------------------------------------------------- TLCP (stream)

type TPair struct {
	Cli, Srv       *tlcp.Conn
	CliRaw, SrvRaw *SConn
	C2S, S2C       *Wire
}

func NewTPair(cc, sc *tlcp.Config) *TPair {
	cli, srv, c2s, s2c := StreamPair()
	return &TPair{Cli: tlcp.Client(cli, cc), Srv: tlcp.Server(srv, sc), CliRaw: cli, SrvRaw: srv, C2S: c2s, S2C: s2c}
}

// NewTPairNamed is NewTPair with the server reachable under the given address string.
func NewTPairNamed(cc, sc *tlcp.Config, srvAddr string) *TPair {
	cli, srv, c2s, s2c := StreamPair()
	cli.Peer = srvAddr
	return &TPair{Cli: tlcp.Client(cli, cc), Srv: tlcp.Server(srv, sc), CliRaw: cli, SrvRaw: srv, C2S: c2s, S2C: s2c}
}

// Handshake runs both handshakes to completion; a side that fails closes its transport.
// hung reports that the watchdog had to intervene.
func (p *TPair) Handshake(watchdog time.Duration) (cres, sres EPResult, hung bool) {
	var wg sync.WaitGroup
	var cerr, serr error
	var cpan, span string
	wg.Add(2)
	go func() {
		defer wg.Done()
		cerr, cpan = guardTLCP(p.Cli.Handshake)
		if cerr != nil {
			p.CliRaw.Close()
		}
	}()
	go func() {
		defer wg.Done()
		serr, span = guardTLCP(p.Srv.Handshake)
		if serr != nil {
			p.SrvRaw.Close()
		}
	}()
	done := make(chan struct{})
	go func() { wg.Wait(); close(done) }()
	select {
	case <-done:
	case <-time.After(watchdog):
		hung = true
		p.CliRaw.Close()
		p.SrvRaw.Close()
		<-done
	}
	cres, sres = StateTLCP(p.Cli, cerr), StateTLCP(p.Srv, serr)
	cres.Panic, sres.Panic = cpan, span
	return
}

func (p *TPair) Close() {
	p.CliRaw.Close()
	p.SrvRaw.Close()
}

// ---------------------------------------------------------------- DTLCP (datagram, virtual time)

type DPair struct {
	Net      *VNet
	Cli, Srv *dtlcp.Conn
}

func vtimerFactory(n *VNet) func(time.Duration) *dtlcp.TimerHandle {
	return func(d time.Duration) *dtlcp.TimerHandle {
		c, stop, reset := n.NewTimerParts(d)
		return &dtlcp.TimerHandle{C: c, Stop: stop, Reset: reset}
	}
}

// NewDPair wires a client (endpoint 0) and a server (endpoint 1) to a fresh virtual network.
// The configurations are used as given except for NewTimer, which is bound to the virtual clock.
func NewDPair(cc, sc *dtlcp.Config) *DPair {
	n := NewVNet()
	cc.NewTimer = vtimerFactory(n)
	sc.NewTimer = vtimerFactory(n)
	return &DPair{Net: n,
		Cli: dtlcp.Client(n.End(0), n.Addr(1), cc),
		Srv: dtlcp.Server(n.End(1), n.Addr(0), sc)}
}

// NewDPairAddr is NewDPair with the server at the given address.
func NewDPairAddr(cc, sc *dtlcp.Config, srvAddr string) *DPair {
	n := NewVNet()
	n.SetAddr(1, srvAddr)
	cc.NewTimer = vtimerFactory(n)
	sc.NewTimer = vtimerFactory(n)
	return &DPair{Net: n,
		Cli: dtlcp.Client(n.End(0), n.Addr(1), cc),
		Srv: dtlcp.Server(n.End(1), n.Addr(0), sc)}
}

// Run executes the two endpoint programs under the network controller.
func (p *DPair) Run(cprog, sprog func(c *dtlcp.Conn), watchdog time.Duration) (hung bool) {
	var wg sync.WaitGroup
	wg.Add(2)
	go func() { defer wg.Done(); defer p.Net.Done(0); cprog(p.Cli) }()
	go func() { defer wg.Done(); defer p.Net.Done(1); sprog(p.Srv) }()
	ctl := make(chan struct{})
	go func() { p.Net.Run(); close(ctl) }()
	done := make(chan struct{})
	go func() { wg.Wait(); <-ctl; close(done) }()
	select {
	case <-done:
	case <-time.After(watchdog):
		hung = true
		p.Net.End(0).Close()
		p.Net.End(1).Close()
		select {
		case <-done:
		case <-time.After(2 * time.Second):
		}
	}
	return
}

// Handshake runs only the two handshakes.
func (p *DPair) Handshake(watchdog time.Duration) (cres, sres EPResult, hung bool) {
	var cerr, serr error
	var cpan, span string
	hung = p.Run(func(c *dtlcp.Conn) {
		cerr, cpan = guardDTLCP(c.Handshake)
		if cerr != nil {
			p.Net.End(0).Close()
		}
	}, func(c *dtlcp.Conn) {
		serr, span = guardDTLCP(c.Handshake)
		if serr != nil {
			p.Net.End(1).Close()
		}
	}, watchdog)
	cres, sres = StateDTLCP(p.Cli, cerr), StateDTLCP(p.Srv, serr)
	cres.Panic, sres.Panic = cpan, span
	return
}
