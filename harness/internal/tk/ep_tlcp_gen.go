// Code generated from ep_stack.tpl by gen.sh; DO NOT EDIT.

package tk

import (
	"fmt"
	"strings"
	"sync"
	"time"

	"gitee.com/Trisia/gotlcp/tlcp"
)

func leafTLCP(l *Leaf) tlcp.Certificate {
	return tlcp.Certificate{Certificate: [][]byte{l.DER}, PrivateKey: l.Key, Leaf: l.Cert}
}

// CertsTLCP returns the key pairs named by ident.
func CertsTLCP(ident string) []tlcp.Certificate {
	p := GetPKI()
	switch ident {
	case "", "none":
		return nil
	case "srv":
		return []tlcp.Certificate{leafTLCP(p.SrvSig), leafTLCP(p.SrvEnc)}
	case "srv2":
		return []tlcp.Certificate{leafTLCP(p.Srv2Sig), leafTLCP(p.Srv2Enc)}
	case "cli":
		return []tlcp.Certificate{leafTLCP(p.CliSig), leafTLCP(p.CliEnc)}
	case "cli-sig":
		return []tlcp.Certificate{leafTLCP(p.CliSig)}
	case "untrusted":
		return []tlcp.Certificate{leafTLCP(p.UntrustedSig), leafTLCP(p.UntrustedEnc)}
	case "expired":
		return []tlcp.Certificate{leafTLCP(p.ExpiredSig), leafTLCP(p.ExpiredEnc)}
	case "future":
		return []tlcp.Certificate{leafTLCP(p.FutureSig), leafTLCP(p.FutureEnc)}
	case "mixed-ca":
		return []tlcp.Certificate{leafTLCP(p.SrvSig), leafTLCP(p.UntrustedEnc)}
	case "cli-untrusted":
		return []tlcp.Certificate{leafTLCP(p.CliUntrustedSig), leafTLCP(p.CliUntrustedEnc)}
	case "cli-expired":
		return []tlcp.Certificate{leafTLCP(p.CliExpiredSig), leafTLCP(p.CliEnc)}
	case "cli-wrongeku":
		return []tlcp.Certificate{leafTLCP(p.CliWrongEKUSig), leafTLCP(p.CliWrongEKUEnc)}
	case "rsa":
		return []tlcp.Certificate{leafTLCP(p.RSASig), leafTLCP(p.RSAEnc)}
	case "ed":
		return []tlcp.Certificate{leafTLCP(p.EdSig), leafTLCP(p.SrvEnc)}
	}
	panic("unknown ident " + ident)
}

// BuildTLCP turns a neutral description into a library configuration.
func BuildTLCP(e EPConfig, reg *Registry) *tlcp.Config {
	p := GetPKI()
	c := &tlcp.Config{
		Time:               func() time.Time { return e.Clock() },
		Certificates:       CertsTLCP(e.Ident),
		NextProtos:         copyStrings(e.ALPN),
		ServerName:         e.ServerName,
		InsecureSkipVerify: e.Insecure,
		CipherSuites:       copyU16(e.Suites),
		ClientAuth:         tlcp.ClientAuthType(e.Auth),
		MinVersion:         e.MinVersion,
		MaxVersion:         e.MaxVersion,
	}
	switch e.Roots {
	case "", "ca":
		c.RootCAs, c.ClientCAs = p.CA.Pool, p.CA.Pool
	case "other":
		c.RootCAs, c.ClientCAs = p.OtherCA.Pool, p.OtherCA.Pool
	case "rootcas-only": // trust store for the servers this endpoint connects to, none for client certificates
		c.RootCAs = p.CA.Pool
	case "none":
	}
	if e.RandSeed != 0 {
		c.Rand = NewDetRand(e.RandSeed)
	}
	if e.Cache != "" && reg != nil {
		m := reg.mapTLCP()
		sc, ok := m[e.Cache]
		if !ok {
			if strings.HasPrefix(e.Cache, "ptr:") {
				// a user-supplied cache that keeps the very object it is handed (the interface allows it)
				sc = &ptrCacheTLCP{m: map[string]*tlcp.SessionState{}}
			} else {
				sc = tlcp.NewLRUSessionCache(e.CacheCap)
			}
			m[e.Cache] = sc
		}
		c.SessionCache = sc.(tlcp.SessionCache)
	}
	certViaTLCP(c, e)
	extraTLCP(c, e)
	if e.Clone {
		c = c.Clone()
	}
	switch e.Via {
	case "clone":
		c = c.Clone()
	case "host-clone":
		// the virtual-hosting idiom: the listener's configuration only selects, every connection runs on a
		// clone of the real one handed out by GetConfigForClient
		inner := c
		outer := &tlcp.Config{Time: c.Time, Rand: c.Rand}
		extraTLCP(outer, e)
		outer.GetConfigForClient = func(*tlcp.ClientHelloInfo) (*tlcp.Config, error) { return inner.Clone(), nil }
		c = outer
	case "host-lax":
		// one host name is served by a configuration that asks for no client certificate; every other hello
		// gets no answer from the callback, i.e. the configuration itself
		lax := c.Clone()
		lax.ClientAuth = tlcp.NoClientCert
		c.GetConfigForClient = func(h *tlcp.ClientHelloInfo) (*tlcp.Config, error) {
			if h.ServerName == "lax.example" {
				return lax, nil
			}
			return nil, nil
		}
	}
	return c
}

// certViaTLCP moves key pairs from the Certificates list to the Get* callbacks: "cb" every pair,
// "mixed" the signing pair stays first in the list and the encryption pair comes from its callback.
// The callbacks answer as the list lookup would (client: only a pair the request's CA list admits).
func certViaTLCP(c *tlcp.Config, e EPConfig) {
	if e.CertVia == "" || len(c.Certificates) == 0 {
		return
	}
	all := c.Certificates
	keep := 0
	if e.CertVia == "mixed" {
		keep = 1
	}
	c.Certificates = all[:keep:keep]
	if keep == 0 {
		sig := all[0]
		c.GetCertificate = func(*tlcp.ClientHelloInfo) (*tlcp.Certificate, error) { return &sig, nil }
		c.GetClientCertificate = func(cri *tlcp.CertificateRequestInfo) (*tlcp.Certificate, error) {
			if cri.SupportsCertificate(&sig) == nil {
				return &sig, nil
			}
			return new(tlcp.Certificate), nil
		}
	}
	if len(all) > 1 {
		enc := all[1]
		c.GetKECertificate = func(*tlcp.ClientHelloInfo) (*tlcp.Certificate, error) { return &enc, nil }
		c.GetClientKECertificate = func(cri *tlcp.CertificateRequestInfo) (*tlcp.Certificate, error) {
			if cri.SupportsCertificate(&enc) == nil {
				return &enc, nil
			}
			return nil, fmt.Errorf("no acceptable encryption certificate")
		}
	}
}

// StateTLCP projects a connection's observable state.
func StateTLCP(c *tlcp.Conn, err error) EPResult {
	st := c.ConnectionState()
	r := EPResult{Err: ErrClass(err), Complete: st.HandshakeComplete, Version: st.Version, Suite: st.CipherSuite,
		ALPN: st.NegotiatedProtocol, Resumed: st.DidResume, ServerName: st.ServerName, VerifiedChains: len(st.VerifiedChains)}
	if err != nil {
		r.ErrText = err.Error()
	}
	for _, pc := range st.PeerCertificates {
		r.PeerCerts = append(r.PeerCerts, pc.Subject.CommonName)
		r.PeerDER = append(r.PeerDER, pc.Raw)
	}
	cf, sf := c.VerifFinished()
	r.ClientFinished, r.ServerFinished = cf, sf
	return r
}

// guardTLCP runs f, converting a panic into a result.
func guardTLCP(f func() error) (err error, pan string) {
	defer func() {
		if r := recover(); r != nil {
			pan = fmt.Sprint(r)
			err = fmt.Errorf("panic: %v", r)
		}
	}()
	return f(), ""
}

var _ = time.Second

// ptrCacheTLCP is a SessionCache written by a user of the library: it stores the pointer it is given.
type ptrCacheTLCP struct {
	mu sync.Mutex
	m  map[string]*tlcp.SessionState
}

func (c *ptrCacheTLCP) Get(k string) (*tlcp.SessionState, bool) {
	c.mu.Lock()
	defer c.mu.Unlock()
	s, ok := c.m[k]
	return s, ok && s != nil
}

func (c *ptrCacheTLCP) Put(k string, s *tlcp.SessionState) {
	c.mu.Lock()
	defer c.mu.Unlock()
	if s == nil {
		delete(c.m, k)
		return
	}
	c.m[k] = s
}
