package tk

import (
	"errors"
	"net"
	"sync"
	"time"
)

// SinkPC is a PacketConn that records what is written and has nothing to read.
type SinkPC struct {
	mu     sync.Mutex
	Out    [][]byte
	Inbox  [][]byte
	From   []net.Addr    // source address of Inbox[i] (nil or missing: Remote)
	Delay  time.Duration // wall-clock wait before each Inbox datagram is handed over
	Local  net.Addr
	Remote net.Addr
}

var ErrNoInput = errors.New("tk: no more input")

func NewSinkPC() *SinkPC {
	return &SinkPC{Local: vAddr("10.0.0.2:5000"), Remote: vAddr("10.0.0.1:4000")}
}

func (s *SinkPC) ReadFrom(p []byte) (int, net.Addr, error) {
	s.mu.Lock()
	defer s.mu.Unlock()
	if len(s.Inbox) == 0 {
		return 0, nil, ErrNoInput
	}
	d := s.Inbox[0]
	s.Inbox = s.Inbox[1:]
	if s.Delay > 0 {
		time.Sleep(s.Delay)
	}
	from := s.Remote
	if len(s.From) > 0 {
		if s.From[0] != nil {
			from = s.From[0]
		}
		s.From = s.From[1:]
	}
	return copy(p, d), from, nil
}
func (s *SinkPC) WriteTo(p []byte, a net.Addr) (int, error) {
	s.mu.Lock()
	s.Out = append(s.Out, append([]byte(nil), p...))
	s.mu.Unlock()
	return len(p), nil
}
func (s *SinkPC) Close() error                       { return nil }
func (s *SinkPC) LocalAddr() net.Addr                { return s.Local }
func (s *SinkPC) SetDeadline(t time.Time) error      { return nil }
func (s *SinkPC) SetReadDeadline(t time.Time) error  { return nil }
func (s *SinkPC) SetWriteDeadline(t time.Time) error { return nil }
