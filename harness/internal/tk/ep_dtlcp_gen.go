// Code generated from ep_stack.tpl by gen.sh; DO NOT EDIT.

package tk

import (
	"fmt"
	"strings"
	"sync"
	"time"

	"gitee.com/Trisia/gotlcp/dtlcp"
)

func leafDTLCP(l *Leaf) dtlcp.Certificate {
	return dtlcp.Certificate{Certificate: [][]byte{l.DER}, PrivateKey: l.Key, Leaf: l.Cert}
}

// CertsDTLCP returns the key pairs named by ident.
func CertsDTLCP(ident string) []dtlcp.Certificate {
	p := GetPKI()
	switch ident {
	case "", "none":
		return nil
	case "srv":
		return []dtlcp.Certificate{leafDTLCP(p.SrvSig), leafDTLCP(p.SrvEnc)}
	case "srv2":
		return []dtlcp.Certificate{leafDTLCP(p.Srv2Sig), leafDTLCP(p.Srv2Enc)}
	case "cli":
		return []dtlcp.Certificate{leafDTLCP(p.CliSig), leafDTLCP(p.CliEnc)}
	case "cli-sig":
		return []dtlcp.Certificate{leafDTLCP(p.CliSig)}
	case "untrusted":
		return []dtlcp.Certificate{leafDTLCP(p.UntrustedSig), leafDTLCP(p.UntrustedEnc)}
	case "expired":
		return []dtlcp.Certificate{leafDTLCP(p.ExpiredSig), leafDTLCP(p.ExpiredEnc)}
	case "future":
		return []dtlcp.Certificate{leafDTLCP(p.FutureSig), leafDTLCP(p.FutureEnc)}
	case "mixed-ca":
		return []dtlcp.Certificate{leafDTLCP(p.SrvSig), leafDTLCP(p.UntrustedEnc)}
	case "cli-untrusted":
		return []dtlcp.Certificate{leafDTLCP(p.CliUntrustedSig), leafDTLCP(p.CliUntrustedEnc)}
	case "cli-expired":
		return []dtlcp.Certificate{leafDTLCP(p.CliExpiredSig), leafDTLCP(p.CliEnc)}
	case "cli-wrongeku":
		return []dtlcp.Certificate{leafDTLCP(p.CliWrongEKUSig), leafDTLCP(p.CliWrongEKUEnc)}
	case "rsa":
		return []dtlcp.Certificate{leafDTLCP(p.RSASig), leafDTLCP(p.RSAEnc)}
	case "ed":
		return []dtlcp.Certificate{leafDTLCP(p.EdSig), leafDTLCP(p.SrvEnc)}
	}
	panic("unknown ident " + ident)
}

// BuildDTLCP turns a neutral description into a library configuration.
func BuildDTLCP(e EPConfig, reg *Registry) *dtlcp.Config {
	p := GetPKI()
	c := &dtlcp.Config{
		Time:               func() time.Time { return e.Clock() },
		Certificates:       CertsDTLCP(e.Ident),
		NextProtos:         copyStrings(e.ALPN),
		ServerName:         e.ServerName,
		InsecureSkipVerify: e.Insecure,
		CipherSuites:       copyU16(e.Suites),
		ClientAuth:         dtlcp.ClientAuthType(e.Auth),
		MinVersion:         e.MinVersion,
		MaxVersion:         e.MaxVersion,
	}
	switch e.Roots {
	case "", "ca":
		c.RootCAs, c.ClientCAs = p.CA.Pool, p.CA.Pool
	case "other":
		c.RootCAs, c.ClientCAs = p.OtherCA.Pool, p.OtherCA.Pool
	case "rootcas-only": // trust store for the servers this endpoint connects to, none for client certificates
		c.RootCAs = p.CA.Pool
	case "none":
	}
	if e.RandSeed != 0 {
		c.Rand = NewDetRand(e.RandSeed)
	}
	if e.Cache != "" && reg != nil {
		m := reg.mapDTLCP()
		sc, ok := m[e.Cache]
		if !ok {
			if strings.HasPrefix(e.Cache, "ptr:") {
				// a user-supplied cache that keeps the very object it is handed (the interface allows it)
				sc = &ptrCacheDTLCP{m: map[string]*dtlcp.SessionState{}}
			} else {
				sc = dtlcp.NewLRUSessionCache(e.CacheCap)
			}
			m[e.Cache] = sc
		}
		c.SessionCache = sc.(dtlcp.SessionCache)
	}
	certViaDTLCP(c, e)
	extraDTLCP(c, e)
	if e.Clone {
		c = c.Clone()
	}
	switch e.Via {
	case "clone":
		c = c.Clone()
	case "host-clone":
		// the virtual-hosting idiom: the listener's configuration only selects, every connection runs on a
		// clone of the real one handed out by GetConfigForClient
		inner := c
		outer := &dtlcp.Config{Time: c.Time, Rand: c.Rand}
		extraDTLCP(outer, e)
		outer.GetConfigForClient = func(*dtlcp.ClientHelloInfo) (*dtlcp.Config, error) { return inner.Clone(), nil }
		c = outer
	case "host-lax":
		// one host name is served by a configuration that asks for no client certificate; every other hello
		// gets no answer from the callback, i.e. the configuration itself
		lax := c.Clone()
		lax.ClientAuth = dtlcp.NoClientCert
		c.GetConfigForClient = func(h *dtlcp.ClientHelloInfo) (*dtlcp.Config, error) {
			if h.ServerName == "lax.example" {
				return lax, nil
			}
			return nil, nil
		}
	}
	return c
}

// certViaDTLCP moves key pairs from the Certificates list to the Get* callbacks: "cb" every pair,
// "mixed" the signing pair stays first in the list and the encryption pair comes from its callback.
// The callbacks answer as the list lookup would (client: only a pair the request's CA list admits).
func certViaDTLCP(c *dtlcp.Config, e EPConfig) {
	if e.CertVia == "" || len(c.Certificates) == 0 {
		return
	}
	all := c.Certificates
	keep := 0
	if e.CertVia == "mixed" {
		keep = 1
	}
	c.Certificates = all[:keep:keep]
	if keep == 0 {
		sig := all[0]
		c.GetCertificate = func(*dtlcp.ClientHelloInfo) (*dtlcp.Certificate, error) { return &sig, nil }
		c.GetClientCertificate = func(cri *dtlcp.CertificateRequestInfo) (*dtlcp.Certificate, error) {
			if cri.SupportsCertificate(&sig) == nil {
				return &sig, nil
			}
			return new(dtlcp.Certificate), nil
		}
	}
	if len(all) > 1 {
		enc := all[1]
		c.GetKECertificate = func(*dtlcp.ClientHelloInfo) (*dtlcp.Certificate, error) { return &enc, nil }
		c.GetClientKECertificate = func(cri *dtlcp.CertificateRequestInfo) (*dtlcp.Certificate, error) {
			if cri.SupportsCertificate(&enc) == nil {
				return &enc, nil
			}
			return nil, fmt.Errorf("no acceptable encryption certificate")
		}
	}
}

// StateDTLCP projects a connection's observable state.
func StateDTLCP(c *dtlcp.Conn, err error) EPResult {
	st := c.ConnectionState()
	r := EPResult{Err: ErrClass(err), Complete: st.HandshakeComplete, Version: st.Version, Suite: st.CipherSuite,
		ALPN: st.NegotiatedProtocol, Resumed: st.DidResume, ServerName: st.ServerName, VerifiedChains: len(st.VerifiedChains)}
	if err != nil {
		r.ErrText = err.Error()
	}
	for _, pc := range st.PeerCertificates {
		r.PeerCerts = append(r.PeerCerts, pc.Subject.CommonName)
		r.PeerDER = append(r.PeerDER, pc.Raw)
	}
	cf, sf := c.VerifFinished()
	r.ClientFinished, r.ServerFinished = cf, sf
	return r
}

// guardDTLCP runs f, converting a panic into a result.
func guardDTLCP(f func() error) (err error, pan string) {
	defer func() {
		if r := recover(); r != nil {
			pan = fmt.Sprint(r)
			err = fmt.Errorf("panic: %v", r)
		}
	}()
	return f(), ""
}

var _ = time.Second

// ptrCacheDTLCP is a SessionCache written by a user of the library: it stores the pointer it is given.
type ptrCacheDTLCP struct {
	mu sync.Mutex
	m  map[string]*dtlcp.SessionState
}

func (c *ptrCacheDTLCP) Get(k string) (*dtlcp.SessionState, bool) {
	c.mu.Lock()
	defer c.mu.Unlock()
	s, ok := c.m[k]
	return s, ok && s != nil
}

func (c *ptrCacheDTLCP) Put(k string, s *dtlcp.SessionState) {
	c.mu.Lock()
	defer c.mu.Unlock()
	if s == nil {
		delete(c.m, k)
		return
	}
	c.m[k] = s
}
