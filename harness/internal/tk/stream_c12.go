package tk

// Additions for the C12 harness (half-close and inspection of an in-memory stream end).

// Closed reports that Close was called on this end.
func (c *SConn) Closed() bool {
	c.In.mu.Lock()
	defer c.In.mu.Unlock()
	return c.In.rclosed
}

// Pending is the number of bytes readable by the receiver right now.
func (w *Wire) Pending() int {
	w.mu.Lock()
	defer w.mu.Unlock()
	return len(w.out)
}

// ReaderBlocked reports that the receiving endpoint is blocked in Read and will stay so until
// something is written: nothing is pending and neither direction of the wire was closed.
func (w *Wire) ReaderBlocked() bool {
	w.mu.Lock()
	defer w.mu.Unlock()
	return w.waiting && len(w.out) == 0 && !w.wclosed && !w.rclosed
}
