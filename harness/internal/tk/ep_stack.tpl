// Code generated from ep_stack.tpl by gen.sh; DO NOT EDIT.

package tk

import (
	"fmt"
	"strings"
	"sync"
	"time"

	"gitee.com/Trisia/gotlcp/STACK"
)

func leafSTACK(l *Leaf) STACK.Certificate {
	return STACK.Certificate{Certificate: [][]byte{l.DER}, PrivateKey: l.Key, Leaf: l.Cert}
}

// CertsSTACK returns the key pairs named by ident.
func CertsSTACK(ident string) []STACK.Certificate {
	p := GetPKI()
	switch ident {
	case "", "none":
		return nil
	case "srv":
		return []STACK.Certificate{leafSTACK(p.SrvSig), leafSTACK(p.SrvEnc)}
	case "srv2":
		return []STACK.Certificate{leafSTACK(p.Srv2Sig), leafSTACK(p.Srv2Enc)}
	case "cli":
		return []STACK.Certificate{leafSTACK(p.CliSig), leafSTACK(p.CliEnc)}
	case "cli-sig":
		return []STACK.Certificate{leafSTACK(p.CliSig)}
	case "untrusted":
		return []STACK.Certificate{leafSTACK(p.UntrustedSig), leafSTACK(p.UntrustedEnc)}
	case "expired":
		return []STACK.Certificate{leafSTACK(p.ExpiredSig), leafSTACK(p.ExpiredEnc)}
	case "future":
		return []STACK.Certificate{leafSTACK(p.FutureSig), leafSTACK(p.FutureEnc)}
	case "mixed-ca":
		return []STACK.Certificate{leafSTACK(p.SrvSig), leafSTACK(p.UntrustedEnc)}
	case "cli-untrusted":
		return []STACK.Certificate{leafSTACK(p.CliUntrustedSig), leafSTACK(p.CliUntrustedEnc)}
	case "cli-expired":
		return []STACK.Certificate{leafSTACK(p.CliExpiredSig), leafSTACK(p.CliEnc)}
	case "cli-wrongeku":
		return []STACK.Certificate{leafSTACK(p.CliWrongEKUSig), leafSTACK(p.CliWrongEKUEnc)}
	case "rsa":
		return []STACK.Certificate{leafSTACK(p.RSASig), leafSTACK(p.RSAEnc)}
	case "ed":
		return []STACK.Certificate{leafSTACK(p.EdSig), leafSTACK(p.SrvEnc)}
	}
	panic("unknown ident " + ident)
}

// BuildSTACK turns a neutral description into a library configuration.
func BuildSTACK(e EPConfig, reg *Registry) *STACK.Config {
	p := GetPKI()
	c := &STACK.Config{
		Time:               func() time.Time { return e.Clock() },
		Certificates:       CertsSTACK(e.Ident),
		NextProtos:         copyStrings(e.ALPN),
		ServerName:         e.ServerName,
		InsecureSkipVerify: e.Insecure,
		CipherSuites:       copyU16(e.Suites),
		ClientAuth:         STACK.ClientAuthType(e.Auth),
		MinVersion:         e.MinVersion,
		MaxVersion:         e.MaxVersion,
	}
	switch e.Roots {
	case "", "ca":
		c.RootCAs, c.ClientCAs = p.CA.Pool, p.CA.Pool
	case "other":
		c.RootCAs, c.ClientCAs = p.OtherCA.Pool, p.OtherCA.Pool
	case "rootcas-only": // trust store for the servers this endpoint connects to, none for client certificates
		c.RootCAs = p.CA.Pool
	case "none":
	}
	if e.RandSeed != 0 {
		c.Rand = NewDetRand(e.RandSeed)
	}
	if e.Cache != "" && reg != nil {
		m := reg.mapSTACK()
		sc, ok := m[e.Cache]
		if !ok {
			if strings.HasPrefix(e.Cache, "ptr:") {
				// a user-supplied cache that keeps the very object it is handed (the interface allows it)
				sc = &ptrCacheSTACK{m: map[string]*STACK.SessionState{}}
			} else {
				sc = STACK.NewLRUSessionCache(e.CacheCap)
			}
			m[e.Cache] = sc
		}
		c.SessionCache = sc.(STACK.SessionCache)
	}
	certViaSTACK(c, e)
	extraSTACK(c, e)
	if e.Clone {
		c = c.Clone()
	}
	switch e.Via {
	case "clone":
		c = c.Clone()
	case "host-clone":
		// the virtual-hosting idiom: the listener's configuration only selects, every connection runs on a
		// clone of the real one handed out by GetConfigForClient
		inner := c
		outer := &STACK.Config{Time: c.Time, Rand: c.Rand}
		extraSTACK(outer, e)
		outer.GetConfigForClient = func(*STACK.ClientHelloInfo) (*STACK.Config, error) { return inner.Clone(), nil }
		c = outer
	case "host-lax":
		// one host name is served by a configuration that asks for no client certificate; every other hello
		// gets no answer from the callback, i.e. the configuration itself
		lax := c.Clone()
		lax.ClientAuth = STACK.NoClientCert
		c.GetConfigForClient = func(h *STACK.ClientHelloInfo) (*STACK.Config, error) {
			if h.ServerName == "lax.example" {
				return lax, nil
			}
			return nil, nil
		}
	}
	return c
}

// certViaSTACK moves key pairs from the Certificates list to the Get* callbacks: "cb" every pair,
// "mixed" the signing pair stays first in the list and the encryption pair comes from its callback.
// The callbacks answer as the list lookup would (client: only a pair the request's CA list admits).
func certViaSTACK(c *STACK.Config, e EPConfig) {
	if e.CertVia == "" || len(c.Certificates) == 0 {
		return
	}
	all := c.Certificates
	keep := 0
	if e.CertVia == "mixed" {
		keep = 1
	}
	c.Certificates = all[:keep:keep]
	if keep == 0 {
		sig := all[0]
		c.GetCertificate = func(*STACK.ClientHelloInfo) (*STACK.Certificate, error) { return &sig, nil }
		c.GetClientCertificate = func(cri *STACK.CertificateRequestInfo) (*STACK.Certificate, error) {
			if cri.SupportsCertificate(&sig) == nil {
				return &sig, nil
			}
			return new(STACK.Certificate), nil
		}
	}
	if len(all) > 1 {
		enc := all[1]
		c.GetKECertificate = func(*STACK.ClientHelloInfo) (*STACK.Certificate, error) { return &enc, nil }
		c.GetClientKECertificate = func(cri *STACK.CertificateRequestInfo) (*STACK.Certificate, error) {
			if cri.SupportsCertificate(&enc) == nil {
				return &enc, nil
			}
			return nil, fmt.Errorf("no acceptable encryption certificate")
		}
	}
}

// StateSTACK projects a connection's observable state.
func StateSTACK(c *STACK.Conn, err error) EPResult {
	st := c.ConnectionState()
	r := EPResult{Err: ErrClass(err), Complete: st.HandshakeComplete, Version: st.Version, Suite: st.CipherSuite,
		ALPN: st.NegotiatedProtocol, Resumed: st.DidResume, ServerName: st.ServerName, VerifiedChains: len(st.VerifiedChains)}
	if err != nil {
		r.ErrText = err.Error()
	}
	for _, pc := range st.PeerCertificates {
		r.PeerCerts = append(r.PeerCerts, pc.Subject.CommonName)
		r.PeerDER = append(r.PeerDER, pc.Raw)
	}
	cf, sf := c.VerifFinished()
	r.ClientFinished, r.ServerFinished = cf, sf
	return r
}

// guardSTACK runs f, converting a panic into a result.
func guardSTACK(f func() error) (err error, pan string) {
	defer func() {
		if r := recover(); r != nil {
			pan = fmt.Sprint(r)
			err = fmt.Errorf("panic: %v", r)
		}
	}()
	return f(), ""
}

var _ = time.Second

// ptrCacheSTACK is a SessionCache written by a user of the library: it stores the pointer it is given.
type ptrCacheSTACK struct {
	mu sync.Mutex
	m  map[string]*STACK.SessionState
}

func (c *ptrCacheSTACK) Get(k string) (*STACK.SessionState, bool) {
	c.mu.Lock()
	defer c.mu.Unlock()
	s, ok := c.m[k]
	return s, ok && s != nil
}

func (c *ptrCacheSTACK) Put(k string, s *STACK.SessionState) {
	c.mu.Lock()
	defer c.mu.Unlock()
	if s == nil {
		delete(c.m, k)
		return
	}
	c.m[k] = s
}
