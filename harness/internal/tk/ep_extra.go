package tk

import (
	"time"

	"gitee.com/Trisia/gotlcp/dtlcp"
	"gitee.com/Trisia/gotlcp/tlcp"
)

func (r *Registry) mapTLCP() map[string]interface{}  { return r.T }
func (r *Registry) mapDTLCP() map[string]interface{} { return r.D }

func extraTLCP(c *tlcp.Config, e EPConfig) {
	c.DynamicRecordSizingDisabled = e.DynOff
}

func extraDTLCP(c *dtlcp.Config, e EPConfig) {
	c.PMTU = e.PMTU
	c.ReplayWindow = e.ReplayWindow
	c.CookieSecret = e.CookieSecret
	if e.RetransMs > 0 {
		c.InitialRetransmitTimeout = time.Duration(e.RetransMs) * time.Millisecond
	} else {
		c.InitialRetransmitTimeout = 100 * time.Millisecond
	}
	if e.MaxRetransMs > 0 {
		c.MaxRetransmitTimeout = time.Duration(e.MaxRetransMs) * time.Millisecond
	} else {
		c.MaxRetransmitTimeout = 1600 * time.Millisecond
	}
}
