// Package tk: shared toolkit of the correspondence harness (certificates, in-memory
// transports with a scripted middle, virtual-time datagram network, endpoint runners).
package tk

import (
	"crypto"
	"crypto/ecdsa"
	"crypto/ed25519"
	"crypto/elliptic"
	"crypto/rand"
	"crypto/rsa"
	"crypto/x509/pkix"
	"io"
	"math/big"
	"net"
	"sync"
	"time"

	"github.com/emmansun/gmsm/sm2"
	x509 "github.com/emmansun/gmsm/smx509"
)

// Now is the fixed clock every configuration uses.
func Now() time.Time { return time.Date(2025, 6, 1, 12, 0, 0, 0, time.UTC) }

// Leaf is a certificate with its key.
type Leaf struct {
	DER  []byte
	Cert *x509.Certificate
	Key  crypto.PrivateKey
}

// CA is a signing authority.
type CA struct {
	Cert *x509.Certificate
	Key  *sm2.PrivateKey
	Pool *x509.CertPool
}

type LeafOpt struct {
	CN        string
	DNS       []string
	NotBefore time.Time
	NotAfter  time.Time
	EKU       []x509.ExtKeyUsage
	Enc       bool   // encryption certificate (key usage)
	KeyType   string // "sm2" (default), "rsa", "ed25519", "p256"
}

// pkiRand is the randomness used for key generation and certificate signatures.  SeedPKI
// (called before the first GetPKI) makes the whole PKI a function of the seed, so that the
// byte positions of a stored replay input mean the same thing in a later process.
var pkiRand io.Reader = rand.Reader

type oneByteBlind struct{ d *DetRand }

// Read ignores the 1-byte probes of randutil.MaybeReadByte (they would make the stream depend
// on a coin flip) and otherwise reads the deterministic stream.
func (r oneByteBlind) Read(p []byte) (int, error) {
	if len(p) == 1 {
		p[0] = 0x5a
		return 1, nil
	}
	return r.d.Read(p)
}

// NewBlindRand is a deterministic Config.Rand whose output does not depend on MaybeReadByte.
func NewBlindRand(seed uint64) io.Reader { return oneByteBlind{NewDetRand(seed)} }

// SeedPKI makes GetPKI deterministic; it has no effect once the PKI exists.
func SeedPKI(seed uint64) { pkiRand = NewBlindRand(seed) }

var serial int64 = 100
var serialMu sync.Mutex

func nextSerial() *big.Int {
	serialMu.Lock()
	defer serialMu.Unlock()
	serial++
	return big.NewInt(serial)
}

func NewCA(cn string) *CA {
	key, err := sm2.GenerateKey(pkiRand)
	if err != nil {
		panic(err)
	}
	tpl := &x509.Certificate{
		SerialNumber:          nextSerial(),
		Subject:               pkix.Name{Country: []string{"CN"}, Organization: []string{"verif"}, CommonName: cn},
		NotBefore:             Now().AddDate(-1, 0, 0),
		NotAfter:              Now().AddDate(10, 0, 0),
		KeyUsage:              x509.KeyUsageCertSign | x509.KeyUsageCRLSign,
		BasicConstraintsValid: true,
		IsCA:                  true,
	}
	der, err := x509.CreateCertificate(pkiRand, tpl, tpl, &key.PublicKey, key)
	if err != nil {
		panic(err)
	}
	cert, err := x509.ParseCertificate(der)
	if err != nil {
		panic(err)
	}
	pool := x509.NewCertPool()
	pool.AddCert(cert)
	return &CA{Cert: cert, Key: key, Pool: pool}
}

func (ca *CA) Issue(o LeafOpt) *Leaf {
	var pub crypto.PublicKey
	var priv crypto.PrivateKey
	switch o.KeyType {
	case "rsa":
		k, err := rsa.GenerateKey(pkiRand, 2048)
		if err != nil {
			panic(err)
		}
		pub, priv = &k.PublicKey, k
	case "p256":
		k, err := ecdsa.GenerateKey(elliptic.P256(), rand.Reader)
		if err != nil {
			panic(err)
		}
		pub, priv = &k.PublicKey, k
	case "ed25519":
		p, k, err := ed25519.GenerateKey(pkiRand)
		if err != nil {
			panic(err)
		}
		pub, priv = p, k
	default:
		k, err := sm2.GenerateKey(pkiRand)
		if err != nil {
			panic(err)
		}
		pub, priv = &k.PublicKey, k
	}
	nb, na := o.NotBefore, o.NotAfter
	if nb.IsZero() {
		nb = Now().AddDate(0, -1, 0)
	}
	if na.IsZero() {
		na = Now().AddDate(5, 0, 0)
	}
	ku := x509.KeyUsageDigitalSignature
	if o.Enc {
		ku = x509.KeyUsageKeyEncipherment | x509.KeyUsageDataEncipherment | x509.KeyUsageKeyAgreement
	}
	eku := o.EKU
	if eku == nil {
		eku = []x509.ExtKeyUsage{x509.ExtKeyUsageServerAuth, x509.ExtKeyUsageClientAuth}
	}
	tpl := &x509.Certificate{
		SerialNumber: nextSerial(),
		Subject:      pkix.Name{Country: []string{"CN"}, Organization: []string{"verif"}, CommonName: o.CN},
		NotBefore:    nb,
		NotAfter:     na,
		KeyUsage:     ku,
		ExtKeyUsage:  eku,
		DNSNames:     o.DNS,
		IPAddresses:  []net.IP{net.IPv4(127, 0, 0, 1)},
	}
	der, err := x509.CreateCertificate(pkiRand, tpl, ca.Cert, pub, ca.Key)
	if err != nil {
		panic(err)
	}
	cert, err := x509.ParseCertificate(der)
	if err != nil {
		panic(err)
	}
	return &Leaf{DER: der, Cert: cert, Key: priv}
}

// PKI is the standard set of identities used by the harness.
type PKI struct {
	CA, OtherCA                *CA
	SrvSig, SrvEnc             *Leaf // server.test
	CliSig, CliEnc             *Leaf
	Srv2Sig, Srv2Enc           *Leaf // a second honest server identity (other.test), same CA
	UntrustedSig, UntrustedEnc *Leaf // issued by OtherCA
	ExpiredSig, ExpiredEnc     *Leaf
	FutureSig, FutureEnc       *Leaf
	CliUntrustedSig            *Leaf
	CliUntrustedEnc            *Leaf
	CliExpiredSig              *Leaf
	CliWrongEKUSig             *Leaf
	CliWrongEKUEnc             *Leaf
	RSASig, RSAEnc             *Leaf
	EdSig                      *Leaf
	EdEnc                      *Leaf
	P256Sig, P256Enc           *Leaf // NIST P-256 ECDSA keys (an *ecdsa.PublicKey that is not SM2)
}

var (
	pkiOnce sync.Once
	pki     *PKI
)

func GetPKI() *PKI {
	pkiOnce.Do(func() {
		ca, other := NewCA("verif-root"), NewCA("verif-other-root")
		srvDNS := []string{"server.test"}
		p := &PKI{CA: ca, OtherCA: other}
		p.SrvSig = ca.Issue(LeafOpt{CN: "srv-sig", DNS: srvDNS})
		p.SrvEnc = ca.Issue(LeafOpt{CN: "srv-enc", DNS: srvDNS, Enc: true})
		p.Srv2Sig = ca.Issue(LeafOpt{CN: "srv2-sig", DNS: []string{"other.test"}})
		p.Srv2Enc = ca.Issue(LeafOpt{CN: "srv2-enc", DNS: []string{"other.test"}, Enc: true})
		p.CliSig = ca.Issue(LeafOpt{CN: "cli-sig"})
		p.CliEnc = ca.Issue(LeafOpt{CN: "cli-enc", Enc: true})
		p.UntrustedSig = other.Issue(LeafOpt{CN: "u-sig", DNS: srvDNS})
		p.UntrustedEnc = other.Issue(LeafOpt{CN: "u-enc", DNS: srvDNS, Enc: true})
		p.ExpiredSig = ca.Issue(LeafOpt{CN: "x-sig", DNS: srvDNS, NotBefore: Now().AddDate(-3, 0, 0), NotAfter: Now().AddDate(-2, 0, 0)})
		p.ExpiredEnc = ca.Issue(LeafOpt{CN: "x-enc", DNS: srvDNS, Enc: true, NotBefore: Now().AddDate(-3, 0, 0), NotAfter: Now().AddDate(-2, 0, 0)})
		p.FutureSig = ca.Issue(LeafOpt{CN: "f-sig", DNS: srvDNS, NotBefore: Now().AddDate(1, 0, 0), NotAfter: Now().AddDate(2, 0, 0)})
		p.FutureEnc = ca.Issue(LeafOpt{CN: "f-enc", DNS: srvDNS, Enc: true, NotBefore: Now().AddDate(1, 0, 0), NotAfter: Now().AddDate(2, 0, 0)})
		p.CliUntrustedSig = other.Issue(LeafOpt{CN: "cu-sig"})
		p.CliUntrustedEnc = other.Issue(LeafOpt{CN: "cu-enc", Enc: true})
		p.CliExpiredSig = ca.Issue(LeafOpt{CN: "cx-sig", NotBefore: Now().AddDate(-3, 0, 0), NotAfter: Now().AddDate(-2, 0, 0)})
		p.CliWrongEKUSig = ca.Issue(LeafOpt{CN: "ce-sig", EKU: []x509.ExtKeyUsage{x509.ExtKeyUsageCodeSigning}})
		p.CliWrongEKUEnc = ca.Issue(LeafOpt{CN: "ce-enc", Enc: true, EKU: []x509.ExtKeyUsage{x509.ExtKeyUsageCodeSigning}})
		p.RSASig = ca.Issue(LeafOpt{CN: "rsa-sig", DNS: srvDNS, KeyType: "rsa"})
		p.RSAEnc = ca.Issue(LeafOpt{CN: "rsa-enc", DNS: srvDNS, KeyType: "rsa", Enc: true})
		p.EdSig = ca.Issue(LeafOpt{CN: "ed-sig", DNS: srvDNS, KeyType: "ed25519"})
		p.EdEnc = ca.Issue(LeafOpt{CN: "ed-enc", DNS: srvDNS, KeyType: "ed25519", Enc: true})
		p.P256Sig = ca.Issue(LeafOpt{CN: "p256-sig", DNS: srvDNS, KeyType: "p256"})
		p.P256Enc = ca.Issue(LeafOpt{CN: "p256-enc", DNS: srvDNS, KeyType: "p256", Enc: true})
		pki = p
	})
	return pki
}

var _ = ecdsa.PublicKey{}
