"""Per-property configuration of the generic driver (lib/vcheck.py)."""

PROPS = {
    "C11": dict(
        technique="Coq refinement proof (MRU list refines timestamp-LRU map, by simulation + induction over operation sequences) + vm_compute correspondence on the Go cache",
        level_text="Theorems over every operation sequence (capacity, no duplicate key, refinement of the timestamp-LRU specification) "
                   "proved in Coq on a hand-written model of lruSessionCache; the model and the specification are evaluated inside Coq on "
                   "operation sequences executed by both Go caches (results of every Get, aliasing / live-session damage counters).",
        level_note="Trusted: Coq kernel + vm_compute; the model is hand-written and tied to the code only by the correspondence "
                   "(generator quality bounds it); mutex atomicity is assumed for the sequential model.",
        code_names={1: "lookup-differs-from-LRU-spec", 2: "live-session-altered"},
        assumptions=[
            "each cache method is one atomic step (whole body under the cache mutex); concurrent histories are "
            "checked against the sequential specification by the harness, the Go scheduler is not modelled",
        ],
        trusted=["verif hook VerifNewSession / VerifMaster / VerifSessionID (tlcp, dtlcp)"],
    ),
}

PROPS["C16"] = dict(
    technique="Coq proof that the uint64 bitmap window (N model with explicit mod 2^64) refines a set-based window, by invariant + induction over delivery sequences; vm_compute correspondence on replayWindow via a hook",
    level_text="Theorems over every configured size and every delivery sequence (at most once, accept rule, window bounds, refinement of "
               "the set-based window) proved in Coq on a bit-faithful model of replayWindow.check; the model and an independent "
               "property-level scan are evaluated in Coq on decision sequences produced by the Go window.",
    level_note="Trusted: Coq kernel + vm_compute; hand-written model tied by correspondence; authenticity (INT-CTXT of SM4-GCM / "
               "HMAC-SM3+CBC) is an assumption of the connection-level statements.",
    code_names={1: "sequence-number-accepted-twice", 2: "in-window-first-arrival-refused"},
    assumptions=["sequence numbers are < 2^48 (header field width), so the unbounded-N model has no wrap the code lacks"],
    trusted=["verif hook VerifNewReplayWindow / Check (dtlcp)"],
)

PROPS["C17"] = dict(
    technique="Coq proofs on a byte-faithful model of fragmentBuffer (bitmask as bytes), the readHandshake fragment path and the sender split: coverage invariant, any-order reassembly, tiling; vm_compute correspondence at buffer, receiver, sender and handshake level",
    level_text="Theorems for every fragment set / order / overlap / duplication and every payload limit (complete iff covered, assembled = message, "
               "transcript form, overflow rejected, bounded pending state) proved in Coq; the model and an independent reference reassembler are "
               "evaluated in Coq on what the Go buffer, readHandshake, writeHandshakeRecord did; full handshakes are run with independent PMTU values.",
    level_note="Trusted: Coq kernel + vm_compute; hand-written model tied by correspondence; time-based stale-buffer cleanup and the record layer "
               "beneath readHandshake are not in this model (C15/C09 cover the record layer).",
    code_names={1: "complete-disagrees-with-coverage", 2: "assembled-differs-from-message", 3: "fragment-range-check-wrong",
                4: "reassembled-stream-differs-from-reference", 6: "sender-fragments-do-not-tile", 7: "handshake-record-exceeds-pmtu",
                8: "transcript-not-unfragmented-form", 9: "handshake-depends-on-pmtu", "panic": "panic"},
    assumptions=["fragments reach readHandshake as whole handshake fragments (record layer delivers handBuf bytes in order)"],
    trusted=["verif hooks VerifNewFragBuf, VerifReadHandshakes, VerifWriteHandshake (dtlcp)", "virtual-time network tk.VNet for the PMTU-pair runs"],
)

PROPS["C20"] = dict(
    technique="Coq proofs (conservation invariant by induction over reads, closed form of ReadFull over chunked transports) on a model of ProtocolDetectConn / detect; vm_compute correspondence through the public pa API",
    level_text="Theorems for every transport segmentation and every sequence of read-buffer sizes (routing by byte 1, transparency = nothing lost/duplicated/"
               "reordered, short stream is an error, progress) proved in Coq; the model and a stream-level predicate are evaluated in Coq on what "
               "pa.NewListener / ProtocolDetectConn did for all 256 version bytes, segmentations, early disconnects and configurations; real TLCP and TLS "
               "handshakes are run through the adapter and directly.",
    level_note="Trusted: Coq kernel + vm_compute; hand-written model tied by correspondence; crypto/tls and tlcp.Server behind the adapter are exercised, not modelled; "
               "the mutex in ProtocolSwitchServerConn belongs to C13.",
    code_names={1: "short-stream-not-an-error", 2: "error-on-complete-header", 3: "bytes-lost-or-altered", 4: "unexpected-read-error",
                5: "eof-before-all-bytes", 6: "wrong-route", 7: "handshake-through-adapter-fails", "hang": "hang"},
    assumptions=["the transport returns at most the requested bytes per Read and EOF at the end (net.Conn contract)"],
    trusted=["public API only: pa.NewListener, pa.ProtocolDetectConn, pa.ProtocolSwitchServerConn.ProtectedConn"],
)

PROPS["C18"] = dict(
    technique="Coq proofs of injectivity of the cookie input encoding and of the covered-field encoding, binding under an explicit HMAC-collision-freeness premise, loop invariant of the cookie exchange; correspondence recomputes every cookie with a Gallina SM3/HMAC",
    level_text="Theorems (encoding injective, binding to address/fields/secret, only HelloVerifyRequests and no key operation before a valid cookie, "
               "no amplification) proved in Coq; every cookie the Go code issues is recomputed bit for bit by an independent SM3/HMAC-SM3 written in "
               "Gallina from the standard; a real server is fed scripted ClientHello sequences under virtual time with instrumented private keys.",
    level_note="Trusted: Coq kernel + vm_compute; HMAC idealised as collision-free (explicit premise of C18_binding); hand-written model tied by correspondence; "
               "the default per-connection random secret is observed only through differing cookies.",
    code_names={1: "cookie-bytes-differ-from-HMAC-SM3-of-unambiguous-encoding", 2: "cookie-accepted-for-other-address-fields-secret-or-bytes",
                3: "valid-cookie-refused", 4: "covered-field-encoding-differs", 10: "not-exactly-one-response-before-valid-cookie",
                11: "response-before-valid-cookie-is-not-HelloVerifyRequest", 12: "HelloVerifyRequest-larger-than-request",
                13: "private-key-operation-before-valid-cookie", 14: "valid-cookie-answered-by-HelloVerifyRequest", 15: "HelloVerifyRequest-cookie-differs", "hang": "hang"},
    assumptions=["HMAC-SM3 behaves as a collision-free keyed function (C18_binding premise)"],
    trusted=["verif hooks VerifGenerateCookie, VerifVerifyCookie, VerifClientHello (dtlcp)", "tk.CountKey instrumented keys passed through the public Config", "Spec/SM3.v (validated on the GB/T 32905 vectors inside Coq)"],
)

PROPS["C15"] = dict(
    technique="Coq proofs (linear arithmetic with div/mod, induction over the splitting loop) on a Z model of maxPayloadSizeForWrite / record length / writeRecordLocked splitting; vm_compute correspondence on established DTLCP connections over the virtual-time network",
    level_text="Theorems for every PMTU, suite and payload size (one datagram within the maximum payload, every datagram within the path MTU, at most 16384 plaintext "
               "bytes, split in order) proved in Coq; the exact list of datagram sizes and of received pieces of every Write/WriteTo is compared with the model, and "
               "an MTU/boundary predicate independent of max_payload is evaluated on them and on the datagram sizes of every handshake.",
    level_note="Trusted: Coq kernel + vm_compute; hand-written model tied by correspondence. K3 (a buffered handshake flight leaves as one datagram) and K5 (empty WriteTo "
               "sends nothing) are known findings, proved as _refuted theorems on the model and reported as KNOWN-FINDING.",
    code_names={1: "fitting-payload-not-exactly-one-datagram", 2: "datagram-exceeds-pmtu", 3: "record-above-16384-plaintext", 4: "empty-payload-no-datagram",
                5: "payload-lost-altered-or-short-write", 6: "handshake-datagram-exceeds-pmtu", 7: "handshake-failed", 8: "unexpected-extra-datagram", "hang": "hang"},
    assumptions=["the PMTU admits one payload byte for the suite (min_pmtu)"],
    trusted=["tk.VNet virtual-time network (datagram sizes are what the library hands to PacketConn.WriteTo)"],
)

PROPS["C06"] = dict(
    technique="Coq proofs (induction over the splitting loop and the dynamic-record-size ramp, deframing invariant over arbitrarily chunked transports, prefix invariant of buffered reads) on a model of the tlcp application-data path; vm_compute correspondence predicting the exact record lengths on the wire",
    level_text="Theorems for every write-size list, transport segmentation and read-buffer list (stream identity, 16384-byte plaintext and 16384+2048 ciphertext bounds, "
               "ramp closed form) proved in Coq; the model must predict the exact sequence of record lengths on the wire (ramp, 128 KiB boost, both cipher modes) "
               "and of Read results of real TLCP connections; a property-level predicate (exact delivery, full write lengths, EOF after all data, size limits) is "
               "evaluated on the implementation's output.",
    level_note="Trusted: Coq kernel + vm_compute; hand-written model tied by correspondence; record protection is abstract here (C04 checks it against the standard, C05 its failure behaviour).",
    code_names={1: "stream-not-delivered-exactly", 2: "write-did-not-report-full-length", 3: "no-clean-eof-after-close", 4: "ciphertext-above-16384+2048",
                5: "plaintext-above-16384", 6: "bytes-lost-or-duplicated", "hang": "hang"},
    assumptions=["unmodified transport (every byte written arrives, in order)"],
    trusted=["tk.Wire in-memory stream with segmentation"],
)

PROPS["C02"] = dict(
    technique="Coq theorems over the client's authentication decision function (every completed handshake implies each oracle check) + correspondence: a puppet server written independently of the library plays the impostor catalogue; chain/name/signature verdicts recomputed by the harness with smx509/sm2",
    level_text="Theorems (completion implies two parsed certificates, both chains when verification is on, a present and valid key-exchange signature over this handshake's "
               "randoms and parameters, a correct Finished; still the two proofs of possession with verification off; re-validation on resumption) proved in Coq; every impostor "
               "of the catalogue x 4 suites x verification on/off x both stacks is played against the real client and the model's verdict, computed from independently "
               "obtained oracle answers, must equal the client's.",
    level_note="Trusted: Coq kernel + vm_compute; X.509 chain building / host-name matching and SM2 verification are oracles (smx509, sm2 called by the harness with the options "
               "the property prescribes); the puppet peer (harness/internal/puppet) and its own PRF / record protection; unforgeability of SM2 signatures and of the Finished PRF is "
               "what turns 'the check was evaluated and true' into 'the peer holds the keys'.",
    code_names={1: "completed-with-fewer-than-two-certificates", 2: "completed-without-chain-validity-name-verification", 3: "completed-without-signed-key-exchange",
                4: "completed-with-signature-not-valid-for-this-handshake", 5: "completed-with-wrong-Finished", 6: "refused-but-completion-reported-or-data-delivered",
                7: "resumed-session-whose-certificates-fail-now"},
    assumptions=["SM2 signatures and the PRF-based Finished cannot be produced without the private key / master secret"],
    trusted=["harness/internal/puppet (independent TLCP/DTLCP peer over gmsm primitives)", "smx509.Verify / sm2.VerifyASN1WithSM2 as oracles"],
)

PROPS["C07"] = dict(
    technique="Coq theorems over the server's client-authentication decision function against a declarative policy table + correspondence: a puppet client plays every behaviour under the six policies, full and resumed across configurations sharing a cache",
    level_text="Theorems (completion implies the policy table, both certificates for ECDHE, CertificateVerify valid whenever a certificate was sent; reported peer certificates imply "
               "the proof of possession, reported verified chains imply verification; a session is resumed only under a policy it satisfies) proved in Coq; 6 policies x behaviours x "
               "ECC/ECDHE x full/resumed x both stacks are played against the real server and compared with the model on independently computed oracle answers.",
    level_note="Trusted: Coq kernel + vm_compute; X.509 verification and SM2 verification are oracles computed by the harness; the puppet peer.",
    code_names={1: "completed-although-policy-not-satisfied", 2: "certificate-accepted-without-proof-of-possession", 3: "peer-certificates-reported-without-proof",
                4: "verified-chains-reported-without-verification", 5: "completed-with-wrong-Finished", 6: "resumed-under-a-policy-the-session-does-not-satisfy"},
    assumptions=["SM2 signatures cannot be produced without the private key"],
    trusted=["harness/internal/puppet", "smx509.Verify / sm2.VerifyASN1WithSM2 as oracles"],
)

PROPS["C01"] = dict(
    technique="Coq theorems on an executable model of the negotiation (offer, server choice, ALPN, versions, client-auth policy) against a declarative compatibility predicate + correspondence on real client/server pairs of both stacks",
    level_text="Theorems for every pair of configurations (suite = first common in the documented priority order; success iff compatible; ALPN specification; offer soundness) proved in Coq; "
               "generated configuration pairs (direct or cloned) are run as real handshakes of both stacks with data exchanged both ways, and the model as well as the declarative "
               "predicate are evaluated on the observed results of both sides (success/failure on both, suite, ALPN, version, resumption flag, peer certificates each side reports).",
    level_note="Trusted: Coq kernel + vm_compute; X.509 verdicts (server chain under the client's roots/name, client chain under the policy's options, issuer acceptability) are oracle inputs "
               "computed by the harness; Clone is checked by running through it (a dropped field shows as a disagreement).",
    code_names={1: "one-side-succeeded-other-failed", 2: "success-differs-from-compatibility", 3: "suite-not-first-common-in-priority-order", 4: "sides-report-different-parameters",
                5: "peer-certificates-not-what-the-other-presented", 6: "data-not-delivered-unchanged", 7: "alpn-not-per-specification"},
    assumptions=["reliable transport; both endpoints unmodified"],
    trusted=["smx509.Verify as oracle", "tk in-memory transports / virtual-time network"],
)

PROPS["C10"] = dict(
    technique="Coq invariant proofs over histories of connections on a model composing the proved LRU cache, the negotiation model and the resumption decisions + correspondence on random histories of real connections of both stacks",
    level_text="Theorems over every history (resume iff offered-held-enabled-policy, transparent fallback, failed session not re-offered, fresh identifiers, same identity, forged identifiers "
               "never resumed) proved in Coq by an invariant over event sequences; random histories (one client, three servers, cache loss, reconfiguration, forged identifiers, induced "
               "failures, capacities down to 1) are run with real connections and the model must predict for every connection the identifier offered, both resumption flags, both "
               "results and the new session.",
    level_note="Trusted: Coq kernel + vm_compute; session identifiers are numbered by order of creation (the 32 random bytes themselves are not modelled: freshness is relative to the RNG); "
               "fresh keys on resumption follow from fresh randoms under the cached master secret (C04 checks the derivation).",
    code_names={1: "ends-disagree-on-resumption-or-success", 2: "resumed-without-an-offered-session", 3: "failed-session-offered-again", 4: "session-identifier-reused",
                5: "no-transparent-fallback", 6: "session-from-a-failed-handshake-offered"},
    assumptions=["Config.Rand yields fresh identifiers"],
    trusted=["verif hook VerifNewSessionWithCerts (forged cache entries)", "smx509.Verify as oracle"],
)

PROPS["C08"] = dict(
    technique="Coq proof of language equality (automaton of the handshake code = the standard's flows, by an invariant over all event sequences, unbounded length) for client and server of both stacks + correspondence: a puppet peer that keeps its own transcript and keys consistent sends enumerated / mutated sequences to the real endpoints",
    level_text="Theorems: for every sequence of received records of any length the endpoint completes iff the sequence realises one of the standard's flows with valid contents and at most 16 "
               "consecutive warning alerts (client and server, ECC/ECDHE, full/resumed; datagram stack: with cookie rounds, tolerated retransmitted ClientHellos and silently dropped records); "
               "completion implies the received prefix is item for item a legal flow; no application data before completion; errors are final.  Legal flows, every single omission, "
               "duplication, transposition, insertion, invalid-content variant, the 16/17 warning boundary and a pruned enumeration from the initial state are played by the puppet peer "
               "against the real endpoints of both stacks and compared with the automaton and with the language.",
    level_note="Trusted: Coq kernel + vm_compute; the event abstraction (one record = one event; `ok` = the contents pass the receiver's checks, which C02/C07 analyse); the puppet peer. "
               "F12 (dtlcp decrypts an old-epoch record with the new keys before the epoch check, so a retransmitted epoch-0 record after ChangeCipherSpec kills the handshake) is a known finding.",
    code_names={1: "completed-on-an-order-the-standard-does-not-allow", 2: "refused-a-legal-flow", 3: "old-epoch-record-after-CCS-is-fatal", "hang": "hang"},
    assumptions=["handshake messages arrive whole in their own record (fragmentation is C14/C17's subject)"],
    trusted=["harness/internal/puppet", "verif hooks VerifClientHello / VerifGenerateCookie (valid cookies for the datagram server)"],
)

PROPS["C13"] = dict(
    technique="PARTIAL proof. A translator (tools/skel: go/ast + go/types) regenerates on every run, from tlcp/conn.go, dtlcp/conn.go, tlcp/session.go, "
              "pa/switch_server_conn.go and what they call, the lock / atomic / blocking-call / field-access skeleton of every exported method; generic Coq theorems "
              "over a small-step interleaving semantics of threads and non-reentrant mutexes (ordered locking => no lock cycle; lockset => no two conflicting accesses "
              "simultaneously enabled) are instantiated on that skeleton by vm_compute through decidable checkers proved sound; three small semantic models (write path, "
              "handshake latch, Close interlock); a stress harness built with the Go race detector whose observations are judged in Coq",
    level_text="PARTIAL (the Go memory model, the scheduler and the runtime below sync / sync/atomic are not modelled). Proved in Coq, for every number of goroutines and every "
               "interleaving of the machine: no lock cycle when locks are taken in rank order handshakeMutex < in < out < leaves, and the generated skeleton obeys that order "
               "(C13_lock_order); no two conflicting field accesses simultaneously enabled when they share a mutex, and the generated skeleton's accesses do, except the two "
               "documented exemptions (handshake phase vs. after observed completion; dtlcp remoteAddr) and the fields reported as findings (C13_lockset, "
               "C13_findings_are_exactly_the_failures); all transport writes of a Write happen in one critical section of the write-half mutex (C13_write_section) and under "
               "that shape the peer stream is a concatenation of whole payloads each exactly once in every interleaving (C13_writes_whole); all Handshake callers observe the "
               "latched result and the handshake function runs at most once (C13_handshake_same_result); the datagram Close touches no mutable state before its wait and no "
               "call is inside afterwards (C13_close_waits, C13_close_interlock). Observed on the real library under the race detector with GOMAXPROCS 1..16, seeds and injected "
               "yields: streams, Handshake results, stuck goroutines, interlock word, race reports - all judged by the Coq predicate.",
    level_note="NOT modelled / not proved: the Go memory model (that atomics and mutexes give the happens-before edges the handshake-phase exemption relies on), the scheduler "
               "(fairness, the busy-wait in dtlcp Close terminating), net / crypto / gmsm internals (their race freedom rests on the detector runs only), context cancellation "
               "in HandshakeContext. Trusted: the translator (that it reports every lock operation, atomic operation and field access of the listed files; linearisation of "
               "branches is exact only because every Lock is unconditional, which the checker enforces; recursion unrolled once; handshake code outside the four files is "
               "summarised as a de-duplicated event set), Coq kernel + vm_compute, the race detector, the harness. F16, F17, F21 are known findings (lockset failures, each "
               "confirmed by the race detector); F22 (deadline setters cancel the dtlcp handshake's retransmission timer) is a known finding of the stress harness.",
    code_names={1: "stream-not-whole-payloads-each-exactly-once", 2: "handshake-callers-disagree", 3: "goroutine-stuck-after-close", 4: "panic",
                5: "write-failed-or-short", 6: "datagram-close-returned-with-calls-inside", 7: "call-made-no-progress-until-close", 10: "data-race", 20: "field-accessed-without-common-lock",
                "crash": "crash", "hang": "hang"},
    assumptions=["Go's sync.Mutex and sync/atomic operations synchronise as the Go memory model says (used by the handshake-phase exemption)",
                 "a dtlcp connection is constructed with a non-nil remote address (remoteAddr exemption)",
                 "the translator's skeleton is faithful to the sources (trusted base)"],
    trusted=["tools/skel (Go AST -> Coq skeleton translator, stdlib go/ast go/parser go/types only)", "the Go race detector (go build -race) and GORACE report format",
             "verif hooks VerifActiveCall (tlcp, dtlcp), VerifNewSession / VerifMaster / VerifSessionID", "UDP over 127.0.0.1 for the datagram stack; tk.StreamPair for the stream stack"],
    race_binary=True,
    partial=True,
    not_modelled=["Go memory model", "goroutine scheduler / fairness", "runtime below sync and sync/atomic", "net, crypto, gmsm internals", "context cancellation path of HandshakeContext"],
)

NOT_YET = {}
