"""Per-property configuration of the generic driver (lib/vcheck.py)."""

PROPS = {
    "C11": dict(
        technique="Coq refinement proof (MRU list refines timestamp-LRU map, by simulation + induction over operation sequences) + vm_compute correspondence on the Go cache",
        level_text="Theorems over every operation sequence (capacity, no duplicate key, refinement of the timestamp-LRU specification) "
                   "proved in Coq on a hand-written model of lruSessionCache; the model and the specification are evaluated inside Coq on "
                   "operation sequences executed by both Go caches (results of every Get, aliasing / live-session damage counters).",
        level_note="Trusted: Coq kernel + vm_compute; the model is hand-written and tied to the code only by the correspondence "
                   "(generator quality bounds it); mutex atomicity is assumed for the sequential model.",
        code_names={1: "lookup-differs-from-LRU-spec", 2: "live-session-altered"},
        assumptions=[
            "each cache method is one atomic step (whole body under the cache mutex); concurrent histories are "
            "checked against the sequential specification by the harness, the Go scheduler is not modelled",
        ],
        trusted=["verif hook VerifNewSession / VerifMaster / VerifSessionID (tlcp, dtlcp)"],
    ),
}

PROPS["C16"] = dict(
    technique="Coq proof that the uint64 bitmap window (N model with explicit mod 2^64) refines a set-based window, by invariant + induction over delivery sequences; vm_compute correspondence on replayWindow via a hook",
    level_text="Theorems over every configured size and every delivery sequence (at most once, accept rule, window bounds, refinement of "
               "the set-based window) proved in Coq on a bit-faithful model of replayWindow.check; the model and an independent "
               "property-level scan are evaluated in Coq on decision sequences produced by the Go window.",
    level_note="Trusted: Coq kernel + vm_compute; hand-written model tied by correspondence; authenticity (INT-CTXT of SM4-GCM / "
               "HMAC-SM3+CBC) is an assumption of the connection-level statements.",
    code_names={1: "sequence-number-accepted-twice", 2: "in-window-first-arrival-refused"},
    assumptions=["sequence numbers are < 2^48 (header field width), so the unbounded-N model has no wrap the code lacks"],
    trusted=["verif hook VerifNewReplayWindow / Check (dtlcp)"],
)

PROPS["C17"] = dict(
    technique="Coq proofs on a byte-faithful model of fragmentBuffer (bitmask as bytes), the readHandshake fragment path and the sender split: coverage invariant, any-order reassembly, tiling; vm_compute correspondence at buffer, receiver, sender and handshake level",
    level_text="Theorems for every fragment set / order / overlap / duplication and every payload limit (complete iff covered, assembled = message, "
               "transcript form, overflow rejected, bounded pending state) proved in Coq; the model and an independent reference reassembler are "
               "evaluated in Coq on what the Go buffer, readHandshake, writeHandshakeRecord did; full handshakes are run with independent PMTU values.",
    level_note="Trusted: Coq kernel + vm_compute; hand-written model tied by correspondence; time-based stale-buffer cleanup and the record layer "
               "beneath readHandshake are not in this model (C15/C09 cover the record layer).",
    code_names={1: "complete-disagrees-with-coverage", 2: "assembled-differs-from-message", 3: "fragment-range-check-wrong",
                4: "reassembled-stream-differs-from-reference", 6: "sender-fragments-do-not-tile", 7: "handshake-record-exceeds-pmtu",
                8: "transcript-not-unfragmented-form", 9: "handshake-depends-on-pmtu", "panic": "panic"},
    assumptions=["fragments reach readHandshake as whole handshake fragments (record layer delivers handBuf bytes in order)"],
    trusted=["verif hooks VerifNewFragBuf, VerifReadHandshakes, VerifWriteHandshake (dtlcp)", "virtual-time network tk.VNet for the PMTU-pair runs"],
)

PROPS["C20"] = dict(
    technique="Coq proofs (conservation invariant by induction over reads, closed form of ReadFull over chunked transports) on a model of ProtocolDetectConn / detect; vm_compute correspondence through the public pa API",
    level_text="Theorems for every transport segmentation and every sequence of read-buffer sizes (routing by byte 1, transparency = nothing lost/duplicated/"
               "reordered, short stream is an error, progress) proved in Coq; the model and a stream-level predicate are evaluated in Coq on what "
               "pa.NewListener / ProtocolDetectConn did for all 256 version bytes, segmentations, early disconnects and configurations; real TLCP and TLS "
               "handshakes are run through the adapter and directly.",
    level_note="Trusted: Coq kernel + vm_compute; hand-written model tied by correspondence; crypto/tls and tlcp.Server behind the adapter are exercised, not modelled; "
               "the mutex in ProtocolSwitchServerConn belongs to C13.",
    code_names={1: "short-stream-not-an-error", 2: "error-on-complete-header", 3: "bytes-lost-or-altered", 4: "unexpected-read-error",
                5: "eof-before-all-bytes", 6: "wrong-route", 7: "handshake-through-adapter-fails", "hang": "hang"},
    assumptions=["the transport returns at most the requested bytes per Read and EOF at the end (net.Conn contract)"],
    trusted=["public API only: pa.NewListener, pa.ProtocolDetectConn, pa.ProtocolSwitchServerConn.ProtectedConn"],
)

PROPS["C18"] = dict(
    technique="Coq proofs of injectivity of the cookie input encoding and of the covered-field encoding, binding under an explicit HMAC-collision-freeness premise, loop invariant of the cookie exchange; correspondence recomputes every cookie with a Gallina SM3/HMAC",
    level_text="Theorems (encoding injective, binding to address/fields/secret, only HelloVerifyRequests and no key operation before a valid cookie, "
               "no amplification) proved in Coq; every cookie the Go code issues is recomputed bit for bit by an independent SM3/HMAC-SM3 written in "
               "Gallina from the standard; a real server is fed scripted ClientHello sequences under virtual time with instrumented private keys.",
    level_note="Trusted: Coq kernel + vm_compute; HMAC idealised as collision-free (explicit premise of C18_binding); hand-written model tied by correspondence; "
               "the default per-connection random secret is observed only through differing cookies.",
    code_names={1: "cookie-bytes-differ-from-HMAC-SM3-of-unambiguous-encoding", 2: "cookie-accepted-for-other-address-fields-secret-or-bytes",
                3: "valid-cookie-refused", 4: "covered-field-encoding-differs", 10: "not-exactly-one-response-before-valid-cookie",
                11: "response-before-valid-cookie-is-not-HelloVerifyRequest", 12: "HelloVerifyRequest-larger-than-request",
                13: "private-key-operation-before-valid-cookie", 14: "valid-cookie-answered-by-HelloVerifyRequest", 15: "HelloVerifyRequest-cookie-differs", "hang": "hang"},
    assumptions=["HMAC-SM3 behaves as a collision-free keyed function (C18_binding premise)"],
    trusted=["verif hooks VerifGenerateCookie, VerifVerifyCookie, VerifClientHello (dtlcp)", "tk.CountKey instrumented keys passed through the public Config", "Spec/SM3.v (validated on the GB/T 32905 vectors inside Coq)"],
)

PROPS["C15"] = dict(
    technique="Coq proofs (linear arithmetic with div/mod, induction over the splitting loop) on a Z model of maxPayloadSizeForWrite / record length / writeRecordLocked splitting; vm_compute correspondence on established DTLCP connections over the virtual-time network",
    level_text="Theorems for every PMTU, suite and payload size (one datagram within the maximum payload, every datagram within the path MTU, at most 16384 plaintext "
               "bytes, split in order) proved in Coq; the exact list of datagram sizes and of received pieces of every Write/WriteTo is compared with the model, and "
               "an MTU/boundary predicate independent of max_payload is evaluated on them and on the datagram sizes of every handshake.",
    level_note="Trusted: Coq kernel + vm_compute; hand-written model tied by correspondence. K3 (a buffered handshake flight leaves as one datagram) and K5 (empty WriteTo "
               "sends nothing) are known findings, proved as _refuted theorems on the model and reported as KNOWN-FINDING.",
    code_names={1: "fitting-payload-not-exactly-one-datagram", 2: "datagram-exceeds-pmtu", 3: "record-above-16384-plaintext", 4: "empty-payload-no-datagram",
                5: "payload-lost-altered-or-short-write", 6: "handshake-datagram-exceeds-pmtu", 7: "handshake-failed", 8: "unexpected-extra-datagram", "hang": "hang"},
    assumptions=["the PMTU admits one payload byte for the suite (min_pmtu)"],
    trusted=["tk.VNet virtual-time network (datagram sizes are what the library hands to PacketConn.WriteTo)"],
)

PROPS["C06"] = dict(
    technique="Coq proofs (induction over the splitting loop and the dynamic-record-size ramp, deframing invariant over arbitrarily chunked transports, prefix invariant of buffered reads) on a model of the tlcp application-data path; vm_compute correspondence predicting the exact record lengths on the wire",
    level_text="Theorems for every write-size list, transport segmentation and read-buffer list (stream identity, 16384-byte plaintext and 16384+2048 ciphertext bounds, "
               "ramp closed form) proved in Coq; the model must predict the exact sequence of record lengths on the wire (ramp, 128 KiB boost, both cipher modes) "
               "and of Read results of real TLCP connections; a property-level predicate (exact delivery, full write lengths, EOF after all data, size limits) is "
               "evaluated on the implementation's output.",
    level_note="Trusted: Coq kernel + vm_compute; hand-written model tied by correspondence; record protection is abstract here (C04 checks it against the standard, C05 its failure behaviour).",
    code_names={1: "stream-not-delivered-exactly", 2: "write-did-not-report-full-length", 3: "no-clean-eof-after-close", 4: "ciphertext-above-16384+2048",
                5: "plaintext-above-16384", 6: "bytes-lost-or-duplicated", "hang": "hang"},
    assumptions=["unmodified transport (every byte written arrives, in order)"],
    trusted=["tk.Wire in-memory stream with segmentation"],
)

PROPS["C02"] = dict(
    technique="Coq theorems over the client's authentication decision function (every completed handshake implies each oracle check) + correspondence: a puppet server written independently of the library plays the impostor catalogue; chain/name/signature verdicts recomputed by the harness with smx509/sm2",
    level_text="Theorems (completion implies two parsed certificates, both chains when verification is on, a present and valid key-exchange signature over this handshake's "
               "randoms and parameters, a correct Finished; still the two proofs of possession with verification off; re-validation on resumption) proved in Coq; every impostor "
               "of the catalogue x 4 suites x verification on/off x both stacks is played against the real client and the model's verdict, computed from independently "
               "obtained oracle answers, must equal the client's.",
    level_note="Trusted: Coq kernel + vm_compute; X.509 chain building / host-name matching and SM2 verification are oracles (smx509, sm2 called by the harness with the options "
               "the property prescribes); the puppet peer (harness/internal/puppet) and its own PRF / record protection; unforgeability of SM2 signatures and of the Finished PRF is "
               "what turns 'the check was evaluated and true' into 'the peer holds the keys'.",
    code_names={1: "completed-with-fewer-than-two-certificates", 2: "completed-without-chain-validity-name-verification", 3: "completed-without-signed-key-exchange",
                4: "completed-with-signature-not-valid-for-this-handshake", 5: "completed-with-wrong-Finished", 6: "refused-but-completion-reported-or-data-delivered",
                7: "resumed-session-whose-certificates-fail-now"},
    assumptions=["SM2 signatures and the PRF-based Finished cannot be produced without the private key / master secret"],
    trusted=["harness/internal/puppet (independent TLCP/DTLCP peer over gmsm primitives)", "smx509.Verify / sm2.VerifyASN1WithSM2 as oracles"],
)

PROPS["C07"] = dict(
    technique="Coq theorems over the server's client-authentication decision function against a declarative policy table + correspondence: a puppet client plays every behaviour under the six policies, full and resumed across configurations sharing a cache",
    level_text="Theorems (completion implies the policy table, both certificates for ECDHE, CertificateVerify valid whenever a certificate was sent; reported peer certificates imply "
               "the proof of possession, reported verified chains imply verification; a session is resumed only under a policy it satisfies) proved in Coq; 6 policies x behaviours x "
               "ECC/ECDHE x full/resumed x both stacks are played against the real server and compared with the model on independently computed oracle answers.",
    level_note="Trusted: Coq kernel + vm_compute; X.509 verification and SM2 verification are oracles computed by the harness; the puppet peer.",
    code_names={1: "completed-although-policy-not-satisfied", 2: "certificate-accepted-without-proof-of-possession", 3: "peer-certificates-reported-without-proof",
                4: "verified-chains-reported-without-verification", 5: "completed-with-wrong-Finished", 6: "resumed-under-a-policy-the-session-does-not-satisfy"},
    assumptions=["SM2 signatures cannot be produced without the private key"],
    trusted=["harness/internal/puppet", "smx509.Verify / sm2.VerifyASN1WithSM2 as oracles"],
)

PROPS["C01"] = dict(
    technique="Coq theorems on an executable model of the negotiation (offer, server choice, ALPN, versions, client-auth policy) against a declarative compatibility predicate + correspondence on real client/server pairs of both stacks",
    level_text="Theorems for every pair of configurations (suite = first common in the documented priority order; success iff compatible; ALPN specification; offer soundness) proved in Coq; "
               "generated configuration pairs (direct or cloned) are run as real handshakes of both stacks with data exchanged both ways, and the model as well as the declarative "
               "predicate are evaluated on the observed results of both sides (success/failure on both, suite, ALPN, version, resumption flag, peer certificates each side reports).",
    level_note="Trusted: Coq kernel + vm_compute; X.509 verdicts (server chain under the client's roots/name, client chain under the policy's options, issuer acceptability) are oracle inputs "
               "computed by the harness; Clone is checked by running through it (a dropped field shows as a disagreement).",
    code_names={1: "one-side-succeeded-other-failed", 2: "success-differs-from-compatibility", 3: "suite-not-first-common-in-priority-order", 4: "sides-report-different-parameters",
                5: "peer-certificates-not-what-the-other-presented", 6: "data-not-delivered-unchanged", 7: "alpn-not-per-specification"},
    assumptions=["reliable transport; both endpoints unmodified"],
    trusted=["smx509.Verify as oracle", "tk in-memory transports / virtual-time network"],
)

PROPS["C10"] = dict(
    technique="Coq invariant proofs over histories of connections on a model composing the proved LRU cache, the negotiation model and the resumption decisions + correspondence on random histories of real connections of both stacks",
    level_text="Theorems over every history (resume iff offered-held-enabled-policy, transparent fallback, failed session not re-offered, fresh identifiers, same identity, forged identifiers "
               "never resumed) proved in Coq by an invariant over event sequences; random histories (one client, three servers, cache loss, reconfiguration, forged identifiers, induced "
               "failures, capacities down to 1) are run with real connections and the model must predict for every connection the identifier offered, both resumption flags, both "
               "results and the new session.",
    level_note="Trusted: Coq kernel + vm_compute; session identifiers are numbered by order of creation (the 32 random bytes themselves are not modelled: freshness is relative to the RNG); "
               "fresh keys on resumption follow from fresh randoms under the cached master secret (C04 checks the derivation).",
    code_names={1: "ends-disagree-on-resumption-or-success", 2: "resumed-without-an-offered-session", 3: "failed-session-offered-again", 4: "session-identifier-reused",
                5: "no-transparent-fallback", 6: "session-from-a-failed-handshake-offered"},
    assumptions=["Config.Rand yields fresh identifiers"],
    trusted=["verif hook VerifNewSessionWithCerts (forged cache entries)", "smx509.Verify as oracle"],
)

PROPS["C08"] = dict(
    technique="Coq proof of language equality (automaton of the handshake code = the standard's flows, by an invariant over all event sequences, unbounded length) for client and server of both stacks + correspondence: a puppet peer that keeps its own transcript and keys consistent sends enumerated / mutated sequences to the real endpoints",
    level_text="Theorems: for every sequence of received records of any length the endpoint completes iff the sequence realises one of the standard's flows with valid contents and at most 16 "
               "consecutive warning alerts (client and server, ECC/ECDHE, full/resumed; datagram stack: with cookie rounds, tolerated retransmitted ClientHellos and silently dropped records); "
               "completion implies the received prefix is item for item a legal flow; no application data before completion; errors are final.  Legal flows, every single omission, "
               "duplication, transposition, insertion, invalid-content variant, the 16/17 warning boundary and a pruned enumeration from the initial state are played by the puppet peer "
               "against the real endpoints of both stacks and compared with the automaton and with the language.",
    level_note="Trusted: Coq kernel + vm_compute; the event abstraction (one record = one event; `ok` = the contents pass the receiver's checks, which C02/C07 analyse); the puppet peer. "
               "Datagram stack: the language is the standard's flows modulo the records a datagram endpoint must drop to survive loss and reordering (C19): records of another epoch / replayed, "
               "a ChangeCipherSpec it cannot use yet, handshake records while the ChangeCipherSpec is awaited, retransmitted ClientHellos; theorem dclient/dserver_refines_stream ties every completion "
               "back to a sequence the stream automaton accepts.  In the harness a ChangeCipherSpec event that the target is not waiting for is sent without the puppet changing its write epoch (the event is "
               "'a CCS of the current epoch arrives').  F12 (old-epoch record after the ChangeCipherSpec was fatal) is fixed (73e5128).",
    code_names={1: "completed-on-an-order-the-standard-does-not-allow", 2: "refused-a-legal-flow", 3: "old-epoch-record-after-CCS-is-fatal", "hang": "hang"},
    assumptions=["handshake messages arrive whole in their own record (fragmentation is C14/C17's subject)"],
    trusted=["harness/internal/puppet", "verif hooks VerifClientHello / VerifGenerateCookie (valid cookies for the datagram server)"],
)

PROPS["C05"] = dict(
    technique="Coq proofs (induction over the attacked byte stream with concrete framing and idealised authenticated decryption; latch invariant over Read calls; case analysis of the CBC opening) + correspondence: a puppet peer seals records under the connection key, the stream is attacked, the real endpoint reads",
    level_text="Theorems for every byte stream an attacker can deliver (delivered = payloads of the intact in-order genuine prefix; nothing of a damaged / replayed / reordered / truncated / "
               "injected record; error latched; single CBC alert) proved in Coq; flips at header and body positions, drop, duplicate, swap, truncation at and inside boundaries, injected "
               "records of every content type, genuine non-application records and the 16/17 ignored-record boundary are run against real TLCP endpoints in both modes and directions, "
               "and the model must predict delivered bytes, the ending (EOF / unexpected EOF / which alert) and the latched second read.",
    level_note="Trusted: Coq kernel + vm_compute; INT-CTXT idealisation of SM4-GCM and HMAC-SM3-then-CBC with the sequence number authenticated (C04 checks the construction); the puppet peer.",
    code_names={1: "delivered-bytes-outside-intact-prefix", 2: "error-not-latched", 3: "intact-prefix-not-fully-delivered", 4: "cbc-damage-answered-by-other-alert", "hang": "hang"},
    assumptions=["authenticated decryption rejects every record that is not byte-identical to the one sealed with the expected sequence number"],
    trusted=["harness/internal/puppet (seals records with its own SM4-GCM / CBC+HMAC-SM3)", "Config.OnAlert to observe alert codes"],
)

PROPS["C04"] = dict(
    technique="Independent Gallina specification written from the standards (SM3/HMAC-SM3, PRF and key block of GB/T 38636 6.5, SM4 of GB/T 32907, CBC, GCM, record protection for the 5-byte and the 13-byte header) with Coq proofs about the specification itself (key-block partition, direction views, SM4/CBC/GCM/record round trips, injectivity of the authenticated string, nonce uniqueness, the constant-time padding check equals the declarative one); correspondence = captured connections of the real stacks re-derived bit for bit inside Coq with vm_compute",
    level_text="Theorems about the specification (six key-block slices contiguous/disjoint/in order, client write = server read, sm4_decrypt after sm4_encrypt is the identity for every key and block, "
               "CBC and record round trips for both modes and both header forms, MAC input and AAD determine sequence number/epoch, type, version, length, GCM nonces never repeat for distinct "
               "sequence numbers, Go's extractPadding bit arithmetic equals 'last p+1 bytes equal p') proved in Coq; for every captured connection (4 suites x full/resumed x client "
               "authentication x TLCP/DTLCP, random application writes both ways) Coq derives the master secret from the pre-master secret and the hello randoms, cuts the key block, opens every "
               "protected wire record of each direction under that direction's key and sequence number, recomputes both Finished values from the SM3 transcript, and compares plaintexts, "
               "master secrets of both session caches and per-record nonces/IVs.",
    level_note="Trusted: Coq kernel + vm_compute; the specification (Spec/SM3, SM4, Modes, PRF, RecordProt) is a hand-written reading of the standards, validated inside Coq on the GB/T 32905 and GB/T 32907 "
               "vectors and on CBC/GCM vectors produced once with gmsm. ECC suites: the pre-master secret is obtained by decrypting the captured ClientKeyExchange with the server's encryption key "
               "using gmsm (SM2 decryption trusted). ECDHE suites: the master secret is taken from the session caches (SM2 key agreement trusted) and everything downstream is checked. "
               "DTLCP abbreviated handshakes used to fail at the client (finding F19, fixed); if that ever returns the capture reports it as abbreviated-handshake-fails. "
               "F18 (DTLCP writeSeq is a 64-bit counter written as 48 bits without a wrap check: nonce reuse after 2^48 records of one epoch) is outside the reachable captures and is not demonstrated; "
               "C04_gcm_nonce_unique states the 2^48 bound it violates.",
    code_names={1: "master-secret-differs", 2: "client-to-server-record-does-not-open-under-client-write-keys",
                3: "server-to-client-record-does-not-open-under-server-write-keys", 4: "client-finished-differs", 5: "server-finished-differs",
                6: "application-plaintext-differs", 7: "nonce-or-explicit-iv-repeated-under-one-key",
                8: "sequence-number-or-epoch-not-authenticated-as-specified", 9: "pre-master-secret-malformed",
                11: "record-version-or-type-unexpected", 12: "explicit-iv-is-not-the-next-config-rand-output",
                20: "unknown-suite", 21: "capture-malformed"},
    assumptions=["SM2 decryption of the ClientKeyExchange (ECC suites) and the SM2 key agreement (ECDHE suites) are outside the specification: the pre-master secret resp. the master secret is an input",
                 "round-trip theorems assume well-formed inputs (byte values below 256, 16-byte CBC IV / 8-byte explicit nonce, header fields within their widths, plaintext at most 2^14+2048 bytes)"],
    trusted=["verif hooks SessionState.VerifMaster / VerifSessionID, Conn.VerifFinished (tlcp, dtlcp)", "gmsm sm2.PrivateKey.Decrypt for the pre-master secret",
             "tk.Wire record tap / tk.VNet datagram tap, tk.DetRand as Config.Rand",
             "Spec/SM3.v, Spec/SM4.v, Spec/Modes.v (validated on standard / gmsm vectors inside Coq)"],
)


NOT_YET = {}

PROPS["C14"] = dict(
    technique="Coq proofs on byte-faithful models of all twenty marshal/unmarshal pairs (cryptobyte readers as option functions, hand-indexed decoders index by index with an explicit Panic result): generic inverse lemmas for u8/u16/u24 scalars and length-prefixed vectors, then per message decode-encode, encode-decode on canonical input, strictness against an independent length walk, and no-Panic; vm_compute correspondence through add-only hooks",
    level_text="Theorems for every field value within the vector ranges, every byte string, both header forms and all ten message types (decode after encode returns the fields; "
               "canonical input re-encodes to itself; accepted framed input is strictly tiled; no decoder can index out of range) proved in Coq; the models, the "
               "independent strict walker and the canonical parsers are evaluated in Coq on what the Go marshal/unmarshal did for random well-formed fields incl. empty and "
               "maximal vectors and every extension, all short truncations, sampled (thorough: all) truncations and single-byte mutations, re-framed insertions/deletions, "
               "arbitrary bytes, hand-made non-canonical hellos, and every handshake message captured from real handshakes of both stacks.",
    level_note="Trusted: Coq kernel + vm_compute; hand-written models tied by correspondence (every case compares accept/reject, all decoded fields, and the re-marshalled bytes); "
               "the raw cache is bypassed (cleared by the hook); Go slicing up to cap() is modelled as slicing up to len() (stricter); 24-bit vectors are exercised up to ~70 kB, not 16 MB; "
               "strictness holds under the framing readHandshake guarantees, most decoders do not check the header themselves (K7, K8).",
    code_names={1: "roundtrip-lost-or-changed-a-field", 2: "canonical-input-reencodes-differently",
                3: "framed-input-accepted-with-trailing-bytes-or-inner-length-disagreement", 4: "panic",
                5: "accepted-although-header-length-disagrees-with-size", 6: "accepted-although-fragment-fields-not-whole-message",
                7: "emitted-handshake-message-rejected", 8: "never-emitted-form-without-ignored-parts-reencodes-differently",
                9: "clientHello-supported-groups-or-signature-algorithms-reduced-to-last-value"},
    assumptions=["unmarshal is called on one whole handshake message as readHandshake frames it (length field = size - header; dtlcp: fragment_offset 0, fragment_length = length); "
                 "what the decoders do outside that framing is modelled and reported (K7, K8), not assumed away",
                 "messages are shorter than 4 GB (the Go code compares uint32 truncations of len(data))"],
    trusted=["verif hooks VerifMarshalX / VerifUnmarshalX for the ten message types (tlcp/verif_hooks_c14.go, dtlcp/verif_hooks_c14.go)",
             "tk.NewTPair / tk.NewDPair + record splitting in the harness for the captured handshake messages"],
)

PROPS["C09"] = dict(
    technique="Coq proofs on byte-faithful models: no-Panic for the key-exchange body parsers and the certificate-list indexing (every Go index / slice / nil dereference an explicit Panic result, oracles for gmsm), "
              "invariants by induction over arbitrary record / datagram sequences for state machines of the input side of tlcp/conn.go and dtlcp/conn.go whose state carries the buffer sizes "
              "(for every handshake layer, record protection, replay verdict), progress measures; refutation theorems where the datagram stack violates the property; "
              "vm_compute correspondence through add-only hooks, scripted record traces and puppet-driven endpoint scenarios under watchdog + recover()",
    level_text="Theorems for every byte string, every answer of the cryptographic library, every handshake layer and every record / datagram sequence: the parsers never reach an out-of-range index; "
               "stream stack: c.hand <= 81923 bytes (65539 while waiting, 16384 after completion), rawInput <= one maximal record + one transport read, at most 16 consecutive non-advancing records, "
               "every loop iteration consumes input; datagram stack: retryCount / fragmentReads limits, size of every reassembly buffer, progress, no handBuf growth after completion, and three refuted bounds "
               "(findings K9, K10, K11).  The parser models are evaluated in Coq on the bodies the Go parsers were called with (class of the result and what reached gmsm must agree), the machines on scripted "
               "record sequences against real endpoints at five handshake states (buffer sizes after every step must agree), and the bound predicates on the maxima observed in puppet-driven scenarios "
               "(malformed message at every state, floods, garbage, foreign key types; both roles, both stacks).",
    level_note="Trusted: Coq kernel + vm_compute; hand-written models tied by correspondence; X.509 / ASN.1 parsing and gmsm are exercised, not modelled (oracle arguments of the theorems); "
               "bytes.Buffer capacity growth and the Go allocator are not modelled (the observed capacity of rawInput is checked against a fixed constant); the time-based cleanup of stale "
               "reassembly buffers is not modelled (it only removes); the datagram-stack bounds on handBuf, on the number of reassembly buffers and on the recursion depth of readDatagram are refuted "
               "(K9, K10, K11), what holds instead is stated as *_partial.",
    code_names={1: "panic", 2: "hang-or-spin", 3: "stream-handshake-buffer-above-bound", 4: "stream-raw-input-buffer-above-bound",
                5: "handshake-bytes-buffered-after-completion", 6: "more-than-16-consecutive-non-advancing-records-tolerated",
                7: "datagram-handshake-buffer-above-bound", 8: "more-reassembly-buffers-than-maxHandshakeFragments",
                9: "reassembly-buffer-bytes-above-bound", 10: "call-stack-grows-with-the-input", 11: "datagram-raw-buffer-above-bound",
                "panic": "panic", "hang": "hang-or-spin"},
    assumptions=["record protection never expands: the plaintext of a record is no longer than its protected fragment (premise non_expanding of the datagram-stack theorems; CBC strips IV, MAC and padding, GCM strips nonce and tag)",
                 "one transport Read returns at most K bytes (premise of C09_t_rawinput; K is the spare capacity of rawInput, observed through the hook and checked against a fixed constant)",
                 "the application drains the delivered plaintext before the next record is read (Conn.Read is called with c.input empty)",
                 "bytes are below 256"],
    trusted=["verif hooks VerifBufSizes09 (Conn, both packages) and the call wrappers VerifECCProcessCKX09, VerifGetECDHEPublicKey09, VerifECDHEProcessCKX09, VerifECCProcessSKX09, "
             "VerifECDHEProcessSKX09, VerifECCGenerateCKX09, VerifECDHEClientKX09 (tlcp/verif_hooks_c09.go, dtlcp/verif_hooks_c09.go)",
             "harness/internal/puppet (scripted peer with its own keys and transcript), tk.Wire / tk.VNet transports, the sampling transports of harness/cmd/hx/c09obs.go (runtime.Callers for the stack depth)",
             "gmsm (sm2.Encrypt / Decrypt / VerifyASN1WithSM2, ecdh.P256().NewPublicKey) for the independently recomputed oracle answers"],
)
