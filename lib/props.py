"""Per-property configuration of the generic driver (lib/vcheck.py)."""

PROPS = {
    "C11": dict(
        technique="Coq refinement proof (MRU list refines timestamp-LRU map, by simulation + induction over operation sequences) + vm_compute correspondence on the Go cache",
        level_text="Theorems over every operation sequence (capacity, no duplicate key, refinement of the timestamp-LRU specification) "
                   "proved in Coq on a hand-written model of lruSessionCache; the model and the specification are evaluated inside Coq on "
                   "operation sequences executed by both Go caches (results of every Get, aliasing / live-session damage counters).",
        level_note="Trusted: Coq kernel + vm_compute; the model is hand-written and tied to the code only by the correspondence "
                   "(generator quality bounds it); mutex atomicity is assumed for the sequential model.",
        code_names={1: "lookup-differs-from-LRU-spec", 2: "live-session-altered"},
        assumptions=[
            "each cache method is one atomic step (whole body under the cache mutex); concurrent histories are "
            "checked against the sequential specification by the harness, the Go scheduler is not modelled",
        ],
        trusted=["verif hook VerifNewSession / VerifMaster / VerifSessionID (tlcp, dtlcp)"],
    ),
}

PROPS["C16"] = dict(
    technique="Coq proof that the uint64 bitmap window (N model with explicit mod 2^64) refines a set-based window, by invariant + induction over delivery sequences; vm_compute correspondence on replayWindow via a hook",
    level_text="Theorems over every configured size and every delivery sequence (at most once, accept rule, window bounds, refinement of "
               "the set-based window) proved in Coq on a bit-faithful model of replayWindow.check; the model and an independent "
               "property-level scan are evaluated in Coq on decision sequences produced by the Go window.",
    level_note="Trusted: Coq kernel + vm_compute; hand-written model tied by correspondence; authenticity (INT-CTXT of SM4-GCM / "
               "HMAC-SM3+CBC) is an assumption of the connection-level statements.",
    code_names={1: "sequence-number-accepted-twice", 2: "in-window-first-arrival-refused"},
    assumptions=["sequence numbers are < 2^48 (header field width), so the unbounded-N model has no wrap the code lacks"],
    trusted=["verif hook VerifNewReplayWindow / Check (dtlcp)"],
)

NOT_YET = {}
