"""Per-property configuration of the generic driver (lib/vcheck.py)."""

PROPS = {
    "C11": dict(
        technique="Coq refinement proof (MRU list refines timestamp-LRU map, by simulation + induction over operation sequences) + vm_compute correspondence on the Go cache, sequential and concurrent (linearizability of stamped concurrent histories decided by search inside Coq)",
        level_text="Theorems over every operation sequence (capacity, no duplicate key, refinement of the timestamp-LRU specification) "
                   "proved in Coq on a hand-written model of lruSessionCache; the model and the specification are evaluated inside Coq on "
                   "operation sequences executed by both Go caches (results of every Get, aliasing / live-session damage counters); concurrent use: small histories of three goroutines "
                   "with start/end stamps from one atomic counter are checked for a linearization against the model and against the abstract LRU by search in Coq, and stress runs for the "
                   "necessary condition that every hit is an intact session stored under that key. Also: stored values without a master secret, and honest connections through caches of every capacity reconfigured in between.",
        level_note="Trusted: Coq kernel + vm_compute; the model is hand-written and tied to the code only by the correspondence "
                   "(generator quality bounds it); mutex atomicity is assumed for the sequential model.",
        code_names={1: "lookup-differs-from-LRU-spec", 2: "live-session-altered", 3: "concurrent-history-has-no-sequential-explanation", 4: "concurrent-lookup-returned-foreign-or-damaged-session"},
        assumptions=[
            "the theorems are about the sequential object; that each cache method is one atomic step (whole body under the cache mutex) is not proved but tested: "
            "concurrent histories produced by the Go scheduler are checked for linearizability, the scheduler itself is not modelled",
        ],
        trusted=["verif hook VerifNewSession / VerifMaster / VerifSessionID (tlcp, dtlcp)"],
    ),
}

PROPS["C16"] = dict(
    technique="Coq proof that the uint64 bitmap window (N model with explicit mod 2^64) refines a set-based window, by invariant + induction over delivery sequences, lifted to a connection-level model of an established connection (genuine records / anything else) for every history; vm_compute correspondence on replayWindow via a hook and on real established connections fed scripted histories of genuine, replayed, reordered, bit-flipped, truncated, old-epoch and random datagrams through Read and ReadFrom",
    level_text="Theorems over every configured size and every delivery history of any length: at most once, accept rule, window bounds, refinement of the set-based window (bit-faithful model of "
               "replayWindow.check); connection level: only the genuine record that arrived is delivered, each payload at most once, whatever is not genuine is inert (removing it changes neither "
               "the window nor anything delivered), first arrivals inside the window are delivered.  The window model is evaluated in Coq on decision sequences of the Go window; the connection "
               "model on what the application of a real connection (both cipher modes, window sizes 0/32/48/64/100/160, Read and ReadFrom) got after every arrival of a scripted history."
               " Also: forged current-epoch records with bodies of 0..15 bytes, the window size set per client by GetConfigForClient, the rest of a record across ReadFrom calls. A forged record in front of the genuine one in one datagram (finding F34, fixed), records above the receiver's own path MTU.",
    level_note="Trusted: Coq kernel + vm_compute; hand-written models tied by correspondence; that a datagram which is not byte-identical to a genuine record fails authentication (INT-CTXT of SM4-GCM / "
               "HMAC-SM3+CBC) is the assumption behind the `Bogus` item of the connection model; the harness classifies what it delivers (genuine copy / anything else). F7 and F14 fixed.",
    code_names={1: "sequence-number-accepted-twice", 2: "in-window-first-arrival-refused", 3: "delivered-something-that-is-not-the-genuine-record-that-arrived",
                4: "payload-delivered-twice", 5: "in-window-first-arrival-not-delivered", 6: "connection-failed-on-a-record-that-must-be-discarded"},
    assumptions=["sequence numbers are < 2^48 (header field width), so the unbounded-N model has no wrap the code lacks",
                 "record protection is unforgeable: a datagram that differs from every genuine record of the epoch fails authentication"],
    trusted=["verif hook VerifNewReplayWindow / Check (dtlcp)", "harness/internal/tk/vnet.go (capture of the peer's records, scripted delivery)"],
)

PROPS["C17"] = dict(
    technique="Coq proofs on a byte-faithful model of fragmentBuffer (bitmask as bytes), the readHandshake fragment path and the sender split: coverage invariant, any-order reassembly, tiling; vm_compute correspondence at buffer, receiver, sender and handshake level",
    level_text="Theorems for every fragment set / order / overlap / duplication and every payload limit (complete iff covered, assembled = message, "
               "transcript form, overflow rejected, bounded pending state) proved in Coq; the model and an independent reference reassembler are "
               "evaluated in Coq on what the Go buffer, readHandshake, writeHandshakeRecord did; full handshakes are run with independent PMTU values."
               " Also: the rest of a message arriving after a wall-clock gap (the library ages incomplete buffers by the wall clock). Messages covered by overlapping windows in every order.",
    level_note="Trusted: Coq kernel + vm_compute; hand-written model tied by correspondence; time-based stale-buffer cleanup and the record layer "
               "beneath readHandshake are not in this model (C15/C09 cover the record layer).",
    code_names={1: "complete-disagrees-with-coverage", 2: "assembled-differs-from-message", 3: "fragment-range-check-wrong",
                4: "reassembled-stream-differs-from-reference", 10: "pending-reassembly-buffers-above-bound", 6: "sender-fragments-do-not-tile", 7: "handshake-record-exceeds-pmtu",
                8: "transcript-not-unfragmented-form", 9: "handshake-depends-on-pmtu", "panic": "panic"},
    assumptions=["fragments reach readHandshake as whole handshake fragments (record layer delivers handBuf bytes in order)"],
    trusted=["verif hooks VerifNewFragBuf, VerifReadHandshakes, VerifWriteHandshake (dtlcp)", "virtual-time network tk.VNet for the PMTU-pair runs"],
)

PROPS["C20"] = dict(
    technique="Coq proofs (conservation invariant by induction over reads, closed form of ReadFull over chunked transports) on a model of ProtocolDetectConn / detect; vm_compute correspondence through the public pa API",
    level_text="Theorems for every transport segmentation and every sequence of read-buffer sizes (routing by byte 1, transparency = nothing lost/duplicated/"
               "reordered, short stream is an error, progress) proved in Coq; the model and a stream-level predicate are evaluated in Coq on what "
               "pa.NewListener / ProtocolDetectConn did for all 256 version bytes, segmentations, early disconnects and configurations (first Read with a non-empty or an empty buffer); real TLCP and TLS "
               "handshakes are run through the adapter and directly, also forced by a zero-length Read."
               " Also: a zero-length or concurrent first Read / Write, a server that writes first, the caller's deadline expiring inside the first bytes (finding F33, fixed), Close while the first Read is pending, first records of other content types, a TLS configuration by callback. Another connection served between a deadline expiry inside the first bytes and the retry; the routing constants are proved equal to the adapter's switch as read from the sources.",
    level_note="Trusted: Coq kernel + vm_compute; hand-written model tied by correspondence; crypto/tls and tlcp.Server behind the adapter are exercised, not modelled; "
               "the mutex in ProtocolSwitchServerConn belongs to C13.",
    code_names={1: "short-stream-not-an-error", 2: "error-on-complete-header", 3: "bytes-lost-or-altered", 4: "unexpected-read-error",
                5: "eof-before-all-bytes", 6: "wrong-route", 7: "handshake-through-adapter-fails", "hang": "hang"},
    assumptions=["the transport returns at most the requested bytes per Read and EOF at the end (net.Conn contract)"],
    trusted=["public API only: pa.NewListener, pa.ProtocolDetectConn, pa.ProtocolSwitchServerConn.ProtectedConn"],
)

PROPS["C18"] = dict(
    technique="Coq proofs of injectivity of the cookie input encoding and of the covered-field encoding, binding under an explicit HMAC-collision-freeness premise, loop invariant of the cookie exchange; correspondence recomputes every cookie with a Gallina SM3/HMAC",
    level_text="Theorems (encoding injective, binding to address/fields/secret, an unconfigured (nil or empty) secret is the connection's own draw and no other key's cookie is accepted, "
               "only HelloVerifyRequests and no key operation before a valid cookie, no amplification) proved in Coq; every cookie the Go code issues is recomputed bit for bit by an independent SM3/HMAC-SM3 written in "
               "Gallina from the standard; a real server is fed scripted ClientHello sequences under virtual time with instrumented private keys."
               " Also: hellos that differ from the cookie's only by repeated / reordered / unknown suites or compression methods; the cookie of one connection presented to the next connection of the same configuration or dtlcp.NewListener (no secret configured).",
    level_note="Trusted: Coq kernel + vm_compute; HMAC idealised as collision-free (explicit premise of C18_binding); hand-written model tied by correspondence; "
               "the default per-connection random secret is the first 32 bytes the connection draws from Config.Rand, which the harness supplies (a known stream), so its cookies are recomputed too.",
    code_names={1: "cookie-bytes-differ-from-HMAC-SM3-of-unambiguous-encoding", 16: "cookie-issued-by-another-connection-of-the-listener-accepted-or-issued-again", 2: "cookie-accepted-for-other-address-fields-secret-or-bytes",
                3: "valid-cookie-refused", 4: "covered-field-encoding-differs", 10: "not-exactly-one-response-before-valid-cookie",
                11: "response-before-valid-cookie-is-not-HelloVerifyRequest", 12: "HelloVerifyRequest-larger-than-request",
                13: "private-key-operation-before-valid-cookie", 14: "valid-cookie-answered-by-HelloVerifyRequest", 15: "HelloVerifyRequest-cookie-differs", "hang": "hang"},
    assumptions=["HMAC-SM3 behaves as a collision-free keyed function (C18_binding premise)"],
    trusted=["verif hooks VerifGenerateCookie, VerifVerifyCookie, VerifClientHello (dtlcp)", "tk.CountKey instrumented keys passed through the public Config", "Spec/SM3.v (validated on the GB/T 32905 vectors inside Coq)"],
)

PROPS["C15"] = dict(
    technique="Coq proofs (linear arithmetic with div/mod, induction over the splitting loop) on a Z model of maxPayloadSizeForWrite / record length / writeRecordLocked splitting; vm_compute correspondence on established DTLCP connections over the virtual-time network",
    level_text="Theorems for every PMTU, suite and payload size (one datagram within the maximum payload, every datagram within the path MTU, at most 16384 plaintext "
               "bytes, split in order) proved in Coq; the exact list of datagram sizes and of received pieces of every Write/WriteTo is compared with the model, and "
               "an MTU/boundary predicate independent of max_payload is evaluated on them and on the datagram sizes of every handshake."
               " Also: configurations used through Clone, ends with different path MTUs, the server's flight sent again after a lost client flight, reads shorter than a record and a short Read followed by ReadFrom. Sender sequence numbers just below 2^8 ... 2^48 (hook VerifSetWriteSeq).",
    level_note="Trusted: Coq kernel + vm_compute; hand-written model tied by correspondence. K5 (empty WriteTo "
               "sent nothing), K3 (a buffered handshake flight left as one datagram) and F9 are fixed: an empty payload is one empty record (one datagram, one ReadFrom of length 0; Read skips it); "
               "flights are packed at record boundaries (theorem C15_flight_fits); the packing itself is compared with the code only through the size of every handshake datagram.",
    code_names={1: "fitting-payload-not-exactly-one-datagram", 2: "datagram-exceeds-pmtu", 3: "record-above-16384-plaintext", 4: "empty-payload-not-exactly-one-datagram",
                5: "payload-lost-altered-or-short-write", 6: "handshake-datagram-exceeds-pmtu", 7: "handshake-failed", 8: "unexpected-extra-datagram", "hang": "hang"},
    assumptions=["the PMTU admits one payload byte for the suite (min_pmtu)"],
    trusted=["tk.VNet virtual-time network (datagram sizes are what the library hands to PacketConn.WriteTo)"],
)

PROPS["C06"] = dict(
    technique="Coq proofs (induction over the splitting loop and the dynamic-record-size ramp, deframing invariant over arbitrarily chunked transports, prefix invariant of buffered reads) on a model of the tlcp application-data path; vm_compute correspondence predicting the exact record lengths on the wire",
    level_text="Theorems for every write-size list, transport segmentation and read-buffer list (stream identity, 16384-byte plaintext and 16384+2048 ciphertext bounds, "
               "ramp closed form) proved in Coq; the model must predict the exact sequence of record lengths on the wire (ramp, 128 KiB boost, both cipher modes) "
               "and of Read results of real TLCP connections; a property-level predicate (exact delivery, full write lengths, EOF after all data, size limits) is "
               "evaluated on the implementation's output. Transports that hand over the last bytes together with io.EOF, and the request / CloseWrite / read-the-answer pattern on a "
               "transport that honours deadlines, are part of the corpus and of the random stream. Also: data written at once by the side that sends the last Finished, handed over together with it.",
    level_note="Trusted: Coq kernel + vm_compute; hand-written model tied by correspondence; record protection is abstract here (C04 checks it against the standard, C05 its failure behaviour).",
    code_names={1: "stream-not-delivered-exactly", 2: "write-did-not-report-full-length", 3: "no-clean-eof-after-close", 4: "ciphertext-above-16384+2048",
                5: "plaintext-above-16384", 6: "bytes-lost-or-duplicated", "hang": "hang"},
    assumptions=["unmodified transport (every byte written arrives, in order)"],
    trusted=["tk.Wire in-memory stream with segmentation"],
)

PROPS["C02"] = dict(
    technique="Coq theorems over the client's authentication decision function (every completed handshake implies each oracle check) + correspondence: a puppet server written independently of the library plays the impostor catalogue; chain/name/signature verdicts recomputed by the harness with smx509/sm2",
    level_text="Theorems (completion implies two parsed certificates, both chains when verification is on, a present and valid key-exchange signature over this handshake's "
               "randoms and parameters, a correct Finished; still the two proofs of possession with verification off; re-validation on resumption) proved in Coq; every impostor "
               "of the catalogue x 4 suites x verification on/off x both stacks is played against the real client and the model's verdict, computed from independently "
               "obtained oracle answers, must equal the client's. Also: a peer that echoes the session identifier without knowing the master secret, against the library's cache and a user-supplied one that keeps the object it is handed; Clone carries every field the decision depends on.",
    level_note="Trusted: Coq kernel + vm_compute; X.509 chain building / host-name matching and SM2 verification are oracles (smx509, sm2 called by the harness with the options "
               "the property prescribes); the puppet peer (harness/internal/puppet) and its own PRF / record protection; unforgeability of SM2 signatures and of the Finished PRF is "
               "what turns 'the check was evaluated and true' into 'the peer holds the keys'.",
    code_names={1: "completed-with-fewer-than-two-certificates", 2: "completed-without-chain-validity-name-verification", 3: "completed-without-signed-key-exchange",
                4: "completed-with-signature-not-valid-for-this-handshake", 5: "completed-with-wrong-Finished", 6: "refused-but-completion-reported-or-data-delivered",
                7: "resumed-session-whose-certificates-fail-now", 8: "resumed-with-a-peer-that-does-not-know-the-master-secret"},
    assumptions=["SM2 signatures and the PRF-based Finished cannot be produced without the private key / master secret"],
    trusted=["harness/internal/puppet (independent TLCP/DTLCP peer over gmsm primitives)", "smx509.Verify / sm2.VerifyASN1WithSM2 as oracles"],
)

PROPS["C07"] = dict(
    technique="Coq theorems over the server's client-authentication decision function against a declarative policy table + correspondence: a puppet client plays every behaviour under the six policies, full and resumed across configurations sharing a cache",
    level_text="Theorems (completion implies the policy table, both certificates for ECDHE, CertificateVerify valid whenever a certificate was sent; reported peer certificates imply "
               "the proof of possession, reported verified chains imply verification; a session is resumed only under a policy it satisfies) proved in Coq; 6 policies x behaviours x "
               "ECC/ECDHE x full/resumed x both stacks are played against the real server and compared with the model on independently computed oracle answers."
               " Also: the server's own trust settings (another CA, only RootCAs configured), its clock after the chain's validity, a client that leaves out the Certificate message, ECDHE sessions with a deviant encryption certificate under every second policy. Configurations reaching the connection through Clone / GetConfigForClient (a clone per hello; one host name served without client authentication, nil otherwise, across the cookie round).",
    level_note="Trusted: Coq kernel + vm_compute; X.509 verification and SM2 verification are oracles computed by the harness; the puppet peer.",
    code_names={1: "completed-although-policy-not-satisfied", 2: "certificate-accepted-without-proof-of-possession", 3: "peer-certificates-reported-without-proof",
                4: "verified-chains-reported-without-verification", 5: "completed-with-wrong-Finished", 6: "resumed-under-a-policy-the-session-does-not-satisfy", 7: "ecdhe-encryption-certificate-not-verified",
                8: "verified-chains-reported-although-no-certificate-was-presented"},
    assumptions=["SM2 signatures cannot be produced without the private key"],
    trusted=["harness/internal/puppet", "smx509.Verify / sm2.VerifyASN1WithSM2 as oracles"],
)

PROPS["C01"] = dict(
    technique="Coq theorems on an executable model of the negotiation (offer, server choice, ALPN, versions, client-auth policy) against a declarative compatibility predicate + correspondence on real client/server pairs of both stacks",
    level_text="Theorems for every pair of configurations (suite = first common in the documented priority order; success iff compatible; ALPN specification; offer soundness) proved in Coq; "
               "generated configuration pairs (direct or cloned) are run as real handshakes of both stacks with data exchanged both ways, and the model as well as the declarative "
               "predicate are evaluated on the observed results of both sides (success/failure on both, suite, ALPN, version, resumption flag, peer certificates each side reports). "
               "Key pairs come from the Certificates list, from the Get* callbacks or one from each; a pair with session caches on both sides connects a second time and the (resumed) "
               "connection is held to the same clauses."
               " Also: the client's list in every order of two suites against single-suite servers (the library works on its own copies of the configured lists).",
    level_note="Trusted: Coq kernel + vm_compute; X.509 verdicts (server chain under the client's roots/name, client chain under the policy's options, issuer acceptability) are oracle inputs "
               "computed by the harness; Clone is checked by running through it (a dropped field shows as a disagreement).",
    code_names={1: "one-side-succeeded-other-failed", 2: "success-differs-from-compatibility", 3: "suite-not-first-common-in-priority-order", 4: "sides-report-different-parameters",
                5: "peer-certificates-not-what-the-other-presented", 6: "data-not-delivered-unchanged", 7: "alpn-not-per-specification", 8: "resumed-on-a-suite-not-the-sessions-or-no-longer-enabled"},
    assumptions=["reliable transport; both endpoints unmodified"],
    trusted=["smx509.Verify as oracle", "tk in-memory transports / virtual-time network"],
)

PROPS["C10"] = dict(
    technique="Coq invariant proofs over histories of connections on a model composing the proved LRU cache, the negotiation model and the resumption decisions + correspondence on random histories of real connections of both stacks",
    level_text="Theorems over every history (resume iff offered-held-enabled-policy, transparent fallback, failed session not re-offered, fresh identifiers, same identity, forged identifiers "
               "never resumed) proved in Coq by an invariant over event sequences; random histories (one client, three servers, cache loss, reconfiguration, forged identifiers, induced "
               "failures, capacities down to 1) are run with real connections and the model must predict for every connection the identifier offered, both resumption flags, both "
               "results and the new session."
               " Also: forged identifiers of every legal length, and the peer identity both ends report on resumed connections. Sessions created on every suite family under every policy, resumed twice.",
    level_note="Trusted: Coq kernel + vm_compute; session identifiers are numbered by order of creation (the 32 random bytes themselves are not modelled: freshness is relative to the RNG); "
               "fresh keys on resumption follow from fresh randoms under the cached master secret (C04 checks the derivation).",
    code_names={1: "ends-disagree-on-resumption-or-success", 2: "resumed-without-an-offered-session", 3: "failed-session-offered-again", 4: "session-identifier-reused",
                5: "no-transparent-fallback", 6: "session-from-a-failed-handshake-offered", 7: "resumed-on-a-suite-no-longer-enabled-by-both", 8: "session-of-another-server-offered"},
    assumptions=["Config.Rand yields fresh identifiers"],
    trusted=["verif hook VerifNewSessionWithCerts (forged cache entries)", "smx509.Verify as oracle"],
)

PROPS["C08"] = dict(
    technique="Coq proof of language equality (automaton of the handshake code = the standard's flows, by an invariant over all event sequences, unbounded length) for client and server of both stacks + correspondence: a puppet peer that keeps its own transcript and keys consistent sends enumerated / mutated sequences to the real endpoints",
    level_text="Theorems: for every sequence of received records of any length the endpoint completes iff the sequence realises one of the standard's flows with valid contents and at most 16 "
               "consecutive warning alerts (client and server, ECC/ECDHE, full/resumed; datagram stack: with cookie rounds, tolerated retransmitted ClientHellos and silently dropped records); "
               "completion implies the received prefix is item for item a legal flow; no application data before completion; errors are final.  Legal flows, every single omission, "
               "duplication, transposition, insertion, invalid-content variant, the 16/17 warning boundary and a pruned enumeration from the initial state are played by the puppet peer "
               "against the real endpoints of both stacks and compared with the automaton and with the language."
               " Also: several handshake messages packed into one record (legal, and the post-ChangeCipherSpec message packed before it), ECDHE servers with default ClientAuth, and on the datagram stack a peer that itself follows the deviant order with a real ChangeCipherSpec (judged on completion only). Empty application_data records at every position; a datagram peer that leaves the ChangeCipherSpec out and carries on in its new epoch.",
    level_note="Trusted: Coq kernel + vm_compute; the event abstraction (one record = one event; `ok` = the contents pass the receiver's checks, which C02/C07 analyse); the puppet peer. "
               "Datagram stack: the language is the standard's flows modulo the records a datagram endpoint must drop to survive loss and reordering (C19): records of another epoch / replayed, "
               "a ChangeCipherSpec it cannot use yet, handshake records while the ChangeCipherSpec is awaited, retransmitted ClientHellos; theorem dclient/dserver_refines_stream ties every completion "
               "back to a sequence the stream automaton accepts.  In the harness a ChangeCipherSpec event that the target is not waiting for is sent without the puppet changing its write epoch (the event is "
               "'a CCS of the current epoch arrives').  F12 (old-epoch record after the ChangeCipherSpec was fatal) is fixed (73e5128).",
    code_names={1: "completed-on-an-order-the-standard-does-not-allow", 2: "refused-a-legal-flow", 3: "old-epoch-record-after-CCS-is-fatal", "hang": "hang"},
    assumptions=["handshake messages arrive whole in their own record (fragmentation is C14/C17's subject)"],
    trusted=["harness/internal/puppet", "verif hooks VerifClientHello / VerifGenerateCookie (valid cookies for the datagram server)"],
)

PROPS["C05"] = dict(
    technique="Coq proofs (induction over the attacked byte stream with concrete framing and idealised authenticated decryption; latch invariant over Read calls; case analysis of the CBC opening) + correspondence: a puppet peer seals records under the connection key, the stream is attacked, the real endpoint reads",
    level_text="Theorems for every byte stream an attacker can deliver (delivered = payloads of the intact in-order genuine prefix; nothing of a damaged / replayed / reordered / truncated / "
               "injected record; error latched; single CBC alert) proved in Coq; flips at header and body positions, drop, duplicate, swap, truncation at and inside boundaries, injected "
               "records of every content type, genuine non-application records and the 16/17 ignored-record boundary are run against real TLCP endpoints in both modes and directions, "
               "and the model must predict delivered bytes, the ending (EOF / unexpected EOF / which alert) and the latched second read."
               " Also: injected records of every length below a nonce / a MAC and of every content type, and a receiver that has half-closed before the attacked stream arrives. Streams cut exactly at record boundaries and attacked streams over a transport that returns the last bytes together with io.EOF.",
    level_note="Trusted: Coq kernel + vm_compute; INT-CTXT idealisation of SM4-GCM and HMAC-SM3-then-CBC with the sequence number authenticated (C04 checks the construction); the puppet peer.",
    code_names={1: "delivered-bytes-outside-intact-prefix", 2: "error-not-latched", 3: "intact-prefix-not-fully-delivered", 4: "cbc-damage-answered-by-other-alert", "hang": "hang"},
    assumptions=["authenticated decryption rejects every record that is not byte-identical to the one sealed with the expected sequence number"],
    trusted=["harness/internal/puppet (seals records with its own SM4-GCM / CBC+HMAC-SM3)", "Config.OnAlert to observe alert codes"],
)

PROPS["C04"] = dict(
    technique="Independent Gallina specification written from the standards (SM3/HMAC-SM3, PRF and key block of GB/T 38636 6.5, SM4 of GB/T 32907, CBC, GCM, record protection for the 5-byte and the 13-byte header) with Coq proofs about the specification itself (key-block partition, direction views, SM4/CBC/GCM/record round trips, injectivity of the authenticated string, nonce uniqueness, the constant-time padding check equals the declarative one); correspondence = captured connections of the real stacks re-derived bit for bit inside Coq with vm_compute",
    level_text="Theorems about the specification (six key-block slices contiguous/disjoint/in order, client write = server read, sm4_decrypt after sm4_encrypt is the identity for every key and block, "
               "CBC and record round trips for both modes and both header forms, MAC input and AAD determine sequence number/epoch, type, version, length, GCM nonces never repeat for distinct "
               "sequence numbers, Go's extractPadding bit arithmetic equals 'last p+1 bytes equal p') proved in Coq; for every captured connection (4 suites x full/resumed x client "
               "authentication x TLCP/DTLCP, random application writes both ways) Coq derives the master secret from the pre-master secret and the hello randoms, cuts the key block, opens every "
               "protected wire record of each direction under that direction's key and sequence number, recomputes both Finished values from the SM3 transcript, and compares plaintexts, "
               "master secrets of both session caches and per-record nonces/IVs."
               " Datagram captures continue at record sequence numbers above 2^32."
               " ECDHE suites are also run against a puppet peer with its own implementation of the SM2 key agreement (both roles, both stacks): completion and data both ways mean the pre-master secret is the standard's."
               " The key / MAC / IV lengths of the specification are proved equal to the rows of the library's cipherSuites table as regenerated from the sources (C04_key_lengths_are_the_sources).",
    level_note="Trusted: Coq kernel + vm_compute; the specification (Spec/SM3, SM4, Modes, PRF, RecordProt) is a hand-written reading of the standards, validated inside Coq on the GB/T 32905 and GB/T 32907 "
               "vectors and on CBC/GCM vectors produced once with gmsm. ECC suites: the pre-master secret is obtained by decrypting the captured ClientKeyExchange with the server's encryption key "
               "using gmsm (SM2 decryption trusted). ECDHE suites: the master secret is taken from the session caches (SM2 key agreement trusted) and everything downstream is checked. "
               "DTLCP abbreviated handshakes used to fail at the client (finding F19, fixed); if that ever returns the capture reports it as abbreviated-handshake-fails. "
               "F18 (DTLCP writeSeq is a 64-bit counter written as 48 bits without a wrap check: nonce reuse after 2^48 records of one epoch) is outside the reachable captures and is not demonstrated; "
               "C04_gcm_nonce_unique states the 2^48 bound it violates.",
    code_names={1: "master-secret-differs", 2: "client-to-server-record-does-not-open-under-client-write-keys",
                3: "server-to-client-record-does-not-open-under-server-write-keys", 4: "client-finished-differs", 5: "server-finished-differs",
                6: "application-plaintext-differs", 7: "nonce-or-explicit-iv-repeated-under-one-key",
                8: "sequence-number-or-epoch-not-authenticated-as-specified", 9: "pre-master-secret-malformed",
                11: "record-version-or-type-unexpected", 12: "explicit-iv-is-not-the-next-config-rand-output",
                20: "unknown-suite", 21: "capture-malformed"},
    assumptions=["SM2 decryption of the ClientKeyExchange (ECC suites) and the SM2 key agreement (ECDHE suites) are outside the specification: the pre-master secret resp. the master secret is an input",
                 "round-trip theorems assume well-formed inputs (byte values below 256, 16-byte CBC IV / 8-byte explicit nonce, header fields within their widths, plaintext at most 2^14+2048 bytes)"],
    trusted=["verif hooks SessionState.VerifMaster / VerifSessionID, Conn.VerifFinished (tlcp, dtlcp)", "gmsm sm2.PrivateKey.Decrypt for the pre-master secret",
             "tk.Wire record tap / tk.VNet datagram tap, tk.DetRand as Config.Rand",
             "Spec/SM3.v, Spec/SM4.v, Spec/Modes.v (validated on standard / gmsm vectors inside Coq)"],
)


PROPS["C03"] = dict(
    technique="Coq proof over a two-party model (client and server handshake automata of both stacks with their running transcripts as chronological logs of the bytes written and accepted, "
              "arbitrary message generators and contents checks, byte-level reassembly buffer, an adversary that delivers any sequence of records to either endpoint, also after the ChangeCipherSpec): "
              "per-state invariants on the logs, injectivity of the concatenation of framed messages, mirror-image theorem under the idealised hash / PRF and a no-forgery premise on the Finished values; "
              "correspondence: a scripted man in the middle between two REAL endpoints made deterministic (seeded Config.Rand and PKI), the untampered handshake captured once per configuration and "
              "re-derived inside Coq (framing, ServerHello through the C14 decoders, both Finished values through Spec SM3/PRF over the wire transcript), every tampered run predicted by the proved "
              "model through a byte-level channel simulation (stream) or a record-level trace evaluation (datagram) and judged by the property on the observables; a key-holding puppet peer for altered Finished values",
    level_text="Theorems, for EVERY schedule of delivered records (any length; altered, dropped, duplicated, reordered, truncated, re-framed, injected) and every choice of message contents and "
               "contents checks: if both endpoints complete, the server's chronological log of written and accepted handshake messages and ChangeCipherSpec is the mirror image of the client's "
               "(accepted = byte for byte what the other wrote, in order), both agree on full/resumed and on both Finished values, and the transcript is the one of the untampered handshake "
               "(the client's real hello, the flight the server generates for that hello, the client's answer): no downgrade; the ServerHello fields the client decodes are the ones the server "
               "encoded (C14); datagram stack: the same for the ordered selection of delivered records that was not discarded (cookie exchange, other-epoch / replayed records, early "
               "ChangeCipherSpec, retransmissions), up to the header of the last Finished; the parsing layer (reassembly, type switch, C14 decoders) never panics. "
               "Correspondence per run of bin/check: ~4,300 (quick) / ~28,000 (thorough: every byte position x 3 masks of a full and a resumed handshake per stack, every record-level edit, "
               "4 suites x full/resumed x client authentication x 2 stacks) tampered handshakes between real endpoints; the model predicts which endpoint completes (and, at the record / order "
               "level, that the refusing endpoint refuses by itself); the property is evaluated on ConnectionState, session caches, recorded Finished values and peer certificates of both endpoints."
               " Also: every ChangeCipherSpec record of a direction removed (datagram stack), with a property-level code for a completion without one. Injected body-less handshake messages of every kind of type code (hello_request, known, unassigned).",
    level_note="Trusted: Coq kernel + vm_compute; the idealisations (SM3 collision-free, PRF(k,label,.) injective in (label, digest), an accepted verify_data was written by one of the two "
               "endpoints: the adversary holds no master secret -- authentication of the key exchange is C02/C07); the hand-written model (contents checks are parameters: the theorems hold for "
               "all of them, so nothing about X.509 / SM2 is assumed); the harness (tk.Wire / tk.VNet middle, recording session caches, puppet peer). "
               "The no-panic theorem covers the modelled layers only (C03_no_panic_partial); for the contents layer no panic is observed, not proved. "
               "Stream stack: every byte flip after which both endpoints still complete is in the record-version bytes of the first record of a direction (checked exhaustively in the thorough tier); "
               "other transparent edits are re-framing, up to 16 warning alerts, duplicates / truncation after the last needed record. Datagram stack: damaged or lost records are discarded or "
               "fatal and the retransmission is taken; the cookie exchange (cookieless ClientHello, HelloVerifyRequest) is outside the transcript by design (RFC 6347 4.2.1) and edits there are "
               "accepted only without effect on any view; Finished values of a tampered datagram run may differ from the untampered run's because message_seq fields inside hashed headers depend on "
               "the retransmission history (they must agree between the endpoints, each being the endpoint's own computation). Observations: the server endpoint records only the first Finished "
               "(as crypto/tls); the dtlcp client leaves message_seq of its Finished at 0. Liveness defects found on the way (not violations of C03): F30 (ClientHello / HelloVerifyRequest "
               "ping-pong for ever after one altered bit), F31 (client never completes once the ChangeCipherSpec arrived and the Finished was lost).",
    code_names={1: "completed-with-different-views", 2: "completed-with-a-view-other-than-the-untampered-handshake",
                3: "finished-is-not-the-prf-of-the-wire-transcript", 4: "completed-with-peer-certificates-other-than-the-peers",
                5: "completed-although-the-endpoints-sent-something-else-than-untampered", 6: "completed-although-handed-messages-differ-from-those-sent",
                7: "view-differs-from-the-serverhello-on-the-wire", 8: "completed-on-a-finished-other-than-the-expected-verify-data", 9: "panic-or-hang",
                10: "never-completes-although-every-record-it-needs-arrives-intact", 11: "completed-without-a-ChangeCipherSpec-record-having-been-handed-over", "livelock": "livelock",
                21: "capture-malformed", 22: "model-framing-differs-from-the-implementation",
                "hang": "hang"},
    assumptions=["SM3 is collision-free on the transcripts that occur (crypto_ideal: kH injective)",
                 "PRF(master, label, digest)[0..12) determines (label, digest) whatever the key (crypto_ideal: kF injective in label and digest)",
                 "no_forgery: a verify_data value an endpoint accepted was put on the wire by one of the two endpoints (the adversary may replay or reflect, it does not hold a master secret)",
                 "gens_ok: what the endpoints generate is framed; the server's first flight ends with its only ServerHelloDone (full) or is the ServerHello alone (resumption)",
                 "fin_canonical for the byte-for-byte statement about the last Finished (proved for the tlcp codec; for dtlcp the last Finished's message_seq is covered only by record protection)",
                 "datagram theorem: handshake records hold whole messages (reassembly is C17)"],
    trusted=["tk.Wire.Edit / Cut and tk.VNet.Mangle as the man in the middle; tk.SConn.CloseWrite (a failed endpoint half-closes); tk.SeedPKI / tk.NewBlindRand (deterministic PKI and Config.Rand, blind to randutil.MaybeReadByte)",
             "verif hooks Conn.VerifFinished, SessionState.VerifSessionID / VerifMaster (tlcp, dtlcp); session caches observed through a recording SessionCache (public interface)",
             "harness/internal/puppet for the altered-Finished family",
             "Spec/SM3.v, Spec/PRF.v (C04) for the Finished recomputation; Model/Codec*.v (C14) for the ServerHello fields"],
)

NOT_YET = {}

PROPS["C14"] = dict(
    technique="Coq proofs on byte-faithful models of all twenty marshal/unmarshal pairs (cryptobyte readers as option functions, hand-indexed decoders index by index with an explicit Panic result): generic inverse lemmas for u8/u16/u24 scalars and length-prefixed vectors, then per message decode-encode, encode-decode on canonical input, strictness against an independent length walk, and no-Panic; vm_compute correspondence through add-only hooks",
    level_text="Theorems for every field value within the vector ranges, every byte string, both header forms and all ten message types (decode after encode returns the fields; "
               "canonical input re-encodes to itself; accepted framed input is strictly tiled; no decoder can index out of range) proved in Coq; the models, the "
               "independent strict walker and the canonical parsers are evaluated in Coq on what the Go marshal/unmarshal did for random well-formed fields incl. empty and "
               "maximal vectors and every extension, all short truncations, sampled (thorough: all) truncations and single-byte mutations, re-framed insertions/deletions, "
               "arbitrary bytes, hand-made non-canonical hellos (several and duplicated supported_groups / signature_algorithms extensions in both stacks), and every handshake message captured from real handshakes of both stacks."
               " Also: renumbering (setMessageSeq) a message that already holds an encoding, mixed-case server names, status_request vectors cut or overlong.",
    level_note="Trusted: Coq kernel + vm_compute; hand-written models tied by correspondence (every case compares accept/reject, all decoded fields, and the re-marshalled bytes); "
               "the raw cache is bypassed (cleared by the hook); Go slicing up to cap() is modelled as slicing up to len() (stricter); 24-bit vectors are exercised up to ~70 kB, not 16 MB; "
               "strictness holds under the framing readHandshake guarantees, most decoders do not check the header themselves (K7, K8). "
               "The dtlcp ClientHello decoder used to keep only the last supported group / signature algorithm (K6, fixed in fe30aba): the model, the round-trip theorem and "
               "the canonical form carry no exception for it any more; failure kind 9 compares the decoded lists with the values on the wire (last extension of each type, "
               "read by the independent extension walker) and would report a regression.",
    code_names={1: "roundtrip-lost-or-changed-a-field", 2: "canonical-input-reencodes-differently",
                3: "framed-input-accepted-with-trailing-bytes-or-inner-length-disagreement", 4: "panic",
                5: "accepted-although-header-length-disagrees-with-size", 6: "accepted-although-fragment-fields-not-whole-message",
                7: "emitted-handshake-message-rejected", 8: "never-emitted-form-without-ignored-parts-reencodes-differently",
                9: "dtlcp-clientHello-decoded-groups-or-signature-algorithms-differ-from-wire-values",
                10: "renumbered-message-encodes-another-message-seq-or-other-bytes"},
    assumptions=["unmarshal is called on one whole handshake message as readHandshake frames it (length field = size - header; dtlcp: fragment_offset 0, fragment_length = length); "
                 "what the decoders do outside that framing is modelled and reported (K7, K8), not assumed away",
                 "messages are shorter than 4 GB (the Go code compares uint32 truncations of len(data))"],
    trusted=["verif hooks VerifMarshalX / VerifUnmarshalX for the ten message types (tlcp/verif_hooks_c14.go, dtlcp/verif_hooks_c14.go)",
             "tk.NewTPair / tk.NewDPair + record splitting in the harness for the captured handshake messages"],
)

PROPS["C19"] = dict(
    technique="Coq theorems over an executable discrete-event model of both DTLCP endpoints, the retransmission timers, the faulty virtual-time network and a ping/pong application (Model/DSim.v): liveness for every pattern of at most 2 (resp. 3) faults by reduction lemmas (faults on datagrams that are never sent and the unused delay field do not matter) + complete enumeration by vm_compute, safety invariants by induction for every script of any length + exact trace correspondence: the real endpoints run on the deterministic virtual-time network under enumerated fault scripts and must produce, event for event (every datagram with epoch / sequence number / kind / message_seq of each record, every network action, every deadline expiry, completion, application data, each with its virtual time), the trace the model computes",
    level_text="Theorems: with no fault every configuration completes, data flows both ways and no deadline expires before completion; every script of at most two lost / duplicated / delayed datagrams "
               "(any datagram index, delays 30/150/450/1200 ms) and of at most three (delays 150 ms), in all 8 configurations (full / abbreviated, client authentication, both orders of simultaneous expiry), "
               "ends with both endpoints complete, ping and pong delivered, within one retransmission timeout of the schedule per fault plus the injected delays; for every script of any length and any "
               "number of steps: no application data before completion, completion only after the peer's Finished was handed over, timeouts only take schedule values.  The model is tied to the code by "
               "exact equality of full event traces on every fault-free run, every single fault on the first six datagrams of either side (both tie orders), sampled (thorough: all) double and sampled triple faults."
               " Flights spanning several datagrams (path MTU 500) are outside the model and judged on the outcome only (finding K16). Also: Clone carries the retransmission settings.",
    level_note="Trusted: Coq kernel + vm_compute; the hand-written model (tied by trace equality: any change in what is sent when, in record numbering, in timer handling shows up as a mismatch); "
               "harness/internal/tk/vnet.go, whose scheduling discipline (zero latency, one datagram per step, time advances only at quiescence, serialised simultaneous expiries) the model mirrors: the "
               "theorems are about runs under that discipline; real networks with latency comparable to the timeouts are outside.  Agreement of negotiated parameters is checked on the implementation's "
               "results (spec code 3), not a theorem of this model (C01, C03).  Nine DTLCP defects found with this machinery are fixed (known_findings.json: K1, F12, F21-F27); reverting any of them is detected "
               "(627c7bd alone is masked by 1e457f3).",
    code_names={1: "fault-free-handshake-needed-a-retransmission-timeout", 2: "endpoint-did-not-complete", 3: "completed-but-disagree", 4: "application-data-did-not-flow-both-ways",
                5: "completed-later-than-the-retransmission-schedule-allows", 6: "application-data-before-completion", "hang": "hang"},
    assumptions=["the network is the virtual-time network of the harness (zero latency, reliable once the scripted faults are used up); retransmission timeouts 100 ms doubling up to the maximum of 1000 ms (deliberately not a power-of-two multiple); "
                 "the application keeps reading (the dwell-period retransmissions happen inside Read): the client pings up to 8 times every 400 ms, the server leaves after 5 idle reads"],
    trusted=["harness/internal/tk/vnet.go (virtual-time network and its event log)", "the record classifier of the harness (cmd/hx/c19.go c19Records)",
             "coqchk (thorough tier) admits the nine enumeration libraries Proofs/DSimK2, DSimK3_0..7 (complete vm_compute enumerations of 115 000 and 1.7 million simulations, "
             "which coqchk, having no VM, cannot replay in reasonable time): they are checked by coqc's kernel and VM only"],
    coqchk_admit=["V.Proofs.DSimK2"] + ["V.Proofs.DSimK3_%d" % i for i in range(8)],
)

PROPS["C12"] = dict(
    technique="Coq invariant proofs over every call history (induction over the list of calls) on an API-level state machine of tlcp.Conn (handshake status, the two latched half-connection errors, the connection-wide fatal latch, closeNotifySent, closed bit, buffered plaintext, c.rawInput against the transport, look-ahead for close_notify) + correspondence: call histories issued one call at a time on real client and server connections whose peer is the puppet, and on real client/server pairs",
    level_text="Theorems over every history of Read / Write / CloseWrite / Close / Handshake / HandshakeContext calls interleaved with arriving records of every kind, the end of the "
               "transport on or inside a record and the peer going away (end-of-stream only after all data and only after close_notify or a clean end; unexpected-EOF only after a truncated "
               "record; an honest stream's end is reported after every byte by Reads with any non-zero buffers; errors stay reported after Close, on each half and across the halves (any error returned by Read but end-of-stream stops Write, any error returned by Write but shutdown stops Read), after a failed or cancelled handshake, after "
               "CloseWrite; early application data never accepted; cancellation returns the context error and closes the transport) proved in Coq; a handshake that fails because the read deadline expired is a failed handshake of the plan (it stays failed after the deadline is cleared); the model must predict the result class, the bytes delivered, the alerts and application data sent, the transport-closed "
               "and handshake-complete flags of every call of generated histories run against real connections (puppet peer; real peer with each end's arrivals taken from the other end's output), and a property-level predicate that does not use the model's step function is "
               "evaluated on the implementation's own results.",
    level_note="Trusted: Coq kernel + vm_compute; hand-written model tied by correspondence; the handshake protocol itself is a parameter of the model (C08/C02/C07 analyse it); calls are sequential "
               "(C13 owns concurrency); record protection is the puppet's (C04/C05 check it). K10 (errors were latched per half: Write still succeeded after a fatal alert was received or the "
               "transport was truncated, Read still delivered after a failed transport write) and K11 (buffered application data was delivered after Read returned the no_renegotiation error) were "
               "found by this check and are fixed in 46481b8 (connection-wide latch tlcp.Conn.fatal): the model follows the fix, C12_sticky holds without their exceptions, their histories stay in the harness corpus and "
               "a regression is reported as an ordinary violation (read-/write-succeeded-after-fatal-error). Left out on purpose (premises of C12_sticky, shown needed by C12_sticky_premises_needed): end-of-stream is not fatal (Write goes on: half-close), "
               "Write's shutdown error after CloseWrite does not stop Read, a call that would block / times out is not latched, Read with an empty buffer returns (0, nil) on an established connection, "
               "Handshake() on a completed connection returns the latched nil also after Close or a fatal error (design interpretation, C13).",
    code_names={1: "eof-before-all-data", 2: "eof-without-close-notify-or-clean-end", 3: "unexpected-eof-without-truncated-record",
                4: "read-or-write-succeeded-after-close", 7: "read-succeeded-after-end-of-stream", 8: "failed-handshake-later-succeeded",
                9: "second-close-not-reported-closed", 10: "write-after-closewrite-succeeded", 11: "early-application-data-accepted",
                12: "delivered-bytes-not-a-prefix-of-what-the-peer-wrote", 13: "cancelled-handshake-without-context-error-or-transport-left-open",
                14: "application-data-sent-after-close", 15: "read-succeeded-after-fatal-error", 16: "write-succeeded-after-fatal-error",
                17: "delivered-data-that-follows-a-record-answered-with-a-fatal-error",
                18: "dial-with-an-honest-peer-failed-or-the-connection-did-not-outlive-the-bound",
                "hang": "hang"},
    assumptions=[
        "calls on one connection are sequential; a record becomes readable as a whole except for the last one before the end of the transport",
        "fewer than bytes.MinRead (512) bytes are pending whenever the endpoint fetches from the transport, so one fetch takes everything that has arrived (the look-ahead for close_notify depends on it)",
        "the handshake's own failure is not reported as io.EOF / io.ErrUnexpectedEOF (premise plan_ok of the end-of-stream theorems)",
    ],
    trusted=["harness/internal/puppet (independent TLCP peer: seals application data, alerts of any level and code, handshake and change_cipher_spec records, sends any prefix of them)",
             "tk.SConn in-memory stream with half-close; public API only (Read, Write, Close, CloseWrite, Handshake, HandshakeContext, ConnectionState)"],
)

NOT_YET = {}

PROPS["C13"] = dict(
    technique="PARTIAL proof. A translator (tools/skel: go/ast + go/types) regenerates on every run, from tlcp/conn.go, dtlcp/conn.go, tlcp/session.go, "
              "pa/switch_server_conn.go and what they call, the lock / atomic / blocking-call / field-access skeleton of every exported method; generic Coq theorems "
              "over a small-step interleaving semantics of threads and non-reentrant mutexes (ordered locking => no lock cycle; lockset => no two conflicting accesses "
              "simultaneously enabled) are instantiated on that skeleton by vm_compute through decidable checkers proved sound; three small semantic models (write path, "
              "handshake latch, Close interlock); a stress harness built with the Go race detector whose observations are judged in Coq",
    level_text="PARTIAL (the Go memory model, the scheduler and the runtime below sync / sync/atomic are not modelled). Proved in Coq, for every number of goroutines and every "
               "interleaving of the machine: no lock cycle when locks are taken in rank order handshakeMutex < in < out < leaves, and the generated skeleton obeys that order "
               "(C13_lock_order); no two conflicting field accesses simultaneously enabled when they share a mutex, and the generated skeleton's accesses do, except the two "
               "documented exemptions (handshake phase vs. after observed completion; dtlcp remoteAddr) and the fields reported as findings (C13_lockset, "
               "C13_findings_are_exactly_the_failures); the handshake-phase exemption is itself an obligation: in the functions that publish completion (the store that makes "
               "handshakeComplete() true) no statement after the store uses the connection (C13_publication_is_last, computed on the translator's publish_sites), the flag is stored to by the handshake functions only (C13_completion_flag_written_only_by_the_handshake, flag_writers), and under that "
               "shape a thread that touches a field only after observing completion never meets the handshake thread there (C13_publish_then_observe_race_free); all transport writes of a Write happen in one critical section of the write-half mutex (C13_write_section) and under "
               "that shape the peer stream is a concatenation of whole payloads each exactly once in every interleaving (C13_writes_whole); all Handshake callers observe the "
               "latched result and the handshake function runs at most once (C13_handshake_same_result); the datagram Close touches no mutable state before its wait and no "
               "call is inside afterwards (C13_close_waits, C13_close_interlock). Observed on the real library under the race detector with GOMAXPROCS 1..16, seeds and injected "
               "yields: streams, Handshake results, stuck goroutines, interlock word, race reports - all judged by the Coq predicate. Also (obligations on the regenerated skeleton): the deadline setters take no mutex; the adapter's wrapped I/O runs outside its detection lock.",
    level_note="A call inside a for / range statement is unrolled twice in the trace (LoopCall), so that a critical section taken per iteration is seen as several sections by the whole-write check. F16, F17 and F28 (the three fields that failed the lockset discipline) are fixed in the library: the finding list of the lockset theorem is empty. NOT modelled / not proved: the Go memory model (that atomics and mutexes give the happens-before edges the handshake-phase exemption relies on), the scheduler "
               "(fairness, the busy-wait in dtlcp Close terminating), net / crypto / gmsm internals (their race freedom rests on the detector runs only), context cancellation "
               "in HandshakeContext. Trusted: the translator (that it reports every lock operation, atomic operation and field access of the listed files; linearisation of "
               "branches is exact only because every Lock is unconditional, which the checker enforces; recursion unrolled once; handshake code outside the four files is "
               "summarised as a de-duplicated event set), Coq kernel + vm_compute, the race detector, the harness. F16, F17, F28 are known findings (lockset failures, each "
               "confirmed by the race detector); F29 (deadline setters cancel the dtlcp handshake's retransmission timer) is a known finding of the stress harness.",
    code_names={1: "stream-not-whole-payloads-each-exactly-once", 2: "handshake-callers-disagree", 3: "goroutine-stuck-after-close", 4: "panic",
                5: "write-failed-or-short-or-bytes-lost-or-duplicated-among-readers", 6: "datagram-close-returned-with-calls-inside", 7: "call-made-no-progress-until-close", 10: "data-race", 20: "field-accessed-without-common-lock",
                "crash": "crash", "hang": "hang"},
    assumptions=["Go's sync.Mutex and sync/atomic operations synchronise as the Go memory model says (used by the handshake-phase exemption)",
                 "a dtlcp connection is constructed with a non-nil remote address (remoteAddr exemption)",
                 "the translator's skeleton is faithful to the sources (trusted base)"],
    trusted=["tools/skel (Go AST -> Coq skeleton translator, stdlib go/ast go/parser go/types only)", "the Go race detector (go build -race) and GORACE report format",
             "verif hooks VerifActiveCall (tlcp, dtlcp), VerifNewSession / VerifMaster / VerifSessionID", "UDP over 127.0.0.1 for the datagram stack; tk.StreamPair for the stream stack"],
    race_binary=True,
    partial=True,
    not_modelled=["Go memory model", "goroutine scheduler / fairness", "runtime below sync and sync/atomic", "net, crypto, gmsm internals", "context cancellation path of HandshakeContext"],
)

NOT_YET = {}

PROPS["C09"] = dict(
    technique="Coq proofs on byte-faithful models: no-Panic for the key-exchange body parsers and the certificate-list indexing (every Go index / slice / nil dereference an explicit Panic result, oracles for gmsm), "
              "invariants by induction over arbitrary record / datagram sequences for state machines of the input side of tlcp/conn.go and dtlcp/conn.go whose state carries the buffer sizes "
              "(for every handshake layer, record protection, replay verdict), progress measures; regression theorems (the code before each fix violates its bound on a recorded input); "
              "vm_compute correspondence through add-only hooks, scripted record traces and puppet-driven endpoint scenarios under watchdog + recover()",
    level_text="Theorems for every byte string, every answer of the cryptographic library, every handshake layer and every record / datagram sequence: the parsers never reach an out-of-range index; "
               "stream stack: c.hand <= 81923 bytes (65539 while waiting, 16384 after completion), rawInput <= one maximal record + one transport read, at most 16 consecutive non-advancing records, "
               "every loop iteration consumes input; datagram stack (the library with fixes 1e7de38, 593205a, 6b259b8, bfc7028): retryCount / fragmentReads limits, at most 256 reassembly buffers at all times, each at most 65536 + 8192 bytes "
               "(hence at most 256 * 73728 bytes of pending reassembly memory), datagram buffer at most 18445 bytes, progress, datagrams from other addresses consumed by a loop that leaves the connection unchanged, "
               "no handBuf growth after completion, handBuf at most 18432 bytes above its length at the entry of the running readRecordOrCCS call and at most 12 + 65536 - 1 + 18432 = 83979 bytes while the connection lives and a message is awaited, "
               "for every datagram sequence; the record reader does not recurse (constant call depth).  The parser models are evaluated in Coq on the bodies the Go parsers were called with (class of the result and what reached gmsm must agree), the machines on scripted "
               "record sequences against real endpoints at five handshake states (buffer sizes after every step must agree), and the bound predicates on the maxima observed in puppet-driven scenarios "
               "(malformed message at every state, floods, garbage, foreign key types; both roles, both stacks)."
               " Also: every message omitted at every state, servers under every certificate-requesting policy, fragments of one message that disagree about the total length. CBC records under the connection key whose content is nothing but valid padding.",
    level_note="Trusted: Coq kernel + vm_compute; hand-written models tied by correspondence; X.509 / ASN.1 parsing and gmsm are exercised, not modelled (oracle arguments of the theorems); "
               "bytes.Buffer capacity growth and the Go allocator are not modelled (the observed capacity of rawInput is checked against a fixed constant); the time-based cleanup of stale "
               "reassembly buffers is not modelled (it only removes); K12, K13, K14, K15 are repaired in the library (1e7de38, 593205a, 6b259b8, bfc7028): their bounds are theorems, the code before each fix is kept as a regression definition "
               "and the harness keeps their scenarios, so a regression is an ordinary violation; the same now holds for K15 (a warning alert re-entered readRecordOrCCS from inside its loop: handBuf and the call stack grew without bound), "
               "repaired in bfc7028: C09_d_handbuf is unconditional, C09_d_state says that the call depth of the record reader is constant, C09_d_K15_regression that the code before the fix exceeds every bound; "
               "no finding of C09 is left open.",
    code_names={1: "panic", 2: "hang-or-spin", 3: "stream-handshake-buffer-above-bound", 4: "stream-raw-input-buffer-above-bound",
                5: "handshake-bytes-buffered-after-completion", 6: "more-than-16-consecutive-non-advancing-records-tolerated",
                7: "datagram-handshake-buffer-above-bound", 8: "more-reassembly-buffers-than-maxHandshakeFragments",
                9: "reassembly-buffer-bytes-above-bound", 10: "call-stack-grows-with-the-input", 11: "datagram-raw-buffer-above-bound",
                "panic": "panic", "hang": "hang-or-spin"},
    assumptions=["record protection never expands: the plaintext of a record is no longer than its protected fragment (premise non_expanding of the datagram-stack theorems; CBC strips IV, MAC and padding, GCM strips nonce and tag)",
                 "one transport Read returns at most K bytes (premise of C09_t_rawinput; K is the spare capacity of rawInput, observed through the hook and checked against a fixed constant)",
                 "the application drains the delivered plaintext before the next record is read (Conn.Read is called with c.input empty)",
                 "bytes are below 256"],
    trusted=["verif hooks VerifBufSizes09 (Conn, both packages) and the call wrappers VerifECCProcessCKX09, VerifGetECDHEPublicKey09, VerifECDHEProcessCKX09, VerifECCProcessSKX09, "
             "VerifECDHEProcessSKX09, VerifECCGenerateCKX09, VerifECDHEClientKX09 (tlcp/verif_hooks_c09.go, dtlcp/verif_hooks_c09.go)",
             "harness/internal/puppet (scripted peer with its own keys and transcript), tk.Wire / tk.VNet transports, the sampling transports of harness/cmd/hx/c09obs.go (runtime.Callers for the stack depth; "
             "datagram stack: frames of readDatagram and of readRecordOrCCS counted by function name)",
             "gmsm (sm2.Encrypt / Decrypt / VerifyASN1WithSM2, ecdh.P256().NewPublicKey) for the independently recomputed oracle answers"],
)
