"""Per-property configuration of the generic driver (lib/vcheck.py)."""

PROPS = {
    "C11": dict(
        technique="Coq refinement proof (MRU list refines timestamp-LRU map, by simulation + induction over operation sequences) + vm_compute correspondence on the Go cache",
        level_text="Theorems over every operation sequence (capacity, no duplicate key, refinement of the timestamp-LRU specification) "
                   "proved in Coq on a hand-written model of lruSessionCache; the model and the specification are evaluated inside Coq on "
                   "operation sequences executed by both Go caches (results of every Get, aliasing / live-session damage counters).",
        level_note="Trusted: Coq kernel + vm_compute; the model is hand-written and tied to the code only by the correspondence "
                   "(generator quality bounds it); mutex atomicity is assumed for the sequential model.",
        code_names={1: "lookup-differs-from-LRU-spec", 2: "live-session-altered"},
        assumptions=[
            "each cache method is one atomic step (whole body under the cache mutex); concurrent histories are "
            "checked against the sequential specification by the harness, the Go scheduler is not modelled",
        ],
        trusted=["verif hook VerifNewSession / VerifMaster / VerifSessionID (tlcp, dtlcp)"],
    ),
}

PROPS["C16"] = dict(
    technique="Coq proof that the uint64 bitmap window (N model with explicit mod 2^64) refines a set-based window, by invariant + induction over delivery sequences; vm_compute correspondence on replayWindow via a hook",
    level_text="Theorems over every configured size and every delivery sequence (at most once, accept rule, window bounds, refinement of "
               "the set-based window) proved in Coq on a bit-faithful model of replayWindow.check; the model and an independent "
               "property-level scan are evaluated in Coq on decision sequences produced by the Go window.",
    level_note="Trusted: Coq kernel + vm_compute; hand-written model tied by correspondence; authenticity (INT-CTXT of SM4-GCM / "
               "HMAC-SM3+CBC) is an assumption of the connection-level statements.",
    code_names={1: "sequence-number-accepted-twice", 2: "in-window-first-arrival-refused"},
    assumptions=["sequence numbers are < 2^48 (header field width), so the unbounded-N model has no wrap the code lacks"],
    trusted=["verif hook VerifNewReplayWindow / Check (dtlcp)"],
)

PROPS["C17"] = dict(
    technique="Coq proofs on a byte-faithful model of fragmentBuffer (bitmask as bytes), the readHandshake fragment path and the sender split: coverage invariant, any-order reassembly, tiling; vm_compute correspondence at buffer, receiver, sender and handshake level",
    level_text="Theorems for every fragment set / order / overlap / duplication and every payload limit (complete iff covered, assembled = message, "
               "transcript form, overflow rejected, bounded pending state) proved in Coq; the model and an independent reference reassembler are "
               "evaluated in Coq on what the Go buffer, readHandshake, writeHandshakeRecord did; full handshakes are run with independent PMTU values.",
    level_note="Trusted: Coq kernel + vm_compute; hand-written model tied by correspondence; time-based stale-buffer cleanup and the record layer "
               "beneath readHandshake are not in this model (C15/C09 cover the record layer).",
    code_names={1: "complete-disagrees-with-coverage", 2: "assembled-differs-from-message", 3: "fragment-range-check-wrong",
                4: "reassembled-stream-differs-from-reference", 6: "sender-fragments-do-not-tile", 7: "handshake-record-exceeds-pmtu",
                8: "transcript-not-unfragmented-form", 9: "handshake-depends-on-pmtu", "panic": "panic"},
    assumptions=["fragments reach readHandshake as whole handshake fragments (record layer delivers handBuf bytes in order)"],
    trusted=["verif hooks VerifNewFragBuf, VerifReadHandshakes, VerifWriteHandshake (dtlcp)", "virtual-time network tk.VNet for the PMTU-pair runs"],
)

NOT_YET = {}
