#!/usr/bin/env python3
"""Driver shared by every property check.

   bin/check Cxx [--tier quick|thorough] [--replay FILE]

Stages: (1) proof stage — rebuild the Coq development, re-compile Props/Cxx.v and parse
Print Assumptions; (2) correspondence stage — build the Go harness against /repo's working
tree with -tags verif, run it, evaluate the generated cases in Coq with vm_compute;
(3) decision; (4) evidence.  See DESIGN.md section 2.
"""
import concurrent.futures as cf
import json
import os
import re
import shutil
import subprocess
import sys
import time

ROOT = os.path.dirname(os.path.dirname(os.path.abspath(__file__)))
COQ = os.path.join(ROOT, "coq")
HARNESS = os.path.join(ROOT, "harness")
WORK = os.path.join(ROOT, ".work")
REPO = os.environ.get("VERIF_REPO", "/repo")   # the gotlcp working tree under test

GOENV = dict(os.environ, GOFLAGS="-mod=mod", GOPROXY="off", CGO_ENABLED=os.environ.get("CGO_ENABLED", "1"))
GOENV.pop("GOSUMDB", None) if GOENV.get("GOSUMDB") == "off" else None
GOENV.pop("GOTOOLCHAIN", None) if GOENV.get("GOTOOLCHAIN") == "local" else None

TRUSTED_BASE_COMMON = [
    "Coq 8.16.1 kernel and its vm_compute machine (no native_compute)",
    "hand-written Gallina model of the Go code named in the property anchors",
    "correspondence harness (Go, built from /repo's working tree with -tags verif) and the cases.v printer",
    "bin/check parsing of coqc output",
    "tools/consts (Go, go/parser + go/constant): package-level and function-level integer constants, constant slices and the cipher-suite table of tlcp / dtlcp / pa -> coq/Model/GenConsts.v, regenerated from the sources before every build; the *_constants_are_the_sources / suite-table theorems compare the models' numbers with it",
]


def log(*a):
    print(*a, file=sys.stderr, flush=True)


def sh(cmd, cwd=None, timeout=None, env=None, check=False):
    p = subprocess.run(cmd, cwd=cwd, env=env, timeout=timeout, stdout=subprocess.PIPE,
                       stderr=subprocess.STDOUT, text=True, shell=isinstance(cmd, str))
    if check and p.returncode != 0:
        raise RuntimeError("command failed: %s\n%s" % (cmd, p.stdout[-4000:]))
    return p.returncode, p.stdout


# ---------------------------------------------------------------- proof stage
def gen_skeleton():
    """C13: regenerate coq/Model/Skeleton.v from the Go sources of REPO (tools/skel) before any Coq build."""
    if not os.path.isdir(os.path.join(ROOT, "tools", "skel")):
        return True, ""
    rc, out = sh([os.path.join(ROOT, "bin", "genskel")], env=dict(GOENV, VERIF_REPO=REPO), timeout=600)
    if rc == 0 and os.path.isdir(os.path.join(ROOT, "tools", "consts")):
        # constants, constant slices and the cipher-suite table of the sources -> coq/Model/GenConsts.v
        rc, out2 = sh([os.path.join(ROOT, "bin", "genconsts")], env=dict(GOENV, VERIF_REPO=REPO), timeout=600)
        out += out2
    return rc == 0, out


def coq_build(prop=None):
    """(re)build the whole development (incremental). returns (ok, log).
    Files that depend on the generated skeleton can stop compiling when the Go code changes; that
    must fail the property they belong to, not every other property: if the full build fails, the
    build counts as good for `prop` when its own Props and Corr files (and what they need) compile."""
    gok, glog = gen_skeleton()
    if not gok:
        return False, "skeleton generation failed: " + glog[-2000:]
    sh([os.path.join(ROOT, "bin", "mkcoqproject")], check=True)
    rc, out = sh("timeout 1500 make -j16 2>&1", cwd=COQ)
    if rc != 0 and prop:
        targets = ["Props/%s.vo" % prop]
        if os.path.exists(os.path.join(COQ, "Corr", "Run_%s.v" % prop)):
            targets.append("Corr/Run_%s.vo" % prop)
        rc2, out2 = sh("timeout 1500 make -j16 %s 2>&1" % " ".join(targets), cwd=COQ)
        if rc2 == 0:
            return True, out + "\n[full build failed; %s builds]" % " ".join(targets)
    return rc == 0, out


def corr_builds(prop):
    """the proof stage failed: can the correspondence runner alone still be compiled (so that
    the observations of the harness are judged and reported with a replay file)?"""
    if not os.path.exists(os.path.join(COQ, "Corr", "Run_%s.v" % prop)):
        return False
    rc, _ = sh("timeout 1500 make -j16 Corr/Run_%s.vo 2>&1" % prop, cwd=COQ)
    return rc == 0


FORBIDDEN = re.compile(r"\b(Admitted|admit|Axiom|Parameter|Conjecture|Hypothesis|Variable|Unset Guard Checking|"
                       r"bypass_check|Admit Obligations|type-in-type|impredicative-set)\b")


def strip_comments(text):
    out, depth, i = [], 0, 0
    while i < len(text):
        if text.startswith("(*", i):
            depth += 1
            i += 2
        elif text.startswith("*)", i) and depth > 0:
            depth -= 1
            i += 2
        else:
            if depth == 0 or text[i] == "\n":
                out.append(text[i])
            i += 1
    return "".join(out)


def grep_gate():
    """no Admitted/Axiom/... anywhere in the development (Variable/Hypothesis only inside Sections)"""
    bad = []
    for d, _, fs in os.walk(COQ):
        for f in fs:
            if not f.endswith(".v"):
                continue
            path = os.path.join(d, f)
            depth = 0
            code_all = strip_comments(open(path, encoding="utf-8").read())
            for ln, code in enumerate(code_all.split("\n"), 1):
                if re.match(r"\s*Section\b", code):
                    depth += 1
                if re.match(r"\s*End\b", code) and depth > 0:
                    depth -= 1
                m = FORBIDDEN.search(code)
                if not m:
                    continue
                if m.group(1) in ("Hypothesis", "Variable") and depth > 0:
                    continue
                bad.append("%s:%d: %s" % (os.path.relpath(path, ROOT), ln, code.strip()))
    return bad


def proof_stage(prop, allowed_axioms=()):
    """compile Props/<prop>.v, map Print Assumptions outputs to theorems"""
    src = os.path.join(COQ, "Props", prop + ".v")
    text = open(src, encoding="utf-8").read()
    theorems = re.findall(r"^\s*(?:Theorem|Corollary)\s+(\w+)", text, re.M)
    printed = re.findall(r"^\s*Print Assumptions\s+(\w+)\s*\.", text, re.M)
    rc, out = sh("timeout 600 coqc -Q . V -w -notation-overridden,-deprecated-hint-without-locality,-ambiguous-paths,-abstract-large-number Props/%s.v" % prop, cwd=COQ)
    res = {"theorems": theorems, "ok": [], "failed": [], "axioms": {}, "log": out[-3000:]}
    if rc != 0:
        res["failed"] = theorems
        res["error"] = "coqc failed on Props/%s.v" % prop
        return res
    blocks = re.split(r"(?m)^(?=Closed under the global context|Axioms:)", out)
    blocks = [b for b in blocks if b.startswith("Closed under") or b.startswith("Axioms:")]
    for i, th in enumerate(theorems):
        if th not in printed or printed.index(th) >= len(blocks):
            res["failed"].append(th)
            continue
        b = blocks[printed.index(th)]
        if b.startswith("Closed under"):
            res["ok"].append(th)
            res["axioms"][th] = []
        else:
            names = re.findall(r"(?m)^([\w.']+)\s*:", b)
            res["axioms"][th] = names
            if all(n in allowed_axioms for n in names):
                res["ok"].append(th)
            else:
                res["failed"].append(th)
    return res


# ---------------------------------------------------------------- correspondence stage
def build_harness(spec=None):
    os.makedirs(WORK, exist_ok=True)
    shutil.copyfile(os.path.join(REPO, "go.sum"), os.path.join(HARNESS, "go.sum"))
    exe = os.path.join(WORK, "hx")
    modflag = []
    if os.path.abspath(REPO) != "/repo":
        # a tree other than /repo (VERIF_REPO: a scratch worktree carrying a seeded change): same module
        # file with the replace directive pointing there, passed with -modfile
        alt = os.path.join(WORK, "go.alt.mod")
        txt = open(os.path.join(HARNESS, "go.mod")).read().replace("=> /repo", "=> " + os.path.abspath(REPO))
        open(alt, "w").write(txt)
        shutil.copyfile(os.path.join(REPO, "go.sum"), os.path.join(WORK, "go.alt.sum"))
        modflag = ["-modfile=" + alt]
    rc, out = sh(["go", "build"] + modflag + ["-tags", "verif", "-o", exe, "./cmd/hx"], cwd=HARNESS, env=GOENV, timeout=900)
    if rc == 0 and spec and spec.get("race_binary"):
        # stress half of the harness, instrumented by the Go race detector (C13)
        rc, out2 = sh(["go", "build"] + modflag + ["-race", "-tags", "verif", "-o", os.path.join(WORK, "hxrace"), "./cmd/hxrace"],
                      cwd=HARNESS, env=GOENV, timeout=1800)
        out += out2
    return rc == 0, out, exe


def run_shard(path):
    d = os.path.dirname(path)
    rc, out = sh("ulimit -s unlimited 2>/dev/null; timeout 1200 coqc -Q %s V -w -notation-overridden,-deprecated-hint-without-locality,-ambiguous-paths,-abstract-large-number %s" % (COQ, os.path.basename(path)), cwd=d)
    if rc != 0:
        return {"error": out[-2000:], "mism": [], "bad": []}
    m1 = re.search(r"R_mism\s*=\s*(.*?)\n\s*:\s*list", out, re.S)
    m2 = re.search(r"R_bad\s*=\s*(.*?)\n\s*:\s*list", out, re.S)
    if not m1 or not m2:
        return {"error": "cannot parse coqc output: " + out[-1000:], "mism": [], "bad": []}
    mism = [int(x) for x in re.findall(r"\d+", m1.group(1))]
    pairs = re.findall(r"\(\s*(\d+)(?:%N)?\s*,\s*(\d+)(?:%N)?\s*\)", m2.group(1))  # coqc may break a line after "("
    bad = [(int(a), int(b)) for a, b in pairs]
    return {"mism": mism, "bad": bad}


def evaluate_cases(outdir):
    shards = sorted(f for f in os.listdir(outdir) if re.match(r"cases_\d+\.v$", f))
    res = {"mism": [], "bad": [], "errors": []}
    with cf.ThreadPoolExecutor(max_workers=8) as ex:
        for r in ex.map(run_shard, [os.path.join(outdir, s) for s in shards]):
            res["mism"] += r["mism"]
            res["bad"] += r["bad"]
            if "error" in r:
                res["errors"].append(r["error"])
    return res


def load_cases(outdir):
    cases = {}
    p = os.path.join(outdir, "cases.jsonl")
    if os.path.exists(p):
        for line in open(p):
            c = json.loads(line)
            cases[c["idx"]] = c
    return cases


def run_harness(exe, prop, seed, tier, outdir, extra=()):
    shutil.rmtree(outdir, ignore_errors=True)
    os.makedirs(outdir)
    rc, out = sh([exe, prop, "-seed", str(seed), "-tier", tier, "-out", outdir, *extra], cwd=HARNESS,
                 env=GOENV, timeout=7200)
    return rc, out


# ---------------------------------------------------------------- known findings
def load_known():
    p = os.path.join(ROOT, "known_findings.json")
    if not os.path.exists(p):
        return []
    return json.load(open(p)).get("findings", [])


def match_known(prop, cls, known):
    for k in known:
        if k.get("property") != prop or k.get("status") != "known":
            continue
        if any(re.fullmatch(pat, cls) for pat in k.get("classes", [])):
            return k
    return None


# ---------------------------------------------------------------- main flow
def write_replay(prop, seed, tag, payload):
    d = os.path.join(ROOT, "replay")
    os.makedirs(d, exist_ok=True)
    path = os.path.join(d, "%s-%s-%s.json" % (prop, seed, tag))
    json.dump(payload, open(path, "w"), indent=1)
    return path


def write_evidence(prop, ev):
    d = os.path.join(ROOT, "evidence")
    os.makedirs(d, exist_ok=True)
    json.dump(ev, open(os.path.join(d, prop + ".json"), "w"), indent=1)


def check(prop, spec, tier, seed, replay=None):
    """spec: dict(code_names={code:str}, allowed_axioms=[], assumptions=[], trusted=[], post=callable?)"""
    t0 = time.time()
    violations = []      # (class, replay_path, text)
    known_hits = []
    notes = []
    known = load_known()

    # ---- proof stage
    gate = grep_gate()
    ok, blog = coq_build(prop)
    pr = proof_stage(prop, spec.get("allowed_axioms", ())) if ok else {"theorems": [], "ok": [], "failed": ["<build>"], "axioms": {}, "log": blog[-3000:], "error": "coq build failed"}
    if gate:
        pr["failed"] = pr["failed"] + ["<grep-gate>"]
        pr["error"] = "forbidden vernacular: " + "; ".join(gate[:5])
    proof_ok = ok and not pr["failed"] and len(pr["ok"]) == len(pr["theorems"]) and len(pr["theorems"]) > 0
    thorough_extra = {}
    if tier == "thorough" and ok and os.environ.get("VERIF_COQCHK", "1") == "1":
        thorough_extra = coqchk(prop, spec.get("coqchk_admit", []))
        if thorough_extra.get("rc") not in (0, None):
            proof_ok = False
            pr.setdefault("error", "coqchk failed")

    # ---- correspondence stage
    hok, hlog, exe = build_harness(spec)
    outdir = os.path.join(WORK, prop + "-" + tier)
    meta, ev, cases = {}, {"mism": [], "bad": [], "errors": []}, {}
    harness_err = None
    if not hok:
        harness_err = "harness does not build against /repo: " + hlog[-1500:]
    else:
        extra = ["-replay", replay] if replay else []
        rc, out = run_harness(exe, prop, seed, tier, outdir, extra)
        if rc != 0:
            harness_err = "harness failed (rc=%d): %s" % (rc, out[-1500:])
        else:
            meta = json.load(open(os.path.join(outdir, "meta.json")))
            cases = load_cases(outdir)
            ev = evaluate_cases(outdir) if (ok or corr_builds(prop)) else {"mism": [], "bad": [], "errors": ["coq build failed"]}

    def case_payload(idxs, why):
        return {"property": prop, "seed": seed, "tier": tier, "why": why,
                "cases": [cases[i] for i in idxs if i in cases],
                "replay_cmd": "bin/check %s --replay <this file>" % prop}

    code_names = spec.get("code_names", {})
    # property-level violations seen on the implementation's own output
    bad_by_idx = {}
    for idx, code in ev["bad"]:
        bad_by_idx.setdefault(idx, code)
    for d in meta.get("direct_violations", []):
        bad_by_idx.setdefault(d["idx"], d["what"])
    for idx, code in sorted(bad_by_idx.items()):
        c = cases.get(idx, {})
        scen = c.get("scenario", "?")
        cname = code_names.get(code, str(code)) if isinstance(code, int) else str(code)
        cls = "%s:%s" % (scen, cname)
        k = match_known(prop, cls, known)
        if k:
            known_hits.append((k, cls, idx))
        else:
            violations.append((cls, idx))

    lines = []
    seen_known = set()
    for k, cls, idx in known_hits:
        if k["id"] in seen_known:
            continue
        seen_known.add(k["id"])
        lines.append("KNOWN-FINDING: property=%s %s: %s" % (prop, k["id"], k["what"]))

    exit_code = 0
    nviol = 0
    if violations:
        # group by class, one replay per class
        bycls = {}
        for cls, idx in violations:
            bycls.setdefault(cls, []).append(idx)
        for cls, idxs in sorted(bycls.items()):
            idxs = sorted(idxs, key=lambda i: len(json.dumps(cases.get(i, {}).get("input", ""))))[:3]
            path = write_replay(prop, seed, re.sub(r"[^A-Za-z0-9_.-]+", "_", cls)[:60], case_payload(idxs, "property violated on the implementation: " + cls))
            lines.append("VIOLATION property=%s replay=%s" % (prop, path))
            nviol += 1
        exit_code = 1
    # model/implementation disagreements that are not (known or new) property violations
    explained = set(bad_by_idx)
    unexplained = [i for i in ev["mism"] if i not in explained]
    if unexplained and not violations:
        found = None
        if "search" in spec:
            found = spec["search"](exe, prop, seed, tier, [cases[i] for i in unexplained[:5] if i in cases])
        if found:
            path = write_replay(prop, seed, "search", found)
            lines.append("VIOLATION property=%s replay=%s" % (prop, path))
        else:
            path = write_replay(prop, seed, "correspondence", dict(case_payload(unexplained[:5], "model and implementation disagree; no input violating the property was found"), broken="correspondence V.Corr.Run_%s.mismatches" % prop))
            lines.append("VIOLATION property=%s replay=%s no-failing-input-found" % (prop, path))
        nviol += 1
        exit_code = 1
    if not proof_ok and exit_code == 0:
        path = write_replay(prop, seed, "proof", {"property": prop, "broken": pr.get("error", "theorem(s) no longer check"), "failed": pr["failed"], "axioms": pr["axioms"], "log": pr.get("log", "")})
        lines.append("VIOLATION property=%s replay=%s no-failing-input-found" % (prop, path))
        nviol += 1
        exit_code = 1
    if (harness_err or ev["errors"]) and exit_code == 0:
        path = write_replay(prop, seed, "harness", {"property": prop, "broken": harness_err or ev["errors"][0]})
        lines.append("VIOLATION property=%s replay=%s no-failing-input-found" % (prop, path))
        nviol += 1
        exit_code = 1

    # ---- evidence
    tb = TRUSTED_BASE_COMMON + spec.get("trusted", [])
    coverage = {
        "obligations": len(pr["theorems"]),
        "discharged": len(pr["ok"]),
        "checker_cmd": "make -C coq -j16 && coqc -Q coq V coq/Props/%s.v (Print Assumptions parsed)%s" % (prop, "; coqchk -silent -o" if thorough_extra else ""),
        "trusted_base": tb,
        "theorems": pr["theorems"],
        "axioms_per_theorem": pr["axioms"],
        "evaluations": meta.get("evaluations", 0),
        "distinct_nontrivial": meta.get("distinct_nontrivial", 0),
        "rule": meta.get("rule", ""),
        "samples": meta.get("samples", []),
        "input_distribution": meta.get("histogram", {}),
        "model_impl_disagreements": len(ev["mism"]),
        "property_violations_on_impl": len(bad_by_idx),
        "known_findings_reproduced": sorted(seen_known),
        "exhaustive": bool(meta.get("extra", {}).get("exhaustive")),
        "extra": meta.get("extra", {}),
    }
    if thorough_extra:
        coverage["coqchk"] = thorough_extra
    evd = {
        "property_id": prop, "tier": tier, "seed": int(seed), "level": "proof",
        "partial": spec.get("partial", False), "not_modelled": spec.get("not_modelled", []),
        "coverage": coverage,
        "assumptions": spec.get("assumptions", []),
        "wall_s": round(time.time() - t0, 2),
        "violations": nviol,
    }
    write_evidence(prop, evd)
    for l in lines:
        print(l)
    log("[%s] tier=%s seed=%s theorems=%d/%d cases=%d mism=%d bad=%d known=%d wall=%.1fs" % (
        prop, tier, seed, len(pr["ok"]), len(pr["theorems"]), meta.get("evaluations", 0), len(ev["mism"]),
        len(bad_by_idx), len(seen_known), time.time() - t0))
    if harness_err:
        log(harness_err)
    for e in ev["errors"][:2]:
        log(e)
    if pr.get("error"):
        log(pr["error"], pr.get("log", "")[-1500:])
    return exit_code


def coqchk(prop, admit_mods=()):
    """thorough tier: independent re-check of the compiled property file and everything beneath it"""
    t = time.time()
    # enumeration files whose vm_compute proofs coqchk (which has no VM) would take hours to replay are
    # admitted by name: they stay checked by coqc's kernel + VM only (listed in the property's trusted base)
    admit = "".join(" -admit %s" % m for m in admit_mods)
    rc, out = sh("timeout 3000 coqchk -silent -o -Q . V%s V.Props.%s 2>&1" % (admit, prop), cwd=COQ)
    ax = re.findall(r"(?m)^\s+([\w.]+)\s*$", out.split("Axioms:")[-1]) if "Axioms:" in out else []
    return {"rc": rc, "wall_s": round(time.time() - t, 1), "tail": out[-1500:], "axioms": ax}
