// skel: Go source -> Coq lock/access skeleton for property C13.
//
//	go run . -repo /repo -o ../../coq/Model/Skeleton.v
//
// Parses (go/parser) and type-checks (go/types) the packages tlcp, dtlcp and pa of the
// repository and emits, for every exported method of tlcp.Conn, dtlcp.Conn,
// lruSessionCache and pa.ProtocolSwitchServerConn declared in the four root files
//
//	tlcp/conn.go  dtlcp/conn.go  tlcp/session.go  pa/switch_server_conn.go
//
// and for everything they call inside the package, the ordered list of
//
//	Lock / Unlock / Defer (Unlock) events on the mutexes handshakeMutex, in, out, the cache
//	mutex and the pa lock; atomic operations; blocking I/O calls; busy-wait loops;
//	struct-field reads and writes of the tracked structs; calls; goroutine starts; guards
//	("the rest runs only if Handshake() returned nil / handshakeComplete() was true").
//
// Functions declared in the root files are emitted faithfully (source order, calls kept as
// Call events that the Coq side inlines).  Functions declared in other files of the package
// (the handshake code reached through Conn.handshakeFn) are emitted as a transitive,
// de-duplicated SUMMARY: every distinct event once, grouped by the list of mutexes the
// function itself acquired around it.
//
// Linearisation: statements are walked in source order; branches and loop bodies are
// laid out one after the other; early returns are ignored.  This is exact for the set of
// locks held at an access as long as every Lock is an unconditional statement of its
// function; a Lock/Unlock nested in a branch or loop is emitted as CondLock/CondUnlock
// and the Coq checker refuses such skeletons.
//
// Only the standard library is used (go/ast, go/parser, go/types, go/importer, go/build).
package main

import (
	"flag"
	"fmt"
	"go/ast"
	"go/build"
	"go/importer"
	"go/parser"
	"go/token"
	"go/types"
	"os"
	"path/filepath"
	"sort"
	"strings"
)

// ---------------------------------------------------------------- vocabulary

type Own int

const (
	OConn Own = iota
	OIn
	OOut
	OSelf
	OCache
	OEntry
	OPa
	ONone
)

var ownNames = []string{"OConn", "OIn", "OOut", "OSelf", "OCache", "OEntry", "OPa", "ONone"}

type Mutex int

const (
	MHandshake Mutex = iota
	MIn
	MOut
	MSelf
	MCache
	MPa
	MOther
)

var mutexNames = []string{"MHandshake", "MIn", "MOut", "MSelf", "MCache", "MPa", "MOther"}

type EvKind int

const (
	ELock EvKind = iota
	EUnlock
	ECondLock
	ECondUnlock
	EAtomic
	EAcc
	EBlock
	ESpin
	ECall
	EGo
	EGuard
	EEndGuard
	EDefer
)

type Ev struct {
	Kind   EvKind
	M      Mutex
	Op     string // ALoad AStore ACas AAdd ASwap
	W      bool
	Own    Own
	Struct string // struct name owning the field
	Fld    int
	Blk    string
	Callee *fnode
	Inst   Own
	Inner  *Ev
	InLoop bool // ECall: the call is inside a for / range statement of its function
}

type fnode struct {
	id       int
	name     string
	pkg      *pkgInfo
	decl     *ast.FuncDecl
	lit      *ast.FuncLit
	root     bool
	exported bool
	recvType string
	body     []Ev
	built    bool
	building bool
	synth    bool
	nlits    int
	warn     []string
}

type pkgInfo struct {
	name      string
	dir       string
	fset      *token.FileSet
	files     []*ast.File
	fileNames map[*ast.File]string
	info      *types.Info
	pkg       *types.Package
	rootFiles map[string]bool
	funcs     map[*types.Func]*fnode
	lits      map[*ast.FuncLit]*fnode
	litRecv   map[*ast.FuncLit]types.Object
	// tracked structs
	structOwn map[string]Own        // struct name -> owner (halfConn -> OSelf)
	fieldOf   map[*types.Var]fldRef // field object -> (struct, index)
	fields    map[string][]string   // struct name -> field names
	hsTargets []*fnode              // methods assigned to Conn.handshakeFn
	hsFn      *fnode
	blocks    []string
	blockIdx  map[string]int
	order     []*fnode // emission order
}

type fldRef struct {
	st  string
	idx int
}

// ---------------------------------------------------------------- loading

type fallbackImporter struct {
	src   types.ImporterFrom
	fake  map[string]*types.Package
	warns []string
}

func (f *fallbackImporter) Import(path string) (*types.Package, error) {
	return f.ImportFrom(path, "", 0)
}

func (f *fallbackImporter) ImportFrom(path, dir string, mode types.ImportMode) (*types.Package, error) {
	first := strings.SplitN(path, "/", 2)[0]
	if !strings.Contains(first, ".") {
		p, err := f.src.ImportFrom(path, dir, mode)
		if err == nil {
			return p, nil
		}
		f.warns = append(f.warns, fmt.Sprintf("import %s: %v (faked)", path, err))
	}
	if p, ok := f.fake[path]; ok {
		return p, nil
	}
	name := path[strings.LastIndex(path, "/")+1:]
	p := types.NewPackage(path, name)
	p.MarkComplete()
	f.fake[path] = p
	return p, nil
}

func loadPkg(repo, name string, roots []string, imp types.Importer) (*pkgInfo, error) {
	p := &pkgInfo{name: name, dir: filepath.Join(repo, name), fset: token.NewFileSet(),
		fileNames: map[*ast.File]string{}, rootFiles: map[string]bool{},
		funcs: map[*types.Func]*fnode{}, lits: map[*ast.FuncLit]*fnode{},
		structOwn: map[string]Own{}, fieldOf: map[*types.Var]fldRef{}, fields: map[string][]string{},
		blockIdx: map[string]int{}}
	for _, r := range roots {
		p.rootFiles[r] = true
	}
	ents, err := os.ReadDir(p.dir)
	if err != nil {
		return nil, err
	}
	for _, e := range ents {
		n := e.Name()
		if e.IsDir() || !strings.HasSuffix(n, ".go") || strings.HasSuffix(n, "_test.go") || strings.HasPrefix(n, "verif_hooks") {
			continue
		}
		f, err := parser.ParseFile(p.fset, filepath.Join(p.dir, n), nil, parser.ParseComments)
		if err != nil {
			return nil, err
		}
		// skip files with build constraints (verification hooks and platform variants)
		skip := false
		for _, cg := range f.Comments {
			if cg.Pos() > f.Package {
				break
			}
			for _, c := range cg.List {
				if strings.HasPrefix(c.Text, "//go:build") {
					skip = true
				}
			}
		}
		if skip {
			continue
		}
		p.files = append(p.files, f)
		p.fileNames[f] = n
	}
	for r := range p.rootFiles {
		found := false
		for _, n := range p.fileNames {
			if n == r {
				found = true
			}
		}
		if !found {
			return nil, fmt.Errorf("root file %s/%s not found", name, r)
		}
	}
	p.info = &types.Info{Types: map[ast.Expr]types.TypeAndValue{}, Defs: map[*ast.Ident]types.Object{},
		Uses: map[*ast.Ident]types.Object{}, Selections: map[*ast.SelectorExpr]*types.Selection{}}
	conf := types.Config{Importer: imp, Error: func(error) {}, FakeImportC: true}
	p.pkg, _ = conf.Check("gitee.com/Trisia/gotlcp/"+name, p.fset, p.files, p.info)
	if p.pkg == nil {
		return nil, fmt.Errorf("type check of %s produced no package", name)
	}
	// function table
	for _, f := range p.files {
		for _, d := range f.Decls {
			fd, ok := d.(*ast.FuncDecl)
			if !ok || fd.Body == nil {
				continue
			}
			obj, _ := p.info.Defs[fd.Name].(*types.Func)
			if obj == nil {
				continue
			}
			fn := &fnode{id: -1, pkg: p, decl: fd, root: p.rootFiles[p.fileNames[f]]}
			fn.name = name + "." + fd.Name.Name
			if fd.Recv != nil && len(fd.Recv.List) == 1 {
				fn.recvType = recvTypeName(fd.Recv.List[0].Type)
				fn.name = name + "." + fn.recvType + "." + fd.Name.Name
			}
			fn.exported = fd.Name.IsExported()
			p.funcs[obj] = fn
		}
	}
	return p, nil
}

func recvTypeName(e ast.Expr) string {
	switch t := e.(type) {
	case *ast.StarExpr:
		return recvTypeName(t.X)
	case *ast.Ident:
		return t.Name
	case *ast.IndexExpr:
		return recvTypeName(t.X)
	case *ast.ParenExpr:
		return recvTypeName(t.X)
	}
	return "?"
}

func (p *pkgInfo) track(structName string, own Own) error {
	obj := p.pkg.Scope().Lookup(structName)
	if obj == nil {
		return fmt.Errorf("%s: struct %s not found", p.name, structName)
	}
	st, ok := obj.Type().Underlying().(*types.Struct)
	if !ok {
		return fmt.Errorf("%s: %s is not a struct", p.name, structName)
	}
	p.structOwn[structName] = own
	var names []string
	for i := 0; i < st.NumFields(); i++ {
		f := st.Field(i)
		p.fieldOf[f] = fldRef{structName, i}
		names = append(names, f.Name())
	}
	p.fields[structName] = names
	return nil
}

func (p *pkgInfo) blockID(s string) int {
	if i, ok := p.blockIdx[s]; ok {
		return i
	}
	p.blockIdx[s] = len(p.blocks)
	p.blocks = append(p.blocks, s)
	return len(p.blocks) - 1
}

// ---------------------------------------------------------------- walking one function

type walker struct {
	p     *pkgInfo
	fn    *fnode
	recv  types.Object
	evs   []Ev
	depth int
	loop  int // nesting depth of for / range statements
}

func (w *walker) emit(e Ev) {
	if e.Kind == ECall && w.loop > 0 {
		e.InLoop = true // the callee runs once per iteration: any lock it takes is taken repeatedly
	}
	w.evs = append(w.evs, e)
}

func (w *walker) warnf(pos token.Pos, format string, a ...interface{}) {
	w.fn.warn = append(w.fn.warn, fmt.Sprintf("%s: %s", w.p.fset.Position(pos), fmt.Sprintf(format, a...)))
}

func (p *pkgInfo) build(fn *fnode) {
	if fn.built || fn.building {
		return
	}
	fn.building = true
	w := &walker{p: p, fn: fn}
	var body *ast.BlockStmt
	if fn.decl != nil {
		body = fn.decl.Body
		if fn.decl.Recv != nil && len(fn.decl.Recv.List) == 1 && len(fn.decl.Recv.List[0].Names) == 1 {
			w.recv = p.info.Defs[fn.decl.Recv.List[0].Names[0]]
		}
	} else if fn.lit != nil {
		body = fn.lit.Body
	}
	if fn.synth {
		for _, t := range p.hsTargets {
			p.build(t)
			fn.body = append(fn.body, Ev{Kind: ECall, Callee: t, Inst: ONone})
		}
	} else if body != nil {
		if fn.lit != nil && fn.decl == nil {
			// closures keep the receiver of the enclosing method for OSelf detection
			w.recv = fn.pkg.litRecv[fn.lit]
		}
		for _, s := range body.List {
			w.stmt(s)
		}
		fn.body = w.evs
	}
	fn.built = true
	fn.building = false
}

func (w *walker) nested(f func()) {
	w.depth++
	f()
	w.depth--
}

func (w *walker) block(b *ast.BlockStmt) {
	if b == nil {
		return
	}
	for _, s := range b.List {
		w.stmt(s)
	}
}

func endsInReturn(b *ast.BlockStmt) bool {
	if b == nil || len(b.List) == 0 {
		return false
	}
	_, ok := b.List[len(b.List)-1].(*ast.ReturnStmt)
	return ok
}

// calleeOf returns the package-local function a call expression resolves to (or nil)
func (w *walker) calleeOf(c *ast.CallExpr) *fnode {
	switch f := c.Fun.(type) {
	case *ast.Ident:
		if obj, ok := w.p.info.Uses[f].(*types.Func); ok {
			return w.p.funcs[obj]
		}
	case *ast.SelectorExpr:
		if sel, ok := w.p.info.Selections[f]; ok && sel.Kind() == types.MethodVal {
			if obj, ok := sel.Obj().(*types.Func); ok {
				return w.p.funcs[obj]
			}
		}
	case *ast.ParenExpr:
		return nil
	}
	return nil
}

func (w *walker) stmt(s ast.Stmt) {
	switch s := s.(type) {
	case nil:
	case *ast.BlockStmt:
		w.block(s)
	case *ast.ExprStmt:
		w.expr(s.X)
	case *ast.AssignStmt:
		for _, r := range s.Rhs {
			w.expr(r)
		}
		for _, l := range s.Lhs {
			if s.Tok != token.ASSIGN && s.Tok != token.DEFINE {
				w.access(l, false)
			}
			w.access(l, true)
		}
	case *ast.IncDecStmt:
		w.access(s.X, false)
		w.access(s.X, true)
	case *ast.DeclStmt:
		if gd, ok := s.Decl.(*ast.GenDecl); ok {
			for _, sp := range gd.Specs {
				if vs, ok := sp.(*ast.ValueSpec); ok {
					for _, v := range vs.Values {
						w.expr(v)
					}
				}
			}
		}
	case *ast.DeferStmt:
		w.deferOrGo(s.Call, true)
	case *ast.GoStmt:
		w.deferOrGo(s.Call, false)
	case *ast.ReturnStmt:
		for _, r := range s.Results {
			w.expr(r)
		}
	case *ast.IfStmt:
		w.ifStmt(s)
	case *ast.ForStmt:
		w.stmt(s.Init)
		if spin, ok := w.spinLoop(s); ok {
			w.emit(spin)
			return
		}
		w.loop++
		w.nested(func() {
			if s.Cond != nil {
				w.expr(s.Cond)
			}
			w.block(s.Body)
			w.stmt(s.Post)
		})
		w.loop--
	case *ast.RangeStmt:
		w.expr(s.X)
		if s.Tok == token.ASSIGN {
			if s.Key != nil {
				w.access(s.Key, true)
			}
			if s.Value != nil {
				w.access(s.Value, true)
			}
		}
		w.loop++
		w.nested(func() { w.block(s.Body) })
		w.loop--
	case *ast.SwitchStmt:
		w.stmt(s.Init)
		if s.Tag != nil {
			w.expr(s.Tag)
		}
		w.nested(func() {
			for _, c := range s.Body.List {
				cc := c.(*ast.CaseClause)
				for _, e := range cc.List {
					w.expr(e)
				}
				for _, st := range cc.Body {
					w.stmt(st)
				}
			}
		})
	case *ast.TypeSwitchStmt:
		w.stmt(s.Init)
		w.stmt(s.Assign)
		w.nested(func() {
			for _, c := range s.Body.List {
				for _, st := range c.(*ast.CaseClause).Body {
					w.stmt(st)
				}
			}
		})
	case *ast.SelectStmt:
		w.emit(Ev{Kind: EBlock, Blk: "select"})
		w.nested(func() {
			for _, c := range s.Body.List {
				cc := c.(*ast.CommClause)
				// channel operations of a select are covered by the Block event above
				for _, st := range cc.Body {
					w.stmt(st)
				}
			}
		})
	case *ast.SendStmt:
		w.expr(s.Chan)
		w.expr(s.Value)
		w.emit(Ev{Kind: EBlock, Blk: "chan.send"})
	case *ast.LabeledStmt:
		w.stmt(s.Stmt)
	case *ast.BranchStmt, *ast.EmptyStmt:
	default:
		w.warnf(s.Pos(), "statement %T not handled", s)
	}
}

// spinLoop recognises `for <cond containing an atomic load of a tracked field> { }`
// with an empty body (or a body made only of runtime.Gosched / time.Sleep calls).
func (w *walker) spinLoop(s *ast.ForStmt) (Ev, bool) {
	if s.Cond == nil || s.Post != nil {
		return Ev{}, false
	}
	for _, st := range s.Body.List {
		es, ok := st.(*ast.ExprStmt)
		if !ok {
			return Ev{}, false
		}
		c, ok := es.X.(*ast.CallExpr)
		if !ok {
			return Ev{}, false
		}
		if n := w.qualified(c.Fun); n != "runtime.Gosched" && n != "time.Sleep" {
			return Ev{}, false
		}
	}
	sub := &walker{p: w.p, fn: w.fn, recv: w.recv}
	sub.expr(s.Cond)
	var at *Ev
	for i := range sub.evs {
		e := sub.evs[i]
		if e.Kind == EAtomic && e.Op == "ALoad" && at == nil {
			at = &sub.evs[i]
		} else {
			return Ev{}, false
		}
	}
	if at == nil {
		return Ev{}, false
	}
	return Ev{Kind: ESpin, Own: at.Own, Struct: at.Struct, Fld: at.Fld}, true
}

func (w *walker) ifStmt(s *ast.IfStmt) {
	// pattern 1: if err := X.g(); err != nil { ...; return }   (no else).  "The rest of the function
	// is guarded" is only true when the if statement itself is unconditional (depth 0).
	if as, ok := s.Init.(*ast.AssignStmt); ok && w.depth == 0 && len(as.Rhs) == 1 && len(as.Lhs) == 1 && s.Else == nil && endsInReturn(s.Body) {
		if call, ok := as.Rhs[0].(*ast.CallExpr); ok {
			if g := w.calleeOf(call); g != nil {
				if be, ok := s.Cond.(*ast.BinaryExpr); ok && be.Op == token.NEQ && isNil(be.Y) && sameIdent(be.X, as.Lhs[0]) {
					w.stmt(s.Init)
					w.nested(func() { w.block(s.Body) })
					w.p.build(g)
					w.emit(Ev{Kind: EGuard, Callee: g})
					return
				}
			}
		}
	}
	w.stmt(s.Init)
	// pattern 2: if X.g() { body } ; pattern 3: if !X.g() { ...; return } (no else)
	if call, ok := s.Cond.(*ast.CallExpr); ok {
		if g := w.calleeOf(call); g != nil && isBool(w.p.info.TypeOf(s.Cond)) {
			w.expr(s.Cond)
			w.p.build(g)
			w.emit(Ev{Kind: EGuard, Callee: g})
			w.nested(func() { w.block(s.Body) })
			w.emit(Ev{Kind: EEndGuard, Callee: g})
			if s.Else != nil {
				w.nested(func() { w.stmt(s.Else) })
			}
			return
		}
	}
	if ue, ok := s.Cond.(*ast.UnaryExpr); ok && w.depth == 0 && ue.Op == token.NOT && s.Else == nil && endsInReturn(s.Body) {
		if call, ok := ue.X.(*ast.CallExpr); ok {
			if g := w.calleeOf(call); g != nil {
				w.expr(s.Cond)
				w.nested(func() { w.block(s.Body) })
				w.p.build(g)
				w.emit(Ev{Kind: EGuard, Callee: g})
				return
			}
		}
	}
	w.expr(s.Cond)
	w.nested(func() {
		w.block(s.Body)
		if s.Else != nil {
			w.stmt(s.Else)
		}
	})
}

func isNil(e ast.Expr) bool {
	id, ok := e.(*ast.Ident)
	return ok && id.Name == "nil"
}

func sameIdent(a, b ast.Expr) bool {
	x, ok1 := a.(*ast.Ident)
	y, ok2 := b.(*ast.Ident)
	return ok1 && ok2 && x.Name == y.Name
}

func isBool(t types.Type) bool {
	if t == nil {
		return false
	}
	b, ok := t.Underlying().(*types.Basic)
	return ok && b.Info()&types.IsBoolean != 0
}

// closure creates (once) the function node of a function literal
func (w *walker) closure(l *ast.FuncLit) *fnode {
	if fn, ok := w.p.lits[l]; ok {
		return fn
	}
	w.fn.nlits++
	fn := &fnode{id: -1, pkg: w.p, lit: l, root: w.fn.root, name: fmt.Sprintf("%s$%d", w.fn.name, w.fn.nlits), recvType: w.fn.recvType}
	w.p.lits[l] = fn
	if w.p.litRecv == nil {
		w.p.litRecv = map[*ast.FuncLit]types.Object{}
	}
	w.p.litRecv[l] = w.recv
	w.p.build(fn)
	return fn
}

func (w *walker) deferOrGo(call *ast.CallExpr, isDefer bool) {
	if l, ok := call.Fun.(*ast.FuncLit); ok {
		for _, a := range call.Args {
			w.expr(a)
		}
		fn := w.closure(l)
		if isDefer {
			in := Ev{Kind: ECall, Callee: fn, Inst: ONone}
			w.emit(Ev{Kind: EDefer, Inner: &in})
		} else {
			w.emit(Ev{Kind: EGo, Callee: fn})
		}
		return
	}
	// evaluate the call into a scratch list; receiver/argument accesses happen now, the
	// call event itself (the last event produced, if any) is deferred / spawned
	sub := &walker{p: w.p, fn: w.fn, recv: w.recv, depth: w.depth, loop: w.loop}
	before := len(sub.evs)
	sub.call(call)
	evs := sub.evs[before:]
	var last *Ev
	if n := len(evs); n > 0 {
		k := evs[n-1].Kind
		if k == ELock || k == EUnlock || k == ECondLock || k == ECondUnlock || k == EAtomic || k == ECall || k == EBlock {
			last = &evs[n-1]
			evs = evs[:n-1]
		}
	}
	for _, e := range evs {
		w.emit(e)
	}
	if last == nil {
		return
	}
	if isDefer {
		// a deferred Unlock is unconditional at function exit if the defer statement is
		if last.Kind == ECondUnlock && w.depth == 0 {
			last.Kind = EUnlock
		}
		w.emit(Ev{Kind: EDefer, Inner: last})
	} else if last.Kind == ECall {
		w.emit(Ev{Kind: EGo, Callee: last.Callee})
	} else {
		w.emit(*last)
	}
}

// qualified returns "pkgpath.Name" for a package-qualified identifier (imported package)
func (w *walker) qualified(e ast.Expr) string {
	sel, ok := e.(*ast.SelectorExpr)
	if !ok {
		return ""
	}
	id, ok := sel.X.(*ast.Ident)
	if !ok {
		return ""
	}
	if pn, ok := w.p.info.Uses[id].(*types.PkgName); ok {
		return pn.Imported().Path() + "." + sel.Sel.Name
	}
	return ""
}

func (w *walker) expr(e ast.Expr) {
	switch e := e.(type) {
	case nil:
	case *ast.Ident, *ast.BasicLit:
	case *ast.ParenExpr:
		w.expr(e.X)
	case *ast.SelectorExpr, *ast.IndexExpr, *ast.SliceExpr, *ast.StarExpr:
		w.access(e, false)
	case *ast.CallExpr:
		w.call(e)
	case *ast.UnaryExpr:
		switch e.Op {
		case token.AND:
			if _, ok := e.X.(*ast.CompositeLit); ok {
				w.expr(e.X)
			} else {
				w.access(e.X, true) // address taken: treated as a write (conservative)
			}
		case token.ARROW:
			w.expr(e.X)
			w.emit(Ev{Kind: EBlock, Blk: "chan.recv"})
		default:
			w.expr(e.X)
		}
	case *ast.BinaryExpr:
		w.expr(e.X)
		w.expr(e.Y)
	case *ast.KeyValueExpr:
		w.expr(e.Value)
	case *ast.CompositeLit:
		for _, el := range e.Elts {
			w.expr(el)
		}
	case *ast.TypeAssertExpr:
		w.expr(e.X)
	case *ast.FuncLit:
		fn := w.closure(e)
		w.emit(Ev{Kind: ECall, Callee: fn, Inst: ONone})
	case *ast.ArrayType, *ast.MapType, *ast.ChanType, *ast.FuncType, *ast.InterfaceType, *ast.StructType, *ast.Ellipsis:
	default:
		w.warnf(e.Pos(), "expression %T not handled", e)
	}
}

func deref(t types.Type) types.Type {
	if t == nil {
		return nil
	}
	if p, ok := t.Underlying().(*types.Pointer); ok {
		return p.Elem()
	}
	return t
}

func isPointerLike(t types.Type) bool {
	if t == nil {
		return true
	}
	switch t.Underlying().(type) {
	case *types.Pointer, *types.Interface, *types.Map, *types.Slice, *types.Chan, *types.Signature:
		return true
	}
	return false
}

func namedName(t types.Type) (pkg, name string) {
	t = deref(t)
	if n, ok := t.(*types.Named); ok && n.Obj() != nil {
		if n.Obj().Pkg() != nil {
			pkg = n.Obj().Pkg().Path()
		}
		return pkg, n.Obj().Name()
	}
	return "", ""
}

// halfInst: which halfConn does expression x denote?
func (w *walker) halfInst(x ast.Expr) Own {
	switch x := x.(type) {
	case *ast.ParenExpr:
		return w.halfInst(x.X)
	case *ast.StarExpr:
		return w.halfInst(x.X)
	case *ast.UnaryExpr:
		if x.Op == token.AND {
			return w.halfInst(x.X)
		}
	case *ast.Ident:
		if obj := w.p.info.Uses[x]; obj != nil && obj == w.recv {
			return OSelf
		}
	case *ast.SelectorExpr:
		if sel, ok := w.p.info.Selections[x]; ok && sel.Kind() == types.FieldVal {
			if v, ok := sel.Obj().(*types.Var); ok {
				if r, ok := w.p.fieldOf[v]; ok && w.p.structOwn[r.st] == OConn {
					switch v.Name() {
					case "in":
						return OIn
					case "out":
						return OOut
					}
				}
			}
		}
	}
	w.warnf(x.Pos(), "cannot tell which halfConn this is; treated as the method's own receiver")
	return OSelf
}

func (w *walker) ownerFor(r fldRef, base ast.Expr) Own {
	o := w.p.structOwn[r.st]
	if o == OSelf {
		return w.halfInst(base)
	}
	return o
}

func (w *walker) isTrackedStructValue(t types.Type) bool {
	if t == nil {
		return false
	}
	if _, ok := t.Underlying().(*types.Pointer); ok {
		return false
	}
	pk, n := namedName(t)
	if pk != w.p.pkg.Path() {
		return false
	}
	_, ok := w.p.structOwn[n]
	return ok
}

// access records the tracked struct fields touched when evaluating (write=false) or
// assigning to (write=true) the addressable expression e.
func (w *walker) access(e ast.Expr, write bool) {
	switch e := e.(type) {
	case nil:
	case *ast.ParenExpr:
		w.access(e.X, write)
	case *ast.StarExpr:
		w.access(e.X, false)
	case *ast.IndexExpr:
		w.access(e.X, write)
		w.expr(e.Index)
	case *ast.SliceExpr:
		w.access(e.X, write)
		w.expr(e.Low)
		w.expr(e.High)
		w.expr(e.Max)
	case *ast.SelectorExpr:
		sel, ok := w.p.info.Selections[e]
		if !ok {
			// package-qualified identifier, or unresolved
			if w.qualified(e) == "" {
				w.expr(e.X)
			}
			return
		}
		if sel.Kind() != types.FieldVal {
			// method value: the receiver is evaluated
			w.access(e.X, false)
			return
		}
		v, _ := sel.Obj().(*types.Var)
		// embedded promotion: fields reached through an embedded struct are attributed to the
		// struct that declares them (fieldOf is keyed by the field object)
		if r, ok := w.p.fieldOf[v]; ok {
			if !w.isTrackedStructValue(v.Type()) {
				w.emit(Ev{Kind: EAcc, W: write, Own: w.ownerFor(r, e.X), Struct: r.st, Fld: r.idx})
			}
			w.base(e.X)
			return
		}
		if isPointerLike(w.p.info.TypeOf(e.X)) {
			w.access(e.X, false)
		} else {
			w.access(e.X, write)
		}
	default:
		w.expr(e)
	}
}

// base evaluates the expression a tracked field is selected from
func (w *walker) base(x ast.Expr) {
	switch x := x.(type) {
	case *ast.Ident:
	case *ast.ParenExpr:
		w.base(x.X)
	default:
		w.access(x, false)
	}
}

// mutexBase evaluates the expression denoting a mutex: a mutex stored by value in a struct is
// not an access to that struct's data; a mutex reached through a pointer field reads the pointer.
func (w *walker) mutexBase(x ast.Expr) {
	if se, ok := x.(*ast.SelectorExpr); ok {
		if t := w.p.info.TypeOf(x); t != nil {
			if _, isPtr := t.Underlying().(*types.Pointer); !isPtr {
				w.base(se.X)
				return
			}
		}
	}
	w.base(x)
}

// isBlocking: calls that may block on the transport
func (w *walker) isBlocking(recv ast.Expr, name string) bool {
	pk, n := namedName(w.p.info.TypeOf(recv))
	switch {
	case pk == "net", pk == "io":
		return blockingMethods[name]
	case pk == "bytes" && n == "Buffer":
		return name == "ReadFrom" || name == "WriteTo"
	}
	return false
}

var blockingFuncs = map[string]bool{"io.ReadFull": true, "io.ReadAtLeast": true, "io.Copy": true, "io.ReadAll": true, "time.Sleep": true}

var readOnlyMethods = map[string]bool{"Len": true, "Bytes": true, "Size": true, "String": true, "Cap": true,
	"Available": true, "Front": true, "Back": true, "IsZero": true, "BlockSize": true, "Overhead": true, "NonceSize": true}

var blockingMethods = map[string]bool{"Read": true, "Write": true, "ReadFrom": true, "WriteTo": true, "Close": true,
	"Accept": true}

func (w *walker) mutexOf(x ast.Expr) Mutex {
	switch x := x.(type) {
	case *ast.ParenExpr:
		return w.mutexOf(x.X)
	case *ast.Ident:
		if t := w.p.info.TypeOf(x); t != nil {
			if _, n := namedName(t); n == "lruSessionCache" {
				return MCache
			}
			if _, n := namedName(t); n == "halfConn" {
				return MSelf
			}
		}
	case *ast.SelectorExpr:
		if sel, ok := w.p.info.Selections[x]; ok && sel.Kind() == types.FieldVal {
			v, _ := sel.Obj().(*types.Var)
			r, tracked := w.p.fieldOf[v]
			if tracked {
				switch {
				case w.p.structOwn[r.st] == OConn && v.Name() == "handshakeMutex":
					return MHandshake
				case w.p.structOwn[r.st] == OConn && v.Name() == "in":
					return MIn
				case w.p.structOwn[r.st] == OConn && v.Name() == "out":
					return MOut
				case w.p.structOwn[r.st] == OPa && v.Name() == "lock":
					return MPa
				case v.Name() == "Mutex":
					// explicit x.Mutex.Lock() on an embedded mutex
					return w.mutexOf(x.X)
				}
			}
		}
	}
	return MOther
}

func atomicOp(name string) string {
	switch {
	case strings.HasPrefix(name, "Load"):
		return "ALoad"
	case strings.HasPrefix(name, "Store"):
		return "AStore"
	case strings.HasPrefix(name, "CompareAndSwap"):
		return "ACas"
	case strings.HasPrefix(name, "Add"), strings.HasPrefix(name, "And"), strings.HasPrefix(name, "Or"):
		return "AAdd"
	case strings.HasPrefix(name, "Swap"):
		return "ASwap"
	}
	return ""
}

// trackedField: is x (after stripping & and parens) a selector of a tracked field?
func (w *walker) trackedField(x ast.Expr) (fldRef, ast.Expr, bool) {
	for {
		switch y := x.(type) {
		case *ast.ParenExpr:
			x = y.X
			continue
		case *ast.UnaryExpr:
			if y.Op == token.AND {
				x = y.X
				continue
			}
		}
		break
	}
	se, ok := x.(*ast.SelectorExpr)
	if !ok {
		return fldRef{}, nil, false
	}
	sel, ok := w.p.info.Selections[se]
	if !ok || sel.Kind() != types.FieldVal {
		return fldRef{}, nil, false
	}
	v, _ := sel.Obj().(*types.Var)
	r, ok := w.p.fieldOf[v]
	return r, se.X, ok
}

func (w *walker) call(c *ast.CallExpr) {
	// conversions
	if tv, ok := w.p.info.Types[c.Fun]; ok && tv.IsType() {
		for _, a := range c.Args {
			w.expr(a)
		}
		return
	}
	switch f := c.Fun.(type) {
	case *ast.ParenExpr:
		w.expr(f.X)
		for _, a := range c.Args {
			w.expr(a)
		}
		return
	case *ast.FuncLit:
		for _, a := range c.Args {
			w.expr(a)
		}
		fn := w.closure(f)
		w.emit(Ev{Kind: ECall, Callee: fn, Inst: ONone})
		return
	case *ast.Ident:
		if b, ok := w.p.info.Uses[f].(*types.Builtin); ok {
			switch b.Name() {
			case "delete", "copy":
				if len(c.Args) > 0 {
					w.access(c.Args[0], true)
					for _, a := range c.Args[1:] {
						w.expr(a)
					}
				}
			case "clear":
				for _, a := range c.Args {
					w.access(a, true)
				}
			default:
				for _, a := range c.Args {
					w.expr(a)
				}
			}
			return
		}
		for _, a := range c.Args {
			w.expr(a)
		}
		if obj, ok := w.p.info.Uses[f].(*types.Func); ok {
			if fn := w.p.funcs[obj]; fn != nil {
				w.p.build(fn)
				w.emit(Ev{Kind: ECall, Callee: fn, Inst: ONone})
			}
		}
		return
	case *ast.SelectorExpr:
		// package-qualified function
		if q := w.qualified(f); q != "" {
			if strings.HasPrefix(q, "sync/atomic.") && len(c.Args) > 0 {
				if op := atomicOp(f.Sel.Name); op != "" {
					if r, base, ok := w.trackedField(c.Args[0]); ok {
						w.base(base)
						for _, a := range c.Args[1:] {
							w.expr(a)
						}
						w.emit(Ev{Kind: EAtomic, Op: op, Own: w.ownerFor(r, base), Struct: r.st, Fld: r.idx})
						return
					}
				}
			}
			for _, a := range c.Args {
				w.expr(a)
			}
			if blockingFuncs[q] {
				w.emit(Ev{Kind: EBlock, Blk: q})
			}
			return
		}
		sel, ok := w.p.info.Selections[f]
		if !ok {
			w.expr(f.X)
			for _, a := range c.Args {
				w.expr(a)
			}
			return
		}
		if sel.Kind() == types.FieldVal {
			// call through a function-valued field
			w.access(f, false)
			for _, a := range c.Args {
				w.expr(a)
			}
			if v, ok := sel.Obj().(*types.Var); ok {
				if r, ok := w.p.fieldOf[v]; ok && w.p.structOwn[r.st] == OConn && v.Name() == "handshakeFn" && w.p.hsFn != nil {
					w.p.build(w.p.hsFn)
					w.emit(Ev{Kind: ECall, Callee: w.p.hsFn, Inst: ONone})
				}
			}
			return
		}
		// method call
		m, _ := sel.Obj().(*types.Func)
		mpkg := ""
		if m != nil && m.Pkg() != nil {
			mpkg = m.Pkg().Path()
		}
		name := f.Sel.Name
		recvT := sel.Recv()
		sig, _ := m.Type().(*types.Signature)
		var declRecv types.Type
		if sig != nil && sig.Recv() != nil {
			declRecv = sig.Recv().Type()
		}
		dpkg, dname := namedName(declRecv)
		// sync.Mutex / sync.RWMutex
		if dpkg == "sync" && (dname == "Mutex" || dname == "RWMutex") {
			mu := w.mutexOf(f.X)
			switch name {
			case "Lock", "RLock":
				k := ELock
				if w.depth > 0 {
					k = ECondLock
				}
				w.mutexBase(f.X)
				w.emit(Ev{Kind: k, M: mu})
			case "Unlock", "RUnlock":
				k := EUnlock
				if w.depth > 0 {
					k = ECondUnlock
				}
				w.mutexBase(f.X)
				w.emit(Ev{Kind: k, M: mu})
			default:
				w.warnf(c.Pos(), "mutex method %s not modelled", name)
			}
			return
		}
		// typed atomics
		if dpkg == "sync/atomic" {
			if op := atomicOp(name); op != "" {
				if r, base, ok := w.trackedField(f.X); ok {
					w.base(base)
					for _, a := range c.Args {
						w.expr(a)
					}
					w.emit(Ev{Kind: EAtomic, Op: op, Own: w.ownerFor(r, base), Struct: r.st, Fld: r.idx})
					return
				}
			}
		}
		isIface := false
		if recvT != nil {
			_, isIface = deref(recvT).Underlying().(*types.Interface)
		}
		if declRecv != nil {
			if _, ok := declRecv.Underlying().(*types.Interface); ok {
				isIface = true
			}
		}
		// package-local method with a body
		if fn := w.p.funcs[m]; fn != nil && !isIface {
			inst := ONone
			if fn.recvType == "halfConn" {
				inst = w.halfInst(f.X)
				w.base(f.X)
			} else {
				w.access(f.X, false)
			}
			for _, a := range c.Args {
				w.expr(a)
			}
			w.p.build(fn)
			w.emit(Ev{Kind: ECall, Callee: fn, Inst: inst})
			return
		}
		// interface or external method
		ptrRecv := false
		if declRecv != nil {
			_, ptrRecv = declRecv.Underlying().(*types.Pointer)
		}
		wr := !isIface && ptrRecv && !readOnlyMethods[name] && mpkg != w.p.pkg.Path()
		w.access(f.X, wr)
		for _, a := range c.Args {
			w.expr(a)
		}
		if w.isBlocking(f.X, name) {
			w.emit(Ev{Kind: EBlock, Blk: exprTail(f.X) + "." + name})
		}
		return
	default:
		w.expr(c.Fun)
		for _, a := range c.Args {
			w.expr(a)
		}
	}
}

func exprTail(e ast.Expr) string {
	switch e := e.(type) {
	case *ast.Ident:
		return e.Name
	case *ast.SelectorExpr:
		return e.Sel.Name
	case *ast.ParenExpr:
		return exprTail(e.X)
	case *ast.StarExpr:
		return exprTail(e.X)
	case *ast.CallExpr:
		return exprTail(e.Fun) + "()"
	}
	return "?"
}

// ---------------------------------------------------------------- summaries (non-root functions)

type sumItem struct {
	held string // canonical text of the relative held list
	locks []Mutex
	ev   Ev
}

func substOwn(o, inst Own) Own {
	if o == OSelf && inst != ONone {
		return inst
	}
	return o
}

func substMutex(m Mutex, inst Own) Mutex {
	if m == MSelf {
		switch inst {
		case OIn:
			return MIn
		case OOut:
			return MOut
		}
	}
	return m
}

type inliner struct {
	items   []sumItem
	seen    map[string]bool
	cond    bool
	spawned []*fnode
}

func evKey(e Ev) string {
	switch e.Kind {
	case EAcc:
		return fmt.Sprintf("acc %v %d %s %d", e.W, e.Own, e.Struct, e.Fld)
	case EAtomic:
		return fmt.Sprintf("atomic %s %d %s %d", e.Op, e.Own, e.Struct, e.Fld)
	case EBlock:
		return "block " + e.Blk
	case ESpin:
		return fmt.Sprintf("spin %d %s %d", e.Own, e.Struct, e.Fld)
	case EGo:
		return "go " + e.Callee.name
	}
	return fmt.Sprintf("k%d", e.Kind)
}

func heldKey(h []Mutex) string {
	var s []string
	for _, m := range h {
		s = append(s, mutexNames[m])
	}
	return strings.Join(s, ",")
}

func removeLast(h []Mutex, m Mutex) []Mutex {
	for i := len(h) - 1; i >= 0; i-- {
		if h[i] == m {
			return append(append([]Mutex{}, h[:i]...), h[i+1:]...)
		}
	}
	return h
}

// run inlines fn (faithful body) with the given relative held list; returns the held list at exit
func (il *inliner) run(fn *fnode, inst Own, held []Mutex, stack []*fnode) []Mutex {
	for _, s := range stack {
		if s == fn {
			return held
		}
	}
	fn.pkg.build(fn)
	stack = append(stack, fn)
	var deferred []Ev
	var step func(e Ev)
	step = func(e Ev) {
		switch e.Kind {
		case ELock, ECondLock:
			if e.Kind == ECondLock {
				il.cond = true
			}
			held = append(append([]Mutex{}, held...), substMutex(e.M, inst))
		case EUnlock, ECondUnlock:
			if e.Kind == ECondUnlock {
				il.cond = true
			}
			held = removeLast(held, substMutex(e.M, inst))
		case EAcc, EAtomic, ESpin:
			e.Own = substOwn(e.Own, inst)
			il.add(e, held)
		case EBlock:
			il.add(e, held)
		case ECall:
			ci := e.Inst
			if ci == OSelf {
				ci = inst
			}
			held = il.run(e.Callee, ci, held, stack)
		case EGo:
			il.add(e, nil)
			il.spawned = append(il.spawned, e.Callee)
		case EDefer:
			deferred = append(deferred, *e.Inner)
		case EGuard, EEndGuard:
		}
	}
	for _, e := range fn.body {
		step(e)
	}
	for i := len(deferred) - 1; i >= 0; i-- {
		step(deferred[i])
	}
	return held
}

func (il *inliner) add(e Ev, held []Mutex) {
	k := heldKey(held) + "|" + evKey(e)
	if il.seen[k] {
		return
	}
	il.seen[k] = true
	il.items = append(il.items, sumItem{held: heldKey(held), locks: append([]Mutex{}, held...), ev: e})
}

// summarise replaces the body of a non-root function by its transitive, de-duplicated form
func summarise(fn *fnode) []Ev {
	il := &inliner{seen: map[string]bool{}}
	il.run(fn, ONone, nil, nil)
	var out []Ev
	if il.cond {
		// some lock operation below this function is conditional: make it visible
		out = append(out, Ev{Kind: ECondLock, M: MOther})
		out = append(out, Ev{Kind: ECondUnlock, M: MOther})
	}
	var groups []string
	byHeld := map[string][]sumItem{}
	for _, it := range il.items {
		if _, ok := byHeld[it.held]; !ok {
			groups = append(groups, it.held)
		}
		byHeld[it.held] = append(byHeld[it.held], it)
	}
	for _, g := range groups {
		its := byHeld[g]
		for _, m := range its[0].locks {
			out = append(out, Ev{Kind: ELock, M: m})
		}
		for _, it := range its {
			out = append(out, it.ev)
		}
		for i := len(its[0].locks) - 1; i >= 0; i-- {
			out = append(out, Ev{Kind: EUnlock, M: its[0].locks[i]})
		}
	}
	return out
}

// ---------------------------------------------------------------- emission

type class struct {
	name    string
	entries []*fnode
}

func (p *pkgInfo) assign(fn *fnode, summary map[*fnode][]Ev) {
	if fn.id >= 0 {
		return
	}
	fn.id = len(p.order)
	p.order = append(p.order, fn)
	p.build(fn)
	if !fn.root {
		summary[fn] = summarise(fn)
		for _, e := range summary[fn] {
			if e.Kind == EGo {
				p.assign(e.Callee, summary)
			}
		}
		return
	}
	var visit func(e Ev)
	visit = func(e Ev) {
		switch e.Kind {
		case ECall, EGo, EGuard, EEndGuard:
			p.assign(e.Callee, summary)
		case EDefer:
			visit(*e.Inner)
		}
	}
	for _, e := range fn.body {
		visit(e)
	}
}

func (p *pkgInfo) fieldComment(e Ev) string {
	o := strings.ToLower(ownNames[e.Own][1:])
	if e.Own == OConn || e.Own == OCache || e.Own == OEntry || e.Own == OPa {
		o = e.Struct
	}
	return o + "." + p.fields[e.Struct][e.Fld]
}

func (p *pkgInfo) evText(e Ev) string {
	switch e.Kind {
	case ELock:
		return "Lock " + mutexNames[e.M]
	case EUnlock:
		return "Unlock " + mutexNames[e.M]
	case ECondLock:
		return "CondLock " + mutexNames[e.M]
	case ECondUnlock:
		return "CondUnlock " + mutexNames[e.M]
	case EAtomic:
		return fmt.Sprintf("Atomic %s %s %d (* %s *)", e.Op, ownNames[e.Own], e.Fld, p.fieldComment(e))
	case EAcc:
		k := "R"
		if e.W {
			k = "W"
		}
		return fmt.Sprintf("Acc %s %s %d (* %s *)", k, ownNames[e.Own], e.Fld, p.fieldComment(e))
	case EBlock:
		return fmt.Sprintf("Block %d (* %s *)", p.blockID(e.Blk), e.Blk)
	case ESpin:
		return fmt.Sprintf("Spin %s %d (* %s *)", ownNames[e.Own], e.Fld, p.fieldComment(e))
	case ECall:
		if e.InLoop {
			return fmt.Sprintf("LoopCall %s %d (* %s *)", ownNames[e.Inst], e.Callee.id, e.Callee.name)
		}
		return fmt.Sprintf("Call %s %d (* %s *)", ownNames[e.Inst], e.Callee.id, e.Callee.name)
	case EGo:
		return fmt.Sprintf("Go %d (* %s *)", e.Callee.id, e.Callee.name)
	case EGuard:
		return fmt.Sprintf("Guard %d (* %s *)", e.Callee.id, e.Callee.name)
	case EEndGuard:
		return fmt.Sprintf("EndGuard %d (* %s *)", e.Callee.id, e.Callee.name)
	case EDefer:
		return "Defer (" + p.evText(*e.Inner) + ")"
	}
	return "?"
}

func coqIdent(s string) string {
	r := strings.NewReplacer(".", "_", "$", "_lit", "-", "_")
	return r.Replace(s)
}

func coqString(s string) string { return `"` + strings.ReplaceAll(s, `"`, `""`) + `"` }

func (p *pkgInfo) emitCoq(sb *strings.Builder, classes []class, structs []string) {
	summary := map[*fnode][]Ev{}
	for _, c := range classes {
		for _, e := range c.entries {
			p.assign(e, summary)
		}
	}
	// ids are final now; render bodies (Block ids are allocated while rendering)
	bodies := make([][]string, len(p.order))
	for i, fn := range p.order {
		evs := fn.body
		if !fn.root {
			evs = summary[fn]
		}
		for _, e := range evs {
			bodies[i] = append(bodies[i], p.evText(e))
		}
	}
	fmt.Fprintf(sb, "\n(* ===================== package %s ===================== *)\n", p.name)
	for i, fn := range p.order {
		kind := "faithful"
		if !fn.root {
			kind = "summary"
		}
		fmt.Fprintf(sb, "\n(* %d: %s (%s) *)\nDefinition f_%s : fn := mkFn %s %s %s [", i, fn.name, kind, coqIdent(fn.name),
			coqString(fn.name), coqBool(fn.exported && fn.root && fn.lit == nil), coqBool(!fn.root))
		for j, t := range bodies[i] {
			if j > 0 {
				sb.WriteString(";")
			}
			sb.WriteString("\n  " + t)
		}
		sb.WriteString("].\n")
	}
	fmt.Fprintf(sb, "\nDefinition fns_%s : list fn := [", p.name)
	for i, fn := range p.order {
		if i > 0 {
			sb.WriteString(";")
		}
		fmt.Fprintf(sb, "\n  f_%s", coqIdent(fn.name))
	}
	sb.WriteString("].\n")
	fmt.Fprintf(sb, "\nDefinition blocks_%s : list string := [", p.name)
	for i, b := range p.blocks {
		if i > 0 {
			sb.WriteString("; ")
		}
		sb.WriteString(coqString(b))
	}
	sb.WriteString("].\n")
	fmt.Fprintf(sb, "\nDefinition fields_%s : list (string * list string) := [", p.name)
	for i, st := range structs {
		if i > 0 {
			sb.WriteString(";")
		}
		fmt.Fprintf(sb, "\n  (%s, [", coqString(st))
		for j, f := range p.fields[st] {
			if j > 0 {
				sb.WriteString("; ")
			}
			sb.WriteString(coqString(f))
		}
		sb.WriteString("])")
	}
	sb.WriteString("].\n")
	fmt.Fprintf(sb, "\nDefinition classes_%s : list (string * list N) := [", p.name)
	for i, c := range classes {
		if i > 0 {
			sb.WriteString(";")
		}
		fmt.Fprintf(sb, "\n  (%s, [", coqString(c.name))
		for j, e := range c.entries {
			if j > 0 {
				sb.WriteString("; ")
			}
			fmt.Fprintf(sb, "%d", e.id)
		}
		sb.WriteString("])")
	}
	sb.WriteString("].\n")
	fmt.Fprintf(sb, "\nDefinition sk_%s : skeleton := mkSkeleton %s fns_%s blocks_%s fields_%s classes_%s.\n",
		p.name, coqString(p.name), p.name, p.name, p.name, p.name)
}

func coqBool(b bool) string {
	if b {
		return "true"
	}
	return "false"
}

// entriesOf: exported methods of the named receiver type declared in root files, in source order
func (p *pkgInfo) entriesOf(recv string) []*fnode {
	var out []*fnode
	for _, fn := range p.funcs {
		if fn.root && fn.exported && fn.recvType == recv {
			out = append(out, fn)
		}
	}
	sort.Slice(out, func(i, j int) bool { return out[i].decl.Pos() < out[j].decl.Pos() })
	return out
}

// publishSites: the statements that publish the completion of the handshake (the atomic store that makes
// handshakeComplete() true: handshakeStatus := 1 on the stream stack, hsState := stateFinished on the datagram
// stack), one entry per enclosing function: its name and the number of uses of the connection - a field selected
// from a *Conn, or a method called on a *Conn or on a handshake-state struct - in the statements that come
// textually after the store in that function.  The handshake-phase exemption of the lockset check rests on that
// number being 0: nothing of the connection is touched without its locks once other goroutines may see the
// handshake as complete.
func (p *pkgInfo) publishSites() [][2]string {
	isConnPtr := func(e ast.Expr) bool {
		t := p.info.TypeOf(e)
		if t == nil {
			return false
		}
		_, n := namedName(deref(t))
		return n == "Conn"
	}
	isStatePtr := func(e ast.Expr) bool {
		t := p.info.TypeOf(e)
		if t == nil {
			return false
		}
		_, n := namedName(deref(t))
		return n == "Conn" || strings.HasSuffix(n, "HandshakeState")
	}
	isPublish := func(c *ast.CallExpr) bool {
		sel, ok := c.Fun.(*ast.SelectorExpr)
		if !ok || len(c.Args) == 0 {
			return false
		}
		mentions := func(e ast.Expr, name string) bool {
			found := false
			ast.Inspect(e, func(n ast.Node) bool {
				if id, ok := n.(*ast.Ident); ok && id.Name == name {
					found = true
				}
				return true
			})
			return found
		}
		// atomic.StoreUint32(&c.handshakeStatus, 1)
		if x, ok := sel.X.(*ast.Ident); ok && x.Name == "atomic" && strings.HasPrefix(sel.Sel.Name, "Store") && len(c.Args) == 2 {
			if lit, ok := c.Args[1].(*ast.BasicLit); ok && lit.Value == "1" && mentions(c.Args[0], "handshakeStatus") {
				return true
			}
		}
		// c.hsState.Store(int32(stateFinished))
		if sel.Sel.Name == "Store" && mentions(sel.X, "hsState") && mentions(c.Args[0], "stateFinished") {
			return true
		}
		return false
	}
	var out [][2]string
	for _, f := range p.files {
		for _, d := range f.Decls {
			fd, ok := d.(*ast.FuncDecl)
			if !ok || fd.Body == nil {
				continue
			}
			var first token.Pos
			ast.Inspect(fd.Body, func(n ast.Node) bool {
				if c, ok := n.(*ast.CallExpr); ok && isPublish(c) && (first == token.NoPos || c.End() < first) {
					first = c.End()
				}
				return true
			})
			if first == token.NoPos {
				continue
			}
			uses := 0
			ast.Inspect(fd.Body, func(n ast.Node) bool {
				if n == nil || n.Pos() < first {
					return true
				}
				switch x := n.(type) {
				case *ast.CallExpr:
					if isPublish(x) {
						return false // a second publishing store (another branch) is not a use
					}
					if sel, ok := x.Fun.(*ast.SelectorExpr); ok && isStatePtr(sel.X) {
						uses++
					}
				case *ast.SelectorExpr:
					if isConnPtr(x.X) {
						uses++
					}
				}
				return true
			})
			name := p.name + "." + fd.Name.Name
			if fd.Recv != nil && len(fd.Recv.List) == 1 {
				name = p.name + "." + recvTypeName(fd.Recv.List[0].Type) + "." + fd.Name.Name
			}
			out = append(out, [2]string{name, fmt.Sprint(uses)})
		}
	}
	sort.Slice(out, func(i, j int) bool { return out[i][0] < out[j][0] })
	return out
}

// flagWriters: the functions that store to the completion flag (handshakeStatus / hsState) at all, whatever the value.
// Once the handshake is complete nothing may change the flag again (other goroutines take the lock-free fast path on
// it), so these must all be functions of the handshake itself.
func (p *pkgInfo) flagWriters() []string {
	var out []string
	for _, f := range p.files {
		for _, d := range f.Decls {
			fd, ok := d.(*ast.FuncDecl)
			if !ok || fd.Body == nil {
				continue
			}
			writes := false
			ast.Inspect(fd.Body, func(n ast.Node) bool {
				c, ok := n.(*ast.CallExpr)
				if !ok {
					return true
				}
				sel, ok := c.Fun.(*ast.SelectorExpr)
				if !ok || len(c.Args) == 0 {
					return true
				}
				mentions := func(e ast.Expr, name string) bool {
					found := false
					ast.Inspect(e, func(n ast.Node) bool {
						if id, ok := n.(*ast.Ident); ok && id.Name == name {
							found = true
						}
						return true
					})
					return found
				}
				if x, ok := sel.X.(*ast.Ident); ok && x.Name == "atomic" && (strings.HasPrefix(sel.Sel.Name, "Store") || strings.HasPrefix(sel.Sel.Name, "Swap") || strings.HasPrefix(sel.Sel.Name, "CompareAndSwap") || strings.HasPrefix(sel.Sel.Name, "Add")) && mentions(c.Args[0], "handshakeStatus") {
					writes = true
				}
				if (sel.Sel.Name == "Store" || sel.Sel.Name == "Swap" || sel.Sel.Name == "CompareAndSwap" || sel.Sel.Name == "Add") && mentions(sel.X, "hsState") {
					writes = true
				}
				return true
			})
			if writes {
				name := p.name + "." + fd.Name.Name
				if fd.Recv != nil && len(fd.Recv.List) == 1 {
					name = p.name + "." + recvTypeName(fd.Recv.List[0].Type) + "." + fd.Name.Name
				}
				out = append(out, name)
			}
		}
	}
	sort.Strings(out)
	return out
}

// findHandshakeTargets: methods assigned to a field named handshakeFn anywhere in the package
func (p *pkgInfo) findHandshakeTargets() {
	seen := map[*fnode]bool{}
	for _, f := range p.files {
		ast.Inspect(f, func(n ast.Node) bool {
			add := func(lhs, rhs ast.Expr) {
				name := ""
				switch l := lhs.(type) {
				case *ast.SelectorExpr:
					name = l.Sel.Name
				case *ast.Ident:
					name = l.Name
				}
				if name != "handshakeFn" {
					return
				}
				if se, ok := rhs.(*ast.SelectorExpr); ok {
					if sel, ok := p.info.Selections[se]; ok && sel.Kind() == types.MethodVal {
						if fn := p.funcs[sel.Obj().(*types.Func)]; fn != nil && !seen[fn] {
							seen[fn] = true
							p.hsTargets = append(p.hsTargets, fn)
						}
					}
				}
			}
			switch n := n.(type) {
			case *ast.AssignStmt:
				if len(n.Lhs) == len(n.Rhs) {
					for i := range n.Lhs {
						add(n.Lhs[i], n.Rhs[i])
					}
				}
			case *ast.KeyValueExpr:
				add(n.Key, n.Value)
			}
			return true
		})
	}
	sort.Slice(p.hsTargets, func(i, j int) bool { return p.hsTargets[i].name < p.hsTargets[j].name })
	if len(p.hsTargets) > 0 {
		p.hsFn = &fnode{id: -1, pkg: p, name: p.name + ".handshakeFn", synth: true, root: false}
	}
}

func main() {
	repo := flag.String("repo", "/repo", "path of the gotlcp working tree")
	out := flag.String("o", "Skeleton.v", "output file")
	verbose := flag.Bool("v", false, "print warnings")
	flag.Parse()

	build.Default.CgoEnabled = false
	fset := token.NewFileSet()
	src, _ := importer.ForCompiler(fset, "source", nil).(types.ImporterFrom)
	imp := &fallbackImporter{src: src, fake: map[string]*types.Package{}}

	var sb strings.Builder
	sb.WriteString("(* GENERATED by tools/skel from the Go sources on every run of bin/check - do not edit, do not commit.\n")
	fmt.Fprintf(&sb, "   repo: %s\n   roots: tlcp/conn.go dtlcp/conn.go tlcp/session.go pa/switch_server_conn.go *)\n", *repo)
	sb.WriteString("From Coq Require Import List NArith String.\nFrom V Require Import Model.Conc.\nImport ListNotations.\nOpen Scope N_scope.\nOpen Scope string_scope.\n")

	type spec struct {
		pkg     string
		roots   []string
		tracked [][2]interface{}
		classes [][2]string // class name, receiver type
	}
	specs := []spec{
		{"tlcp", []string{"conn.go", "session.go"},
			[][2]interface{}{{"Conn", OConn}, {"halfConn", OSelf}, {"lruSessionCache", OCache}, {"lruSessionCacheEntry", OEntry}},
			[][2]string{{"tlcp.Conn", "Conn"}, {"tlcp.lruSessionCache", "lruSessionCache"}}},
		{"dtlcp", []string{"conn.go"},
			[][2]interface{}{{"Conn", OConn}, {"halfConn", OSelf}},
			[][2]string{{"dtlcp.Conn", "Conn"}}},
		{"pa", []string{"switch_server_conn.go"},
			[][2]interface{}{{"ProtocolSwitchServerConn", OPa}},
			[][2]string{{"pa.ProtocolSwitchServerConn", "ProtocolSwitchServerConn"}}},
	}
	nwarn := 0
	var names []string
	var pubs, writers []string
	for _, s := range specs {
		p, err := loadPkg(*repo, s.pkg, s.roots, imp)
		if err != nil {
			fmt.Fprintln(os.Stderr, "skel:", err)
			os.Exit(1)
		}
		var structs []string
		for _, t := range s.tracked {
			if err := p.track(t[0].(string), t[1].(Own)); err != nil {
				fmt.Fprintln(os.Stderr, "skel:", err)
				os.Exit(1)
			}
			structs = append(structs, t[0].(string))
		}
		p.findHandshakeTargets()
		var classes []class
		for _, c := range s.classes {
			es := p.entriesOf(c[1])
			if len(es) == 0 {
				fmt.Fprintf(os.Stderr, "skel: no exported methods found for %s\n", c[0])
				os.Exit(1)
			}
			classes = append(classes, class{c[0], es})
		}
		p.emitCoq(&sb, classes, structs)
		names = append(names, "sk_"+s.pkg)
		if s.pkg != "pa" {
			var items []string
			for _, ps := range p.publishSites() {
				items = append(items, fmt.Sprintf("(%s, %s)", coqString(ps[0]), ps[1]))
			}
			pubs = append(pubs, fmt.Sprintf("(%s, [%s])", coqString(s.pkg), strings.Join(items, "; ")))
			var ws []string
			for _, w := range p.flagWriters() {
				ws = append(ws, coqString(w))
			}
			writers = append(writers, fmt.Sprintf("(%s, [%s])", coqString(s.pkg), strings.Join(ws, "; ")))
		}
		for _, fn := range p.order {
			nwarn += len(fn.warn)
			if *verbose {
				for _, wn := range fn.warn {
					fmt.Fprintln(os.Stderr, "skel: warning:", wn)
				}
			}
		}
		fmt.Fprintf(os.Stderr, "skel: %s: %d functions, %d blocking-call kinds\n", s.pkg, len(p.order), len(p.blocks))
	}
	fmt.Fprintf(&sb, "\nDefinition skeletons : list skeleton := [%s].\n", strings.Join(names, "; "))
	fmt.Fprintf(&sb, "\n(* per package: the functions that publish the completion of the handshake, with the number of uses of the\n   connection in the statements after the publishing store *)\nDefinition publish_sites : list (string * list (string * N)) :=\n  [%s].\n", strings.Join(pubs, ";\n   "))
	fmt.Fprintf(&sb, "\n(* per package: every function that stores to the completion flag, whatever the value *)\nDefinition flag_writers : list (string * list string) :=\n  [%s].\n", strings.Join(writers, ";\n   "))
	for _, wn := range imp.warns {
		nwarn++
		if *verbose {
			fmt.Fprintln(os.Stderr, "skel: warning:", wn)
		}
	}
	fmt.Fprintf(os.Stderr, "skel: %d warnings\n", nwarn)
	if err := os.WriteFile(*out, []byte(sb.String()), 0o644); err != nil {
		fmt.Fprintln(os.Stderr, "skel:", err)
		os.Exit(1)
	}
}
