module skel

go 1.21
