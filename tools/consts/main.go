// Command consts regenerates coq/Model/GenConsts.v from the Go sources of the repository under test:
// every package-level integer constant of the packages tlcp, dtlcp and pa (evaluated with go/constant:
// iota, implicit repetition, references to other constants, conversions, shifts, time.Duration units),
// every package-level slice variable whose elements are such constants (e.g. cipherSuitesPreferenceOrder)
// and every map / slice of positional struct literals whose fields are constants or identifiers (the
// cipherSuites table).  The hand-written models state their own numbers; coq/Proofs/ConstsTie.v proves,
// by computation, that those numbers are the ones this file reads from the sources, and each Props file
// carries the equalities its property depends on as a theorem.  The translator is part of the trusted
// base: it reads declarations only (no function bodies), skips _test.go and verif_hooks*.go files.
package main

import (
	"flag"
	"fmt"
	"go/ast"
	"go/constant"
	"go/parser"
	"go/token"
	"os"
	"path/filepath"
	"sort"
	"strings"
)

type cdecl struct {
	expr ast.Expr
	iota int64
}

type pkg struct {
	consts map[string]cdecl
	lits   map[string][]ast.Expr // <function>_<variable> -> the constant expressions assigned to that local variable
	vars   map[string]ast.Expr
	memo   map[string]constant.Value
	busy   map[string]bool
}

var timeUnits = map[string]int64{
	"Nanosecond": 1, "Microsecond": 1e3, "Millisecond": 1e6, "Second": 1e9, "Minute": 60e9, "Hour": 3600e9,
}

func (p *pkg) lookup(name string) constant.Value {
	if v, ok := p.memo[name]; ok {
		return v
	}
	d, ok := p.consts[name]
	if !ok || p.busy[name] {
		return nil
	}
	p.busy[name] = true
	v := p.eval(d.expr, d.iota)
	p.busy[name] = false
	p.memo[name] = v
	return v
}

func (p *pkg) eval(e ast.Expr, iota int64) constant.Value {
	switch x := e.(type) {
	case *ast.BasicLit:
		switch x.Kind {
		case token.INT, token.CHAR, token.STRING:
			v := constant.MakeFromLiteral(x.Value, x.Kind, 0)
			if v.Kind() == constant.Unknown {
				return nil
			}
			return v
		}
		return nil
	case *ast.ParenExpr:
		return p.eval(x.X, iota)
	case *ast.Ident:
		switch x.Name {
		case "iota":
			if iota < 0 {
				return nil
			}
			return constant.MakeInt64(iota)
		case "true":
			return constant.MakeBool(true)
		case "false":
			return constant.MakeBool(false)
		}
		return p.lookup(x.Name)
	case *ast.SelectorExpr:
		if id, ok := x.X.(*ast.Ident); ok && id.Name == "time" {
			if u, ok := timeUnits[x.Sel.Name]; ok {
				return constant.MakeInt64(u)
			}
		}
		return nil
	case *ast.UnaryExpr:
		v := p.eval(x.X, iota)
		if v == nil || (x.Op != token.SUB && x.Op != token.ADD && x.Op != token.XOR && x.Op != token.NOT) {
			return nil
		}
		if x.Op == token.XOR && v.Kind() != constant.Int || x.Op == token.NOT && v.Kind() != constant.Bool {
			return nil
		}
		if (x.Op == token.SUB || x.Op == token.ADD) && v.Kind() != constant.Int {
			return nil
		}
		return constant.UnaryOp(x.Op, v, 0)
	case *ast.BinaryExpr:
		a, b := p.eval(x.X, iota), p.eval(x.Y, iota)
		if a == nil || b == nil {
			return nil
		}
		switch x.Op {
		case token.SHL, token.SHR:
			if a.Kind() != constant.Int || b.Kind() != constant.Int {
				return nil
			}
			s, ok := constant.Uint64Val(b)
			if !ok || s > 4096 {
				return nil
			}
			return constant.Shift(a, x.Op, uint(s))
		case token.ADD, token.SUB, token.MUL, token.QUO, token.REM, token.AND, token.OR, token.XOR, token.AND_NOT:
			if a.Kind() != constant.Int || b.Kind() != constant.Int {
				return nil
			}
			if (x.Op == token.QUO || x.Op == token.REM) && constant.Sign(b) == 0 {
				return nil
			}
			op := x.Op
			if op == token.QUO {
				op = token.QUO_ASSIGN // integer division
			}
			return constant.BinaryOp(a, op, b)
		}
		return nil
	case *ast.CallExpr:
		if len(x.Args) != 1 {
			return nil
		}
		if id, ok := x.Fun.(*ast.Ident); ok && id.Name == "len" {
			if arg, ok := x.Args[0].(*ast.Ident); ok {
				if l, ok := p.list(arg.Name); ok {
					return constant.MakeInt64(int64(len(l)))
				}
			}
			if v := p.eval(x.Args[0], iota); v != nil && v.Kind() == constant.String {
				return constant.MakeInt64(int64(len(constant.StringVal(v))))
			}
			return nil
		}
		// a conversion T(x): the value is what matters here
		switch x.Fun.(type) {
		case *ast.Ident, *ast.SelectorExpr:
			return p.eval(x.Args[0], iota)
		}
		return nil
	}
	return nil
}

// list evaluates a package-level variable that is a slice / array literal of constants
func (p *pkg) list(name string) ([]constant.Value, bool) {
	e, ok := p.vars[name]
	if !ok {
		return nil, false
	}
	cl, ok := e.(*ast.CompositeLit)
	if !ok {
		return nil, false
	}
	if _, isArr := cl.Type.(*ast.ArrayType); !isArr {
		return nil, false
	}
	out := []constant.Value{}
	for _, el := range cl.Elts {
		if _, kv := el.(*ast.KeyValueExpr); kv {
			return nil, false
		}
		v := p.eval(el, -1)
		if v == nil || v.Kind() != constant.Int {
			return nil, false
		}
		out = append(out, v)
	}
	return out, true
}

type row struct {
	key    string
	nums   []string
	idents []string
}

// table evaluates a map or slice of positional struct literals ({k: {a, b, f, ...}})
func (p *pkg) table(name string) ([]row, bool) {
	e, ok := p.vars[name]
	if !ok {
		return nil, false
	}
	cl, ok := e.(*ast.CompositeLit)
	if !ok {
		return nil, false
	}
	rows := []row{}
	for _, el := range cl.Elts {
		var r row
		val := el
		if kv, ok := el.(*ast.KeyValueExpr); ok {
			k := p.eval(kv.Key, -1)
			if k == nil || k.Kind() != constant.Int {
				return nil, false
			}
			r.key = k.ExactString()
			val = kv.Value
		} else {
			r.key = "(-1)"
		}
		if u, ok := val.(*ast.UnaryExpr); ok && u.Op == token.AND {
			val = u.X
		}
		inner, ok := val.(*ast.CompositeLit)
		if !ok || len(inner.Elts) == 0 {
			return nil, false
		}
		for _, f := range inner.Elts {
			if _, kv := f.(*ast.KeyValueExpr); kv {
				return nil, false
			}
			if v := p.eval(f, -1); v != nil && v.Kind() == constant.Int {
				r.nums = append(r.nums, zlit(v))
			} else if id, ok := f.(*ast.Ident); ok {
				r.idents = append(r.idents, id.Name)
			} else {
				return nil, false
			}
		}
		rows = append(rows, r)
	}
	if len(rows) == 0 {
		return nil, false
	}
	return rows, true
}

func zlit(v constant.Value) string {
	s := v.ExactString()
	if strings.HasPrefix(s, "-") {
		return "(" + s + ")"
	}
	return s
}

var coqKeywords = map[string]bool{"as": true, "at": true, "cofix": true, "else": true, "end": true, "exists": true,
	"fix": true, "for": true, "forall": true, "fun": true, "if": true, "in": true, "let": true, "match": true,
	"mod": true, "return": true, "then": true, "using": true, "where": true, "with": true, "Prop": true, "Set": true,
	"Type": true, "SProp": true, "IF": true}

func coqName(n string) string {
	if coqKeywords[n] {
		return n + "_"
	}
	return n
}

func loadPkg(dir string) (*pkg, error) {
	p := &pkg{consts: map[string]cdecl{}, lits: map[string][]ast.Expr{}, vars: map[string]ast.Expr{}, memo: map[string]constant.Value{}, busy: map[string]bool{}}
	files, err := filepath.Glob(filepath.Join(dir, "*.go"))
	if err != nil {
		return nil, err
	}
	sort.Strings(files)
	fset := token.NewFileSet()
	for _, f := range files {
		base := filepath.Base(f)
		if strings.HasSuffix(base, "_test.go") || strings.HasPrefix(base, "verif_hooks") {
			continue
		}
		af, err := parser.ParseFile(fset, f, nil, parser.SkipObjectResolution)
		if err != nil {
			return nil, err
		}
		for _, d := range af.Decls {
			if fd, isFn := d.(*ast.FuncDecl); isFn && fd.Body != nil {
				// constants declared inside a function: <function>_<name> (a receiver does not enter the name)
				ast.Inspect(fd.Body, func(n ast.Node) bool {
					if as, ok := n.(*ast.AssignStmt); ok && (as.Tok == token.DEFINE || as.Tok == token.ASSIGN) && len(as.Lhs) == len(as.Rhs) {
						// local variables given a constant: the defaults a function falls back to (pmtu := 1400, size = 32)
						for i, l := range as.Lhs {
							if id, ok := l.(*ast.Ident); ok && id.Name != "_" {
								switch as.Rhs[i].(type) {
								case *ast.BasicLit, *ast.BinaryExpr, *ast.ParenExpr, *ast.UnaryExpr:
									key := fd.Name.Name + "_" + id.Name
									p.lits[key] = append(p.lits[key], as.Rhs[i])
								}
							}
						}
						return true
					}
					if cc, ok := n.(*ast.CaseClause); ok {
						// the constants a switch distinguishes: <function>_case (in source order)
						for _, e := range cc.List {
							switch e.(type) {
							case *ast.BasicLit, *ast.BinaryExpr, *ast.ParenExpr, *ast.UnaryExpr:
								key := fd.Name.Name + "_case"
								p.lits[key] = append(p.lits[key], e)
							}
						}
						return true
					}
					ds, ok := n.(*ast.DeclStmt)
					if !ok {
						return true
					}
					if g, ok := ds.Decl.(*ast.GenDecl); ok && g.Tok == token.CONST {
						for i, s := range g.Specs {
							vs := s.(*ast.ValueSpec)
							for j, nm := range vs.Names {
								if nm.Name != "_" && j < len(vs.Values) {
									key := fd.Name.Name + "_" + nm.Name
									if _, dup := p.consts[key]; !dup {
										p.consts[key] = cdecl{vs.Values[j], int64(i)}
									}
								}
							}
						}
					}
					return true
				})
				continue
			}
			gd, ok := d.(*ast.GenDecl)
			if !ok {
				continue
			}
			switch gd.Tok {
			case token.CONST:
				var last []ast.Expr
				for i, s := range gd.Specs {
					vs := s.(*ast.ValueSpec)
					if len(vs.Values) > 0 {
						last = vs.Values
					}
					for j, n := range vs.Names {
						if n.Name == "_" || j >= len(last) {
							continue
						}
						p.consts[n.Name] = cdecl{last[j], int64(i)}
					}
				}
			case token.VAR:
				for _, s := range gd.Specs {
					vs := s.(*ast.ValueSpec)
					for j, n := range vs.Names {
						if n.Name != "_" && j < len(vs.Values) && len(vs.Names) == len(vs.Values) {
							p.vars[n.Name] = vs.Values[j]
						}
					}
				}
			}
		}
	}
	return p, nil
}

func main() {
	repo := flag.String("repo", "/repo", "repository under test")
	out := flag.String("o", "", "output file")
	flag.Parse()
	var b strings.Builder
	b.WriteString("(* GENERATED by tools/consts from the Go sources of the repository under test (package-level constants,\n")
	b.WriteString("   constant slices and positional struct tables of tlcp, dtlcp, pa).  Do not edit: rewritten on every run. *)\n")
	b.WriteString("From Coq Require Import ZArith List String.\nImport ListNotations.\nOpen Scope Z_scope.\nOpen Scope string_scope.\n\n")
	for _, m := range [][2]string{{"T", "tlcp"}, {"D", "dtlcp"}, {"PA", "pa"}} {
		p, err := loadPkg(filepath.Join(*repo, m[1]))
		if err != nil {
			fmt.Fprintln(os.Stderr, "consts:", err)
			os.Exit(1)
		}
		fmt.Fprintf(&b, "Module %s.  (* package %s *)\n", m[0], m[1])
		names := []string{}
		for n := range p.consts {
			names = append(names, n)
		}
		sort.Strings(names)
		for _, n := range names {
			v := p.lookup(n)
			if v == nil {
				continue
			}
			switch v.Kind() {
			case constant.Int:
				fmt.Fprintf(&b, "Definition %s : Z := %s.\n", coqName(n), zlit(v))
			case constant.Bool:
				fmt.Fprintf(&b, "Definition %s : bool := %v.\n", coqName(n), constant.BoolVal(v))
			}
		}
		lnames := []string{}
		for n := range p.lits {
			lnames = append(lnames, n)
		}
		sort.Strings(lnames)
		for _, n := range lnames {
			if _, clash := p.consts[n]; clash {
				continue
			}
			el := []string{}
			for _, e := range p.lits[n] {
				if v := p.eval(e, -1); v != nil && v.Kind() == constant.Int {
					el = append(el, zlit(v))
				}
			}
			if len(el) > 0 {
				fmt.Fprintf(&b, "Definition %s : list Z := [%s].  (* constants assigned to a local variable / distinguished by a switch *)\n", coqName(n), strings.Join(el, "; "))
			}
		}
		vnames := []string{}
		for n := range p.vars {
			vnames = append(vnames, n)
		}
		sort.Strings(vnames)
		for _, n := range vnames {
			if _, clash := p.consts[n]; clash {
				continue
			}
			if l, ok := p.list(n); ok {
				el := []string{}
				for _, v := range l {
					el = append(el, zlit(v))
				}
				fmt.Fprintf(&b, "Definition %s : list Z := [%s].\n", coqName(n), strings.Join(el, "; "))
				continue
			}
			if rows, ok := p.table(n); ok {
				fmt.Fprintf(&b, "Definition %s : list (Z * list Z * list string) :=\n  [", coqName(n))
				// rows of a map literal are sorted by key so that the order of the source lines does not matter
				if _, isMap := p.vars[n].(*ast.CompositeLit).Type.(*ast.MapType); isMap {
					sort.SliceStable(rows, func(i, j int) bool { return rows[i].key < rows[j].key })
				}
				for i, r := range rows {
					if i > 0 {
						b.WriteString(";\n   ")
					}
					q := []string{}
					for _, s := range r.idents {
						q = append(q, "\""+s+"\"")
					}
					fmt.Fprintf(&b, "(%s, [%s], [%s])", r.key, strings.Join(r.nums, "; "), strings.Join(q, "; "))
				}
				b.WriteString("].\n")
			}
		}
		fmt.Fprintf(&b, "End %s.\n\n", m[0])
	}
	if *out == "" {
		fmt.Print(b.String())
		return
	}
	if err := os.WriteFile(*out, []byte(b.String()), 0o644); err != nil {
		fmt.Fprintln(os.Stderr, "consts:", err)
		os.Exit(1)
	}
}
