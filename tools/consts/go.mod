module consts

go 1.21
