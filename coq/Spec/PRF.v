(* Key schedule of GB/T 38636-2020 (6.5 key computation, 6.4.5.x Finished), written from the
   standard: P_SM3 / PRF (5), master secret (6.5.1), working keys (6.5.2), Finished verify_data.
   Independent reading used by the C04 correspondence. *)
From Coq Require Import String Ascii.
From V Require Export Spec.SM3.
Open Scope N_scope.

Definition bytes_of_string (s : string) : list byte := map N_of_ascii (list_ascii_of_string s).

(* P_hash(secret, seed) = HMAC(secret, A(1) + seed) + HMAC(secret, A(2) + seed) + ...
   A(0) = seed, A(i) = HMAC(secret, A(i-1)) *)
Fixpoint p_sm3_iter (k : nat) (secret a seed : list byte) : list byte :=
  match k with
  | O => []
  | S k' => let a' := hmac_sm3 secret a in
            hmac_sm3 secret (a' ++ seed) ++ p_sm3_iter k' secret a' seed
  end.
(* as many 32-byte iterations as needed, the surplus of the last one is discarded *)
Definition p_sm3 (secret seed : list byte) (n : nat) : list byte :=
  firstn n (p_sm3_iter ((n + 31) / 32) secret seed seed).

(* PRF(secret, label, seed) = P_SM3(secret, label + seed) *)
Definition prf (secret : list byte) (label : string) (seed : list byte) (n : nat) : list byte :=
  p_sm3 secret (bytes_of_string label ++ seed) n.

(* 6.5.1: master_secret = PRF(pre_master_secret, "master secret", ClientHello.random + ServerHello.random)[0..47] *)
Definition master_secret (pre client_random server_random : list byte) : list byte :=
  prf pre "master secret" (client_random ++ server_random) 48.

(* 6.5.2: key_block = PRF(master_secret, "key expansion", server_random + client_random), cut in
   the order client_write_MAC_secret, server_write_MAC_secret, client_write_key,
   server_write_key, client_write_IV, server_write_IV *)
Record suite_lens := mkLens { mac_len : nat; key_len : nat; iv_len : nat }.
Definition block_len (l : suite_lens) : nat := 2 * mac_len l + 2 * key_len l + 2 * iv_len l.

Definition key_block (master client_random server_random : list byte) (l : suite_lens) : list byte :=
  prf master "key expansion" (server_random ++ client_random) (block_len l).

Record keys := mkKeys {
  client_mac : list byte; server_mac : list byte;
  client_key : list byte; server_key : list byte;
  client_iv : list byte; server_iv : list byte }.

Definition slice (off len : nat) (l : list byte) : list byte := firstn len (skipn off l).

Definition cut_keys (l : suite_lens) (kb : list byte) : keys :=
  let m := mac_len l in let k := key_len l in let i := iv_len l in
  mkKeys (slice 0 m kb) (slice m m kb)
         (slice (2 * m) k kb) (slice (2 * m + k) k kb)
         (slice (2 * m + 2 * k) i kb) (slice (2 * m + 2 * k + i) i kb).

Definition working_keys (master client_random server_random : list byte) (l : suite_lens) : keys :=
  cut_keys l (key_block master client_random server_random l).

(* what each side writes with / reads with *)
Record dir_keys := mkDK { k_mac : list byte; k_enc : list byte; k_iv : list byte }.
Record side_keys := mkSide { write_keys : dir_keys; read_keys : dir_keys }.
Definition client_write (k : keys) : dir_keys := mkDK (client_mac k) (client_key k) (client_iv k).
Definition server_write (k : keys) : dir_keys := mkDK (server_mac k) (server_key k) (server_iv k).
Definition client_keys (k : keys) : side_keys := mkSide (client_write k) (server_write k).
Definition server_keys (k : keys) : side_keys := mkSide (server_write k) (client_write k).

(* Finished: verify_data = PRF(master_secret, finished_label, SM3(handshake_messages))[0..11] *)
Definition verify_data (master : list byte) (label : string) (handshake_messages : list byte) : list byte :=
  prf master label (sm3 handshake_messages) 12.
Definition client_verify_data master msgs := verify_data master "client finished" msgs.
Definition server_verify_data master msgs := verify_data master "server finished" msgs.

Example label_bytes : bytes_of_string "master secret" = [109;97;115;116;101;114;32;115;101;99;114;101;116].
Proof. reflexivity. Qed.
