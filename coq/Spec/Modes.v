(* Modes of operation for SM4 as used by GB/T 38636: CBC (GB/T 17964) and GCM (GB/T 36624 /
   NIST SP 800-38D) with a 12-byte IV, a 32-bit counter and a 16-byte tag.  Independent reading
   used by the C04 correspondence; byte strings are list N. *)
From Coq Require Export Bool.
From V Require Export Spec.SM4.
Open Scope N_scope.

Fixpoint xor_bytes (a b : list byte) : list byte :=
  match a, b with
  | x :: a', y :: b' => N.lxor x y :: xor_bytes a' b'
  | _, _ => []
  end.

Fixpoint bytes_eq (a b : list byte) : bool :=
  match a, b with
  | [], [] => true
  | x :: a', y :: b' => N.eqb x y && bytes_eq a' b'
  | _, _ => false
  end.

(* well-formedness used by the statements about the modes *)
Definition wf_byte (x : N) : Prop := x < 256.
Definition wf_bytes (l : list byte) : Prop := Forall wf_byte l.
Definition wf_block (b : list byte) : Prop := length b = 16%nat /\ wf_bytes b.

(* cut a byte string into 16-byte blocks (the last one may be shorter) *)
Fixpoint blocks16 (fuel : nat) (l : list byte) : list (list byte) :=
  match fuel with
  | O => []
  | S f => match l with
           | [] => []
           | _ => firstn 16 l :: blocks16 f (skipn 16 l)
           end
  end.
Definition to_blocks (l : list byte) : list (list byte) := blocks16 (length l) l.

(* ---------------------------------------------------------------- CBC *)
(* C_i = E_K(P_i xor C_{i-1}), C_0 = IV;  P_i = D_K(C_i) xor C_{i-1} *)
Fixpoint cbc_enc_blocks (rks : list N) (prev : list byte) (bs : list (list byte)) : list (list byte) :=
  match bs with
  | [] => []
  | b :: t => let c := sm4_crypt rks (xor_bytes b prev) in c :: cbc_enc_blocks rks c t
  end.
Fixpoint cbc_dec_blocks (rks : list N) (prev : list byte) (cs : list (list byte)) : list (list byte) :=
  match cs with
  | [] => []
  | c :: t => xor_bytes (sm4_crypt rks c) prev :: cbc_dec_blocks rks c t
  end.

Definition cbc_encrypt (key iv data : list byte) : list byte :=
  concat (cbc_enc_blocks (round_keys key) iv (to_blocks data)).
Definition cbc_decrypt (key iv data : list byte) : list byte :=
  concat (cbc_dec_blocks (rev (round_keys key)) iv (to_blocks data)).

(* ---------------------------------------------------------------- big-endian integers *)
Definition n_of_bytes (bs : list byte) : N := fold_left (fun a b => 256 * a + b) bs 0.
Fixpoint be_acc (n : nat) (x : N) (acc : list byte) : list byte :=
  match n with
  | O => acc
  | S k => be_acc k (N.shiftr x 8) (lo8 x :: acc)
  end.
(* the n-byte big-endian encoding of x mod 256^n *)
Definition be (n : nat) (x : N) : list byte := be_acc n x [].

(* ---------------------------------------------------------------- GF(2^128) and GHASH *)
(* A block is the integer whose most significant bit is the first bit x_0 of SP 800-38D. *)
Definition R128 : N := 0xe1000000000000000000000000000000.
Definition mulx (v : N) : N := if N.odd v then N.lxor (N.shiftr v 1) R128 else N.shiftr v 1.

(* textbook multiplication (algorithm 1 of SP 800-38D): for i = 0..127, Z ^= V if x_i, V = V.x *)
Fixpoint gf_mul_loop (n : nat) (x z v : N) : N :=
  match n with
  | O => z
  | S k => gf_mul_loop k x (if N.testbit x (N.of_nat k) then N.lxor z v else z) (mulx v)
  end.
Definition gf_mul (x y : N) : N := gf_mul_loop 128 x 0 y.

(* the same sum with the 128 values V_i = H.x^i computed once per key: vtab = [V_127; ...; V_0],
   the bits of X are consumed from the least significant end *)
Fixpoint v_table (n : nat) (v : N) (acc : list N) : list N :=
  match n with
  | O => acc
  | S k => v_table k (mulx v) (v :: acc)
  end.
Fixpoint mul_tab (tab : list N) (x z : N) : N :=
  match tab with
  | [] => z
  | v :: t => mul_tab t (N.div2 x) (if N.odd x then N.lxor z v else z)
  end.
Definition gf_mul_h (vtab : list N) (x : N) : N := mul_tab vtab x 0.

(* a (possibly short, zero-padded on the right) block as an integer *)
Definition block_n (b : list byte) : N := N.shiftl (n_of_bytes b) (8 * N.of_nat (16 - length b)).

Definition ghash (vtab : list N) (aad ct : list byte) : N :=
  let step := fun y b => gf_mul_h vtab (N.lxor y (block_n b)) in
  let y1 := fold_left step (to_blocks aad) 0 in
  let y2 := fold_left step (to_blocks ct) y1 in
  gf_mul_h vtab (N.lxor y2 (18446744073709551616 * (8 * N.of_nat (length aad)) + 8 * N.of_nat (length ct))).

(* ---------------------------------------------------------------- GCM, 12-byte IV *)
Definition ctr_block (iv : list byte) (i : N) : list byte := iv ++ be 4 i.
Definition nblocks (n : nat) : nat := ((n + 15) / 16)%nat.
(* counter blocks inc32^i(J0), J0 = IV || 0^31 1; data blocks start at inc32(J0) *)
Definition keystream (rks : list N) (iv : list byte) (n : nat) : list byte :=
  flat_map (fun i => sm4_crypt rks (ctr_block iv ((N.of_nat i + 2) mod 4294967296))) (seq 0 n).
Definition gcm_ctr (rks : list N) (iv data : list byte) : list byte :=
  xor_bytes data (keystream rks iv (nblocks (length data))).
Definition gcm_tag (rks : list N) (iv aad ct : list byte) : list byte :=
  let h := n_of_bytes (sm4_crypt rks (repeat 0 16)) in
  let vtab := v_table 128 h [] in
  xor_bytes (sm4_crypt rks (ctr_block iv 1)) (be 16 (ghash vtab aad ct)).

Definition gcm_seal (key iv aad pt : list byte) : list byte :=
  let rks := round_keys key in
  let ct := gcm_ctr rks iv pt in
  ct ++ gcm_tag rks iv aad ct.
Definition gcm_open (key iv aad c : list byte) : option (list byte) :=
  if Nat.ltb (length c) 16 then None
  else
    let rks := round_keys key in
    let n := (length c - 16)%nat in
    let ct := firstn n c in
    if bytes_eq (gcm_tag rks iv aad ct) (skipn n c) then Some (gcm_ctr rks iv ct) else None.

(* ---------------------------------------------------------------- validation *)
(* vectors computed once with github.com/emmansun/gmsm (sm4 + crypto/cipher CBC / GCM), kept as
   regression vectors *)
Definition seqb (n : nat) (a m : N) : list byte := map (fun i => (N.of_nat i * a + m) mod 256) (seq 0 n).
Definition vk : list byte := [11;48;85;122;159;196;233;14;51;88;125;162;199;236;17;54].
Definition viv : list byte := [3;94;185;20;111;202;37;128;219;54;145;236;71;162;253;88].
Example cbc_vector_1024 :
  skipn 1008 (cbc_encrypt vk viv (seqb 1024 113 7)) = [238;72;68;116;144;64;226;186;217;103;84;200;61;44;84;87] /\
  cbc_decrypt vk viv (cbc_encrypt vk viv (seqb 1024 113 7)) = seqb 1024 113 7.
Proof. vm_compute. split; reflexivity. Qed.

Definition vnonce : list byte := [200;3;62;121;180;239;42;101;160;219;22;81].
Definition vaad : list byte := [5;22;39;56;73;90;107;124;141;158;175;192;209].
Example gcm_vector_empty :
  gcm_seal vk vnonce vaad [] = [46;111;35;124;198;232;220;24;199;66;161;51;28;91;234;102].
Proof. vm_compute. reflexivity. Qed.
Example gcm_vector_16 :
  gcm_seal vk vnonce vaad (seqb 16 29 1) =
  [170;200;15;96;69;210;215;9;178;205;248;0;211;39;134;172;252;198;171;237;70;62;121;242;152;187;32;159;231;243;186;134].
Proof. vm_compute. reflexivity. Qed.
Example gcm_vector_45 :
  gcm_seal vk vnonce vaad (seqb 45 29 1) =
  [170;200;15;96;69;210;215;9;178;205;248;0;211;39;134;172;117;34;82;59;198;117;253;198;196;67;177;24;82;137;108;164;7;220;104;129;197;250;238;43;115;65;98;239;201;47;196;221;37;69;198;156;22;127;237;247;38;190;67;129;91] /\
  gcm_open vk vnonce vaad (gcm_seal vk vnonce vaad (seqb 45 29 1)) = Some (seqb 45 29 1).
Proof. vm_compute. split; reflexivity. Qed.
Example gcm_vector_300 :
  skipn 284 (gcm_seal vk vnonce vaad (seqb 300 29 1)) =
  [7;178;141;211;48;52;196;4;245;8;215;106;0;93;117;28] ++ [129;133;231;115;23;166;216;193;94;214;135;96;101;106;42;215].
Proof. vm_compute. reflexivity. Qed.
Example gcm_vector_noaad :
  gcm_seal vk vnonce [] (seqb 20 3 9) =
  [162;218;59;42;37;88;99;219;122;239;252;106;163;109;34;46;157;240;102;81;194;236;29;207;104;245;121;217;192;89;158;177;173;12;199;137].
Proof. vm_compute. reflexivity. Qed.
(* a flipped tag bit or a changed AAD byte is refused *)
Example gcm_open_refuses :
  gcm_open vk vnonce vaad [46;111;35;124;198;232;220;24;199;66;161;51;28;91;234;103] = None /\
  gcm_open vk vnonce (5 :: 23 :: skipn 2 vaad) [46;111;35;124;198;232;220;24;199;66;161;51;28;91;234;102] = None /\
  gcm_open vk vnonce vaad [46;111;35;124;198;232;220;24;199;66;161;51;28;91;234;102] = Some [].
Proof. vm_compute. repeat split; reflexivity. Qed.
(* the table form of the multiplication is the textbook algorithm *)
Example gf_mul_forms_agree :
  let h := n_of_bytes (sm4_crypt (round_keys vk) (repeat 0 16)) in
  let vtab := v_table 128 h [] in
  forallb (fun x => N.eqb (gf_mul x h) (gf_mul_h vtab x))
    [0; 1; 2; 0x80000000000000000000000000000000; 0xffffffffffffffffffffffffffffffff; n_of_bytes vk; n_of_bytes viv; h] = true.
Proof. vm_compute. reflexivity. Qed.
