(* Record protection of GB/T 38636-2020 (6.3.3): block cipher SM4-CBC with HMAC-SM3 and explicit
   per-record IV, and SM4-GCM (AEAD, nonce = 4-byte write IV || 8-byte explicit part), for the
   5-byte TLCP record header and the 13-byte datagram header (type | version | epoch | 48-bit
   sequence number | length).  Independent reading used by the C04 correspondence. *)
From V Require Export Spec.Modes Spec.PRF.
Open Scope N_scope.

Inductive mode := MCbc | MGcm.
Inductive hform := HT | HD.

(* the 64-bit number authenticated with every record: the implicit record counter (TLCP), or
   epoch || 48-bit sequence number of the header (datagram form) *)
Definition seq8 (f : hform) (epoch seq : N) : list byte :=
  match f with
  | HT => be 8 seq
  | HD => be 2 epoch ++ be 6 seq
  end.

(* seq_num + type + version + length: the additional data of the AEAD, and the prefix of the MAC input *)
Definition auth_header (s8 : list byte) (typ ver len : N) : list byte :=
  s8 ++ typ :: be 2 ver ++ be 2 len.
(* MAC input: seq_num + type + version + length + fragment *)
Definition mac_input (s8 : list byte) (typ ver : N) (data : list byte) : list byte :=
  auth_header s8 typ ver (N.of_nat (length data)) ++ data.

Definition header (f : hform) (epoch seq typ ver len : N) : list byte :=
  match f with
  | HT => typ :: be 2 ver ++ be 2 len
  | HD => typ :: be 2 ver ++ be 2 epoch ++ be 6 seq ++ be 2 len
  end.

(* padding: padding_length+1 bytes all holding padding_length; the sender here uses the shortest one *)
Definition cbc_padding (n : nat) : list byte :=
  let p := (15 - n mod 16)%nat in repeat (N.of_nat p) (S p).

(* the declarative padding check: the last p+1 bytes all equal p, p = last byte *)
Definition padding_good (data : list byte) : bool :=
  match rev data with
  | [] => false
  | p :: _ => let n := S (N.to_nat p) in
              (n <=? length data)%nat && forallb (N.eqb p) (firstn n (rev data))
  end.
Definition unpad (data : list byte) : option (list byte) :=
  match rev data with
  | [] => None
  | p :: _ => if padding_good data then Some (firstn (length data - S (N.to_nat p)) data) else None
  end.

Definition nonce (k : dir_keys) (explicit : list byte) : list byte := k_iv k ++ explicit.

(* explicit = the per-record part carried in front of the ciphertext: 16-byte IV (CBC), 8-byte
   explicit nonce (GCM) *)
Definition protect_body (m : mode) (k : dir_keys) (s8 : list byte) (typ ver : N) (pt explicit : list byte) : list byte :=
  match m with
  | MCbc => let content := pt ++ hmac_sm3 (k_mac k) (mac_input s8 typ ver pt) in
            explicit ++ cbc_encrypt (k_enc k) explicit (content ++ cbc_padding (length content))
  | MGcm => explicit ++ gcm_seal (k_enc k) (nonce k explicit) (auth_header s8 typ ver (N.of_nat (length pt))) pt
  end.

Definition protect (m : mode) (f : hform) (k : dir_keys) (epoch seq typ ver : N) (pt explicit : list byte) : list byte :=
  let body := protect_body m k (seq8 f epoch seq) typ ver pt explicit in
  header f epoch seq typ ver (N.of_nat (length body)) ++ body.

Definition open_body (m : mode) (k : dir_keys) (s8 : list byte) (typ ver : N) (body : list byte) : option (list byte) :=
  match m with
  | MCbc =>
      if Nat.ltb (length body) 32 || negb (Nat.eqb (length body mod 16) 0) then None
      else
        let iv := firstn 16 body in
        match unpad (cbc_decrypt (k_enc k) iv (skipn 16 body)) with
        | None => None
        | Some content =>
            if Nat.ltb (length content) 32 then None
            else
              let n := (length content - 32)%nat in
              let pt := firstn n content in
              if bytes_eq (hmac_sm3 (k_mac k) (mac_input s8 typ ver pt)) (skipn n content) then Some pt else None
        end
  | MGcm =>
      if Nat.ltb (length body) 24 then None
      else
        let c := skipn 8 body in
        gcm_open (k_enc k) (nonce k (firstn 8 body)) (auth_header s8 typ ver (N.of_nat (length c - 16))) c
  end.

Record opened := mkOpened { o_typ : N; o_ver : N; o_epoch : N; o_seq : N; o_pt : list byte }.

(* header fields of a wire record; for the TLCP form the sequence number is the receiver's counter *)
Definition parse_header (f : hform) (seq : N) (rec : list byte) : option (N * N * N * N * list byte) :=
  match f with
  | HT => match rec with
          | t :: v1 :: v0 :: l1 :: l0 :: body =>
              if N.eqb (N.of_nat (length body)) (n_of_bytes [l1; l0]) then Some (t, n_of_bytes [v1; v0], 0, seq, body) else None
          | _ => None
          end
  | HD => match rec with
          | t :: v1 :: v0 :: e1 :: e0 :: s5 :: s4 :: s3 :: s2 :: s1 :: s0 :: l1 :: l0 :: body =>
              if N.eqb (N.of_nat (length body)) (n_of_bytes [l1; l0])
              then Some (t, n_of_bytes [v1; v0], n_of_bytes [e1; e0], n_of_bytes [s5; s4; s3; s2; s1; s0], body) else None
          | _ => None
          end
  end.

Definition unprotect (m : mode) (f : hform) (k : dir_keys) (seq : N) (rec : list byte) : option opened :=
  match parse_header f seq rec with
  | None => None
  | Some (t, v, e, s, body) =>
      match open_body m k (seq8 f e s) t v body with
      | None => None
      | Some pt => Some (mkOpened t v e s pt)
      end
  end.

(* field widths: TLCP 64-bit record counter; datagram form 16-bit epoch and 48-bit sequence number *)
Definition wf_seq (f : hform) (epoch seq : N) : Prop :=
  match f with
  | HT => seq < 18446744073709551616
  | HD => epoch < 65536 /\ seq < 281474976710656
  end.
(* the explicit per-record part: a 16-byte IV and byte-valued plaintext (CBC), an 8-byte explicit nonce (GCM) *)
Definition wf_explicit (m : mode) (pt explicit : list byte) : Prop :=
  match m with
  | MCbc => wf_block explicit /\ wf_bytes pt
  | MGcm => length explicit = 8%nat
  end.

(* the explicit part of a wire record (IV / explicit nonce), for the freshness check *)
Definition explicit_of (m : mode) (f : hform) (rec : list byte) : list byte :=
  let body := skipn (match f with HT => 5 | HD => 13 end) rec in
  firstn (match m with MCbc => 16 | MGcm => 8 end) body.

(* suite table (GB/T 38636 table 2): SM4 key 16 bytes; CBC suites: HMAC-SM3 key 32, IV 16;
   GCM suites: no MAC key, 4-byte implicit nonce part *)
Definition lens_of (m : mode) : suite_lens :=
  match m with MCbc => mkLens 32 16 16 | MGcm => mkLens 0 16 4 end.
Definition mode_of_suite (id : N) : option mode :=
  if N.eqb id 0xe053 || N.eqb id 0xe051 then Some MGcm
  else if N.eqb id 0xe013 || N.eqb id 0xe011 then Some MCbc
  else None.

Definition rt_keys : dir_keys := mkDK (seqb 32 3 1) vk [9; 8; 7; 6].
Example roundtrip_examples :
  forallb (fun '(m, f, ex) =>
    match unprotect m f rt_keys 5 (protect m f rt_keys 1 5 23 0x0101 (seqb 37 5 2) ex) with
    | Some o => bytes_eq (o_pt o) (seqb 37 5 2) && N.eqb (o_typ o) 23 && N.eqb (o_seq o) 5
    | None => false
    end) [(MCbc, HT, viv); (MCbc, HD, viv); (MGcm, HT, be 8 5); (MGcm, HD, be 2 1 ++ be 6 5)] = true.
Proof. vm_compute. reflexivity. Qed.
(* a record opened under another sequence number is refused *)
Example wrong_seq_refused :
  unprotect MCbc HT rt_keys 6 (protect MCbc HT rt_keys 0 5 23 0x0101 (seqb 37 5 2) viv) = None /\
  unprotect MGcm HT rt_keys 6 (protect MGcm HT rt_keys 0 5 23 0x0101 (seqb 37 5 2) (be 8 5)) = None.
Proof. vm_compute. split; reflexivity. Qed.
