(* SM3 hash (GB/T 32905-2016), written from the standard as the independent reading used by
   the correspondence checks (C04, C18).  Bytes and 32-bit words are N. *)
From Coq Require Export NArith Arith List.
Export ListNotations.
Open Scope N_scope.

Definition byte := N.
Definition M32 : N := 4294967296.
Definition w32 (x : N) : N := x mod M32.
Definition add32 (x y : N) : N := (x + y) mod M32.
Definition rotl (x : N) (n : N) : N :=
  let n := n mod 32 in
  w32 (N.lor (N.shiftl x n) (N.shiftr x (32 - n))).
Definition not32 (x : N) : N := N.lxor x 4294967295.

Definition IV : list N :=
  [1937774191; 1226093241; 388252375; 3666478592; 2842636476; 372324522; 3817729613; 2969243214].
  (* 7380166f 4914b2b9 172442d7 da8a0600 a96f30bc 163138aa e38dee4d b0fb0e4e *)

Definition Tj (j : N) : N := if j <? 16 then 2043430169 (* 79cc4519 *) else 2055708042 (* 7a879d8a *).
Definition FF (j x y z : N) : N :=
  if j <? 16 then N.lxor (N.lxor x y) z
  else N.lor (N.lor (N.land x y) (N.land x z)) (N.land y z).
Definition GG (j x y z : N) : N :=
  if j <? 16 then N.lxor (N.lxor x y) z
  else N.lor (N.land x y) (N.land (not32 x) z).
Definition P0 (x : N) : N := N.lxor (N.lxor x (rotl x 9)) (rotl x 17).
Definition P1 (x : N) : N := N.lxor (N.lxor x (rotl x 15)) (rotl x 23).

(* big-endian bytes <-> words *)
Fixpoint words_of_bytes (bs : list byte) : list N :=
  match bs with
  | a :: b :: c :: d :: t => (((a * 256 + b) * 256 + c) * 256 + d) :: words_of_bytes t
  | _ => []
  end.
Definition bytes_of_word (w : N) : list byte :=
  [(w / 16777216) mod 256; (w / 65536) mod 256; (w / 256) mod 256; w mod 256].
Definition bytes_of_u64 (x : N) : list byte :=
  bytes_of_word ((x / M32) mod M32) ++ bytes_of_word (x mod M32).

Definition nthw (l : list N) (i : nat) : N := nth i l 0.

(* message expansion: W_0..W_67 *)
Fixpoint expand (fuel : nat) (j : nat) (w : list N) : list N :=
  match fuel with
  | O => w
  | S k =>
      let x := N.lxor (N.lxor (nthw w (j - 16)) (nthw w (j - 9))) (rotl (nthw w (j - 3)) 15) in
      let wj := N.lxor (N.lxor (P1 x) (rotl (nthw w (j - 13)) 7)) (nthw w (j - 6)) in
      expand k (S j) (w ++ [wj])
  end.

Record regs := mkRegs { rA : N; rB : N; rC : N; rD : N; rE : N; rF : N; rG : N; rH : N }.

Definition round (w : list N) (r : regs) (j : nat) : regs :=
  let jn := N.of_nat j in
  let wj := nthw w j in
  let wj' := N.lxor wj (nthw w (j + 4)) in
  let a12 := rotl (rA r) 12 in
  let ss1 := rotl (add32 (add32 a12 (rE r)) (rotl (Tj jn) jn)) 7 in
  let ss2 := N.lxor ss1 a12 in
  let tt1 := add32 (add32 (add32 (FF jn (rA r) (rB r) (rC r)) (rD r)) ss2) wj' in
  let tt2 := add32 (add32 (add32 (GG jn (rE r) (rF r) (rG r)) (rH r)) ss1) wj in
  mkRegs tt1 (rA r) (rotl (rB r) 9) (rC r) (P0 tt2) (rE r) (rotl (rF r) 19) (rG r).

Definition compress (v : list N) (block : list byte) : list N :=
  let w := expand 52 16 (words_of_bytes block) in
  let r0 := mkRegs (nthw v 0) (nthw v 1) (nthw v 2) (nthw v 3) (nthw v 4) (nthw v 5) (nthw v 6) (nthw v 7) in
  let r := fold_left (round w) (seq 0 64) r0 in
  [N.lxor (rA r) (nthw v 0); N.lxor (rB r) (nthw v 1); N.lxor (rC r) (nthw v 2); N.lxor (rD r) (nthw v 3);
   N.lxor (rE r) (nthw v 4); N.lxor (rF r) (nthw v 5); N.lxor (rG r) (nthw v 6); N.lxor (rH r) (nthw v 7)].

(* padding: 0x80, zeros up to 56 mod 64, 64-bit bit length *)
Definition pad (msg : list byte) : list byte :=
  let l := length msg in
  let z := ((64 - (l + 9) mod 64) mod 64)%nat in
  msg ++ [128] ++ repeat 0 z ++ bytes_of_u64 (8 * N.of_nat l).

Fixpoint blocks (fuel : nat) (v : list N) (bs : list byte) : list N :=
  match fuel with
  | O => v
  | S k => match bs with
           | [] => v
           | _ => blocks k (compress v (firstn 64 bs)) (skipn 64 bs)
           end
  end.

Definition sm3 (msg : list byte) : list byte :=
  let p := pad msg in
  flat_map bytes_of_word (blocks (S (length p / 64)) IV p).

(* HMAC (GB/T 15852.2 / RFC 2104) with SM3, block size 64 *)
Definition xor_pad (k : list byte) (c : byte) : list byte := map (fun b => N.lxor b c) k.
Definition hmac_sm3 (key msg : list byte) : list byte :=
  let k0 := if Nat.ltb 64 (length key) then sm3 key else key in
  let k := k0 ++ repeat 0 (64 - length k0) in
  sm3 (xor_pad k 92 ++ sm3 (xor_pad k 54 ++ msg)).

(* standard test vectors (GB/T 32905-2016 appendix A) *)
Example sm3_abc :
  sm3 [97; 98; 99] =
  [102;199;240;244;98;238;237;217;209;242;212;107;220;16;228;226;65;103;196;135;92;242;247;162;41;125;160;43;143;75;168;224].
Proof. vm_compute. reflexivity. Qed.

Example sm3_abcd16 :
  sm3 (concat (repeat [97; 98; 99; 100] 16)) =
  [222;190;159;249;34;117;184;161;56;96;72;137;193;142;90;77;111;219;112;229;56;126;87;101;41;61;203;163;156;12;87;50].
Proof. vm_compute. reflexivity. Qed.

(* cross-checked against gmsm once, kept as regression vectors (key shorter / longer than a block) *)
Example hmac_short_key :
  hmac_sm3 [107;101;121] [84;104;101;32;113;117;105;99;107;32;98;114;111;119;110;32;102;111;120] =
  [141;84;113;108;5;83;153;4;34;173;9;230;58;114;55;56;102;150;168;149;47;100;229;70;164;222;227;184;154;147;26;53].
Proof. vm_compute. reflexivity. Qed.

Example hmac_long_key :
  hmac_sm3 (repeat 107 100) (repeat 120 200) =
  [99;166;34;61;192;40;84;150;8;164;216;150;104;114;200;252;182;1;251;221;182;52;42;36;50;108;54;6;204;167;36;230].
Proof. vm_compute. reflexivity. Qed.
