(* C13 — proofs about the concurrency model (Model/Conc.v): the two generic theorems of the
   mutex machine, soundness of the decidable checkers, and the three semantic models. *)
From Coq Require Import List NArith Arith Bool String Lia.
From V Require Import Model.Conc.
Import ListNotations.

(* ------------------------------------------------------------------ basics *)

Lemma mutex_eqb_eq : forall a b, mutex_eqb a b = true <-> a = b.
Proof. destruct a, b; simpl; split; intro H; try reflexivity; try discriminate. Qed.

Lemma own_eqb_eq : forall a b, own_eqb a b = true <-> a = b.
Proof. destruct a, b; simpl; split; intro H; try reflexivity; try discriminate. Qed.

Lemma memM_In : forall m l, memM m l = true <-> In m l.
Proof.
  intros m l. unfold memM. rewrite existsb_exists. split.
  - intros [x [Hx He]]. apply mutex_eqb_eq in He. subst. exact Hx.
  - intro H. exists m. split; [exact H|]. apply mutex_eqb_eq. reflexivity.
Qed.

Lemma remove_m_In : forall m x h, In x (remove_m m h) <-> In x h /\ x <> m.
Proof.
  intros m x h. unfold remove_m. rewrite filter_In. split; intros [H1 H2]; split; auto.
  - intro E. subst. rewrite (proj2 (mutex_eqb_eq m m) eq_refl) in H2. discriminate.
  - destruct (mutex_eqb x m) eqn:E; auto. apply mutex_eqb_eq in E. contradiction.
Qed.

(* ------------------------------------------------------------------ the machine *)

Section MachineProofs.
  Variable A : Type.

  Lemma upd_same : forall (s : state A) i t, upd A s i t i = t.
  Proof. intros. unfold upd. rewrite Nat.eqb_refl. reflexivity. Qed.


  Lemma upd_other : forall (s : state A) i t k, k <> i -> upd A s i t k = s k.
  Proof. intros. unfold upd. destruct (Nat.eqb_spec k i); [contradiction|reflexivity]. Qed.

End MachineProofs.

Section OrderProofs.
  Variable A : Type.
  (* ---------- ordered locking *)
  Variable rank : mutex -> nat.

  Definition inv_ord (s : state A) : Prop := forall i, ordered A rank (fst (s i)) (snd (s i)) = true.

  Lemma step_inv_ord : forall s s', inv_ord s -> step A s s' -> inv_ord s'.
  Proof.
    intros s s' I St k. destruct St as [i h m r E F | i h m r E | i h a r E].
    - destruct (Nat.eq_dec k i) as [->|N].
      + rewrite (upd_same A). specialize (I i). rewrite E in I. simpl in *. apply andb_prop in I. tauto.
      + rewrite (upd_other A) by exact N. apply I.
    - destruct (Nat.eq_dec k i) as [->|N].
      + rewrite (upd_same A). specialize (I i). rewrite E in I. simpl in *. exact I.
      + rewrite (upd_other A) by exact N. apply I.
    - destruct (Nat.eq_dec k i) as [->|N].
      + rewrite (upd_same A). specialize (I i). rewrite E in I. simpl in *. exact I.
      + rewrite (upd_other A) by exact N. apply I.
  Qed.

  Lemma no_ascending : forall (D : list nat) (f : nat -> nat),
    D <> [] -> (forall i, In i D -> exists j, In j D /\ f i < f j) -> False.
  Proof.
    intros D f Hne H.
    assert (Hmax : exists i, In i D /\ forall j, In j D -> f j <= f i).
    { clear H. induction D as [|a D IH]; [congruence|].
      destruct D as [|b D'].
      - exists a. split; [left; reflexivity|]. intros j [<-|[]]. lia.
      - destruct IH as [i [Hi Hm]]; [discriminate|].
        destruct (le_lt_dec (f i) (f a)).
        + exists a. split; [left; reflexivity|]. intros j [<-|Hj]; [lia|]. specialize (Hm j Hj). lia.
        + exists i. split; [right; exact Hi|]. intros j [<-|Hj]; [lia|]. auto. }
    destruct Hmax as [i [Hi Hm]]. destruct (H i Hi) as [j [Hj Hlt]]. specialize (Hm j Hj). lia.
  Qed.

  Lemma reach_inv_ord : forall prog, (forall i, ordered A rank [] (prog i) = true) ->
    forall s, reachable A (init A prog) s -> inv_ord s.
  Proof.
    intros prog Hp s Hr. induction Hr.
    - intro i. simpl. apply Hp.
    - eapply step_inv_ord; eauto.
  Qed.

  (* If every thread acquires mutexes in strictly increasing rank, no reachable state contains
     a set of threads each blocked on a mutex held by a thread of the set. *)
  Theorem ordered_locking_no_deadlock : forall prog,
    (forall i, ordered A rank [] (prog i) = true) ->
    forall s, reachable A (init A prog) s -> forall D, ~ lock_cycle A s D.
  Proof.
    intros prog Hp s Hr D [Hne Hc].
    assert (I : inv_ord s) by (eapply reach_inv_ord; eauto).
    set (f := fun i => match snd (s i) with ALock m :: _ => rank m | _ => 0 end).
    apply (no_ascending D f Hne). intros i Hi.
    destruct (Hc i Hi) as [m [j [[h [r E]] [Hj Hh]]]].
    exists j. split; [exact Hj|].
    destruct (Hc j Hj) as [m' [j' [[h' [r' E']] _]]].
    unfold f. rewrite E, E'. simpl.
    specialize (I j). rewrite E' in I. simpl in I. apply andb_prop in I. destruct I as [I _].
    rewrite forallb_forall in I. unfold holds in Hh. rewrite E' in Hh. simpl in Hh.
    specialize (I m Hh). apply Nat.ltb_lt in I. exact I.
  Qed.

End OrderProofs.

Section LocksetProofs.
  Variable A : Type.
  (* ---------- lockset *)
  Variable conflict : A -> A -> bool.

  Definition inv_sub (prog : nat -> list (act A)) (s : state A) : Prop :=
    forall i, incl (annot A (fst (s i)) (snd (s i))) (annot A [] (prog i)).

  Definition inv_excl (s : state A) : Prop :=
    forall i j m, i <> j -> In m (fst (s i)) -> ~ In m (fst (s j)).

  Lemma step_inv_sub : forall prog s s', inv_sub prog s -> step A s s' -> inv_sub prog s'.
  Proof.
    intros prog s s' I St k. destruct St as [i h m r E F | i h m r E | i h a r E];
      (destruct (Nat.eq_dec k i) as [->|N]; [rewrite (upd_same A) | rewrite (upd_other A) by exact N; apply I]);
      specialize (I i); rewrite E in I; simpl in *.
    - exact I.
    - exact I.
    - eapply incl_tran; [|exact I]. apply incl_tl. apply incl_refl.
  Qed.

  Lemma step_inv_excl : forall s s', inv_excl s -> step A s s' -> inv_excl s'.
  Proof.
    intros s s' I St a b x Hab Ha Hb. destruct St as [i h m r E F | i h m r E | i h l r E].
    - destruct (Nat.eq_dec a i) as [->|Na]; destruct (Nat.eq_dec b i) as [->|Nb]; try congruence.
      + rewrite (upd_same A) in Ha. rewrite (upd_other A) in Hb by exact Nb. simpl in Ha. destruct Ha as [<-|Ha].
        * exact (F b Hb).
        * apply (I i b x Hab); [rewrite E; exact Ha | exact Hb].
      + rewrite (upd_same A) in Hb. rewrite (upd_other A) in Ha by exact Na. simpl in Hb. destruct Hb as [<-|Hb].
        * exact (F a Ha).
        * apply (I a i x Hab); [exact Ha | rewrite E; exact Hb].
      + rewrite (upd_other A) in Ha by exact Na. rewrite (upd_other A) in Hb by exact Nb. exact (I a b x Hab Ha Hb).
    - destruct (Nat.eq_dec a i) as [->|Na]; destruct (Nat.eq_dec b i) as [->|Nb]; try congruence.
      + rewrite (upd_same A) in Ha. rewrite (upd_other A) in Hb by exact Nb. simpl in Ha. apply remove_m_In in Ha.
        apply (I i b x Hab); [rewrite E; tauto | exact Hb].
      + rewrite (upd_same A) in Hb. rewrite (upd_other A) in Ha by exact Na. simpl in Hb. apply remove_m_In in Hb.
        apply (I a i x Hab); [exact Ha | rewrite E; tauto].
      + rewrite (upd_other A) in Ha by exact Na. rewrite (upd_other A) in Hb by exact Nb. exact (I a b x Hab Ha Hb).
    - destruct (Nat.eq_dec a i) as [->|Na]; destruct (Nat.eq_dec b i) as [->|Nb]; try congruence.
      + rewrite (upd_same A) in Ha. rewrite (upd_other A) in Hb by exact Nb. simpl in Ha.
        apply (I i b x Hab); [rewrite E; exact Ha | exact Hb].
      + rewrite (upd_same A) in Hb. rewrite (upd_other A) in Ha by exact Na. simpl in Hb.
        apply (I a i x Hab); [exact Ha | rewrite E; exact Hb].
      + rewrite (upd_other A) in Ha by exact Na. rewrite (upd_other A) in Hb by exact Nb. exact (I a b x Hab Ha Hb).
  Qed.

  (* If conflicting accesses of different threads always share a held mutex (statically), then
     in no reachable state are two conflicting accesses of different threads both next to run. *)
  Theorem lockset_race_free : forall prog,
    protected A conflict prog ->
    forall s, reachable A (init A prog) s -> ~ race A conflict s.
  Proof.
    intros prog P s Hr.
    assert (I : inv_sub prog s /\ inv_excl s).
    { induction Hr.
      - split.
        + intro i. simpl. apply incl_refl.
        + intros i j m _ H. simpl in H. contradiction.
      - destruct IHHr as [I1 I2]. split; [eapply step_inv_sub | eapply step_inv_excl]; eauto. }
    destruct I as [I1 I2].
    intros (i & j & hi & a & ri & hj & b & rj & Hij & Ei & Ej & Hc).
    assert (Ha : In (a, hi) (annot A [] (prog i))).
    { apply (I1 i). rewrite Ei. simpl. left. reflexivity. }
    assert (Hb : In (b, hj) (annot A [] (prog j))).
    { apply (I1 j). rewrite Ej. simpl. left. reflexivity. }
    destruct (P i j a hi b hj Hij Ha Hb Hc) as [m [M1 M2]].
    apply (I2 i j m Hij); [rewrite Ei | rewrite Ej]; assumption.
  Qed.
End LocksetProofs.

(* ------------------------------------------------------------------ checkers are sound *)

Lemma lock_order_sound : forall sk, lock_order_ok sk = true ->
  forall c t, In c (sk_classes sk) -> In t (class_threads sk (snd c)) ->
  ordered label c13_rank [] t = true /\ leaf_ok [] t = true.
Proof.
  unfold lock_order_ok. intros sk H c t Hc Ht. apply andb_prop in H. destruct H as [_ H].
  rewrite forallb_forall in H. specialize (H c Hc). rewrite forallb_forall in H. specialize (H t Ht).
  unfold thread_order_ok in H. apply andb_prop in H. exact H.
Qed.

(* no deadlock by lock order among any threads running methods of one object *)
Theorem lock_order_no_deadlock : forall sk, lock_order_ok sk = true ->
  forall c prog, In c (sk_classes sk) -> runs_class sk c prog ->
  forall s, reachable label (init label prog) s -> forall D, ~ lock_cycle label s D.
Proof.
  intros sk H c prog Hc Hrun. apply ordered_locking_no_deadlock with (rank := c13_rank).
  intro i. destruct (Hrun i) as [Hin|He].
  - apply (lock_order_sound sk H c _ Hc Hin).
  - rewrite He. reflexivity.
Qed.

Lemma held_eqb_eq : forall H K, held_eqb H K = true -> H = K.
Proof.
  induction H as [|x H IH]; destruct K as [|y K]; simpl; intro E; try discriminate; [reflexivity|].
  apply andb_prop in E. destruct E as [E1 E2]. apply mutex_eqb_eq in E1. subst. f_equal. auto.
Qed.

Lemma access_eqb_eq : forall a b, access_eqb a b = true -> a = b.
Proof.
  intros [o1 f1 w1 t1 s1 h1 d1] [o2 f2 w2 t2 s2 h2 d2]. unfold access_eqb. simpl. intro H.
  repeat rewrite andb_true_iff in H. destruct H as [[[[[[H1 H2] H3] H4] H5] H6] H7].
  apply own_eqb_eq in H1. apply N.eqb_eq in H2. apply eqb_prop in H3. apply eqb_prop in H4.
  apply N.eqb_eq in H5. apply eqb_prop in H6. apply eqb_prop in H7. subst. reflexivity.
Qed.

Lemma rec_eqb_eq : forall x y, rec_eqb x y = true -> x = y.
Proof.
  intros [lx hx] [ly hy]. unfold rec_eqb. simpl. destruct lx, ly; try discriminate. intro H.
  apply andb_prop in H. destruct H as [H1 H2]. apply access_eqb_eq in H1. apply held_eqb_eq in H2.
  subst. reflexivity.
Qed.

Lemma dedup_In : forall l acc x, In x l \/ In x acc -> In x (dedup l acc).
Proof.
  induction l as [|a l IH]; simpl; intros acc x H.
  - destruct H as [[]|H]. exact H.
  - destruct (existsb (rec_eqb a) acc) eqn:E.
    + apply IH. destruct H as [[<-|H]|H]; auto.
      right. apply existsb_exists in E. destruct E as [y [Hy Ey]]. apply rec_eqb_eq in Ey. subst. exact Hy.
    + apply IH. destruct H as [[<-|H]|H]; auto.
      * right. left. reflexivity.
      * right. right. exact H.
Qed.

Lemma lockset_sound : forall sk ex fds, lockset_ok sk ex fds = true ->
  forall c prog, In c (sk_classes sk) -> runs_class sk c prog ->
  protected label (conflict (resolve sk ex fds)) prog.
Proof.
  unfold lockset_ok. intros sk ex fds H c prog Hc Hrun i j a Ha b Hb Hij Hia Hjb Hconf.
  apply andb_prop in H. destruct H as [_ H]. rewrite forallb_forall in H. specialize (H c Hc).
  apply andb_prop in H. destruct H as [H _].
  assert (Rec : forall k x K, In (x, K) (annot label [] (prog k)) -> is_acc (x, K) = true ->
                              In (x, K) (class_records sk (snd c))).
  { intros k x K Hin Hacc. unfold class_records. apply dedup_In. left. apply filter_In. split; [|exact Hacc].
    apply in_flat_map. exists (prog k). split; [|exact Hin].
    destruct (Hrun k) as [Hk|He]; [exact Hk|]. rewrite He in Hin. simpl in Hin. contradiction. }
  assert (Ra : In (a, Ha) (class_records sk (snd c))).
  { apply (Rec i); [exact Hia|]. unfold is_acc. simpl. destruct a; simpl in Hconf; try discriminate. reflexivity. }
  assert (Rb : In (b, Hb) (class_records sk (snd c))).
  { apply (Rec j); [exact Hjb|]. unfold is_acc. simpl. destruct a, b; simpl in Hconf; try discriminate. reflexivity. }
  unfold records_ok in H. rewrite forallb_forall in H. specialize (H _ Ra). rewrite forallb_forall in H.
  specialize (H _ Rb). unfold pair_ok in H. simpl in H. rewrite Hconf in H. simpl in H.
  unfold share in H. apply existsb_exists in H. destruct H as [m [M1 M2]]. apply memM_In in M2.
  exists m. split; assumption.
Qed.

(* no two conflicting, non-exempt accesses of different threads are ever both next to run *)
Theorem lockset_no_race : forall sk ex fds, lockset_ok sk ex fds = true ->
  forall c prog, In c (sk_classes sk) -> runs_class sk c prog ->
  forall s, reachable label (init label prog) s -> ~ race label (conflict (resolve sk ex fds)) s.
Proof.
  intros sk ex fds H c prog Hc Hrun s Hr. eapply lockset_race_free; [|exact Hr]. eapply lockset_sound; eauto.
Qed.

(* the side condition of the handshake-phase exemption *)
Lemma phase_sound : forall sk ex fds, lockset_ok sk ex fds = true ->
  forall c x K, In c (sk_classes sk) -> In (LAcc x, K) (class_records sk (snd c)) ->
  a_hs x = true -> a_write x = true -> a_atomic x = false -> In MHandshake K.
Proof.
  unfold lockset_ok. intros sk ex fds H c x K Hc Hin H1 H2 H3.
  apply andb_prop in H. destruct H as [_ H]. rewrite forallb_forall in H. specialize (H c Hc).
  apply andb_prop in H. destruct H as [_ H]. rewrite forallb_forall in H. specialize (H _ Hin).
  unfold phase_rec_ok in H. simpl in H. rewrite H1, H2, H3 in H. simpl in H. apply memM_In. exact H.
Qed.

(* every transport write of an application Write / WriteTo outside the handshake phase is made
   with the write-half mutex held ... *)
Lemma emissions_annot : forall sk t h n b site K,
  In (LBlock b site false, K) (annot label h t) -> is_emission sk b = true ->
  (forall x, In x (emissions sk h n t) -> snd x = true) -> In MOut K.
Proof.
  induction t as [|a t IH]; simpl; intros h n b site K Hin He Hall; [contradiction|].
  destruct a as [m|m|l].
  - eapply IH; eauto.
  - eapply IH; eauto.
  - simpl in Hin. destruct Hin as [E|Hin].
    + inversion E; subst. simpl in Hall. rewrite He in Hall.
      specialize (Hall (n, memM MOut K) (or_introl eq_refl)). simpl in Hall. apply memM_In. exact Hall.
    + destruct l as [x|b' s' hs'|o f s']; try (eapply IH; eauto; fail).
      destruct hs'; [eapply IH; eauto|].
      eapply IH; eauto. intros x Hx. apply Hall. apply in_or_app. right. exact Hx.
Qed.

(* ... and all of them in one critical section *)
Theorem write_section_sound : forall sk, write_section_ok sk = true ->
  forall e, In e (writer_entries sk) ->
  (exists n, emissions sk [] 0 (main_thread sk e) <> [] /\
             forall x, In x (emissions sk [] 0 (main_thread sk e)) -> x = (n, true))
  /\ forall b site K, In (LBlock b site false, K) (annot label [] (main_thread sk e)) ->
                      is_emission sk b = true -> In MOut K.
Proof.
  unfold write_section_ok. intros sk H e He. rewrite forallb_forall in H. specialize (H e He).
  generalize dependent (main_thread sk e). intros t H.
  unfold one_section in H. destruct (emissions sk [] 0 t) as [|[n b0] l] eqn:E; [discriminate|].
  rewrite forallb_forall in H.
  assert (All : forall x, In x ((n, b0) :: l) -> x = (n, true)).
  { intros [k v] Hx. specialize (H _ Hx). simpl in H. apply andb_prop in H. destruct H as [H1 H2].
    apply Nat.eqb_eq in H1. subst. reflexivity. }
  split.
  - exists n. split; [discriminate|]. exact All.
  - intros b site K Hin Hb. apply (emissions_annot sk t [] 0 b site K Hin Hb).
    intros x Hx. rewrite E in Hx. rewrite (All x Hx). reflexivity.
Qed.

(* Close of the datagram stack: nothing but atomics, reads and blocking calls before the spin-wait *)
Theorem close_waits_sound : forall sk, close_waits_ok sk = true ->
  forall e, In e (ids_named sk ["Conn.Close"%string]) -> before_spin_ok (main_thread sk e) = true.
Proof.
  unfold close_waits_ok. intros sk H e He. rewrite forallb_forall in H. exact (H e He).
Qed.

(* ------------------------------------------------------------------ the write path *)

Section WriteProofs.
  Variable rcd : Type.
  Variable prog : nat -> list (list rcd).

  Lemma NoDup_snoc : forall (X : Type) (l : list X) x, NoDup l -> ~ In x l -> NoDup (l ++ [x]).
  Proof.
    induction l as [|a l IH]; simpl; intros x Hn Hx.
    - constructor; [intros []|constructor].
    - inversion Hn; subst. constructor.
      + intro Hin. apply in_app_or in Hin. destruct Hin as [Hin|[<-|[]]]; [contradiction|]. apply Hx. left. reflexivity.
      + apply IH; [assumption|]. intro. apply Hx. right. assumption.
  Qed.

  Lemma wupd_same : forall f i t, wupd rcd f i t i = t.
  Proof. intros. unfold wupd. rewrite Nat.eqb_refl. reflexivity. Qed.

  Lemma wupd_other : forall f i t k, k <> i -> wupd rcd f i t k = f k.
  Proof. intros. unfold wupd. destruct (Nat.eqb_spec k i); [contradiction|reflexivity]. Qed.

  (* In every reachable state of every interleaving the wire is the concatenation of whole
     payloads of the completed Writes, each exactly once, plus the part already emitted by the
     one Write in progress. *)
  Theorem writes_whole : forall s, wreach rcd prog s -> whole rcd prog s.
  Proof.
    induction 1 as [|s s' Hr IH St].
    - exists [], []. simpl. split; [constructor|]. split; [|split; [reflexivity|split; [reflexivity|intros; reflexivity]]].
      intros i k. split; [intros []|lia].
    - destruct IH as (order & pre & Hnd & Hin & Hw & Hl).
      destruct St as [i p Hpc Hlk Hnth | i r rs Hpc | i Hpc].
      + (* acquire *)
        rewrite Hlk in Hl. destruct Hl as [-> Hnone].
        exists order, []. simpl. split; [exact Hnd|]. split; [|split].
        * intros j k. rewrite Hin. destruct (Nat.eq_dec j i) as [->|N].
          -- rewrite wupd_same. simpl. tauto.
          -- rewrite wupd_other by exact N. tauto.
        * exact Hw.
        * exists p. rewrite wupd_same. simpl. split; [reflexivity|]. split; [exact Hnth|].
          intros j N. rewrite wupd_other by exact N. apply Hnone.
      + (* emit *)
        destruct (w_lock rcd s) as [i0|] eqn:L.
        * destruct Hl as (rem & Hrem & Hnth & Hoth).
          destruct (Nat.eq_dec i i0) as [->|N]; [|rewrite (Hoth i N) in Hpc; discriminate].
          rewrite Hrem in Hpc. inversion Hpc; subst rem.
          exists order, (pre ++ [r]). simpl. split; [exact Hnd|]. split; [|split].
          -- intros j k. rewrite Hin. destruct (Nat.eq_dec j i0) as [->|N].
             ++ rewrite wupd_same. simpl. tauto.
             ++ rewrite wupd_other by exact N. tauto.
          -- rewrite Hw. rewrite <- app_assoc. reflexivity.
          -- exists rs. rewrite wupd_same. simpl. split; [reflexivity|]. split.
             ++ rewrite Hnth. rewrite <- app_assoc. reflexivity.
             ++ intros j N. rewrite wupd_other by exact N. apply Hoth. exact N.
        * destruct Hl as [_ Hnone]. rewrite Hnone in Hpc. discriminate.
      + (* release *)
        destruct (w_lock rcd s) as [i0|] eqn:L.
        * destruct Hl as (rem & Hrem & Hnth & Hoth).
          destruct (Nat.eq_dec i i0) as [->|N]; [|rewrite (Hoth i N) in Hpc; discriminate].
          rewrite Hrem in Hpc. inversion Hpc; subst rem. rewrite app_nil_r in Hnth.
          exists (order ++ [(i0, w_done rcd (w_th rcd s i0))]), []. simpl. split; [|split; [|split]].
          -- apply NoDup_snoc; [exact Hnd|]. rewrite Hin. lia.
          -- intros j k. rewrite in_app_iff. rewrite Hin. simpl. destruct (Nat.eq_dec j i0) as [->|N].
             ++ rewrite wupd_same. simpl. split.
                ** intros [Hlt|[E|[]]]; [lia|]. inversion E. lia.
                ** intro Hlt. destruct (Nat.eq_dec k (w_done rcd (w_th rcd s i0))) as [->|Nk]; [right; left; reflexivity|left; lia].
             ++ rewrite wupd_other by exact N. split.
                ** intros [Hlt|[E|[]]]; [exact Hlt|]. inversion E. congruence.
                ** intro Hlt. left. exact Hlt.
          -- rewrite Hw. rewrite map_app, concat_app. simpl. repeat rewrite app_nil_r.
             replace (payload rcd prog (i0, w_done rcd (w_th rcd s i0))) with pre; [reflexivity|].
             unfold payload. simpl. symmetry. apply nth_error_nth. exact Hnth.
          -- split; [reflexivity|]. intro j. destruct (Nat.eq_dec j i0) as [->|N].
             ++ rewrite wupd_same. reflexivity.
             ++ rewrite wupd_other by exact N. apply Hoth. exact N.
        * destruct Hl as [_ Hnone]. rewrite Hnone in Hpc. discriminate.
  Qed.

  (* when every thread has finished, the wire is exactly all payloads, whole, each once *)
  Corollary writes_whole_final : forall s, wreach rcd prog s ->
    w_lock rcd s = None ->
    (forall i, w_done rcd (w_th rcd s i) = List.length (prog i)) ->
    exists order, NoDup order
      /\ (forall i k, In (i, k) order <-> k < List.length (prog i))
      /\ w_wire rcd s = List.concat (map (payload rcd prog) order).
  Proof.
    intros s Hr Hl Hd. destruct (writes_whole s Hr) as (order & pre & Hnd & Hin & Hw & Hlk).
    rewrite Hl in Hlk. destruct Hlk as [-> _]. exists order. split; [exact Hnd|]. split.
    - intros i k. rewrite Hin, Hd. tauto.
    - rewrite Hw. apply app_nil_r.
  Qed.
End WriteProofs.

(* ------------------------------------------------------------------ the handshake latch *)

Section HandshakeProofs.
  Variable E : Type.
  Variable outcome : nat -> option E.

  Notation hstate := (hstate E).

  Definition busy (p : hpc E) : Prop := p = HLocked E \/ p = HRunning E.

  Definition hinv (s : hstate) : Prop :=
    (forall i, busy (h_pc E s i) -> h_mutex E s = Some i)
    /\ ( (h_runs E s = 0 /\ h_status E s = false /\ h_err E s = None
          /\ (forall i r, h_pc E s i <> HDone E r) /\ (forall i, h_pc E s i <> HRunning E))
      \/ (h_runs E s = 1 /\ h_status E s = false /\ h_err E s = None
          /\ (forall i r, h_pc E s i <> HDone E r) /\ (exists i, h_pc E s i = HRunning E))
      \/ (h_runs E s = 1 /\ (forall i, h_pc E s i <> HRunning E)
          /\ exists r0, (forall i r, h_pc E s i = HDone E r -> r = r0)
                        /\ match r0 with
                           | None => h_status E s = true /\ h_err E s = None
                           | Some e => h_status E s = false /\ h_err E s = Some e
                           end) ).

  Lemma hupd_same : forall f i p, hupd E f i p i = p.
  Proof. intros. unfold hupd. rewrite Nat.eqb_refl. reflexivity. Qed.

  Lemma hupd_other : forall f i p k, k <> i -> hupd E f i p k = f k.
  Proof. intros. unfold hupd. destruct (Nat.eqb_spec k i); [contradiction|reflexivity]. Qed.

  Ltac hcase k i := destruct (Nat.eq_dec k i) as [->|?]; [rewrite hupd_same in * | rewrite hupd_other in * by assumption].

  Lemma hstep_inv : forall s s', hinv s -> hstep E outcome s s' -> hinv s'.
  Proof.
    intros s s' [I1 I3] St.
    destruct St as [i Hp Hs | i Hp Hs | i Hp Hm | i e Hp He | i Hp He Hs | i Hp He Hs | i Hp]; simpl.
    - (* fast path *)
      split.
      + simpl. intros k Hb. hcase k i.
        * destruct Hb; discriminate.
        * apply I1. exact Hb.
      + destruct I3 as [(_ & Hf & _)|[(_ & Hf & _)|(Hr & Hnr & r0 & Hall & Hm)]]; simpl; try congruence.
        right. right. simpl. split; [exact Hr|]. split.
        * intro k. hcase k i; [discriminate|apply Hnr].
        * exists r0. split; [|exact Hm]. intros k r Hk. hcase k i.
          -- destruct r0 as [e|]; [destruct Hm; congruence|]. inversion Hk. reflexivity.
          -- eapply Hall; eauto.
    - (* slow path chosen *)
      split.
      + simpl. intros k Hb. hcase k i.
        * destruct Hb; discriminate.
        * apply I1. exact Hb.
      + simpl. destruct I3 as [(Hr & H1 & H2 & Hnd & Hnr)|[(Hr & H1 & H2 & Hnd & [j Hj])|(Hr & Hnr & r0 & Hall & Hm)]].
        * left. repeat split; auto; intro k; [intro r|]; hcase k i; try discriminate; auto.
        * right. left. repeat split; auto.
          -- intros k r. hcase k i; [discriminate|apply Hnd].
          -- exists j. hcase j i; [congruence|exact Hj].
        * right. right. split; [exact Hr|]. split.
          -- intro k. hcase k i; [discriminate|apply Hnr].
          -- exists r0. split; [|exact Hm]. intros k r Hk. hcase k i; [discriminate|eapply Hall; eauto].
    - (* lock *)
      split.
      + simpl. intros k Hb. hcase k i; [reflexivity|]. specialize (I1 k Hb). congruence.
      + simpl. destruct I3 as [(Hr & H1 & H2 & Hnd & Hnr)|[(Hr & H1 & H2 & Hnd & [j Hj])|(Hr & Hnr & r0 & Hall & Hm0)]].
        * left. repeat split; auto; intro k; [intro r|]; hcase k i; try discriminate; auto.
        * right. left. repeat split; auto.
          -- intros k r. hcase k i; [discriminate|apply Hnd].
          -- exists j. hcase j i; [congruence|exact Hj].
        * right. right. split; [exact Hr|]. split.
          -- intro k. hcase k i; [discriminate|apply Hnr].
          -- exists r0. split; [|exact Hm0]. intros k r Hk. hcase k i; [discriminate|eapply Hall; eauto].
    - (* latched error *)
      assert (Hbusy : forall k, k <> i -> ~ busy (h_pc E s k)).
      { intros k N Hb. pose proof (I1 k Hb) as X1. pose proof (I1 i (or_introl Hp)) as X2. congruence. }
      split.
      + simpl. intros k Hb. hcase k i; [destruct Hb; discriminate|]. exfalso. eapply Hbusy; eauto.
      + simpl. destruct I3 as [(_ & _ & Hf & _)|[(_ & _ & Hf & _)|(Hr & Hnr & r0 & Hall & Hm)]]; try congruence.
        right. right. split; [exact Hr|]. split.
        * intro k. hcase k i; [discriminate|apply Hnr].
        * exists r0. split; [|exact Hm]. intros k r Hk. hcase k i.
          -- destruct r0 as [e0|]; [destruct Hm as [_ Hm]; inversion Hk; congruence|destruct Hm; congruence].
          -- eapply Hall; eauto.
    - (* latched success *)
      assert (Hbusy : forall k, k <> i -> ~ busy (h_pc E s k)).
      { intros k N Hb. pose proof (I1 k Hb) as X1. pose proof (I1 i (or_introl Hp)) as X2. congruence. }
      split.
      + simpl. intros k Hb. hcase k i; [destruct Hb; discriminate|]. exfalso. eapply Hbusy; eauto.
      + simpl. destruct I3 as [(_ & Hf & _)|[(_ & Hf & _)|(Hr & Hnr & r0 & Hall & Hm)]]; try congruence.
        right. right. split; [exact Hr|]. split.
        * intro k. hcase k i; [discriminate|apply Hnr].
        * exists r0. split; [|exact Hm]. intros k r Hk. hcase k i.
          -- destruct r0 as [e0|]; [destruct Hm; congruence|inversion Hk; reflexivity].
          -- eapply Hall; eauto.
    - (* begin running handshakeFn *)
      assert (Hbusy : forall k, k <> i -> ~ busy (h_pc E s k)).
      { intros k N Hb. pose proof (I1 k Hb) as X1. pose proof (I1 i (or_introl Hp)) as X2. congruence. }
      split.
      + simpl. intros k Hb. hcase k i; [apply I1; left; exact Hp|]. exfalso. eapply Hbusy; eauto.
      + simpl. destruct I3 as [(Hr & H1 & H2 & Hnd & Hnr)|[(Hr & H1 & H2 & Hnd & [j Hj])|(Hr & Hnr & r0 & Hall & Hm)]].
        * right. left. rewrite Hr. repeat split; auto.
          -- intros k r. hcase k i; [discriminate|apply Hnd].
          -- exists i. rewrite hupd_same. reflexivity.
        * exfalso. destruct (Nat.eq_dec j i) as [->|N]; [congruence|]. apply (Hbusy j N). right. exact Hj.
        * exfalso. destruct r0 as [e0|]; destruct Hm; congruence.
    - (* handshakeFn returns *)
      assert (Hbusy : forall k, k <> i -> ~ busy (h_pc E s k)).
      { intros k N Hb. pose proof (I1 k Hb) as X1. pose proof (I1 i (or_intror Hp)) as X2. congruence. }
      split.
      + simpl. intros k Hb. hcase k i; [destruct Hb; discriminate|]. exfalso. eapply Hbusy; eauto.
      + simpl. destruct I3 as [(_ & _ & _ & _ & Hnr)|[(Hr & H1 & H2 & Hnd & _)|(_ & Hnr & _)]].
        * exfalso. exact (Hnr i Hp).
        * right. right. split; [exact Hr|]. split.
          -- intro k. hcase k i; [discriminate|]. intro Hk. eapply Hbusy; eauto. right. exact Hk.
          -- exists (outcome i). split.
             ++ intros k r Hk. hcase k i; [inversion Hk; reflexivity|]. exfalso. eapply Hnd; eauto.
             ++ destruct (outcome i); split; reflexivity.
        * exfalso. exact (Hnr i Hp).
  Qed.

  Lemma hreach_inv : forall s, hreach E outcome s -> hinv s.
  Proof.
    induction 1.
    - split; simpl.
      + intros i [H|H]; discriminate.
      + left. repeat split; auto; intros; discriminate.
    - eapply hstep_inv; eauto.
  Qed.

  (* every caller of Handshake that has returned got the same result, and handshakeFn ran at most once *)
  Theorem handshake_same_result : forall s, hreach E outcome s ->
    (forall i j r1 r2, h_pc E s i = HDone E r1 -> h_pc E s j = HDone E r2 -> r1 = r2)
    /\ h_runs E s <= 1.
  Proof.
    intros s Hr. destruct (hreach_inv s Hr) as [_ I3].
    destruct I3 as [(Hr0 & _ & _ & Hnd & _)|[(Hr1 & _ & _ & Hnd & _)|(Hr1 & _ & r0 & Hall & _)]].
    - split; [|lia]. intros i j r1 r2 H1 _. exfalso. eapply Hnd; eauto.
    - split; [|lia]. intros i j r1 r2 H1 _. exfalso. eapply Hnd; eauto.
    - split; [|lia]. intros i j r1 r2 H1 H2. rewrite (Hall i r1 H1), (Hall j r2 H2). reflexivity.
  Qed.
End HandshakeProofs.

(* ------------------------------------------------------------------ the Close interlock *)

Section CloseProofs.
  Definition cinv (s : cstate) : Prop :=
    (forall i, In i (c_inside s) <-> c_pc s i = CInside)
    /\ NoDup (c_inside s)
    /\ c_count s = List.length (c_inside s)
    /\ (c_closer s <> KStart -> c_closed s = true)
    /\ (c_closer s = KCleaning \/ c_closer s = KDone -> c_inside s = []).

  Lemma cupd_same : forall f i p, cupd f i p i = p.
  Proof. intros. unfold cupd. rewrite Nat.eqb_refl. reflexivity. Qed.

  Lemma cupd_other : forall f i p k, k <> i -> cupd f i p k = f k.
  Proof. intros. unfold cupd. destruct (Nat.eqb_spec k i); [contradiction|reflexivity]. Qed.

  Lemma filter_remove_len : forall l i, NoDup l -> In i l ->
    List.length (filter (fun k => negb (Nat.eqb k i)) l) = pred (List.length l).
  Proof.
    induction l as [|a l IH]; simpl; intros i Hn Hi; [contradiction|].
    inversion Hn; subst. destruct Hi as [->|Hi].
    - rewrite Nat.eqb_refl. simpl.
      assert (Hid : filter (fun k => negb (Nat.eqb k i)) l = l).
      { clear IH Hn H2. induction l as [|b l IHl]; simpl; [reflexivity|].
        destruct (Nat.eqb_spec b i) as [->|N]; simpl.
        - exfalso. apply H1. left. reflexivity.
        - f_equal. apply IHl. intro. apply H1. right. assumption. }
      rewrite Hid. reflexivity.
    - destruct (Nat.eqb_spec a i) as [->|N]; [contradiction|]. simpl. rewrite IH by assumption.
      destruct l; [contradiction|reflexivity].
  Qed.

  Lemma cstep_inv : forall s s', cinv s -> cstep s s' -> cinv s'.
  Proof.
    intros s s' (I1 & I2 & I3 & I4 & I5) St.
    destruct St as [i Hp Hc | i Hp Hc | i Hp | Hk | Hk Hz | Hk]; unfold cinv; simpl;
      (split; [|split; [|split; [|split]]]).
    - (* enter *)
      intro k. split.
      + intros [<-|Hin]; [apply cupd_same|]. destruct (Nat.eq_dec k i) as [->|N]; [apply cupd_same|].
        rewrite cupd_other by exact N. apply I1. exact Hin.
      + intro H. destruct (Nat.eq_dec k i) as [->|N]; [left; reflexivity|]. rewrite cupd_other in H by exact N.
        right. apply I1. exact H.
    - constructor; [|exact I2]. intro Hin. apply I1 in Hin. congruence.
    - rewrite I3. reflexivity.
    - exact I4.
    - assert (Hs : c_closer s = KStart).
      { destruct (c_closer s) eqn:K; auto; rewrite I4 in Hc; discriminate. }
      intros [H|H]; congruence.
    - (* refused *)
      intro k. split.
      + intro Hin. destruct (Nat.eq_dec k i) as [->|N].
        * apply I1 in Hin. congruence.
        * rewrite cupd_other by exact N. apply I1. exact Hin.
      + intro H. destruct (Nat.eq_dec k i) as [->|N]; [rewrite cupd_same in H; discriminate|].
        rewrite cupd_other in H by exact N. apply I1. exact H.
    - exact I2.
    - exact I3.
    - exact I4.
    - exact I5.
    - (* leave *)
      intro k. split.
      + intro H. apply filter_In in H. destruct H as [H1 H2]. destruct (Nat.eqb_spec k i) as [->|N]; [discriminate|].
        rewrite cupd_other by exact N. apply I1. exact H1.
      + intro H. destruct (Nat.eq_dec k i) as [->|N]; [rewrite cupd_same in H; discriminate|].
        rewrite cupd_other in H by exact N. apply filter_In. split; [apply I1; exact H|].
        destruct (Nat.eqb_spec k i); [contradiction|reflexivity].
    - apply NoDup_filter. exact I2.
    - rewrite I3. symmetry. apply filter_remove_len; [exact I2|]. apply I1. exact Hp.
    - exact I4.
    - intro H. assert (Hin : In i (c_inside s)) by (apply I1; exact Hp). rewrite (I5 H) in Hin. contradiction.
    - (* Close sets the bit *)
      exact I1.
    - exact I2.
    - exact I3.
    - reflexivity.
    - intros [H|H]; discriminate.
    - (* the wait ends *)
      exact I1.
    - exact I2.
    - exact I3.
    - intros _. apply I4. congruence.
    - intros _. rewrite I3 in Hz. destruct (c_inside s); [reflexivity|discriminate].
    - (* cleanup *)
      exact I1.
    - exact I2.
    - exact I3.
    - intros _. apply I4. congruence.
    - intros _. apply I5. left. exact Hk.
  Qed.

  Lemma creach_inv : forall s, creach s -> cinv s.
  Proof.
    induction 1.
    - unfold cinv. simpl. split; [|split; [|split; [|split]]].
      + intro i. split; [intros []|discriminate].
      + constructor.
      + reflexivity.
      + congruence.
      + intros [H|H]; discriminate.
    - eapply cstep_inv; eauto.
  Qed.

  (* while Close cleans up (and afterwards) no caller is inside, and none can enter any more *)
  Theorem close_interlock : forall s, creach s ->
    (c_closer s = KCleaning \/ c_closer s = KDone) ->
    (forall i, c_pc s i <> CInside) /\ c_closed s = true.
  Proof.
    intros s Hr Hk.
    destruct (creach_inv s Hr) as (I1 & _ & _ & I4 & I5). split.
    - intros i Hp. apply I1 in Hp. rewrite (I5 Hk) in Hp. contradiction.
    - apply I4. destruct Hk as [-> | ->]; discriminate.
  Qed.
End CloseProofs.

(* ------------------------------------------------------------------ concurrent readers *)

Section ReadProofs.
  Variable byte : Type.

  (* whatever the interleaving, the chunks handed to the readers, in the order they were
     handed out, followed by what is still undelivered, are the stream: nothing lost, nothing
     delivered twice, nothing reordered *)
  Theorem readers_partition : forall stream s, rreach byte stream s ->
    List.concat (map snd (r_log byte s)) ++ r_left byte s = stream.
  Proof.
    intros stream s H. induction H as [|s s' Hr IH St].
    - reflexivity.
    - destruct St as [i Hl | i pre rest Hl Hs | i Hl]; simpl.
      + exact IH.
      + rewrite map_app, concat_app. simpl. rewrite app_nil_r. rewrite <- app_assoc. rewrite <- Hs. exact IH.
      + exact IH.
  Qed.
End ReadProofs.
